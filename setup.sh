#!/bin/sh
# Builds the static checker from files on disk only (offline).
set -e
cd "$(dirname "$0")/checker"
export GOFLAGS=-mod=mod GOPROXY=off GOSUMDB=off GOTOOLCHAIN=local GOWORK=off
export PATH=/opt/veriftools/go1.26.8/bin:$PATH
mkdir -p ../bin
go build -o ../bin/verifcheck ./cmd/verifcheck
echo "built $(cd .. && pwd)/bin/verifcheck"
