#!/opt/veriftools/pyvenv/bin/python3
# Validates MANIFEST.json and every evidence file against the schemas (development aid, not a check).
import json, jsonschema, glob, sys
m = json.load(open('/verif/MANIFEST.json'))
jsonschema.validate(m, json.load(open('/root/.vp/MANIFEST.schema.json')))
es = json.load(open('/root/.vp/EVIDENCE.schema.json'))
bad = 0
for c in m['checks']:
    try:
        jsonschema.validate(json.load(open(c['evidence_file'])), es)
    except Exception as e:
        bad += 1
        print('BAD', c['evidence_file'], str(e)[:200])
ids = {c['property_id'] for c in m['checks']} | {n['property_id'] for n in m.get('not_applicable', [])}
want = {json.loads(l)['id'] for l in open('/verif/properties.jsonl')}
print('checks', len(m['checks']), 'na', len(m.get('not_applicable', [])), 'missing', sorted(want - ids), 'bad evidence', bad)
sys.exit(1 if bad or want - ids else 0)
