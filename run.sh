#!/bin/sh
# ./run.sh <ID> <quick|thorough>     run one property check against /repo's current working tree
# ./run.sh explain <replay.json>     re-run the rule of a recorded violation and print the diagnosis
# The checker is static: it type-checks /repo from source on every run; nothing is cached but Go's build cache.
here="$(cd "$(dirname "$0")" && pwd)"
export GOFLAGS=-mod=mod GOPROXY=off GOSUMDB=off GOTOOLCHAIN=local GOWORK=off
unset GOWORK_FILE
export PATH=/opt/veriftools/go1.26.8/bin:$PATH
export VERIF_DIR="${VERIF_DIR:-$here}"
if [ ! -x "$here/bin/verifcheck" ] || [ -n "$(find "$here/checker" -name '*.go' -newer "$here/bin/verifcheck" 2>/dev/null | head -1)" ]; then
  "$here/setup.sh" >&2 || { echo "VIOLATION property=${1:-unknown} replay=$here/evidence/violations/setup-failed.json"; exit 1; }
fi
case "$1" in
  explain) exec "$here/bin/verifcheck" explain "$2" ;;
  list|manifest) exec "$here/bin/verifcheck" "$1" ;;
  checkall) shift; exec "$here/bin/verifcheck" checkall "$@" ;;
  *) exec "$here/bin/verifcheck" check "$1" "${2:-${VERIF_TIER:-quick}}" ;;
esac
