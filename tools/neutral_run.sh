#!/bin/sh
# tools/neutral_run.sh <dir-with-n*/patch.diff>   runs every check on each behaviour-preserving patch; any alarm is a false alarm to triage
for d in "$1"/n*; do
  [ -f "$d/patch.diff" ] || continue
  res=$(MUT_LINES=12 MUT_WIDTH=330 /verif/tools/mut_all.sh "$d/patch.diff" 2>&1)
  echo "### $d: $(echo "$res" | head -1)"
  echo "$res" | tail -n +2
done
