#!/usr/bin/env python3
"""tools/confirm_seed.py <seed-dir> [...]

Confirms seeded changes independently, each in a scratch worktree of /repo's HEAD (removed afterwards):
  1. the demonstration test PASSES without the patch;
  2. the patch applies, the module builds (incl. test compile);
  3. the demonstration FAILS with the patch;
  4. every test of BASELINE.json's stable_pass list still passes with the patch (failing ones are
     re-run up to twice on their own to rule out load-induced flakes).
Writes <seed-dir>/confirm.log and records the verdict in <seed-dir>/meta.json ("confirmed").
Development aid only; never part of a registered check.
"""
import json, os, subprocess, sys, shutil, glob, re, time

ENV = dict(os.environ, GOFLAGS="-mod=mod", GOPROXY="off", GOSUMDB="off", GOTOOLCHAIN="local", GOWORK="off",
           PATH="/opt/veriftools/go1.26.8/bin:" + os.environ["PATH"])
STABLE = set(json.load(open("/root/.vp/BASELINE.json"))["stable_pass"])


def sh(cmd, cwd, log, timeout=3000):
    p = subprocess.run(cmd, cwd=cwd, env=ENV, shell=True, stdout=subprocess.PIPE, stderr=subprocess.STDOUT, text=True, timeout=timeout)
    log.write(f"$ {cmd}\n(exit {p.returncode})\n{p.stdout[-6000:]}\n")
    log.flush()
    return p.returncode, p.stdout


def failing_stable(out):
    bad = set()
    for line in out.splitlines():
        try:
            ev = json.loads(line)
        except Exception:
            continue
        if ev.get("Action") == "fail" and ev.get("Test"):
            k = f"{ev['Package']}::{ev['Test']}"
            if k in STABLE:
                bad.add(k)
        if ev.get("Action") == "fail" and not ev.get("Test"):
            bad.add(f"{ev['Package']}::<package>")
    return bad


def confirm(d):
    d = os.path.abspath(d)
    name = os.path.basename(d)
    meta = json.load(open(f"{d}/meta.json"))
    wt = f"/tmp/wt/confirm-{name}"
    subprocess.run(f"git -C /repo worktree remove --force {wt}", shell=True, capture_output=True)
    if subprocess.run(f"git -C /repo worktree add -q --detach {wt} HEAD", shell=True).returncode:
        return name, "worktree failed"
    res = {}
    try:
        with open(f"{d}/confirm.log", "w") as log:
            pkgdir, demo = meta["package_dir"], meta["demo_test"]
            demos = glob.glob(f"{d}/demo_*_test.go")
            for f in demos:
                shutil.copy(f, f"{wt}/{pkgdir}/")
            res["demo_without"], _ = sh(f"go test -vet=off -count=1 -run '^{demo}$' ./{pkgdir}", wt, log)
            rc, _ = sh(f"git apply {d}/patch.diff", wt, log)
            if rc:
                res["verdict"] = "PATCH DOES NOT APPLY"
                return name, res
            res["build"], _ = sh("go build ./... && go test -vet=off -count=1 -run '^$' ./...", wt, log)
            res["demo_with"], _ = sh(f"go test -vet=off -count=1 -run '^{demo}$' ./{pkgdir}", wt, log)
            for f in demos:
                os.remove(f"{wt}/{pkgdir}/{os.path.basename(f)}")
            rc, out = sh("go test -vet=off -count=1 -json -timeout 25m ./...", wt, log)
            bad = failing_stable(out)
            for attempt in range(2):
                if not bad:
                    break
                time.sleep(5)
                still = set()
                bypkg = {}
                for k in bad:
                    p, t = k.split("::")
                    bypkg.setdefault(p, set()).add(t)
                for p, ts in bypkg.items():
                    tests = [t.split("/")[0] for t in ts if t != "<package>"]
                    run = "-run '^(" + "|".join(sorted(set(re.escape(t) for t in tests))) + ")$'" if tests and "<package>" not in ts else ""
                    rel = "./" + p.replace("github.com/pion/webrtc/v4", "").lstrip("/")
                    rc, out = sh(f"go test -vet=off -count=1 -json -timeout 25m {run} {rel}", wt, log)
                    still |= failing_stable(out)
                bad = still
            res["suite_failing_stable"] = sorted(bad)
            ok = res["demo_without"] == 0 and res["build"] == 0 and res["demo_with"] != 0 and not bad
            res["verdict"] = "CONFIRMED" if ok else "REJECTED"
    finally:
        subprocess.run(f"git -C /repo worktree remove --force {wt}", shell=True, capture_output=True)
        subprocess.run(f"rm -rf {wt}", shell=True)
    res["repo_head"] = subprocess.run("git -C /repo rev-parse --short HEAD", shell=True, capture_output=True, text=True).stdout.strip()
    meta["confirmed"] = res
    json.dump(meta, open(f"{d}/meta.json", "w"), indent=1)
    return name, res


if __name__ == "__main__":
    for d in sys.argv[1:]:
        print(*confirm(d), flush=True)
