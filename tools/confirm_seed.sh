#!/bin/bash
# tools/confirm_seed.sh <seed-dir> <name>
# Confirms a seeded change independently, in a scratch worktree of /repo's HEAD (removed afterwards):
#  1. the patch applies and the module builds (incl. test compile);
#  2. the demonstration test PASSES without the patch and FAILS with it;
#  3. the existing suite passes with the patch applied.
# Writes <seed-dir>/confirm.log and prints a one-line verdict. Development aid only.
set -u
d="$(cd "$1" && pwd)"; name="$2"
export GOFLAGS=-mod=mod GOPROXY=off GOSUMDB=off GOTOOLCHAIN=local GOWORK=off PATH=/opt/veriftools/go1.26.8/bin:$PATH
wt=/tmp/wt/confirm-$name
log="$d/confirm.log"; : > "$log"
git -C /repo worktree add -q --detach "$wt" HEAD || exit 2
trap 'git -C /repo worktree remove --force "$wt" >/dev/null 2>&1' EXIT
pkgdir=$(python3 -c "import json;print(json.load(open('$d/meta.json'))['package_dir'])")
demo=$(python3 -c "import json;print(json.load(open('$d/meta.json'))['demo_test'])")
cp "$d"/demo_*_test.go "$wt/$pkgdir/" || exit 2
cd "$wt"
echo "## demo without patch" >> "$log"
go test -vet=off -count=1 -run "^${demo}\$" "./$pkgdir" >> "$log" 2>&1; base=$?
git apply "$d/patch.diff" >> "$log" 2>&1 || { echo "$name: PATCH DOES NOT APPLY"; exit 1; }
echo "## build with patch" >> "$log"
go build ./... >> "$log" 2>&1 && go test -vet=off -count=1 -run '^$' ./... >> "$log" 2>&1; build=$?
echo "## demo with patch" >> "$log"
go test -vet=off -count=1 -run "^${demo}\$" "./$pkgdir" >> "$log" 2>&1; mut=$?
rm -f "$wt/$pkgdir"/demo_*_test.go
echo "## suite with patch" >> "$log"
go test -vet=off -count=1 -timeout 25m ./... > "$d/suite.log" 2>&1; suite=$?
if [ $suite -ne 0 ]; then
  # one retry of failing packages (flaky timing tests under load)
  fails=$(grep -E "^(FAIL|---)" "$d/suite.log" | grep "^FAIL" | awk '{print $2}' | grep pion | sort -u)
  suite=0
  for p in $fails; do go test -vet=off -count=1 -timeout 25m "$p" >> "$d/suite.log" 2>&1 || suite=1; done
fi
grep -E "^(ok|FAIL|---)" "$d/suite.log" | grep -v "^ok" >> "$log"
echo "$name: demo-without=$base (want 0) build=$build (want 0) demo-with=$mut (want !=0) suite=$suite (want 0)" | tee -a "$log"
