#!/usr/bin/env python3
# Prints the prompt given to an independent sub-agent asked to seed a break of one property.
# The agent gets only the property text and its own scratch worktree (nothing from /verif).
import json, sys
pid = sys.argv[1]
n = sys.argv[2] if len(sys.argv) > 2 else "2"
p = next(json.loads(l) for l in open('/verif/properties.jsonl') if json.loads(l)['id'] == pid)
import glob, re
avoid = []
for d in sorted(glob.glob(f'/verif/seeded/{pid}-*/meta.json')):
    try:
        m = json.load(open(d))
        avoid.append("- " + re.sub(r"\s+", " ", m.get("what", ""))[:260])
    except Exception:
        pass
AVOID = ""
if avoid:
    AVOID = "\nALREADY COVERED by earlier contributors - produce mutants that break the property through DIFFERENT functions/mechanisms than these:\n" + "\n".join(avoid) + "\n"
print(f"""You are helping to evaluate verification tooling for the Go library pion/webrtc (module github.com/pion/webrtc/v4).
You have your own scratch git worktree of the library at /tmp/wt/{pid} (a detached checkout of the pinned commit). Work ONLY inside /tmp/wt/{pid} and /tmp/seeded-out/{pid}. Do NOT read or touch /verif or /repo, and do not look at any other directory under /tmp.

PROPERTY ({pid}): {p['title']}
{p['statement']}
(Quantifier: {p['quantifier']['text']})

TASK: produce {n} DIFFERENT, independent source changes ("mutants") to the library (non-test .go files only) such that each:
  1. BREAKS the property above (a real behavioural violation of the statement);
  2. still COMPILES, and the library's EXISTING test suite still PASSES unchanged (you must not edit or delete any existing test);
  3. is REALISTIC: the kind of slip a maintainer could make in a refactor or "small fix" (a dropped guard, a reordered statement, a changed constant, a condition widened/narrowed, a lock region split, one of two cooperating sites changed), small (a few lines);
  4. is SUBTLE: it needs something specific to manifest - a particular interleaving, a fault at a particular point, a multi-step sequence of API calls, an unusual input, or two cooperating sites that each look fine alone - NOT something ordinary use or the existing tests expose at once.
{AVOID}Prefer changing the code that is meant to make the property hold. Make the {n} mutants touch different mechanisms/sites if possible.

For each mutant k = 1..{n} write into /tmp/seeded-out/{pid}/m<k>/ :
  - patch.diff : output of `git -C /tmp/wt/{pid} diff` for that mutant alone (relative to the pinned commit; must apply with `git apply` at the repo root);
  - a demonstration: a NEW Go test file (name it demo_<something>_test.go, to be dropped into the package directory named in meta.json) that FAILS with the mutant applied and PASSES on the pinned commit. It may be an internal (same-package) test. Keep it deterministic if at all possible (for races/interleavings, force the schedule with hooks available in the code, channels, or repeated attempts with a clear bound);
  - meta.json : {{"property":"{pid}","package_dir":"<dir relative to repo root where the demo test goes>","demo_test":"<TestName>","what":"<one paragraph: what was changed and why it breaks the property>","needs":"<what specific input/sequence/interleaving is needed to manifest>","ran":["<commands you ran and their outcomes>"]}}

HOW TO BUILD/TEST in this sandbox (no network): in every shell call first run
  export GOFLAGS=-mod=mod GOPROXY=off GOSUMDB=off GOTOOLCHAIN=local GOWORK=off PATH=/opt/veriftools/go1.26.8/bin:$PATH
then e.g. `cd /tmp/wt/{pid} && go build ./... && go test -vet=off -count=1 -timeout 25m ./...` (the whole suite takes about 3-4 minutes; the root package dominates). You MUST verify for each mutant: (a) `go build ./...` and `go vet`-free compile of tests (`go test -vet=off -count=1 -run '^$' ./...`), (b) the full existing suite passes with the mutant applied (run it; if a test is flaky, re-run that package once to see whether the failure is related), (c) your demo test fails with the mutant and passes without it. NEVER use `git stash` (all scratch worktrees share one stash list with other people's work; a pop can hand you someone else's change): save your diff to a file with `git diff > file` and use `git checkout -- .` / `git apply file` instead. Only one mutant may be applied in the worktree at a time: after finishing each, save the diff, then `git -C /tmp/wt/{pid} checkout -- .` and remove your demo file from the worktree before starting the next.
When done, leave the worktree clean (no mutant applied, no stray files) and reply with a short summary listing, per mutant, the file/function changed and the evidence (suite passed, demo failed with / passed without). If you could not make a mutant satisfy all conditions, say so plainly rather than delivering a weaker one.""")
