#!/bin/bash
# tools/merge_builder.sh <group>   copy a builder's NEW files into /verif/checker (never overwrites an existing file), list edits to shared files
g=/tmp/vb/$1
for f in $(cd $g/checker && find . -name '*.go' | sort); do
  if [ ! -e /verif/checker/$f ]; then mkdir -p $(dirname /verif/checker/$f); cp $g/checker/$f /verif/checker/$f; echo "new  $f";
  elif ! cmp -s $g/checker/$f /verif/checker/$f; then echo "DIFF $f"; fi
done
[ -d $g/findings ] && for f in $(cd $g/findings && find . -type f | sort); do [ -e /verif/findings/$f ] || { mkdir -p $(dirname /verif/findings/$f); cp $g/findings/$f /verif/findings/$f; echo "finding $f"; }; done
[ -d $g/fixes ] && ls $g/fixes
diff <(sort /verif/known_findings.jsonl) <(sort $g/known_findings.jsonl) | grep '^>' | cut -c1-200
