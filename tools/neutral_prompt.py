#!/usr/bin/env python3
# Prints the prompt for an independent sub-agent asked for BEHAVIOUR-PRESERVING changes near a set of properties:
# tools/neutral_prompt.py <name> <ID> [<ID>...]
import json, sys
name = sys.argv[1]
ids = sys.argv[2:]
props = [json.loads(l) for l in open('/verif/properties.jsonl')]
sel = [p for p in props if p['id'] in ids]
txt = "\n".join(f"- {p['id']}: {p['title']}. {p['statement']}  (code: {', '.join(p['anchors']['files'])})" for p in sel)
print(f"""You are helping to evaluate verification tooling for the Go library pion/webrtc (module github.com/pion/webrtc/v4).
You have your own scratch git worktree of the library at /tmp/wt/{name}. Work ONLY inside /tmp/wt/{name} and /tmp/neutral-out/{name}. Do NOT read or touch /verif or /repo, and do not look at any other directory under /tmp.

The tooling under evaluation must stay SILENT on changes that do not alter behaviour. Your task is to produce realistic BEHAVIOUR-PRESERVING source changes (refactors) to the library code that implements the following properties - the kind of clean-up a maintainer does all the time - so that we can check the tooling does not raise false alarms:

{txt}

Produce {2*len(sel)} DIFFERENT patches (about two per property above), each touching the non-test .go code that is meant to make one of these properties hold, each a pure refactor with IDENTICAL observable behaviour. Vary the kind of refactor: rename local variables / parameters / unexported helper functions (and their call sites); extract a block into an unexported helper function or method; inline a small helper; replace an if/else-if chain by an equivalent switch or vice versa; invert a condition and swap the branches; reorder statements that are independent of each other; introduce a named local for a sub-expression or a named constant for a repeated literal; replace `for i := 0; i < n; i++` by an equivalent range form; add logging or comments; split a long function into two; replace an early-return guard by an equivalent nested if; move a declaration closer to its use. Do NOT change any behaviour, exported API, lock scope, evaluation order of calls with side effects, error values, or constants' values. Keep each patch small to medium (5-60 changed lines) and independent of the others.

For each patch k write /tmp/neutral-out/{name}/n<k>/patch.diff (output of `git -C /tmp/wt/{name} diff` for that patch alone, applying with `git apply` at the repo root of the pinned commit) and /tmp/neutral-out/{name}/n<k>/meta.json: {{"near_property":"<ID>","files":["..."],"kind":"<kind of refactor>","what":"<two sentences: what was changed and why behaviour is identical>"}}.

Build/test (no network): in every shell call first run
  export GOFLAGS=-mod=mod GOPROXY=off GOSUMDB=off GOTOOLCHAIN=local GOWORK=off PATH=/opt/veriftools/go1.26.8/bin:$PATH
For every patch you MUST verify `go build ./...` and `go vet ./<touched package>` succeed and the tests of the touched package(s) pass (`go test -vet=off -count=1 ./<pkg>`; for the root package this takes ~3 minutes, so you may run the root package's tests once for a batch of patches applied together, then save each patch separately). Only one patch should be in the worktree when you save its diff: after saving, `git -C /tmp/wt/{name} checkout -- .`. Leave the worktree clean at the end. Reply with a one-line summary per patch.""")
