#!/bin/sh
# tools/mut_all.sh <patch.diff> [tier]   apply a change to a scratch worktree of /repo's HEAD and run EVERY check against it
# (one load). Prints the properties that raise an alarm. Development aid only.
p="$1"; tier="${2:-quick}"
wt=/tmp/wt/mutall-$$; vd=/tmp/mutallv-$$
git -C /repo worktree add -q --detach $wt HEAD || exit 2
trap 'git -C /repo worktree remove --force $wt >/dev/null 2>&1; rm -rf $wt $vd' EXIT
git -C $wt apply "$p" || { echo "patch does not apply"; exit 2; }
mkdir -p $vd; cp /verif/known_findings.jsonl $vd/
VERIF_DIR=$vd VERIF_REPO=$wt /verif/run.sh checkall $tier > $vd/out 2> $vd/err; code=$?
fired=$(grep -E "^VIOLATION" $vd/out | sed 's/.*property=\([A-Z0-9]*\).*/\1/' | sort -u | tr '\n' ' ')
echo "exit=$code fired: ${fired:-none}"
grep -E "^(VIOLATED|UNDECIDED)" $vd/err | cut -c1-${MUT_WIDTH:-260} | head -${MUT_LINES:-6}
