#!/bin/sh
# tools/collect_seed.sh <PID>...  move delivered mutants from /tmp/seeded-out/<PID>/m<k> to /verif/seeded/<PID>-m<next free index> and drop the agent's worktree
for p in "$@"; do
  for d in /tmp/seeded-out/$p/m*; do
    [ -d "$d" ] || continue
    n=1; while [ -e "/verif/seeded/$p-m$n" ]; do n=$((n+1)); done
    dst=/verif/seeded/$p-m$n
    mkdir -p $dst && cp $d/* $dst/ && echo "collected $dst"
  done
  git -C /repo worktree remove --force /tmp/wt/$p 2>/dev/null; rm -rf /tmp/wt/$p /tmp/seeded-out/$p
done
