#!/bin/sh
# tools/mut.sh <patch.diff> <ID>...   apply a seeded change to /repo, run the named checks, undo it straight afterwards.
# Development aid only (never registered in MANIFEST.json).
p="$1"; shift
git -C /repo apply "$p" || { echo "patch does not apply"; exit 2; }
for id in "$@"; do
  out=$(/verif/run.sh "$id" quick 2>/tmp/mut.err); code=$?
  echo "== $id exit=$code"; echo "$out" | grep -E "^(VIOLATION|KNOWN-FINDING)" | cut -c1-220 | head -8
  grep -E "^(VIOLATED|UNDECIDED)" /tmp/mut.err | cut -c1-400 | head -8
done
git -C /repo checkout -- .
git -C /repo status --short | head
