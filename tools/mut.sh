#!/bin/sh
# tools/mut.sh <patch.diff> <ID>...   apply a seeded change to a scratch worktree of /repo's HEAD, run the named checks
# against it (VERIF_REPO), and remove the worktree. Evidence goes to a scratch VERIF_DIR so /verif/evidence is untouched.
# Development aid only (never registered in MANIFEST.json). MUT_TIER=thorough for the thorough tier.
p="$1"; shift
wt=/tmp/wt/mut-$$; vd=/tmp/mutv-$$
git -C /repo worktree add -q --detach $wt HEAD || exit 2
trap 'git -C /repo worktree remove --force $wt >/dev/null 2>&1; rm -rf $wt $vd' EXIT
git -C $wt apply "$p" || { echo "patch does not apply"; exit 2; }
mkdir -p $vd; cp /verif/known_findings.jsonl $vd/
for id in "$@"; do
  out=$(VERIF_DIR=$vd VERIF_REPO=$wt /verif/run.sh "$id" ${MUT_TIER:-quick} 2>$vd/err); code=$?
  echo "== $id exit=$code"; echo "$out" | grep -E "^(VIOLATION|KNOWN-FINDING)" | cut -c1-200 | head -3
  grep -E "^(VIOLATED|UNDECIDED)" $vd/err | cut -c1-400 | head -6
done
