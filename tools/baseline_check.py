#!/usr/bin/env python3
"""tools/baseline_check.py  — runs the repository's suite on a scratch worktree of /repo HEAD (guard off: there are no hooks)
and compares with /root/.vp/BASELINE.json stable_pass. Development aid."""
import json, os, subprocess, sys
ENV = dict(os.environ, GOFLAGS="-mod=mod", GOPROXY="off", GOSUMDB="off", GOTOOLCHAIN="local", GOWORK="off",
           PATH="/opt/veriftools/go1.26.8/bin:" + os.environ["PATH"])
stable = set(json.load(open("/root/.vp/BASELINE.json"))["stable_pass"])
wt = "/tmp/wt/baseline"
subprocess.run(f"git -C /repo worktree remove --force {wt}", shell=True, capture_output=True)
subprocess.run(f"git -C /repo worktree add -q --detach {wt} HEAD", shell=True, check=True)
try:
    p = subprocess.run("go test -vet=off -count=1 -json -timeout 25m ./...", cwd=wt, env=ENV, shell=True, capture_output=True, text=True)
    passed, failed = set(), set()
    for line in p.stdout.splitlines():
        try:
            ev = json.loads(line)
        except Exception:
            continue
        if ev.get("Test"):
            k = f"{ev['Package']}::{ev['Test']}"
            if ev.get("Action") == "pass":
                passed.add(k)
            if ev.get("Action") == "fail":
                failed.add(k)
    missing = sorted(stable - passed)
    print("HEAD", subprocess.run("git -C /repo rev-parse --short HEAD", shell=True, capture_output=True, text=True).stdout.strip())
    print("stable_pass", len(stable), "passed-of-stable", len(stable & passed), "failed", sorted(failed)[:20], "missing", missing[:20])
    sys.exit(1 if missing else 0)
finally:
    subprocess.run(f"git -C /repo worktree remove --force {wt}", shell=True, capture_output=True)
