// Command verifcheck is the static checker for the pion/webrtc properties.
//
//	verifcheck check <ID> <quick|thorough>
//	verifcheck explain <replay.json>
//	verifcheck list
//	verifcheck manifest
package main

import (
	"encoding/json"
	"fmt"
	"os"
	"path/filepath"
	"runtime/debug"
	"runtime/pprof"
	"strconv"
	"time"

	"verif/checker/core"
	"verif/checker/props"
)

func verifDir() string {
	if d := os.Getenv("VERIF_DIR"); d != "" {
		return d
	}
	return "/verif"
}

func main() {
	if len(os.Args) < 2 {
		fmt.Fprintln(os.Stderr, "usage: verifcheck check <ID> <tier> | explain <file> | list | manifest")
		os.Exit(2)
	}
	switch os.Args[1] {
	case "list":
		for _, id := range props.IDs() {
			fmt.Println(id)
		}
	case "manifest":
		writeManifest()
	case "check":
		if len(os.Args) < 3 {
			os.Exit(2)
		}
		tier := "quick"
		if len(os.Args) > 3 {
			tier = os.Args[3]
		}
		if t := os.Getenv("VERIF_TIER"); t != "" && len(os.Args) <= 3 {
			tier = t
		}
		os.Exit(runCheck(os.Args[2], tier))
	case "checkall":
		// development aid: one load, every property (not registered in MANIFEST.json)
		tier := "quick"
		if len(os.Args) > 2 {
			tier = os.Args[2]
		}
		os.Exit(runAll(tier, os.Args[3:]))
	case "explain":
		if len(os.Args) < 3 {
			os.Exit(2)
		}
		os.Exit(explain(os.Args[2]))
	default:
		fmt.Fprintln(os.Stderr, "unknown command", os.Args[1])
		os.Exit(2)
	}
}

func infraFail(id, tier string, seed int64, what string) int {
	r := core.NewReport(id, tier, seed, verifDir())
	r.Rule(id+".infra", "the checker must be able to load, type-check and analyse /repo; any failure to do so fails closed", 0)
	r.Fail(id+".infra", "infrastructure", "-", what)
	return r.Finish(core.RepoDir())
}

func runCheck(id, tier string) (code int) {
	seed, _ := strconv.ParseInt(os.Getenv("VERIF_SEED"), 10, 64)
	if tier != "quick" && tier != "thorough" {
		tier = "quick"
	}
	p := props.All[id]
	if p == nil {
		fmt.Fprintln(os.Stderr, "unknown or unclaimed property", id)
		return 2
	}
	defer func() {
		if e := recover(); e != nil {
			code = infraFail(id, tier, seed, fmt.Sprintf("checker panic: %v\n%s", e, debug.Stack()))
		}
	}()
	t0 := time.Now()
	if pf := os.Getenv("VERIF_PPROF"); pf != "" {
		if f, err := os.Create(pf); err == nil {
			_ = pprof.StartCPUProfile(f)
			defer pprof.StopCPUProfile()
		}
	}
	repo := core.RepoDir()
	prog, err := core.Load(repo, "")
	if err != nil {
		return infraFail(id, tier, seed, err.Error())
	}
	r := core.NewReport(id, tier, seed, verifDir())
	r.Start = t0
	r.PkgCount = len(prog.Pkgs)
	r.Configs = []string{"linux/amd64"}
	r.CheckerCmd = fmt.Sprintf("./run.sh %s %s", id, tier)
	r.Assumptions = append(r.Assumptions,
		"the Go type checker (go/types via go/packages) and go/cfg / go/ssa construction are correct",
		"files excluded by build constraints on linux/amd64 (*_js.go, wasm) are not analysed")
	ctx := &props.Ctx{P: prog, R: r, Thorough: tier == "thorough"}
	var p386 *core.Program
	ctx.Load386 = func() (*core.Program, error) {
		if p386 == nil {
			var err error
			p386, err = core.Load(repo, "386")
			if err != nil {
				return nil, err
			}
			r.Configs = append(r.Configs, "linux/386")
		}
		return p386, nil
	}
	p.Run(ctx)
	if tier == "thorough" && os.Getenv("VERIF_NO386") == "" && !p.Own386 {
		// build-config matrix: the same rules on linux/386 (int width, build-tagged files); obligations are merged with a config suffix
		if q, err := ctx.Load386(); err != nil {
			r.Fail(id+".infra", "load:linux/386", "-", err.Error())
		} else {
			r2 := core.NewReport(id, tier, seed, verifDir())
			ctx2 := &props.Ctx{P: q, R: r2, Thorough: true, Load386: ctx.Load386}
			p.Run(ctx2)
			r.Merge(r2, core.Suffix386)
		}
	}
	return r.Finish(repo)
}

// runAll runs every registered property (or the listed ones) on one load of the repository.
func runAll(tier string, only []string) (code int) {
	seed, _ := strconv.ParseInt(os.Getenv("VERIF_SEED"), 10, 64)
	repo := core.RepoDir()
	prog, err := core.Load(repo, "")
	if err != nil {
		fmt.Fprintln(os.Stderr, "load:", err)
		return 1
	}
	want := map[string]bool{}
	for _, id := range only {
		want[id] = true
	}
	var p386 *core.Program
	for _, id := range props.IDs() {
		if len(want) > 0 && !want[id] {
			continue
		}
		func() {
			defer func() {
				if e := recover(); e != nil {
					fmt.Printf("VIOLATION property=%s replay=panic\n", id)
					fmt.Fprintf(os.Stderr, "%s: checker panic: %v\n%s\n", id, e, debug.Stack())
					code = 1
				}
			}()
			r := core.NewReport(id, tier, seed, verifDir())
			r.PkgCount = len(prog.Pkgs)
			r.Configs = []string{"linux/amd64"}
			r.CheckerCmd = fmt.Sprintf("./run.sh %s %s", id, tier)
			ctx := &props.Ctx{P: prog, R: r, Thorough: tier == "thorough"}
			ctx.Load386 = func() (*core.Program, error) {
				if p386 == nil {
					var err error
					p386, err = core.Load(repo, "386")
					if err != nil {
						return nil, err
					}
				}
				return p386, nil
			}
			props.All[id].Run(ctx)
			if r.Finish(repo) != 0 {
				code = 1
			}
		}()
	}
	return code
}

func explain(path string) int {
	b, err := os.ReadFile(path)
	if err != nil {
		fmt.Fprintln(os.Stderr, err)
		return 2
	}
	var rp core.Replay
	if err := json.Unmarshal(b, &rp); err != nil {
		fmt.Fprintln(os.Stderr, err)
		return 2
	}
	fmt.Printf("replaying %s | %s on the current tree (%s)\n", rp.Rule, rp.Key, core.RepoDir())
	fmt.Printf("rule: %s\nrecorded: %s at %s: %s\n", rp.RuleText, rp.Verdict, rp.Pos, rp.Detail)
	// Re-run the property into a scratch verif dir and show the matching obligation.
	tmp, _ := os.MkdirTemp("", "verif-explain")
	defer os.RemoveAll(tmp)
	if b, err := os.ReadFile(filepath.Join(verifDir(), "known_findings.jsonl")); err == nil {
		_ = os.WriteFile(filepath.Join(tmp, "known_findings.jsonl"), b, 0o644)
	}
	os.Setenv("VERIF_DIR", tmp)
	code := runCheck(rp.Property, rp.Tier)
	ev, _ := os.ReadFile(filepath.Join(tmp, "evidence", rp.Property+".json"))
	var doc struct {
		Coverage struct {
			Samples []core.Ob `json:"samples"`
		} `json:"coverage"`
	}
	_ = json.Unmarshal(ev, &doc)
	found := false
	for _, o := range doc.Coverage.Samples {
		if o.Rule == rp.Rule && o.Key == rp.Key {
			fmt.Printf("now: %s at %s: %s\n", o.Status, o.Pos, o.Detail)
			found = true
		}
	}
	if !found {
		fmt.Println("now: the obligation is no longer failing on the current tree")
	}
	return code
}
