package main

import (
	"encoding/json"
	"fmt"
	"os"
	"sort"

	"verif/checker/props"
)

func writeManifest() {
	type level struct {
		Category  string `json:"category"`
		Text      string `json:"text"`
		DesignRef string `json:"design_ref,omitempty"`
	}
	type check struct {
		PropertyID  string `json:"property_id"`
		QuickCmd    string `json:"quick_cmd"`
		ThoroughCmd string `json:"thorough_cmd"`
		Evidence    string `json:"evidence_file"`
		Replay      string `json:"replay_cmd_template"`
		Engine      string `json:"engine"`
		Level       level  `json:"level_claimed"`
		LevelNote   string `json:"level_note"`
		Technique   string `json:"technique"`
	}
	type na struct {
		PropertyID string `json:"property_id"`
		Reason     string `json:"reason"`
	}
	var checks []check
	for _, id := range props.IDs() {
		p := props.All[id]
		checks = append(checks, check{
			PropertyID: id, QuickCmd: "./run.sh " + id + " quick", ThoroughCmd: "./run.sh " + id + " thorough",
			Evidence: "/verif/evidence/" + id + ".json", Replay: "./run.sh explain {path}", Engine: p.Engine,
			Level: level{Category: "other", Text: p.LevelText, DesignRef: p.DesignRef}, LevelNote: p.LevelNote, Technique: p.Technique,
		})
	}
	nas := []na{}
	for id, reason := range props.NA {
		if props.All[id] == nil {
			nas = append(nas, na{id, reason})
		}
	}
	sort.Slice(nas, func(i, j int) bool { return nas[i].PropertyID < nas[j].PropertyID })
	m := map[string]any{
		"version":   1,
		"setup_cmd": "./setup.sh",
		"hooks": map[string]any{
			"guard":            "verif",
			"enable":           "none: static analysis reads /repo's sources; no instrumentation is compiled in and no build tag is needed",
			"baseline_off_cmd": "cd /repo && go test -vet=off -count=1 -timeout 25m ./...",
			"source_commits":   []string{},
			"add_only":         true,
		},
		"engines": []map[string]any{
			{"name": "verifcheck", "path": "/verif/checker", "kind_free_text": "repository-specific static analyser (go/packages + go/types + go/cfg + go/ssa): path rules, finite decision tables by abstract interpretation, lockset/atomicity rules, writer/reader table agreement, bounds ledgers", "serves_properties": props.IDs()},
		},
		"checks":         checks,
		"not_applicable": nas,
		"notes":          "All checks are static: they type-check /repo's current working tree on every run and never execute pion/webrtc code. See DESIGN.md.",
	}
	b, _ := json.MarshalIndent(m, "", " ")
	fmt.Println(string(b))
	_ = os.Stdout.Sync()
}
