// Command layoutdump prints the layout entries (with origins/sinks) of functions: layoutdump <rel-pkg> <func>...
package main

import (
	"fmt"
	"os"

	"verif/checker/core"
)

func main() {
	p, err := core.Load(core.RepoDir(), "")
	if err != nil {
		fmt.Println(err)
		os.Exit(1)
	}
	l := core.NewLayout(p)
	for _, name := range os.Args[2:] {
		fi := p.Func(os.Args[1], name)
		if fi == nil {
			fmt.Println("no such function", name)
			continue
		}
		fmt.Println("==", fi.Name())
		es, un := l.Entries(fi)
		for _, e := range es {
			fmt.Printf("  %-28s buf=%v %s\n", e.String(), e.BufObj, p.Pos(e.Pos))
			if e.Write {
				fmt.Printf("      origins=%v const=%v\n", l.Origins(fi, e.Val), e.Const)
			} else {
				fmt.Printf("      sinks=%v\n", l.Sinks(fi, e.Val))
			}
		}
		for _, u := range un {
			fmt.Println("  unrecognised:", u.What, p.Pos(u.Call.Pos()))
		}
	}
}
