// Package absint is engine E1: a finite-domain abstract interpreter over the
// node-level CFG (go/cfg) and the type-checked AST. For every valuation of a
// declared tuple of finite-domain "dimensions" it computes the may-set of
// outcomes (results + effect trace) of a function. No code of the analysed
// program runs: values are constants of the declared domains, nil/non-nil
// facts, symbolic references with identity only, or Top (unknown). A branch
// on Top explores both arms; anything outside the supported fragment is
// reported so the caller can fail closed (UNDECIDED).
package absint

import (
	"fmt"
	"go/constant"
	"go/token"
	"go/types"
	"sort"
	"strings"
)

// Val is an abstract value.
type Val interface{ String() string }

// Top is the unknown value.
type Top struct{}

// Const is a known constant. Dim names the dimension it was drawn from (if any).
type Const struct {
	V   constant.Value
	T   types.Type
	Dim string
}

// Nil is the nil pointer/interface/slice/map/func.
type Nil struct{}

// NonNil is a value known to be non-nil (address of a composite literal, an error value...). Desc says what.
type NonNil struct{ Desc string }

// Ref is an unknown value with a known identity: the access path it was loaded from.
type Ref struct {
	Path      string
	T         types.Type
	NonNilRef bool // known to be non-nil
}

// Tuple is a multi-value.
type Tuple []Val

// SliceVal is a slice/array with known elements.
type SliceVal struct{ Elems []Val }

// StructVal is a struct value with known fields (composite literal).
type StructVal struct {
	T      types.Type
	Fields map[string]Val
}

func (Top) String() string { return "⊤" }
func (c Const) String() string {
	if n, ok := c.T.(*types.Named); ok {
		if name := constName(n, c.V); name != "" {
			return name
		}
	}
	return c.V.ExactString()
}
func (Nil) String() string      { return "nil" }
func (n NonNil) String() string { return "nonnil(" + n.Desc + ")" }
func (r Ref) String() string    { return "ref(" + r.Path + ")" }
func (t Tuple) String() string {
	var s []string
	for _, v := range t {
		s = append(s, v.String())
	}
	return "(" + strings.Join(s, ", ") + ")"
}
func (s SliceVal) String() string {
	var e []string
	for _, v := range s.Elems {
		e = append(e, v.String())
	}
	return "[" + strings.Join(e, " ") + "]"
}
func (s StructVal) String() string {
	var keys []string
	for k := range s.Fields {
		keys = append(keys, k)
	}
	sort.Strings(keys)
	var e []string
	for _, k := range keys {
		e = append(e, k+":"+s.Fields[k].String())
	}
	return "{" + strings.Join(e, " ") + "}"
}

// constName finds the declared constant of named type n with value v (first in scope order).
var constNameCache = map[*types.Named]map[string]string{}

func constName(n *types.Named, v constant.Value) string {
	m := constNameCache[n]
	if m == nil {
		m = map[string]string{}
		constNameCache[n] = m
	}
	k := v.ExactString()
	if s, ok := m[k]; ok {
		return s
	}
	s := constNameSlow(n, v)
	m[k] = s
	return s
}

func constNameSlow(n *types.Named, v constant.Value) string {
	pkg := n.Obj().Pkg()
	if pkg == nil {
		return ""
	}
	best := ""
	var bestPos = int(^uint(0) >> 1)
	sc := pkg.Scope()
	for _, nm := range sc.Names() {
		c, ok := sc.Lookup(nm).(*types.Const)
		if !ok || !types.Identical(c.Type(), n) {
			continue
		}
		if constant.Compare(c.Val(), token.EQL, v) && int(c.Pos()) < bestPos {
			best, bestPos = nm, int(c.Pos())
		}
	}
	return best
}

// BoolVal makes a boolean constant.
func BoolVal(b bool) Const { return Const{V: constant.MakeBool(b), T: types.Typ[types.Bool]} }

// IntVal makes an int constant of type t.
func IntVal(i int64, t types.Type) Const { return Const{V: constant.MakeInt64(i), T: t} }

// StrVal makes a string constant.
func StrVal(s string) Const { return Const{V: constant.MakeString(s), T: types.Typ[types.String]} }

// ConstOf wraps a declared constant.
func ConstOf(c *types.Const) Const { return Const{V: c.Val(), T: c.Type()} }

// IsTrue / IsFalse test for boolean constants.
func IsTrue(v Val) bool {
	c, ok := v.(Const)
	return ok && c.V.Kind() == constant.Bool && constant.BoolVal(c.V)
}
func IsFalse(v Val) bool {
	c, ok := v.(Const)
	return ok && c.V.Kind() == constant.Bool && !constant.BoolVal(c.V)
}

// Dim is one finite-domain input dimension, addressed by a canonical access
// path: "$recv", "$p0", "$recv.isClosed.Load()", "len($p0)", "$p0[0]",
// or any key a stub chooses to read through Interp.Dim.
type Dim struct {
	Key    string
	Domain []Val
}

// Outcome is one way the function can end for a given valuation.
type Outcome struct {
	Results []Val
	Trace   []string
	Panic   string // non-empty: ends in a panic (explicit panic or provable out-of-range index)
}

func (o Outcome) String() string {
	s := Tuple(o.Results).String()
	if o.Panic != "" {
		s = "PANIC(" + o.Panic + ")"
	}
	if len(o.Trace) > 0 {
		s += " after [" + strings.Join(o.Trace, "; ") + "]"
	}
	return s
}

// Row is the may-set of outcomes for one valuation.
type Row struct {
	Valuation map[string]Val
	Outcomes  []Outcome
}

// Get returns the valuation of a dimension as a string.
func (r Row) Get(key string) string {
	if v, ok := r.Valuation[key]; ok {
		return v.String()
	}
	return "?"
}

// Table is the result of tabulating a function.
type Table struct {
	Rows      []Row
	Problems  []string            // unsupported constructs met (caller must fail closed)
	DimConsts map[string][]int64  // integer constants each dimension value was compared against
	DimEscape map[string][]string // uses of a dimension value other than comparison with a constant
	Paths     int
}

func valuationKey(dims []Dim, m map[string]Val) string {
	var s []string
	for _, d := range dims {
		s = append(s, d.Key+"="+m[d.Key].String())
	}
	return strings.Join(s, ",")
}

// Describe renders a valuation in dimension order.
func Describe(dims []Dim, m map[string]Val) string { return valuationKey(dims, m) }

var _ = fmt.Sprintf
