package absint

import (
	"fmt"
	"go/ast"
	"go/constant"
	"go/token"
	"go/types"
	"strings"

	"verif/checker/core"
)

func (in *Interp) evalCall(g *core.Graph, call *ast.CallExpr, st *State) []vs {
	fun := ast.Unparen(call.Fun)
	// conversion
	if tv, ok := g.Info.Types[fun]; ok && tv.IsType() {
		var out []vs
		if len(call.Args) != 1 {
			return []vs{{Top{}, st}}
		}
		for _, a := range in.evalExpr(g, call.Args[0], st) {
			out = append(out, vs{convert(a.v, tv.Type), a.st})
		}
		return out
	}
	// builtin
	if id, ok := fun.(*ast.Ident); ok {
		if b, ok := g.Info.Uses[id].(*types.Builtin); ok {
			return in.evalBuiltin(g, b.Name(), call, st)
		}
	}
	// immediately invoked literal
	if fl, ok := fun.(*ast.FuncLit); ok {
		var out []vs
		for _, a := range in.evalList(g, call.Args, st) {
			out = append(out, in.callLit(g, fl, a.vals, a.st)...)
		}
		return out
	}
	callee := core.Callee(g.Info, call)
	sig, _ := g.Info.TypeOf(fun).(*types.Signature)
	topRes := func() Val {
		if sig != nil {
			return topFor(sig.Results())
		}
		return Top{}
	}
	if callee == nil {
		// call through a function value
		var out []vs
		for _, f := range in.evalExpr(g, fun, st) {
			for _, a := range in.evalList(g, call.Args, f.st) {
				if fv, ok := f.v.(funcVal); ok {
					if fv.lit != nil {
						out = append(out, in.callLit(g, fv.lit, a.vals, a.st)...)
						continue
					}
				}
				s2 := a.st
				if in.cfg.WatchDyn != nil {
					if label := in.cfg.WatchDyn(g.Info, call); label != "" {
						s2 = s2.clone()
						s2.Emit(label + argsString(a.vals))
					}
				}
				out = append(out, vs{topRes(), s2})
			}
		}
		return out
	}
	// receiver
	var recvExpr ast.Expr
	if sel, ok := fun.(*ast.SelectorExpr); ok {
		if s := g.Info.Selections[sel]; s != nil && s.Kind() == types.MethodVal {
			recvExpr = sel.X
		}
	}
	var out []vs
	recvs := []vs{{nil, st}}
	if recvExpr != nil {
		recvs = in.evalExpr(g, recvExpr, st)
	}
	for _, rv := range recvs {
		for _, a := range in.evalList(g, call.Args, rv.st) {
			out = append(out, in.invoke(g, call, callee, rv.v, recvExpr != nil, a.vals, a.st, topRes)...)
		}
	}
	return out
}

func argsString(vals []Val) string {
	var s []string
	for _, v := range vals {
		s = append(s, v.String())
	}
	return "(" + strings.Join(s, ", ") + ")"
}

func (in *Interp) invoke(g *core.Graph, call *ast.CallExpr, callee *types.Func, recv Val, hasRecv bool, args []Val, st *State, topRes func() Val) []vs {
	// rule stub
	if in.cfg.OnCall != nil {
		s2 := st.clone()
		if v, ok := in.cfg.OnCall(in, s2, call, callee, recv, args); ok {
			return []vs{{v, s2}}
		}
	}
	pkgPath := ""
	if callee.Pkg() != nil {
		pkgPath = callee.Pkg().Path()
	}
	// sync/atomic modelled on the access path of the cell
	if pkgPath == "sync/atomic" {
		if v, s2, ok := in.atomicOp(callee, recv, hasRecv, args, st); ok {
			return []vs{{v, s2}}
		}
	}
	// accessor dimension: recv path + ".Name()" with no arguments
	if hasRecv && len(args) == 0 {
		if r, ok := recv.(Ref); ok {
			key := r.Path + "." + callee.Name() + "()"
			if v, ok := st.store[key]; ok {
				return []vs{{v, st}}
			}
			if v, ok := st.dims[key]; ok {
				return []vs{{v, st}}
			}
		}
	}
	s2 := st
	if in.cfg.WatchCall != nil {
		if label := in.cfg.WatchCall(callee, call); label != "" {
			s2 = st.clone()
			s2.Emit(label + argsString(args))
		}
	}
	// known constructors of non-nil errors
	switch pkgPath + "." + callee.Name() {
	case "fmt.Errorf", "errors.New":
		return []vs{{NonNil{Desc: "error"}, s2}}
	}
	// inline
	if fi := in.cfg.P.DeclOf(callee); fi != nil && fi.Decl.Body != nil && in.cfg.Inline != nil && in.cfg.Inline(callee) {
		if len(in.stack) >= in.cfg.MaxDepth {
			in.problem("inlining depth exceeded at %s", core.FuncName(callee))
		} else if in.onStack(callee) {
			in.problem("recursion at %s", core.FuncName(callee))
		} else {
			return in.callDecl(fi, recv, hasRecv, args, s2)
		}
	}
	// not interpreted: dimension-tagged arguments escape; same-module callees may write tracked paths
	for _, a := range args {
		if c, ok := a.(Const); ok {
			in.noteEscape(c, "argument of "+core.FuncName(callee))
		}
	}
	if strings.HasPrefix(pkgPath, core.ModPath) && !(in.cfg.Pure != nil && in.cfg.Pure(callee)) {
		s2 = havoc(s2)
	}
	return []vs{{topRes(), s2}}
}

func havoc(st *State) *State {
	s := st.clone()
	for k := range s.store {
		if _, ok := k.(string); ok {
			s.store[k] = Top{}
		}
	}
	return s
}

func (in *Interp) onStack(fn *types.Func) bool {
	for _, f := range in.stack {
		if f != nil && f == fn {
			return true
		}
	}
	return false
}

func (in *Interp) callDecl(fi *core.FuncInfo, recv Val, hasRecv bool, args []Val, st *State) []vs {
	g := in.cfg.P.GraphOf(fi)
	sig := fi.Obj.Type().(*types.Signature)
	s := st.clone()
	if sig.Recv() != nil && hasRecv {
		s.store[sig.Recv()] = recv
	}
	for i := 0; i < sig.Params().Len(); i++ {
		p := sig.Params().At(i)
		switch {
		case sig.Variadic() && i == sig.Params().Len()-1:
			s.store[p] = Top{}
		case i < len(args):
			s.store[p] = args[i]
		default:
			s.store[p] = Top{}
		}
	}
	in.stack = append(in.stack, fi.Obj)
	exits := in.runGraph(g, s, sig)
	in.stack = in.stack[:len(in.stack)-1]
	return exitsToVS(exits, sig)
}

func exitsToVS(exits []exit, sig *types.Signature) []vs {
	var out []vs
	for _, e := range exits {
		if e.panic != "" {
			out = append(out, vs{panicVal(e.panic), e.st})
			continue
		}
		n := 0
		if sig != nil {
			n = sig.Results().Len()
		}
		switch n {
		case 0:
			out = append(out, vs{Tuple{}, e.st})
		case 1:
			if len(e.results) == 1 {
				out = append(out, vs{e.results[0], e.st})
			} else {
				out = append(out, vs{Top{}, e.st})
			}
		default:
			if len(e.results) == n {
				out = append(out, vs{Tuple(e.results), e.st})
			} else {
				out = append(out, vs{topFor(sig.Results()), e.st})
			}
		}
	}
	return out
}

func (in *Interp) callLit(g *core.Graph, fl *ast.FuncLit, args []Val, st *State) []vs {
	lg := in.cfg.P.GraphOfLit(fl)
	if lg == nil {
		in.problem("function literal without graph in %s", g.Owner.Name())
		return []vs{{Top{}, st}}
	}
	sig := lg.Sig()
	s := st.clone()
	if sig != nil {
		for i := 0; i < sig.Params().Len() && i < len(args); i++ {
			s.store[sig.Params().At(i)] = args[i]
		}
	}
	if len(in.stack) >= in.cfg.MaxDepth+4 {
		in.problem("literal nesting too deep in %s", g.Owner.Name())
		return []vs{{Top{}, st}}
	}
	in.stack = append(in.stack, nil)
	exits := in.runGraph(lg, s, sig)
	in.stack = in.stack[:len(in.stack)-1]
	return exitsToVS(exits, sig)
}

// atomicOp models sync/atomic typed values and functions on the cell's access path.
func (in *Interp) atomicOp(callee *types.Func, recv Val, hasRecv bool, args []Val, st *State) (Val, *State, bool) {
	var cell Ref
	var rest []Val
	name := callee.Name()
	if hasRecv {
		r, ok := recv.(Ref)
		if !ok {
			return nil, nil, false
		}
		cell, rest = r, args
	} else {
		if len(args) == 0 {
			return nil, nil, false
		}
		r, ok := args[0].(Ref)
		if !ok {
			return nil, nil, false
		}
		cell, rest = r, args[1:]
		for _, p := range []string{"Load", "Store", "Swap", "CompareAndSwap", "Add", "And", "Or"} {
			if strings.HasPrefix(name, p) {
				name = p
				break
			}
		}
	}
	key := cell.Path + ".Load()"
	cur := func() Val {
		if v, ok := st.store[key]; ok {
			return v
		}
		if v, ok := st.dims[key]; ok {
			return v
		}
		return Top{}
	}
	set := func(v Val) *State {
		s := st.clone()
		s.store[key] = v
		if in.cfg.WatchStore != nil && in.cfg.WatchStore(key) {
			s.Emit(cell.Path + ".Store(" + v.String() + ")")
		}
		return s
	}
	switch name {
	case "Load":
		return cur(), st, true
	case "Store":
		if len(rest) == 1 {
			return Tuple{}, set(rest[0]), true
		}
	case "Swap":
		if len(rest) == 1 {
			old := cur()
			return old, set(rest[0]), true
		}
	case "CompareAndSwap":
		if len(rest) == 2 {
			c := cur()
			eq := in.compare(token.EQL, c, rest[0])
			switch {
			case IsTrue(eq):
				return BoolVal(true), set(rest[1]), true
			case IsFalse(eq):
				return BoolVal(false), st, true
			}
			return Top{}, set(Top{}), true
		}
	case "Add", "And", "Or":
		return Top{}, set(Top{}), true
	}
	return nil, nil, false
}

func (in *Interp) evalBuiltin(g *core.Graph, name string, call *ast.CallExpr, st *State) []vs {
	var out []vs
	switch name {
	case "len", "cap":
		for _, a := range in.evalExpr(g, call.Args[0], st) {
			var v Val = Top{}
			switch x := a.v.(type) {
			case SliceVal:
				v = IntVal(int64(len(x.Elems)), types.Typ[types.Int])
			case Const:
				if x.V.Kind() == constant.String {
					v = IntVal(int64(len(constant.StringVal(x.V))), types.Typ[types.Int])
				}
			case Nil:
				v = IntVal(0, types.Typ[types.Int])
			case Ref:
				key := name + "(" + x.Path + ")"
				if w, ok := a.st.store[key]; ok {
					v = w
				} else if w, ok := a.st.dims[key]; ok {
					v = w
				}
			}
			out = append(out, vs{v, a.st})
		}
		return out
	case "panic":
		for _, a := range in.evalList(g, call.Args, st) {
			out = append(out, vs{panicVal("explicit panic"), a.st})
		}
		return out
	case "append":
		for _, a := range in.evalList(g, call.Args, st) {
			var v Val = Top{}
			if call.Ellipsis == 0 {
				switch b := a.vals[0].(type) {
				case SliceVal:
					if len(b.Elems)+len(a.vals)-1 <= 16 {
						v = SliceVal{Elems: append(append([]Val{}, b.Elems...), a.vals[1:]...)}
					}
				case Nil:
					// appending unknown values to a nil slice builds an unknown slice (keeps loop states finite)
					known := true
					for _, e := range a.vals[1:] {
						if _, ok := e.(Const); !ok {
							known = false
						}
					}
					if known {
						v = SliceVal{Elems: append([]Val{}, a.vals[1:]...)}
					}
				}
			}
			out = append(out, vs{v, a.st})
		}
		return out
	case "new", "make":
		if name == "new" {
			return []vs{{NonNil{Desc: "new"}, st}}
		}
		// arguments after the type
		for _, a := range in.evalList(g, call.Args[1:], st) {
			out = append(out, vs{Top{}, a.st})
		}
		return out
	default:
		for _, a := range in.evalList(g, call.Args, st) {
			s2 := a.st
			if in.cfg.WatchBuiltin != nil {
				var paths []string
				for _, v := range a.vals {
					if r, ok := v.(Ref); ok {
						paths = append(paths, r.Path)
					} else {
						paths = append(paths, v.String())
					}
				}
				if label := in.cfg.WatchBuiltin(name, paths); label != "" {
					s2 = s2.clone()
					s2.Emit(label)
				}
			}
			out = append(out, vs{Top{}, s2})
		}
		if len(call.Args) == 0 {
			out = []vs{{Top{}, st}}
		}
		return out
	}
}

func convert(v Val, t types.Type) Val {
	switch x := v.(type) {
	case Const:
		b, ok := t.Underlying().(*types.Basic)
		if !ok {
			// []byte(s) of a known string keeps the text (the value stands for the bytes of s)
			if sl, isSl := t.Underlying().(*types.Slice); isSl && x.V.Kind() == constant.String {
				if eb, isB := sl.Elem().Underlying().(*types.Basic); isB && eb.Kind() == types.Uint8 {
					return Const{V: x.V, T: t, Dim: x.Dim}
				}
			}
			return Top{}
		}
		switch {
		case b.Info()&types.IsInteger != 0 && x.V.Kind() == constant.Int:
			return wrap(Const{V: x.V, T: t, Dim: x.Dim})
		case b.Info()&types.IsString != 0 && x.V.Kind() == constant.String:
			return Const{V: x.V, T: t, Dim: x.Dim}
		case b.Info()&types.IsBoolean != 0 && x.V.Kind() == constant.Bool:
			return Const{V: x.V, T: t, Dim: x.Dim}
		}
		return Top{}
	case Ref:
		x.T = t
		return x
	case Nil, NonNil:
		return v
	}
	return Top{}
}

var _ = fmt.Sprintf

// SetVar binds a local variable in st. It is meant for rule stubs (Config.OnCall)
// that model a callee writing through a pointer argument such as
// json.Unmarshal(b, &v): evaluating &v marked v as escaped (unknown), the stub
// re-binds it to the value the callee is modelled to store.
func (in *Interp) SetVar(st *State, v *types.Var, val Val) {
	delete(in.escaped, v)
	st.store[v] = val
}
