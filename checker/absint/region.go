package absint

import (
	"go/ast"
	"go/types"
	"sort"

	"verif/checker/core"
)

// Region roots (DESIGN.md §4 E1 "Region roots"): a rule may tabulate a
// statement range of a function instead of the whole function. Interpretation
// starts at node Start of the root graph with every local unknown (Top) except
// the ones bound in Bind, and ends when a node of Stops is reached (the
// outcome's trace then ends in "region-exit:<label>", followed by one
// "<name>=<value>" event per observed variable) or when the function returns
// (an ordinary outcome with results). How the surrounding code reaches and
// leaves the region is the caller's obligation (an E2 rule).
type Region struct {
	Start   int
	Stops   map[int]string        // node id -> exit label
	Bind    map[*types.Var]string // local variable -> dimension key whose value it holds at region entry
	BindVal map[*types.Var]Val    // local variable -> fixed abstract value at region entry
	Observe []*types.Var          // locals whose value is recorded at every region exit
	// Prelude: side-effect-free definitions of locals that the region reads but that are made before it
	// (e.g. `localIsLite := pc.api.settingEngine.candidates.ICELite`). They are evaluated, in order, in the
	// entry state (after Bind/BindVal), so that moving a pure definition across the region boundary or naming
	// a sub-expression does not turn the local into Top. The caller guarantees they dominate Start and are pure.
	Prelude []ast.Stmt
}

type regionSpec struct {
	g     *core.Graph
	start int
	stops map[int]string
	r     Region
}

// runPrelude evaluates the region's prelude definitions in st (a statement that forks or fails leaves its targets unknown).
func (rs *regionSpec) runPrelude(in *Interp, st *State) *State {
	for _, stmt := range rs.r.Prelude {
		outs := in.execStmt(rs.g, stmt, st)
		if len(outs) == 1 && outs[0].panic == "" {
			st = outs[0].st
		}
	}
	return st
}

func (rs *regionSpec) bindLocals(st *State) {
	for v, val := range rs.r.BindVal {
		st.store[v] = val
	}
	for v, key := range rs.r.Bind {
		if d, ok := st.dims[key]; ok {
			st.store[v] = d
		}
	}
}

// RegionExitPrefix starts the trace event that marks a region exit.
const RegionExitPrefix = "region-exit:"

func (in *Interp) regionExit(st *State, label string) *State {
	s := st.clone()
	s.Emit(RegionExitPrefix + label)
	if in.region != nil {
		obs := append([]*types.Var{}, in.region.r.Observe...)
		sort.SliceStable(obs, func(i, j int) bool { return obs[i].Pos() < obs[j].Pos() })
		for _, v := range obs {
			val, ok := s.store[v]
			if !ok || in.escaped[v] {
				val = Top{}
			}
			s.Emit("observe " + v.Name() + "=" + val.String())
		}
	}
	return s
}

// TabulateRegion tabulates a region of g (the graph of a declared function or a literal).
func TabulateRegion(cfg Config, g *core.Graph, sig *types.Signature, rootObj *types.Func, r Region) *Table {
	if r.Start < 0 || r.Start >= len(g.Nodes) {
		return &Table{Problems: []string{"region start node out of range"}}
	}
	return tabulate(cfg, g, sig, rootObj, &regionSpec{g: g, start: r.Start, stops: r.Stops, r: r})
}

// Path reads an access path of the abstract state: a value written on this path, else the dimension of that name.
func (s *State) Path(key string) (Val, bool) {
	if v, ok := s.store[key]; ok {
		return v, true
	}
	v, ok := s.dims[key]
	return v, ok
}
