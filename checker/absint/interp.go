package absint

import (
	"fmt"
	"go/ast"
	"go/constant"
	"go/token"
	"go/types"
	"sort"
	"strings"

	"golang.org/x/tools/go/cfg"

	"verif/checker/core"
)

// Config parameterises one tabulation.
type Config struct {
	P        *core.Program
	Dims     []Dim
	Inline   func(fn *types.Func) bool // which same-module callees are interpreted (others yield Top)
	MaxDepth int
	// OnCall lets a rule stub a call: return (result, true) to replace the call.
	OnCall func(in *Interp, st *State, call *ast.CallExpr, fn *types.Func, recv Val, args []Val) (Val, bool)
	// WatchStore: record writes to this access path in the effect trace.
	WatchStore func(path string) bool
	// WatchCall: non-empty label => record the call (with abstract argument values) in the effect trace.
	WatchCall func(fn *types.Func, call *ast.CallExpr) string
	// WatchDyn: label for calls through function values.
	WatchDyn func(info *types.Info, call *ast.CallExpr) string
	// WatchBuiltin: label for builtin calls (close, delete, ...) to record with their argument paths.
	WatchBuiltin func(name string, argPaths []string) string
	// WatchRecv: label for channel receives, given the channel's access path.
	WatchRecv func(path string) string
	// Pure: same-module callees that do not modify tracked state (no havoc).
	Pure     func(fn *types.Func) bool
	MaxPaths int
	// RootBind overrides the initial binding of the root function's receiver/params (by "$recv"/"$pN").
	RootBind map[string]Val
	// WatchLit: non-empty label => record the evaluation of a struct composite literal of type t
	// (with its abstract field values) in the effect trace.
	WatchLit func(t types.Type, fields map[string]Val) string
}

// State is the abstract state on one path.
type State struct {
	store map[any]Val // *types.Var | string access path | ast.Node (cached tag / range source)
	dims  map[string]Val
	trace []string
}

func (s *State) clone() *State {
	n := &State{store: make(map[any]Val, len(s.store)+2), dims: s.dims, trace: s.trace}
	for k, v := range s.store {
		n.store[k] = v
	}
	return n
}

// SetDim updates a dimension (declared effect).
func (s *State) SetDim(key string, v Val) {
	nd := make(map[string]Val, len(s.dims)+1)
	for k, x := range s.dims {
		nd[k] = x
	}
	nd[key] = v
	s.dims = nd
}

// Dim reads a dimension.
func (s *State) Dim(key string) (Val, bool) { v, ok := s.dims[key]; return v, ok }

// Emit appends to the effect trace.
func (s *State) Emit(ev string) { s.trace = append(append([]string{}, s.trace...), ev) }

// SetPath writes an access path.
func (s *State) SetPath(path string, v Val) { s.store[path] = v }

// Interp is one tabulation run.
type Interp struct {
	cfg       Config
	problems  map[string]bool
	dimConsts map[string]map[int64]bool
	dimEscape map[string]map[string]bool
	escaped   map[*types.Var]bool
	paths     int
	stack     []*types.Func
	aborted   bool
	region    *regionSpec // non-nil: the root graph is interpreted from region.start to region.stops (see region.go)
}

type exit struct {
	st      *State
	results []Val
	panic   string
}

type vs struct {
	v  Val
	st *State
}

type rangeIdx struct{ rs *ast.RangeStmt }

func (in *Interp) problem(format string, a ...any) {
	in.problems[fmt.Sprintf(format, a...)] = true
}

// Tabulate computes the outcome may-set of root for every valuation of cfg.Dims.
func Tabulate(cfg Config, root *core.FuncInfo) *Table {
	g := cfg.P.GraphOf(root)
	if g == nil {
		return &Table{Problems: []string{"no body for " + root.Name()}}
	}
	return TabulateGraph(cfg, g, root.Obj.Type().(*types.Signature), root.Obj)
}

// TabulateLit tabulates a function literal (its free variables are unknown).
func TabulateLit(cfg Config, lit *ast.FuncLit) *Table {
	g := cfg.P.GraphOfLit(lit)
	if g == nil {
		return &Table{Problems: []string{"no graph for function literal"}}
	}
	return TabulateGraph(cfg, g, g.Sig(), nil)
}

// TabulateGraph is the general form: g is the root body, sig its signature.
func TabulateGraph(cfg Config, g *core.Graph, sig *types.Signature, rootObj *types.Func) *Table {
	return tabulate(cfg, g, sig, rootObj, nil)
}

func tabulate(cfg Config, g *core.Graph, sig *types.Signature, rootObj *types.Func, region *regionSpec) *Table {
	if cfg.MaxDepth == 0 {
		cfg.MaxDepth = 6
	}
	if cfg.MaxPaths == 0 {
		cfg.MaxPaths = 2_000_000
	}
	in := &Interp{cfg: cfg, problems: map[string]bool{}, dimConsts: map[string]map[int64]bool{}, dimEscape: map[string]map[string]bool{}, escaped: map[*types.Var]bool{}, region: region}
	t := &Table{DimConsts: map[string][]int64{}, DimEscape: map[string][]string{}}
	// enumerate valuations
	idx := make([]int, len(cfg.Dims))
	for {
		val := map[string]Val{}
		for i, d := range cfg.Dims {
			v := d.Domain[idx[i]]
			if c, ok := v.(Const); ok {
				c.Dim = d.Key
				v = c
			}
			val[d.Key] = v
		}
		st := &State{store: map[any]Val{}, dims: val}
		in.bindRoot(st, sig)
		if region != nil {
			region.bindLocals(st)
		}
		in.stack = []*types.Func{rootObj}
		if region != nil {
			st = region.runPrelude(in, st)
		}
		exits := in.runGraph(g, st, sig)
		row := Row{Valuation: val}
		seen := map[string]bool{}
		for _, e := range exits {
			o := Outcome{Results: e.results, Trace: e.st.trace, Panic: e.panic}
			k := o.String()
			if !seen[k] {
				seen[k] = true
				row.Outcomes = append(row.Outcomes, o)
			}
		}
		sort.Slice(row.Outcomes, func(i, j int) bool { return row.Outcomes[i].String() < row.Outcomes[j].String() })
		t.Rows = append(t.Rows, row)
		if in.aborted {
			break
		}
		// next
		k := len(idx) - 1
		for k >= 0 {
			idx[k]++
			if idx[k] < len(cfg.Dims[k].Domain) {
				break
			}
			idx[k] = 0
			k--
		}
		if k < 0 {
			break
		}
	}
	for p := range in.problems {
		t.Problems = append(t.Problems, p)
	}
	sort.Strings(t.Problems)
	for k, m := range in.dimConsts {
		for c := range m {
			t.DimConsts[k] = append(t.DimConsts[k], c)
		}
		sort.Slice(t.DimConsts[k], func(i, j int) bool { return t.DimConsts[k][i] < t.DimConsts[k][j] })
	}
	for k, m := range in.dimEscape {
		for c := range m {
			t.DimEscape[k] = append(t.DimEscape[k], c)
		}
		sort.Strings(t.DimEscape[k])
	}
	t.Paths = in.paths
	return t
}

func (in *Interp) bindRoot(st *State, sig *types.Signature) {
	bind := func(v *types.Var, key string) {
		if v == nil {
			return
		}
		if b, ok := in.cfg.RootBind[key]; ok {
			st.store[v] = b
			return
		}
		if d, ok := st.dims[key]; ok {
			st.store[v] = d
			return
		}
		st.store[v] = Ref{Path: key, T: v.Type()}
	}
	if sig.Recv() != nil {
		bind(sig.Recv(), "$recv")
	}
	for i := 0; i < sig.Params().Len(); i++ {
		bind(sig.Params().At(i), fmt.Sprintf("$p%d", i))
	}
}

func zeroOf(t types.Type) Val {
	switch u := t.Underlying().(type) {
	case *types.Basic:
		switch {
		case u.Info()&types.IsBoolean != 0:
			return Const{V: constant.MakeBool(false), T: t}
		case u.Info()&types.IsInteger != 0:
			return Const{V: constant.MakeInt64(0), T: t}
		case u.Info()&types.IsString != 0:
			return Const{V: constant.MakeString(""), T: t}
		}
		return Top{}
	case *types.Pointer, *types.Interface, *types.Slice, *types.Map, *types.Chan, *types.Signature:
		return Nil{}
	}
	return Top{}
}

func topFor(res *types.Tuple) Val {
	switch res.Len() {
	case 0:
		return Tuple{}
	case 1:
		return Top{}
	}
	t := make(Tuple, res.Len())
	for i := range t {
		t[i] = Top{}
	}
	return t
}

// runGraph interprets one function body from its entry.
func (in *Interp) runGraph(g *core.Graph, st *State, sig *types.Signature) []exit {
	type item struct {
		n       int
		st      *State
		visited *visList
		defers  []*ast.DeferStmt
	}
	// region root (region.go): start inside the root graph, stop at the region's exit nodes
	entry := g.Entry
	var stops map[int]string
	if in.region != nil && in.region.g == g && len(in.stack) == 1 {
		entry, stops = in.region.start, in.region.stops
	}
	// named results start at zero
	if sig != nil && stops == nil {
		for i := 0; i < sig.Results().Len(); i++ {
			if v := sig.Results().At(i); v.Name() != "" && v.Name() != "_" {
				st.store[v] = zeroOf(v.Type())
			}
		}
	}
	aux := auxOf(g)
	var exits []exit
	work := []item{{entry, st, nil, nil}}
	finish := func(it item, results []Val, pan string) {
		// run defers (late-evaluated) in reverse order
		sts := []*State{it.st}
		for i := len(it.defers) - 1; i >= 0 && pan == ""; i-- {
			var next []*State
			for _, s := range sts {
				for _, r := range in.evalCall(g, it.defers[i].Call, s) {
					next = append(next, r.st)
				}
			}
			sts = next
		}
		for _, s := range sts {
			res := results
			if results == nil && sig != nil && sig.Results().Len() > 0 {
				// naked return / fall off end with named results
				for i := 0; i < sig.Results().Len(); i++ {
					if v, ok := s.store[sig.Results().At(i)]; ok {
						res = append(res, v)
					} else {
						res = append(res, Top{})
					}
				}
			}
			exits = append(exits, exit{st: s, results: res, panic: pan})
		}
	}
	for len(work) > 0 {
		it := work[len(work)-1]
		work = work[:len(work)-1]
		in.paths++
		if in.paths > in.cfg.MaxPaths {
			in.problem("path budget exceeded in %s", g.Owner.Name())
			in.aborted = true
			return exits
		}
		node := g.Nodes[it.n]
		if label, ok := stops[it.n]; ok {
			exits = append(exits, exit{st: in.regionExit(it.st, label)})
			continue
		}
		if node.Kind == core.NExit {
			finish(it, nil, "")
			continue
		}
		if node.Kind == core.NPanic {
			exits = append(exits, exit{st: it.st, panic: "explicit"})
			continue
		}
		// loop cut: same block head with same abstract state on this path
		vis := it.visited
		if node.Kind == core.NHead && isLoopBlock(node) {
			key := fmt.Sprintf("%d|%s", it.n, stateKey(it.st))
			if vis.has(key) {
				continue
			}
			if vis.count(it.n) > 64 {
				in.problem("loop in %s does not reach a repeated abstract state within 64 iterations", g.Owner.Name())
				continue
			}
			vis = &visList{key: key, node: it.n, parent: vis}
		}

		// execute the node
		var outs []vs
		defers := it.defers
		switch a := node.Ast.(type) {
		case nil:
			outs = []vs{{nil, it.st}}
		case *ast.ReturnStmt:
			for _, r := range in.evalList(g, a.Results, it.st) {
				var results []Val
				if len(a.Results) == 1 && sig != nil && sig.Results().Len() > 1 {
					if tup, ok := r.vals[0].(Tuple); ok {
						results = tup
					} else {
						for i := 0; i < sig.Results().Len(); i++ {
							results = append(results, Top{})
						}
					}
				} else {
					results = r.vals
				}
				if len(a.Results) > 0 && sig != nil {
					// assign named results so defers/naked forms see them
					for i := 0; i < sig.Results().Len() && i < len(results); i++ {
						if v := sig.Results().At(i); v.Name() != "" && v.Name() != "_" {
							r.st = r.st.clone()
							r.st.store[v] = results[i]
						}
					}
				}
				if len(a.Results) == 0 {
					results = nil
				} else if results == nil {
					results = []Val{}
				}
				finish(item{it.n, r.st, vis, defers}, results, "")
			}
			continue
		case *ast.DeferStmt:
			defers = append(append([]*ast.DeferStmt{}, defers...), a)
			outs = []vs{{nil, it.st}}
		case ast.Expr:
			switch {
			case aux.rangeX[a] != nil:
				for _, r := range in.evalExpr(g, a, it.st) {
					s := r.st.clone()
					rs := aux.rangeX[a]
					s.store[rs] = r.v
					s.store[rangeIdx{rs}] = IntVal(0, types.Typ[types.Int])
					outs = append(outs, vs{nil, s})
				}
			case aux.rangeKV[a]:
				outs = []vs{{nil, it.st}}
			case aux.tagOf[a] != nil:
				for _, r := range in.evalExpr(g, a, it.st) {
					s := r.st.clone()
					s.store[aux.tagOf[a]] = r.v
					outs = append(outs, vs{r.v, s})
				}
			default:
				outs = in.evalExpr(g, a, it.st)
			}
		case *ast.ValueSpec:
			ds := &ast.DeclStmt{Decl: &ast.GenDecl{Tok: token.VAR, Specs: []ast.Spec{a}}}
			for _, s := range in.execStmt(g, ds, it.st) {
				outs = append(outs, vs{nil, s.st})
			}
		case ast.Stmt:
			for _, s := range in.execStmt(g, a, it.st) {
				if s.panic != "" {
					exits = append(exits, exit{st: s.st, panic: s.panic})
					continue
				}
				outs = append(outs, vs{nil, s.st})
			}
		default:
			in.problem("unsupported node %T in %s", node.Ast, g.Owner.Name())
			outs = []vs{{nil, it.st}}
		}

		for _, o := range outs {
			if p, ok := o.v.(panicVal); ok {
				exits = append(exits, exit{st: o.st, panic: string(p)})
				continue
			}
			switch {
			case len(node.Succs) == 2 && node.Succs[0].Range != nil:
				in.stepRange(g, node, o.st, func(n int, s *State) { work = append(work, item{n, s, vis, defers}) })
			case len(node.Succs) == 2 && node.Succs[0].Cond != nil:
				e := node.Succs[0]
				var truth Val
				if e.Tag != nil {
					tag, ok := o.st.store[switchKey(g, e.Cond)]
					if !ok {
						tag = Top{}
					}
					truth = in.compare(token.EQL, tag, o.v)
				} else {
					truth = o.v
				}
				switch {
				case IsTrue(truth):
					work = append(work, item{node.Succs[0].To, o.st, vis, defers})
				case IsFalse(truth):
					work = append(work, item{node.Succs[1].To, o.st, vis, defers})
				default:
					ts, fs := o.st, o.st
					if e.Tag == nil {
						ts = in.refine(g, e.Cond, true, o.st)
						fs = in.refine(g, e.Cond, false, o.st)
					} else {
						ts = in.refineEq(g, e.Tag, e.Cond, true, o.st)
					}
					if ts != nil {
						work = append(work, item{node.Succs[0].To, ts, vis, defers})
					}
					if fs != nil {
						work = append(work, item{node.Succs[1].To, fs, vis, defers})
					}
				}
			default:
				for _, e := range node.Succs {
					work = append(work, item{e.To, o.st, vis, defers})
				}
			}
		}
	}
	return exits
}

// visList is a persistent (shared-tail) list of visited loop-head states.
type visList struct {
	key    string
	node   int
	parent *visList
}

func (v *visList) count(n int) int {
	c := 0
	for ; v != nil; v = v.parent {
		if v.node == n {
			c++
		}
	}
	return c
}

func (v *visList) has(k string) bool {
	for ; v != nil; v = v.parent {
		if v.key == k {
			return true
		}
	}
	return false
}

// isLoopBlock: block heads that can be re-entered on one path (loop heads, bodies, labels).
func isLoopBlock(n *core.Node) bool {
	if n.Block == nil {
		return false
	}
	switch n.Block.Kind {
	case cfg.KindForBody, cfg.KindForLoop, cfg.KindForPost, cfg.KindRangeLoop, cfg.KindRangeBody, cfg.KindLabel:
		return true
	}
	return false
}

type panicVal string

func (p panicVal) String() string { return "PANIC(" + string(p) + ")" }

// aux holds per-graph syntactic side tables.
type graphAux struct {
	rangeX  map[ast.Expr]*ast.RangeStmt
	rangeKV map[ast.Expr]bool
	tagOf   map[ast.Expr]*ast.SwitchStmt
	caseSw  map[ast.Expr]*ast.SwitchStmt
}

var auxCache = map[*core.Graph]*graphAux{}

func auxOf(g *core.Graph) *graphAux {
	if a := auxCache[g]; a != nil {
		return a
	}
	a := &graphAux{rangeX: map[ast.Expr]*ast.RangeStmt{}, rangeKV: map[ast.Expr]bool{}, tagOf: map[ast.Expr]*ast.SwitchStmt{}, caseSw: map[ast.Expr]*ast.SwitchStmt{}}
	ast.Inspect(g.Body, func(n ast.Node) bool {
		if fl, ok := n.(*ast.FuncLit); ok && ast.Node(fl) != g.Fn {
			return false
		}
		switch s := n.(type) {
		case *ast.RangeStmt:
			a.rangeX[s.X] = s
			if s.Key != nil {
				a.rangeKV[s.Key] = true
			}
			if s.Value != nil {
				a.rangeKV[s.Value] = true
			}
		case *ast.SwitchStmt:
			if s.Tag != nil {
				a.tagOf[s.Tag] = s
				for _, c := range s.Body.List {
					for _, e := range c.(*ast.CaseClause).List {
						a.caseSw[e] = s
					}
				}
			}
		}
		return true
	})
	auxCache[g] = a
	return a
}

func switchKey(g *core.Graph, caseExpr ast.Expr) any { return auxOf(g).caseSw[caseExpr] }

func stateKey(s *State) string {
	var parts []string
	for k, v := range s.store {
		var ks string
		switch x := k.(type) {
		case *types.Var:
			ks = fmt.Sprintf("v%d", x.Pos())
		case string:
			ks = x
		case rangeIdx:
			ks = fmt.Sprintf("ri%d", x.rs.Pos())
		case ast.Node:
			ks = fmt.Sprintf("n%d", x.Pos())
		default:
			ks = fmt.Sprintf("%v", k)
		}
		parts = append(parts, ks+"="+v.String())
	}
	sort.Strings(parts)
	var d []string
	for k, v := range s.dims {
		d = append(d, k+"="+v.String())
	}
	sort.Strings(d)
	return strings.Join(parts, ",") + "#" + strings.Join(d, ",")
}

func (in *Interp) stepRange(g *core.Graph, node *core.Node, st *State, push func(int, *State)) {
	rs := node.Succs[0].Range
	src, ok := st.store[rs]
	if !ok {
		src = Top{}
	}
	assign := func(s *State, k, v Val) *State {
		s = s.clone()
		if rs.Key != nil {
			in.assign(g, rs.Key, k, s)
		}
		if rs.Value != nil {
			in.assign(g, rs.Value, v, s)
		}
		return s
	}
	iv, _ := st.store[rangeIdx{rs}].(Const)
	i := int64(0)
	if iv.V != nil {
		i, _ = constant.Int64Val(iv.V)
	}
	switch x := src.(type) {
	case SliceVal:
		if int(i) < len(x.Elems) {
			s := assign(st, IntVal(i, types.Typ[types.Int]), x.Elems[i])
			s.store[rangeIdx{rs}] = IntVal(i+1, types.Typ[types.Int])
			push(node.Succs[0].To, s)
		} else {
			push(node.Succs[1].To, st)
		}
		return
	case Const:
		if x.V.Kind() == constant.Int {
			n, _ := constant.Int64Val(x.V)
			if i < n {
				s := assign(st, IntVal(i, types.Typ[types.Int]), Top{})
				s.store[rangeIdx{rs}] = IntVal(i+1, types.Typ[types.Int])
				push(node.Succs[0].To, s)
			} else {
				push(node.Succs[1].To, st)
			}
			return
		}
	case Nil:
		push(node.Succs[1].To, st)
		return
	}
	// unknown collection: zero or more iterations with unknown elements
	var elem Val = Top{}
	if r, ok := src.(Ref); ok {
		elem = Ref{Path: "elem(" + r.Path + ")"}
		// a collection whose length is a dimension iterates exactly that many times
		if l, ok := in.lookup(st, "len("+r.Path+")", nil).(Const); ok && l.V.Kind() == constant.Int {
			n, _ := constant.Int64Val(l.V)
			if i < n {
				s := assign(st, IntVal(i, types.Typ[types.Int]), Ref{Path: fmt.Sprintf("%s[%d]", r.Path, i)})
				s.store[rangeIdx{rs}] = IntVal(i+1, types.Typ[types.Int])
				push(node.Succs[0].To, s)
			} else {
				push(node.Succs[1].To, st)
			}
			return
		}
	}
	push(node.Succs[0].To, assign(st, Top{}, elem))
	push(node.Succs[1].To, st)
}

type stmtOut struct {
	st    *State
	panic string
}

func (in *Interp) execStmt(g *core.Graph, s ast.Stmt, st *State) []stmtOut {
	one := func(s *State) []stmtOut { return []stmtOut{{st: s}} }
	switch a := s.(type) {
	case *ast.ExprStmt:
		var out []stmtOut
		for _, r := range in.evalExpr(g, a.X, st) {
			if p, ok := r.v.(panicVal); ok {
				out = append(out, stmtOut{st: r.st, panic: string(p)})
			} else {
				out = append(out, stmtOut{st: r.st})
			}
		}
		return out
	case *ast.AssignStmt:
		return in.execAssign(g, a, st)
	case *ast.IncDecStmt:
		var out []stmtOut
		for _, r := range in.evalExpr(g, a.X, st) {
			op := token.ADD
			if a.Tok == token.DEC {
				op = token.SUB
			}
			nv := in.binop(op, r.v, Const{V: constant.MakeInt64(1), T: g.Info.TypeOf(a.X)}, g.Info.TypeOf(a.X))
			s2 := r.st.clone()
			in.assign(g, a.X, nv, s2)
			out = append(out, stmtOut{st: s2})
		}
		return out
	case *ast.DeclStmt:
		gd, ok := a.Decl.(*ast.GenDecl)
		if !ok || gd.Tok != token.VAR {
			return one(st)
		}
		cur := []*State{st}
		for _, sp := range gd.Specs {
			vsp := sp.(*ast.ValueSpec)
			var next []*State
			for _, s0 := range cur {
				if len(vsp.Values) == 0 {
					s1 := s0.clone()
					for _, nm := range vsp.Names {
						if v, ok := g.Info.Defs[nm].(*types.Var); ok {
							s1.store[v] = zeroOf(v.Type())
						}
					}
					next = append(next, s1)
					continue
				}
				for _, r := range in.evalList(g, vsp.Values, s0) {
					s1 := r.st.clone()
					vals := r.vals
					if len(vsp.Values) == 1 && len(vsp.Names) > 1 {
						vals = spread(r.vals[0], len(vsp.Names))
					}
					for i, nm := range vsp.Names {
						if v, ok := g.Info.Defs[nm].(*types.Var); ok && i < len(vals) {
							s1.store[v] = vals[i]
						}
					}
					next = append(next, s1)
				}
			}
			cur = next
		}
		var out []stmtOut
		for _, s := range cur {
			out = append(out, stmtOut{st: s})
		}
		return out
	case *ast.GoStmt:
		s2 := st
		label := ""
		if fn := core.Callee(g.Info, a.Call); fn != nil {
			label = core.FuncName(fn)
		} else if _, ok := ast.Unparen(a.Call.Fun).(*ast.FuncLit); ok {
			label = "func-literal"
		} else {
			label = types.ExprString(a.Call.Fun)
		}
		s2 = st.clone()
		s2.Emit("go " + label)
		return one(s2)
	case *ast.SendStmt, *ast.EmptyStmt, *ast.BranchStmt, *ast.LabeledStmt:
		return one(st)
	case *ast.DeferStmt:
		return one(st)
	}
	in.problem("unsupported statement %T in %s", s, g.Owner.Name())
	return one(st)
}

func spread(v Val, n int) []Val {
	if t, ok := v.(Tuple); ok && len(t) == n {
		return t
	}
	out := make([]Val, n)
	for i := range out {
		out[i] = Top{}
	}
	return out
}

func (in *Interp) execAssign(g *core.Graph, a *ast.AssignStmt, st *State) []stmtOut {
	var out []stmtOut
	if a.Tok != token.ASSIGN && a.Tok != token.DEFINE {
		// op-assign
		op := map[token.Token]token.Token{token.ADD_ASSIGN: token.ADD, token.SUB_ASSIGN: token.SUB, token.MUL_ASSIGN: token.MUL,
			token.QUO_ASSIGN: token.QUO, token.REM_ASSIGN: token.REM, token.AND_ASSIGN: token.AND, token.OR_ASSIGN: token.OR,
			token.XOR_ASSIGN: token.XOR, token.SHL_ASSIGN: token.SHL, token.SHR_ASSIGN: token.SHR, token.AND_NOT_ASSIGN: token.AND_NOT}[a.Tok]
		for _, l := range in.evalExpr(g, a.Lhs[0], st) {
			for _, r := range in.evalExpr(g, a.Rhs[0], l.st) {
				s2 := r.st.clone()
				in.assign(g, a.Lhs[0], in.binop(op, l.v, r.v, g.Info.TypeOf(a.Lhs[0])), s2)
				out = append(out, stmtOut{st: s2})
			}
		}
		return out
	}
	for _, r := range in.evalList(g, a.Rhs, st) {
		for _, v := range r.vals {
			if p, ok := v.(panicVal); ok {
				out = append(out, stmtOut{st: r.st, panic: string(p)})
				goto next
			}
		}
		{
			vals := r.vals
			if len(a.Rhs) == 1 && len(a.Lhs) > 1 {
				vals = spread(r.vals[0], len(a.Lhs))
			}
			s2 := r.st.clone()
			for i, l := range a.Lhs {
				if i < len(vals) {
					in.assign(g, l, vals[i], s2)
				}
			}
			out = append(out, stmtOut{st: s2})
		}
	next:
	}
	return out
}

// assign stores v into the location denoted by lhs (mutates st, which must be private).
func (in *Interp) assign(g *core.Graph, lhs ast.Expr, v Val, st *State) {
	lhs = ast.Unparen(lhs)
	switch l := lhs.(type) {
	case *ast.Ident:
		if l.Name == "_" {
			return
		}
		if obj := core.VarOf(g.Info, l); obj != nil {
			if obj.Pkg() != nil && obj.Parent() == obj.Pkg().Scope() {
				path := obj.Pkg().Name() + "." + obj.Name()
				st.store[path] = v
				in.watchStore(st, path, v)
				return
			}
			st.store[obj] = v
		}
	case *ast.SelectorExpr:
		if p := in.pathOf(g, l, st); p != "" {
			st.store[p] = v
			in.watchStore(st, p, v)
		}
	case *ast.StarExpr:
		if p := in.pathOf(g, l.X, st); p != "" {
			st.store[p] = v
			in.watchStore(st, p, v)
		}
	case *ast.IndexExpr:
		if p := in.pathOf(g, l.X, st); p != "" {
			in.watchStore(st, p+"[]", v)
		}
	}
}

func (in *Interp) watchStore(st *State, path string, v Val) {
	if in.cfg.WatchStore != nil && in.cfg.WatchStore(path) {
		st.Emit(path + " = " + v.String())
	}
}

// pathOf returns the canonical access path an expression denotes, without side effects ("" if none).
func (in *Interp) pathOf(g *core.Graph, e ast.Expr, st *State) string {
	e = ast.Unparen(e)
	switch x := e.(type) {
	case *ast.Ident:
		if obj := core.VarOf(g.Info, x); obj != nil {
			if obj.Pkg() != nil && obj.Parent() == obj.Pkg().Scope() {
				return obj.Pkg().Name() + "." + obj.Name()
			}
			if r, ok := st.store[obj].(Ref); ok {
				return r.Path
			}
		}
	case *ast.SelectorExpr:
		if sel := g.Info.Selections[x]; sel != nil && sel.Kind() == types.FieldVal {
			if b := in.pathOf(g, x.X, st); b != "" {
				return b + "." + x.Sel.Name
			}
		}
	case *ast.StarExpr:
		return in.pathOf(g, x.X, st)
	case *ast.UnaryExpr:
		if x.Op == token.AND {
			return in.pathOf(g, x.X, st)
		}
	case *ast.CallExpr:
		// pointer conversions such as (*int32)(t)
		if tv, ok := g.Info.Types[x.Fun]; ok && tv.IsType() && len(x.Args) == 1 {
			return in.pathOf(g, x.Args[0], st)
		}
	}
	return ""
}

// lookup reads an access path: written value, else dimension, else a symbolic reference.
func (in *Interp) lookup(st *State, path string, t types.Type) Val {
	if v, ok := st.store[path]; ok {
		return v
	}
	if v, ok := st.dims[path]; ok {
		return v
	}
	return Ref{Path: path, T: t}
}

type lvs struct {
	vals []Val
	st   *State
}

// evalList evaluates expressions left to right (list monad over forks).
func (in *Interp) evalList(g *core.Graph, es []ast.Expr, st *State) []lvs {
	cur := []lvs{{nil, st}}
	for _, e := range es {
		var next []lvs
		for _, c := range cur {
			for _, r := range in.evalExpr(g, e, c.st) {
				next = append(next, lvs{append(append([]Val{}, c.vals...), r.v), r.st})
			}
		}
		cur = next
	}
	return cur
}

func (in *Interp) evalExpr(g *core.Graph, e ast.Expr, st *State) []vs {
	one := func(v Val) []vs { return []vs{{v, st}} }
	if tv, ok := g.Info.Types[e]; ok && tv.Value != nil {
		return one(Const{V: tv.Value, T: tv.Type})
	}
	switch x := e.(type) {
	case *ast.ParenExpr:
		return in.evalExpr(g, x.X, st)
	case *ast.BasicLit:
		return one(Top{})
	case *ast.Ident:
		switch obj := g.Info.Uses[x].(type) {
		case *types.Nil:
			return one(Nil{})
		case *types.Const:
			return one(Const{V: obj.Val(), T: obj.Type()})
		case *types.Var:
			if obj.Pkg() != nil && obj.Parent() == obj.Pkg().Scope() {
				path := obj.Pkg().Name() + "." + obj.Name()
				if v, ok := st.store[path]; ok {
					return one(v)
				}
				if v, ok := st.dims[path]; ok {
					return one(v)
				}
				if isErrorT(obj.Type()) {
					return one(NonNil{Desc: obj.Name()})
				}
				return one(Ref{Path: path, T: obj.Type()})
			}
			if in.escaped[obj] {
				return one(Top{})
			}
			if v, ok := st.store[obj]; ok {
				return one(v)
			}
			return one(Top{})
		case *types.Func:
			return one(funcVal{decl: obj})
		}
		if obj, ok := g.Info.Defs[x].(*types.Var); ok {
			if v, ok := st.store[obj]; ok {
				return one(v)
			}
		}
		return one(Top{})
	case *ast.FuncLit:
		return one(funcVal{lit: x})
	case *ast.SelectorExpr:
		if sel := g.Info.Selections[x]; sel != nil {
			switch sel.Kind() {
			case types.FieldVal:
				var out []vs
				for _, b := range in.evalExpr(g, x.X, st) {
					switch bv := b.v.(type) {
					case Ref:
						out = append(out, vs{in.lookup(b.st, bv.Path+"."+x.Sel.Name, sel.Type()), b.st})
					case StructVal:
						if f, ok := bv.Fields[x.Sel.Name]; ok {
							out = append(out, vs{f, b.st})
						} else {
							out = append(out, vs{zeroOf(sel.Type()), b.st})
						}
					default:
						out = append(out, vs{Top{}, b.st})
					}
				}
				return out
			case types.MethodVal:
				var out []vs
				for _, b := range in.evalExpr(g, x.X, st) {
					fn, _ := sel.Obj().(*types.Func)
					out = append(out, vs{funcVal{decl: fn, recv: b.v, hasRecv: true}, b.st})
				}
				return out
			}
			return one(Top{})
		}
		// qualified identifier
		switch obj := g.Info.Uses[x.Sel].(type) {
		case *types.Const:
			return one(Const{V: obj.Val(), T: obj.Type()})
		case *types.Var:
			path := obj.Pkg().Name() + "." + obj.Name()
			if v, ok := st.store[path]; ok {
				return one(v)
			}
			if v, ok := st.dims[path]; ok {
				return one(v)
			}
			if isErrorT(obj.Type()) {
				return one(NonNil{Desc: path})
			}
			return one(Ref{Path: path, T: obj.Type()})
		case *types.Func:
			return one(funcVal{decl: obj})
		}
		return one(Top{})
	case *ast.StarExpr:
		var out []vs
		for _, b := range in.evalExpr(g, x.X, st) {
			if r, ok := b.v.(Ref); ok {
				out = append(out, vs{in.lookup(b.st, r.Path, g.Info.TypeOf(e)), b.st})
			} else {
				out = append(out, vs{Top{}, b.st})
			}
		}
		return out
	case *ast.UnaryExpr:
		switch x.Op {
		case token.AND:
			if _, ok := ast.Unparen(x.X).(*ast.CompositeLit); ok {
				desc := "&" + types.TypeString(g.Info.TypeOf(x.X), func(p *types.Package) string { return p.Name() })
				var out []vs
				for _, b := range in.evalExpr(g, x.X, st) {
					out = append(out, vs{NonNil{Desc: desc}, b.st})
				}
				return out
			}
			if p := in.pathOf(g, x.X, st); p != "" {
				return one(Ref{Path: p, T: g.Info.TypeOf(e), NonNilRef: true})
			}
			if id, ok := ast.Unparen(x.X).(*ast.Ident); ok {
				if v := core.VarOf(g.Info, id); v != nil {
					in.escaped[v] = true
				}
			}
			return one(NonNil{Desc: "&" + types.ExprString(x.X)})
		case token.NOT:
			var out []vs
			for _, b := range in.evalExpr(g, x.X, st) {
				switch {
				case IsTrue(b.v):
					out = append(out, vs{BoolVal(false), b.st})
				case IsFalse(b.v):
					out = append(out, vs{BoolVal(true), b.st})
				default:
					out = append(out, vs{Top{}, b.st})
				}
			}
			return out
		case token.SUB, token.XOR, token.ADD:
			var out []vs
			for _, b := range in.evalExpr(g, x.X, st) {
				if c, ok := b.v.(Const); ok && c.V.Kind() == constant.Int {
					in.noteEscape(c, "unary "+x.Op.String())
					out = append(out, vs{wrap(Const{V: constant.UnaryOp(x.Op, c.V, 0), T: c.T}), b.st})
				} else {
					out = append(out, vs{Top{}, b.st})
				}
			}
			return out
		case token.ARROW:
			var out []vs
			for _, b := range in.evalExpr(g, x.X, st) {
				s2 := b.st
				if in.cfg.WatchRecv != nil {
					if r, ok := b.v.(Ref); ok {
						if label := in.cfg.WatchRecv(r.Path); label != "" {
							s2 = s2.clone()
							s2.Emit(label)
						}
					}
				}
				out = append(out, vs{Top{}, s2})
			}
			return out
		}
		return one(Top{})
	case *ast.BinaryExpr:
		return in.evalBinary(g, x, st)
	case *ast.CallExpr:
		return in.evalCall(g, x, st)
	case *ast.IndexExpr:
		var out []vs
		for _, b := range in.evalExpr(g, x.X, st) {
			for _, i := range in.evalExpr(g, x.Index, b.st) {
				out = append(out, vs{in.index(b.v, i.v, i.st, g.Info.TypeOf(e)), i.st})
			}
		}
		return out
	case *ast.SliceExpr:
		var out []vs
		for _, b := range in.evalExpr(g, x.X, st) {
			out = append(out, vs{Top{}, b.st})
		}
		return out
	case *ast.CompositeLit:
		t := g.Info.TypeOf(x)
		switch t.Underlying().(type) {
		case *types.Slice, *types.Array:
			var elems []ast.Expr
			for _, el := range x.Elts {
				if kv, ok := el.(*ast.KeyValueExpr); ok {
					elems = append(elems, kv.Value)
				} else {
					elems = append(elems, el)
				}
			}
			var out []vs
			for _, r := range in.evalList(g, elems, st) {
				out = append(out, vs{SliceVal{Elems: r.vals}, r.st})
			}
			return out
		case *types.Struct:
			stt := t.Underlying().(*types.Struct)
			var names []string
			var exprs []ast.Expr
			for i, el := range x.Elts {
				if kv, ok := el.(*ast.KeyValueExpr); ok {
					if id, ok := kv.Key.(*ast.Ident); ok {
						names = append(names, id.Name)
						exprs = append(exprs, kv.Value)
					}
				} else if i < stt.NumFields() {
					names = append(names, stt.Field(i).Name())
					exprs = append(exprs, el)
				}
			}
			var out []vs
			for _, r := range in.evalList(g, exprs, st) {
				sv := StructVal{T: t, Fields: map[string]Val{}}
				for i, n := range names {
					sv.Fields[n] = r.vals[i]
				}
				if in.cfg.WatchLit != nil {
					if label := in.cfg.WatchLit(t, sv.Fields); label != "" {
						s2 := r.st.clone()
						s2.Emit(label)
						out = append(out, vs{sv, s2})
						continue
					}
				}
				out = append(out, vs{sv, r.st})
			}
			return out
		}
		return one(Top{})
	case *ast.TypeAssertExpr:
		var out []vs
		for _, b := range in.evalExpr(g, x.X, st) {
			commaOK := false
			if tv, ok := g.Info.Types[e]; ok {
				if tup, ok := tv.Type.(*types.Tuple); ok && tup.Len() == 2 {
					commaOK = true
				}
			}
			// precise cases: a constant whose type is the asserted type; nil with the comma-ok form
			if x.Type != nil {
				if at := g.Info.TypeOf(x.Type); at != nil {
					switch v := b.v.(type) {
					case Const:
						if v.T != nil && types.Identical(v.T, at) {
							if commaOK {
								out = append(out, vs{Tuple{v, BoolVal(true)}, b.st})
							} else {
								out = append(out, vs{v, b.st})
							}
							continue
						}
					case Nil:
						// a nil interface, or an interface holding a typed nil pointer: neither has a
						// non-nilable dynamic type, so the assertion to such a type fails either way
						if _, nilable := zeroOf(at).(Nil); commaOK && !nilable {
							out = append(out, vs{Tuple{zeroOf(at), BoolVal(false)}, b.st})
							continue
						}
					}
				}
			}
			if commaOK {
				out = append(out, vs{Tuple{Top{}, Top{}}, b.st})
				continue
			}
			out = append(out, vs{Top{}, b.st})
		}
		return out
	case *ast.KeyValueExpr:
		return in.evalExpr(g, x.Value, st)
	}
	return one(Top{})
}

func isErrorT(t types.Type) bool {
	return types.Identical(t, types.Universe.Lookup("error").Type())
}

type funcVal struct {
	lit     *ast.FuncLit
	decl    *types.Func
	recv    Val
	hasRecv bool
}

func (f funcVal) String() string {
	if f.lit != nil {
		return "func-literal"
	}
	return "func:" + core.FuncName(f.decl)
}

func (in *Interp) index(base, idx Val, st *State, t types.Type) Val {
	ic, iok := idx.(Const)
	switch b := base.(type) {
	case SliceVal:
		if iok && ic.V.Kind() == constant.Int {
			i, _ := constant.Int64Val(ic.V)
			if i >= 0 && int(i) < len(b.Elems) {
				return b.Elems[i]
			}
			return panicVal("index out of range")
		}
	case Ref:
		if iok && ic.V.Kind() == constant.Int {
			i, _ := constant.Int64Val(ic.V)
			if l, ok := in.lookup(st, "len("+b.Path+")", nil).(Const); ok {
				in.noteCompare(l, Const{V: constant.MakeInt64(i + 1), T: types.Typ[types.Int]})
				if n, _ := constant.Int64Val(l.V); i >= n {
					return panicVal(fmt.Sprintf("index %d out of range with length %d", i, n))
				}
			}
			return in.lookup(st, fmt.Sprintf("%s[%d]", b.Path, i), t)
		}
	}
	return Top{}
}

func (in *Interp) noteEscape(c Const, how string) {
	if c.Dim == "" {
		return
	}
	if in.dimEscape[c.Dim] == nil {
		in.dimEscape[c.Dim] = map[string]bool{}
	}
	in.dimEscape[c.Dim][how] = true
}

func (in *Interp) noteCompare(a, b Const) {
	note := func(d Const, k Const) {
		if d.Dim == "" || k.Dim != "" || k.V.Kind() != constant.Int {
			if d.Dim != "" && k.Dim != "" {
				in.noteEscape(d, "compared with dimension "+k.Dim)
			}
			return
		}
		if in.dimConsts[d.Dim] == nil {
			in.dimConsts[d.Dim] = map[int64]bool{}
		}
		n, _ := constant.Int64Val(k.V)
		in.dimConsts[d.Dim][n] = true
	}
	note(a, b)
	note(b, a)
}

func (in *Interp) compare(op token.Token, a, b Val) Val {
	switch x := a.(type) {
	case Const:
		if y, ok := b.(Const); ok {
			if x.V.Kind() == y.V.Kind() || (x.V.Kind() != constant.Bool && y.V.Kind() != constant.Bool && x.V.Kind() != constant.String && y.V.Kind() != constant.String) {
				in.noteCompare(x, y)
				return BoolVal(constant.Compare(x.V, op, y.V))
			}
		}
		if _, ok := b.(Nil); ok {
			return Top{}
		}
	case Nil:
		switch y := b.(type) {
		case Nil:
			return BoolVal(op == token.EQL)
		case NonNil:
			return BoolVal(op != token.EQL)
		case Ref:
			if y.NonNilRef {
				return BoolVal(op != token.EQL)
			}
		}
	case NonNil:
		if _, ok := b.(Nil); ok {
			return BoolVal(op != token.EQL)
		}
	case Ref:
		if _, ok := b.(Nil); ok && x.NonNilRef {
			return BoolVal(op != token.EQL)
		}
	}
	return Top{}
}

func (in *Interp) evalBinary(g *core.Graph, x *ast.BinaryExpr, st *State) []vs {
	var out []vs
	switch x.Op {
	case token.LAND, token.LOR:
		for _, l := range in.evalExpr(g, x.X, st) {
			short := (x.Op == token.LAND && IsFalse(l.v)) || (x.Op == token.LOR && IsTrue(l.v))
			if short {
				out = append(out, vs{l.v, l.st})
				continue
			}
			known := IsTrue(l.v) || IsFalse(l.v)
			rst := l.st
			if !known {
				// evaluate the right operand under the assumption that makes it relevant
				if r := in.refine(g, x.X, x.Op == token.LAND, l.st); r != nil {
					rst = r
				}
			}
			for _, r := range in.evalExpr(g, x.Y, rst) {
				stOut := r.st
				if !known {
					stOut = mergeTrace(l.st, r.st)
				}
				switch {
				case known:
					out = append(out, vs{r.v, stOut})
				case x.Op == token.LAND && IsFalse(r.v):
					out = append(out, vs{BoolVal(false), stOut})
				case x.Op == token.LOR && IsTrue(r.v):
					out = append(out, vs{BoolVal(true), stOut})
				default:
					out = append(out, vs{Top{}, stOut})
				}
			}
		}
		return out
	}
	for _, l := range in.evalExpr(g, x.X, st) {
		for _, r := range in.evalExpr(g, x.Y, l.st) {
			switch x.Op {
			case token.EQL, token.NEQ, token.LSS, token.LEQ, token.GTR, token.GEQ:
				out = append(out, vs{in.compare(x.Op, l.v, r.v), r.st})
			default:
				out = append(out, vs{in.binop(x.Op, l.v, r.v, g.Info.TypeOf(x)), r.st})
			}
		}
	}
	return out
}

// mergeTrace keeps the store of the left state (the right operand may or may not have run) but the longer trace.
func mergeTrace(l, r *State) *State {
	if len(r.trace) == len(l.trace) {
		return l
	}
	s := l.clone()
	s.trace = r.trace
	s.dims = r.dims
	s.store = r.clone().store
	return s
}

func (in *Interp) binop(op token.Token, a, b Val, t types.Type) Val {
	x, ok1 := a.(Const)
	y, ok2 := b.(Const)
	if !ok1 || !ok2 {
		return Top{}
	}
	in.noteEscape(x, "operand of "+op.String())
	in.noteEscape(y, "operand of "+op.String())
	defer func() { _ = recover() }()
	switch op {
	case token.SHL, token.SHR:
		n, ok := constant.Uint64Val(y.V)
		if !ok || n > 64 {
			return Top{}
		}
		return wrap(Const{V: constant.Shift(x.V, op, uint(n)), T: x.T})
	case token.QUO, token.REM:
		if y.V.Kind() == constant.Int {
			if constant.Sign(y.V) == 0 {
				return panicVal("integer divide by zero")
			}
			if op == token.QUO && x.V.Kind() == constant.Int {
				return wrap(Const{V: constant.BinaryOp(x.V, token.QUO_ASSIGN, y.V), T: t})
			}
		}
	}
	if x.V.Kind() == constant.String && op != token.ADD {
		return Top{}
	}
	var res Val = Top{}
	func() {
		defer func() {
			if recover() != nil {
				res = Top{}
			}
		}()
		res = wrap(Const{V: constant.BinaryOp(x.V, op, y.V), T: t})
	}()
	return res
}

// wrap truncates an integer constant to its basic type's width.
func wrap(c Const) Val {
	if c.T == nil || c.V.Kind() != constant.Int {
		return c
	}
	b, ok := c.T.Underlying().(*types.Basic)
	if !ok {
		return c
	}
	var bits uint
	signed := false
	switch b.Kind() {
	case types.Uint8:
		bits = 8
	case types.Uint16:
		bits = 16
	case types.Uint32:
		bits = 32
	case types.Uint64, types.Uint, types.Uintptr:
		bits = 64
	case types.Int8:
		bits, signed = 8, true
	case types.Int16:
		bits, signed = 16, true
	case types.Int32:
		bits, signed = 32, true
	case types.Int64, types.Int:
		bits, signed = 64, true
	default:
		return c
	}
	mod := constant.Shift(constant.MakeInt64(1), token.SHL, bits)
	v := c.V
	// v mod 2^bits
	q := constant.BinaryOp(v, token.QUO_ASSIGN, mod)
	v = constant.BinaryOp(v, token.SUB, constant.BinaryOp(q, token.MUL, mod))
	if constant.Sign(v) < 0 {
		v = constant.BinaryOp(v, token.ADD, mod)
	}
	if signed {
		half := constant.Shift(constant.MakeInt64(1), token.SHL, bits-1)
		if constant.Compare(v, token.GEQ, half) {
			v = constant.BinaryOp(v, token.SUB, mod)
		}
	}
	return Const{V: v, T: c.T, Dim: c.Dim}
}

// refine returns the state refined by assuming cond has the given truth value; nil if that is contradictory.
func (in *Interp) refine(g *core.Graph, cond ast.Expr, truth bool, st *State) *State {
	cond = ast.Unparen(cond)
	switch c := cond.(type) {
	case *ast.UnaryExpr:
		if c.Op == token.NOT {
			return in.refine(g, c.X, !truth, st)
		}
	case *ast.BinaryExpr:
		switch c.Op {
		case token.LAND:
			if truth {
				s := in.refine(g, c.X, true, st)
				if s == nil {
					return nil
				}
				return in.refine(g, c.Y, true, s)
			}
		case token.LOR:
			if !truth {
				s := in.refine(g, c.X, false, st)
				if s == nil {
					return nil
				}
				return in.refine(g, c.Y, false, s)
			}
		case token.EQL, token.NEQ:
			eq := (c.Op == token.EQL) == truth
			if s := in.refineEq(g, c.X, c.Y, eq, st); s != st {
				return s
			}
			return in.refineEq(g, c.Y, c.X, eq, st)
		}
	}
	return st
}

// pureVal evaluates side-effect-free operands (constants, nil, tracked locals) without forking; ok=false otherwise.
func (in *Interp) pureVal(g *core.Graph, e ast.Expr, st *State) (Val, bool) {
	e = ast.Unparen(e)
	if tv, ok := g.Info.Types[e]; ok && tv.Value != nil {
		return Const{V: tv.Value, T: tv.Type}, true
	}
	switch x := e.(type) {
	case *ast.Ident:
		r := in.evalExpr(g, x, st)
		return r[0].v, true
	case *ast.SelectorExpr:
		if in.pathOf(g, x, st) != "" {
			r := in.evalExpr(g, x, st)
			if len(r) == 1 {
				return r[0].v, true
			}
		}
	}
	return nil, false
}

// refineEq refines the location denoted by x given x == y (eq) or x != y; returns st unchanged when nothing is learnt, nil on contradiction.
func (in *Interp) refineEq(g *core.Graph, x, y ast.Expr, eq bool, st *State) *State {
	yv, ok := in.pureVal(g, y, st)
	if !ok {
		return st
	}
	xv, ok := in.pureVal(g, x, st)
	if !ok {
		return st
	}
	set := func(v Val) *State {
		s := st.clone()
		in.assignQuiet(g, x, v, s)
		return s
	}
	switch k := yv.(type) {
	case Nil:
		switch cur := xv.(type) {
		case Top:
			if eq {
				return set(Nil{})
			}
			return set(NonNil{Desc: "≠nil"})
		case Ref:
			if eq {
				if cur.NonNilRef {
					return nil
				}
				return set(Nil{})
			}
			cur.NonNilRef = true
			return set(cur)
		}
	case Const:
		switch xv.(type) {
		case Top, Ref:
			if eq {
				return set(k)
			}
		}
	}
	return st
}

// assignQuiet is assign without effect-trace recording (refinement is knowledge, not an effect).
func (in *Interp) assignQuiet(g *core.Graph, lhs ast.Expr, v Val, st *State) {
	lhs = ast.Unparen(lhs)
	switch l := lhs.(type) {
	case *ast.Ident:
		if obj := core.VarOf(g.Info, l); obj != nil && !(obj.Pkg() != nil && obj.Parent() == obj.Pkg().Scope()) {
			st.store[obj] = v
		}
	case *ast.SelectorExpr:
		if p := in.pathOf(g, l, st); p != "" {
			// refine written paths only; dimensions keep their enumerated value
			if _, isDim := st.dims[p]; !isDim {
				st.store[p] = v
			}
		}
	}
}
