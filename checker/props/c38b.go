package props

import (
	"go/ast"
	"go/constant"
	"go/token"
	"go/types"
	"reflect"
	"sort"
	"strings"

	"verif/checker/core"
)

// ---------------------------------------------------------------------------
// shared small helpers (C38)

// c38JSONName returns the JSON member name encoding/json uses for a struct field ("" if skipped).
func c38JSONName(st *types.Struct, i int) string {
	f := st.Field(i)
	if !f.Exported() {
		return ""
	}
	tag, ok := reflect.StructTag(st.Tag(i)).Lookup("json")
	if ok {
		name := strings.Split(tag, ",")[0]
		if name == "-" && !strings.Contains(tag, ",") {
			return ""
		}
		if name != "" {
			return name
		}
	}
	return f.Name()
}

func c38StructOf(t types.Type) *types.Struct {
	if p, ok := t.(*types.Pointer); ok {
		t = p.Elem()
	}
	st, _ := t.Underlying().(*types.Struct)
	return st
}

func c38NamedOf(t types.Type) *types.Named {
	if p, ok := t.(*types.Pointer); ok {
		t = p.Elem()
	}
	n, _ := t.(*types.Named)
	return n
}

func c38ConstString(info *types.Info, e ast.Expr) (string, bool) {
	tv, ok := info.Types[e]
	if !ok || tv.Value == nil || tv.Value.Kind() != constant.String {
		return "", false
	}
	return constant.StringVal(tv.Value), true
}

func c38IsPkgFunc(fn *types.Func, pkg, name string) bool {
	return fn != nil && fn.Pkg() != nil && fn.Pkg().Path() == pkg && fn.Name() == name
}

// c38AddrVar returns v for the expression &v.
func c38AddrVar(info *types.Info, e ast.Expr) *types.Var {
	u, ok := ast.Unparen(e).(*ast.UnaryExpr)
	if !ok || u.Op != token.AND {
		return nil
	}
	return core.VarOf(info, u.X)
}

// ---------------------------------------------------------------------------
// R2: UnmarshalStatsJSON dispatch

// c38StatsOracle: W3C webrtc-stats RTCStatsType value -> pion struct(s) that carry it
// (transcribed from the W3C "RTCStatsType" table and the doc comments of stats.go).
var c38StatsOracle = map[string][]string{
	"codec":               {"CodecStats"},
	"inbound-rtp":         {"InboundRTPStreamStats"},
	"outbound-rtp":        {"OutboundRTPStreamStats"},
	"remote-inbound-rtp":  {"RemoteInboundRTPStreamStats"},
	"remote-outbound-rtp": {"RemoteOutboundRTPStreamStats"},
	"csrc":                {"RTPContributingSourceStats"},
	"media-source":        {"AudioSourceStats", "VideoSourceStats"},
	"media-playout":       {"AudioPlayoutStats"},
	"peer-connection":     {"PeerConnectionStats"},
	"data-channel":        {"DataChannelStats"},
	"stream":              {"MediaStreamStats"},
	"track":               {"SenderAudioTrackAttachmentStats", "SenderVideoTrackAttachmentStats"},
	"sender":              {"AudioSenderStats", "VideoSenderStats"},
	"receiver":            {"AudioReceiverStats", "VideoReceiverStats"},
	"transport":           {"TransportStats"},
	"candidate-pair":      {"ICECandidatePairStats"},
	"local-candidate":     {"ICECandidateStats"},
	"remote-candidate":    {"ICECandidateStats"},
	"certificate":         {"CertificateStats"},
	"sctp-transport":      {"SCTPTransportStats"},
}

// c38DecodedTypes: the Stats struct types function fi json.Unmarshals its first parameter into and returns.
func c38DecodedTypes(fi *core.FuncInfo, implementsStats func(types.Type) bool) map[string]bool {
	out := map[string]bool{}
	info := fi.Pkg.TypesInfo
	sig := fi.Obj.Type().(*types.Signature)
	if sig.Params().Len() < 1 {
		return out
	}
	p0 := sig.Params().At(0)
	decoded := map[*types.Var]bool{}
	ast.Inspect(fi.Decl.Body, func(n ast.Node) bool {
		call, ok := n.(*ast.CallExpr)
		if !ok || len(call.Args) != 2 || !c38IsPkgFunc(core.Callee(info, call), "encoding/json", "Unmarshal") {
			return true
		}
		if core.VarOf(info, call.Args[0]) != p0 {
			return true
		}
		if v := c38AddrVar(info, call.Args[1]); v != nil && implementsStats(v.Type()) {
			decoded[v] = true
		}
		return true
	})
	ast.Inspect(fi.Decl.Body, func(n ast.Node) bool {
		ret, ok := n.(*ast.ReturnStmt)
		if !ok || len(ret.Results) == 0 {
			return true
		}
		if v := core.VarOf(info, ret.Results[0]); v != nil && decoded[v] {
			if nm := c38NamedOf(v.Type()); nm != nil {
				out[nm.Obj().Name()] = true
			}
		}
		return true
	})
	return out
}

func c38R2(c *Ctx) {
	r := c.R
	const R = "C38.R2"
	fi := c.mustFunc(R, "", "UnmarshalStatsJSON")
	statsType := c.P.Named("", "StatsType")
	statsNamed := c.P.Named("", "Stats")
	if statsType == nil || statsNamed == nil {
		r.Fail(R, "anchor:StatsType/Stats", "-", "anchored types no longer resolve (fails closed)")
		return
	}
	if fi == nil {
		return
	}
	iface, _ := statsNamed.Underlying().(*types.Interface)
	if iface == nil {
		r.Fail(R, "anchor:Stats", "-", "Stats is no longer an interface")
		return
	}
	implementsStats := func(t types.Type) bool {
		n := c38NamedOf(t)
		if n == nil || c38StructOf(n) == nil {
			return false
		}
		return types.Implements(n, iface) || types.Implements(types.NewPointer(n), iface)
	}
	pk := c.P.Pkg("")
	info := pk.TypesInfo
	pos := c.P.Pos(fi.Decl.Pos())
	g := c.P.GraphOf(fi)
	p0 := fi.Obj.Type().(*types.Signature).Params().At(0)

	// ---- the constants: every constant declared in a const group that contains a StatsType constant
	type kconst struct {
		obj *types.Const
		val string
	}
	var consts []kconst
	for _, f := range pk.Syntax {
		for _, d := range f.Decls {
			gd, ok := d.(*ast.GenDecl)
			if !ok || gd.Tok != token.CONST {
				continue
			}
			var group []kconst
			has := false
			for _, sp := range gd.Specs {
				for _, nm := range sp.(*ast.ValueSpec).Names {
					k, ok := info.Defs[nm].(*types.Const)
					if !ok || k.Val().Kind() != constant.String {
						continue
					}
					group = append(group, kconst{k, constant.StringVal(k.Val())})
					if types.Identical(k.Type(), statsType) {
						has = true
					}
				}
			}
			if has {
				consts = append(consts, group...)
			}
		}
	}
	if len(consts) == 0 {
		r.Fail(R, "anchor:StatsType-constants", pos, "no StatsType constants found (fails closed)")
		return
	}

	// ---- the dispatch switch
	var sw *ast.SwitchStmt
	nsw := 0
	ast.Inspect(fi.Decl.Body, func(n ast.Node) bool {
		if s, ok := n.(*ast.SwitchStmt); ok && s.Tag != nil && types.Identical(info.TypeOf(s.Tag), statsType) {
			sw = s
			nsw++
		}
		return true
	})
	if nsw != 1 {
		r.Undecided(R, "UnmarshalStatsJSON|dispatch-switch", pos, sprintf("expected exactly one switch over a StatsType value, found %d", nsw))
		return
	}
	{
		key := "UnmarshalStatsJSON|switch-on-decoded-type-member"
		ok, why := false, ""
		if se, isSel := ast.Unparen(sw.Tag).(*ast.SelectorExpr); !isSel {
			why = "switch tag is not a member of the decoded holder"
		} else if holder := core.VarOf(info, se.X); holder == nil {
			why = "switch tag is not a member of a local holder variable"
		} else {
			fld := core.FieldOf(info, se)
			st := c38StructOf(holder.Type())
			name := ""
			if st != nil && fld != nil {
				for i := 0; i < st.NumFields(); i++ {
					if st.Field(i) == fld {
						name = c38JSONName(st, i)
					}
				}
			}
			dec := g.FindNodes(func(n ast.Node) bool {
				call, isCall := n.(*ast.CallExpr)
				return isCall && len(call.Args) == 2 && c38IsPkgFunc(core.Callee(info, call), "encoding/json", "Unmarshal") &&
					core.VarOf(info, call.Args[0]) == p0 && c38AddrVar(info, call.Args[1]) == holder
			})
			tagNodes := g.FindNodes(func(n ast.Node) bool { return n == ast.Node(sw.Tag) })
			switch {
			case name != "type":
				why = sprintf("the switch reads JSON member %q, the Stats structs label themselves in member \"type\"", name)
			case len(dec) == 0:
				why = "the holder is never decoded from the input bytes"
			case len(tagNodes) == 0 || !g.Dominated(tagNodes[0], core.NodeSet(dec)):
				why = "the switch can be reached without decoding the holder from the input bytes"
			default:
				ok = true
			}
		}
		r.Check(ok, R, key, c.P.Pos(sw.Pos()), "switches on member \"type\" decoded from the input", why)
	}

	// ---- cases
	caseOf := map[string]*ast.CaseClause{}
	for _, cl := range sw.Body.List {
		cc := cl.(*ast.CaseClause)
		for _, e := range cc.List {
			if v, ok := c38ConstString(info, e); ok {
				if caseOf[v] == nil {
					caseOf[v] = cc
				}
			} else {
				r.Undecided(R, "UnmarshalStatsJSON|case-expr|"+exprStr(e), c.P.Pos(e.Pos()), "case expression is not a constant")
			}
		}
	}
	// labelling sites in the module: S{Type: K} and x.Type = K
	labelled := map[string]map[string]bool{}
	constVal := func(pinfo *types.Info, e ast.Expr) (string, bool) {
		v, ok := c38ConstString(pinfo, e)
		if !ok {
			return "", false
		}
		for _, k := range consts {
			if k.val == v {
				return v, true
			}
		}
		return "", false
	}
	isTypeField := func(v *types.Var) bool {
		return v != nil && v.IsField() && types.Identical(v.Type(), statsType)
	}
	for _, p := range c.P.Pkgs {
		pinfo := p.TypesInfo
		for _, f := range p.Syntax {
			ast.Inspect(f, func(n ast.Node) bool {
				switch x := n.(type) {
				case *ast.CompositeLit:
					t := pinfo.TypeOf(x)
					if t == nil || !implementsStats(t) {
						return true
					}
					for _, el := range x.Elts {
						kv, ok := el.(*ast.KeyValueExpr)
						if !ok {
							continue
						}
						id, ok := kv.Key.(*ast.Ident)
						if !ok {
							continue
						}
						if fv, _ := pinfo.Uses[id].(*types.Var); isTypeField(fv) {
							if v, ok := constVal(pinfo, kv.Value); ok {
								if labelled[v] == nil {
									labelled[v] = map[string]bool{}
								}
								labelled[v][c38NamedOf(t).Obj().Name()] = true
							}
						}
					}
				case *ast.AssignStmt:
					if len(x.Lhs) != len(x.Rhs) {
						return true
					}
					for i, l := range x.Lhs {
						se, ok := ast.Unparen(l).(*ast.SelectorExpr)
						if !ok || !isTypeField(core.FieldOf(pinfo, se)) {
							continue
						}
						t := pinfo.TypeOf(se.X)
						if t == nil || !implementsStats(t) {
							continue
						}
						if v, ok := constVal(pinfo, x.Rhs[i]); ok {
							if labelled[v] == nil {
								labelled[v] = map[string]bool{}
							}
							labelled[v][c38NamedOf(t).Obj().Name()] = true
						}
					}
				}
				return true
			})
		}
	}

	decodable := map[string]bool{}
	decodedBy := map[*ast.CaseClause]map[string]bool{}
	for _, k := range consts {
		cc := caseOf[k.val]
		kpos := c.P.Pos(k.obj.Pos())
		if !r.Check(cc != nil, R, "UnmarshalStatsJSON|case|"+k.obj.Name(), kpos, "has a case", sprintf("no case for %s (%q): a Stats object of this type cannot be decoded", k.obj.Name(), k.val)) {
			continue
		}
		got := decodedBy[cc]
		if got == nil {
			got = map[string]bool{}
			for _, call := range c38CallsInStmts(cc.Body) {
				fn := core.Callee(info, call)
				dfi := c.P.DeclOf(fn)
				if dfi == nil || dfi.Decl.Body == nil || len(call.Args) < 1 || core.VarOf(info, call.Args[0]) != p0 {
					continue
				}
				r.Saw(dfi.Name())
				for s := range c38DecodedTypes(dfi, implementsStats) {
					got[s] = true
				}
			}
			// decoding in place (no helper)
			for s := range c38DecodedInStmts(info, cc.Body, p0, implementsStats) {
				got[s] = true
			}
			decodedBy[cc] = got
		}
		for s := range got {
			decodable[s] = true
		}
		key := "UnmarshalStatsJSON|decodes|" + k.obj.Name()
		cpos := c.P.Pos(cc.Pos())
		want := map[string]bool{}
		for _, s := range c38StatsOracle[k.val] {
			want[s] = true
		}
		for s := range labelled[k.val] {
			want[s] = true
		}
		switch {
		case len(got) == 0:
			r.Undecided(R, key, cpos, "the case does not hand the input bytes to a recognisable decoder (json.Unmarshal into a Stats struct that is returned)")
		case len(want) == 0:
			r.Info(R, key, cpos, "no oracle for this constant (not in the transcribed table, never used as a label in the module); decodes "+joinSorted(got))
		case joinSorted(got) != joinSorted(want):
			r.Fail(R, key, cpos, sprintf("type %q is decoded into {%s}; the structs labelled with it are {%s}", k.val, joinSorted(got), joinSorted(want)))
		default:
			r.OK(R, key, cpos, "decodes "+joinSorted(got))
		}
	}
	r.Cells += len(consts)

	// ---- every Stats implementation is decodable and carries the type member
	sc := pk.Types.Scope()
	for _, nm := range sc.Names() {
		tn, ok := sc.Lookup(nm).(*types.TypeName)
		if !ok || tn.IsAlias() || !implementsStats(tn.Type()) {
			continue
		}
		tpos := c.P.Pos(tn.Pos())
		r.Check(decodable[nm], R, "Stats-impl-decodable|"+nm, tpos, "reachable from a case of UnmarshalStatsJSON", "implements Stats but no case of UnmarshalStatsJSON decodes into it")
		st := c38StructOf(tn.Type())
		ok = false
		for i := 0; i < st.NumFields(); i++ {
			if c38JSONName(st, i) == "type" && types.Identical(st.Field(i).Type(), statsType) {
				ok = true
			}
		}
		r.Check(ok, R, "type-member|"+nm, tpos, "has a StatsType member named \"type\"", "has no StatsType member with JSON name \"type\": the dispatcher cannot recognise its encoding")
	}
}

func c38CallsInStmts(stmts []ast.Stmt) []*ast.CallExpr {
	var out []*ast.CallExpr
	for _, s := range stmts {
		out = append(out, core.CallsIn(s)...)
	}
	return out
}

func c38DecodedInStmts(info *types.Info, stmts []ast.Stmt, p0 *types.Var, implementsStats func(types.Type) bool) map[string]bool {
	out := map[string]bool{}
	decoded := map[*types.Var]bool{}
	for _, s := range stmts {
		ast.Inspect(s, func(n ast.Node) bool {
			if call, ok := n.(*ast.CallExpr); ok && len(call.Args) == 2 && c38IsPkgFunc(core.Callee(info, call), "encoding/json", "Unmarshal") && core.VarOf(info, call.Args[0]) == p0 {
				if v := c38AddrVar(info, call.Args[1]); v != nil && implementsStats(v.Type()) {
					decoded[v] = true
				}
			}
			return true
		})
	}
	for _, s := range stmts {
		ast.Inspect(s, func(n ast.Node) bool {
			if ret, ok := n.(*ast.ReturnStmt); ok && len(ret.Results) > 0 {
				if v := core.VarOf(info, ret.Results[0]); v != nil && decoded[v] {
					out[c38NamedOf(v.Type()).Obj().Name()] = true
				}
			}
			return true
		})
	}
	return out
}

// ---------------------------------------------------------------------------
// R3: key agreement

// W3C dictionary members (webrtc §4.7.x RTCSessionDescriptionInit, §4.8.1 RTCIceCandidateInit).
var c38W3CMembers = map[string][]string{
	"SessionDescription": {"type", "sdp"},
	"ICECandidateInit":   {"candidate", "sdpMid", "sdpMLineIndex", "usernameFragment"},
}

func c38R3(c *Ctx) {
	c38ICEServer(c)
	c38PEM(c)
	c38Tags(c)
}

func c38ICEServer(c *Ctx) {
	r := c.R
	const R = "C38.R3"
	marshal := c.mustFunc(R, "", "ICEServer.MarshalJSON")
	unmarshal := c.mustFunc(R, "", "ICEServer.UnmarshalJSON")
	reader := c.mustFunc(R, "", "ICEServer.iceserverUnmarshalFields")
	oauth := c.mustFunc(R, "", "iceserverUnmarshalOauth")
	srv := c.P.Named("", "ICEServer")
	if marshal == nil || unmarshal == nil || reader == nil || oauth == nil || srv == nil {
		return
	}
	info := marshal.Pkg.TypesInfo
	srvStruct := c38StructOf(srv)
	isSrvField := func(v *types.Var) bool {
		if v == nil {
			return false
		}
		for i := 0; i < srvStruct.NumFields(); i++ {
			if srvStruct.Field(i) == v {
				return true
			}
		}
		return false
	}
	fieldsIn := func(n ast.Node) map[*types.Var]bool {
		out := map[*types.Var]bool{}
		ast.Inspect(n, func(x ast.Node) bool {
			if se, ok := x.(*ast.SelectorExpr); ok {
				if v := core.FieldOf(info, se); isSrvField(v) {
					out[v] = true
				}
			}
			return true
		})
		return out
	}
	// ---- writer
	type wkey struct {
		fields map[*types.Var]bool
		pos    token.Pos
		rhs    ast.Expr
		stmt   *ast.AssignStmt
	}
	written := map[string]*wkey{}
	mapVars := map[*types.Var]bool{}
	ast.Inspect(marshal.Decl.Body, func(n ast.Node) bool {
		as, ok := n.(*ast.AssignStmt)
		if !ok || len(as.Lhs) != len(as.Rhs) {
			return true
		}
		for i, l := range as.Lhs {
			ix, ok := ast.Unparen(l).(*ast.IndexExpr)
			if !ok {
				continue
			}
			mv := core.VarOf(info, ix.X)
			if mv == nil {
				continue
			}
			if _, isMap := mv.Type().Underlying().(*types.Map); !isMap {
				continue
			}
			k, ok := c38ConstString(info, ix.Index)
			if !ok {
				r.Undecided(R, "ICEServer|json-key|dynamic:"+exprStr(ix.Index), c.P.Pos(ix.Pos()), "MarshalJSON writes a non-constant key")
				continue
			}
			mapVars[mv] = true
			if written[k] == nil {
				written[k] = &wkey{fields: map[*types.Var]bool{}, pos: as.Pos(), rhs: as.Rhs[i], stmt: as}
			}
			for f := range fieldsIn(as.Rhs[i]) {
				written[k].fields[f] = true
			}
		}
		return true
	})
	{
		// the map that is filled is the one that is encoded and returned
		ok := false
		ast.Inspect(marshal.Decl.Body, func(n ast.Node) bool {
			ret, isRet := n.(*ast.ReturnStmt)
			if !isRet {
				return true
			}
			for _, call := range core.CallsIn(ret) {
				if c38IsPkgFunc(core.Callee(info, call), "encoding/json", "Marshal") && len(call.Args) == 1 && mapVars[core.VarOf(info, call.Args[0])] {
					ok = true
				}
			}
			return true
		})
		r.Check(ok && len(mapVars) == 1, R, "ICEServer|MarshalJSON-encodes-the-filled-map", c.P.Pos(marshal.Decl.Pos()), "returns json.Marshal of the map it fills", "MarshalJSON does not return json.Marshal of the (single) map it fills")
	}
	// ---- reader
	type rkey struct {
		fields map[*types.Var]bool
		pos    token.Pos
		ifs    *ast.IfStmt
		val    *types.Var
	}
	read := map[string]*rkey{}
	fieldsParam := reader.Obj.Type().(*types.Signature).Params().At(0)
	claimed := map[*ast.IndexExpr]bool{}
	ast.Inspect(reader.Decl.Body, func(n ast.Node) bool {
		is, ok := n.(*ast.IfStmt)
		if !ok || is.Init == nil {
			return true
		}
		as, ok := is.Init.(*ast.AssignStmt)
		if !ok || len(as.Rhs) != 1 {
			return true
		}
		ix, ok := ast.Unparen(as.Rhs[0]).(*ast.IndexExpr)
		if !ok || core.VarOf(info, ix.X) != fieldsParam {
			return true
		}
		k, ok := c38ConstString(info, ix.Index)
		if !ok {
			return true
		}
		claimed[ix] = true
		if read[k] == nil {
			read[k] = &rkey{fields: map[*types.Var]bool{}, pos: is.Pos(), ifs: is}
			if len(as.Lhs) >= 1 {
				read[k].val = core.VarOf(info, as.Lhs[0])
			}
		}
		// fields assigned in the then-branch
		ast.Inspect(is.Body, func(x ast.Node) bool {
			if a, ok := x.(*ast.AssignStmt); ok {
				for _, l := range a.Lhs {
					if v := core.FieldOf(info, l); isSrvField(v) {
						read[k].fields[v] = true
					}
				}
			}
			return true
		})
		return true
	})
	ast.Inspect(reader.Decl.Body, func(n ast.Node) bool {
		if ix, ok := n.(*ast.IndexExpr); ok && core.VarOf(info, ix.X) == fieldsParam && !claimed[ix] {
			k, isConst := c38ConstString(info, ix.Index)
			if !isConst {
				k = "dynamic:" + exprStr(ix.Index)
			}
			r.Undecided(R, "ICEServer|json-key|"+k, c.P.Pos(ix.Pos()), "key read outside the `if v, ok := fields[k]; ok {...}` idiom: cannot tell which field it fills")
		}
		return true
	})
	keys := map[string]bool{}
	for k := range written {
		keys[k] = true
	}
	for k := range read {
		keys[k] = true
	}
	fnames := func(m map[*types.Var]bool) string {
		s := map[string]bool{}
		for v := range m {
			s[v.Name()] = true
		}
		return joinSorted(s)
	}
	for _, k := range sortedKeys(keys) {
		key := "ICEServer|json-key|" + k
		w, rd := written[k], read[k]
		switch {
		case w == nil:
			r.Fail(R, key, c.P.Pos(rd.pos), sprintf("iceserverUnmarshalFields reads key %q (into %s) but MarshalJSON never writes it", k, fnames(rd.fields)))
		case rd == nil:
			r.Fail(R, key, c.P.Pos(w.pos), sprintf("MarshalJSON writes key %q (from %s) but iceserverUnmarshalFields never reads it: the member is lost on decode", k, fnames(w.fields)))
		default:
			common := false
			for f := range w.fields {
				if rd.fields[f] {
					common = true
				}
			}
			r.Check(common && len(w.fields) == 1, R, key, c.P.Pos(w.pos), sprintf("written from and read into %s", fnames(w.fields)),
				sprintf("key %q is written from field(s) {%s} but read into {%s}", k, fnames(w.fields), fnames(rd.fields)))
		}
	}
	for i := 0; i < srvStruct.NumFields(); i++ {
		f := srvStruct.Field(i)
		if !f.Exported() {
			continue
		}
		found := false
		for _, w := range written {
			if w.fields[f] {
				found = true
			}
		}
		r.Check(found, R, "ICEServer|field-encoded|"+f.Name(), c.P.Pos(f.Pos()), "encoded under some key", "exported field is never written by MarshalJSON: it does not survive the encoding")
	}
	// ---- R5: a value the writer can encode as JSON null must be accepted by the reader
	par := c29Parents(marshal.Decl.Body)
	for _, k := range sortedKeys(keys) {
		w, rd := written[k], read[k]
		if w == nil || rd == nil {
			continue
		}
		key := "ICEServer.iceserverUnmarshalFields|key:" + k + "|accepts-null"
		mayNull, whyW := c38MayEncodeNull(info, par, w.stmt, w.rhs)
		if !mayNull {
			c.R.OK("C38.R5", key, c.P.Pos(w.pos), "the writer never encodes null here: "+whyW)
			continue
		}
		if rd.val == nil {
			c.R.Undecided("C38.R5", key, c.P.Pos(rd.pos), "the decoded value is not bound to a variable")
			continue
		}
		rejects, whyR := c38RejectsNil(c, reader, rd.ifs.Body, rd.val, 0)
		c.R.Check(!rejects, "C38.R5", key, c.P.Pos(rd.pos), "the writer may encode null ("+whyW+"); the reader accepts it",
			sprintf("MarshalJSON may write %q: null (%s) but the decoder rejects a null value: %s", k, whyW, whyR))
	}
	{
		ok := false
		ast.Inspect(unmarshal.Decl.Body, func(n ast.Node) bool {
			if call, isCall := n.(*ast.CallExpr); isCall && core.IsCallTo(info, call, reader.Obj) {
				ok = true
			}
			return true
		})
		r.Check(ok, R, "ICEServer|UnmarshalJSON-uses-field-reader", c.P.Pos(unmarshal.Decl.Pos()), "delegates to iceserverUnmarshalFields", "UnmarshalJSON no longer goes through iceserverUnmarshalFields: the key-agreement obligations do not describe the decoder")
	}
	// ---- OAuth credential: keys read == JSON member names written by the default struct encoder
	oc := c.P.Named("", "OAuthCredential")
	if oc == nil {
		r.Fail(R, "anchor:OAuthCredential", "-", "anchored type no longer resolves")
		return
	}
	ocs := c38StructOf(oc)
	jsonNameOf := map[*types.Var]string{}
	for i := 0; i < ocs.NumFields(); i++ {
		if n := c38JSONName(ocs, i); n != "" {
			jsonNameOf[ocs.Field(i)] = n
		}
	}
	// local var -> key it was read from
	og := c.P.GraphOf(oauth)
	fromKey := map[*types.Var]string{}
	ast.Inspect(oauth.Decl.Body, func(n ast.Node) bool {
		as, ok := n.(*ast.AssignStmt)
		if !ok || len(as.Rhs) != 1 || len(as.Lhs) < 1 {
			return true
		}
		ta, ok := ast.Unparen(as.Rhs[0]).(*ast.TypeAssertExpr)
		if !ok {
			return true
		}
		ix, ok := ast.Unparen(ta.X).(*ast.IndexExpr)
		if !ok {
			return true
		}
		if k, ok := c38ConstString(info, ix.Index); ok {
			if v := core.VarOf(info, as.Lhs[0]); v != nil {
				fromKey[v] = k
			}
		}
		return true
	})
	_ = og
	seenField := map[*types.Var]bool{}
	ast.Inspect(oauth.Decl.Body, func(n ast.Node) bool {
		cl, ok := n.(*ast.CompositeLit)
		if !ok || c38NamedOf(info.TypeOf(cl)) != oc {
			return true
		}
		for _, el := range cl.Elts {
			kv, ok := el.(*ast.KeyValueExpr)
			if !ok {
				continue
			}
			id, _ := kv.Key.(*ast.Ident)
			if id == nil {
				continue
			}
			fv, _ := info.Uses[id].(*types.Var)
			if fv == nil {
				continue
			}
			seenField[fv] = true
			key := "OAuthCredential|json-key|" + fv.Name()
			src := core.VarOf(info, kv.Value)
			k, known := fromKey[src]
			switch {
			case !known:
				r.Undecided(R, key, c.P.Pos(kv.Pos()), "cannot tell which key this member is read from")
			case k != jsonNameOf[fv]:
				r.Fail(R, key, c.P.Pos(kv.Pos()), sprintf("member %s is encoded under %q (default struct encoding) but read from key %q", fv.Name(), jsonNameOf[fv], k))
			default:
				r.OK(R, key, c.P.Pos(kv.Pos()), sprintf("read from %q", k))
			}
		}
		return true
	})
	for fv, n := range jsonNameOf {
		if !seenField[fv] {
			r.Fail(R, "OAuthCredential|json-key|"+fv.Name(), c.P.Pos(fv.Pos()), sprintf("member %s (encoded as %q) is never filled by iceserverUnmarshalOauth", fv.Name(), n))
		}
	}
}

func c38PEM(c *Ctx) {
	r := c.R
	const R = "C38.R3"
	writer := c.mustFunc(R, "", "Certificate.PEM")
	rd := c.mustFunc(R, "", "CertificateFromPEM")
	if writer == nil || rd == nil {
		return
	}
	info := writer.Pkg.TypesInfo
	isPemBlock := func(t types.Type) bool {
		n := c38NamedOf(t)
		return n != nil && n.Obj().Pkg() != nil && n.Obj().Pkg().Path() == "encoding/pem" && n.Obj().Name() == "Block"
	}
	// codec pairs: how the bytes of a block are produced <-> the x509 parser that must read them
	parserFor := map[string]string{
		"field:x509.Certificate.Raw":       "ParseCertificate",
		"call:x509.MarshalPKCS8PrivateKey": "ParsePKCS8PrivateKey",
		"call:x509.MarshalPKCS1PrivateKey": "ParsePKCS1PrivateKey",
		"call:x509.MarshalECPrivateKey":    "ParseECPrivateKey",
		"call:x509.MarshalPKIXPublicKey":   "ParsePKIXPublicKey",
	}
	wg := c.P.GraphOf(writer)
	type wblock struct {
		src string
		pos token.Pos
	}
	written := map[string]wblock{}
	for _, n := range wg.Nodes {
		if n.Ast == nil {
			continue
		}
		core.InspectShallow(n.Ast, func(x ast.Node) bool {
			cl, ok := x.(*ast.CompositeLit)
			if !ok || !isPemBlock(info.TypeOf(cl)) {
				return true
			}
			typ, src := "", "?"
			for _, el := range cl.Elts {
				kv, ok := el.(*ast.KeyValueExpr)
				if !ok {
					continue
				}
				id, _ := kv.Key.(*ast.Ident)
				if id == nil {
					continue
				}
				switch id.Name {
				case "Type":
					typ, _ = c38ConstString(info, kv.Value)
				case "Bytes":
					src = c38BytesSource(wg, n.ID, kv.Value)
				}
			}
			if typ == "" {
				r.Undecided(R, "PEM|block-type|dynamic", c.P.Pos(cl.Pos()), "pem.Block written with a non-constant Type")
				return true
			}
			written[typ] = wblock{src, cl.Pos()}
			return true
		})
	}
	// reader: switch on block.Type
	var sw *ast.SwitchStmt
	ast.Inspect(rd.Decl.Body, func(n ast.Node) bool {
		if s, ok := n.(*ast.SwitchStmt); ok && s.Tag != nil {
			if se, ok := ast.Unparen(s.Tag).(*ast.SelectorExpr); ok && se.Sel.Name == "Type" && isPemBlock(info.TypeOf(se.X)) {
				sw = s
			}
		}
		return true
	})
	if sw == nil {
		r.Undecided(R, "PEM|reader-switch", c.P.Pos(rd.Decl.Pos()), "CertificateFromPEM has no switch over pem.Block.Type")
		return
	}
	parsers := map[string]map[string]bool{}
	for _, cl := range sw.Body.List {
		cc := cl.(*ast.CaseClause)
		ps := map[string]bool{}
		isBlockBytes := func(e ast.Expr) bool {
			se, ok := ast.Unparen(e).(*ast.SelectorExpr)
			return ok && se.Sel.Name == "Bytes" && isPemBlock(info.TypeOf(se.X))
		}
		for _, st := range cc.Body {
			c38X509ParsersOn(c, info, st, isBlockBytes, ps, 0)
		}
		for _, e := range cc.List {
			if v, ok := c38ConstString(info, e); ok {
				parsers[v] = ps
			}
		}
	}
	if len(written) == 0 {
		r.Fail(R, "PEM|blocks-written", c.P.Pos(writer.Decl.Pos()), "Certificate.PEM writes no pem.Block")
	}
	var types_ []string
	for t := range written {
		types_ = append(types_, t)
	}
	sort.Strings(types_)
	for _, t := range types_ {
		w := written[t]
		key := "PEM|block-type|" + t
		ps, ok := parsers[t]
		want := parserFor[w.src]
		switch {
		case !ok:
			r.Fail(R, key, c.P.Pos(w.pos), sprintf("Certificate.PEM writes a %q block but CertificateFromPEM has no case for it", t))
		case want == "":
			r.Undecided(R, key, c.P.Pos(w.pos), "cannot classify how the block bytes are produced ("+w.src+")")
		case !ps[want]:
			r.Fail(R, key, c.P.Pos(w.pos), sprintf("the %q block carries %s, which x509.%s reads, but the reader's case parses it with {%s}", t, strings.TrimPrefix(strings.TrimPrefix(w.src, "field:"), "call:"), want, joinSorted(ps)))
		default:
			r.OK(R, key, c.P.Pos(w.pos), sprintf("carries %s, read by x509.%s", w.src, want))
		}
	}
}

// c38BytesSource classifies the expression that provides a pem block's bytes.
func c38BytesSource(g *core.Graph, at int, e ast.Expr) string {
	info := g.Info
	e = ast.Unparen(e)
	if se, ok := e.(*ast.SelectorExpr); ok {
		if fv := core.FieldOf(info, se); fv != nil && fv.Pkg() != nil {
			owner := ""
			if n := c38NamedOf(info.TypeOf(se.X)); n != nil {
				owner = n.Obj().Name()
			}
			pkg := fv.Pkg().Name()
			return "field:" + pkg + "." + owner + "." + fv.Name()
		}
	}
	if v := core.VarOf(info, e); v != nil {
		d, ok := c23SingleDef(g, at, v)
		if !ok || d.RHS == nil {
			return "var-without-single-definition:" + v.Name()
		}
		if call, isCall := ast.Unparen(d.RHS).(*ast.CallExpr); isCall {
			if fn := core.Callee(info, call); fn != nil && fn.Pkg() != nil {
				return "call:" + fn.Pkg().Name() + "." + fn.Name()
			}
		}
		return "expr:" + exprStr(d.RHS)
	}
	return "expr:" + exprStr(e)
}

func c38Tags(c *Ctx) {
	r := c.R
	const R = "C38.R3"
	var names []string
	for n := range c38W3CMembers {
		names = append(names, n)
	}
	sort.Strings(names)
	for _, tn := range names {
		named := c.P.Named("", tn)
		if named == nil || c38StructOf(named) == nil {
			r.Fail(R, "anchor:"+tn, "-", "anchored struct no longer resolves")
			continue
		}
		st := c38StructOf(named)
		pos := c.P.Pos(named.Obj().Pos())
		have := map[string][]string{}
		for i := 0; i < st.NumFields(); i++ {
			if n := c38JSONName(st, i); n != "" {
				have[n] = append(have[n], st.Field(i).Name())
			}
		}
		var dups []string
		for n, fs := range have {
			if len(fs) > 1 {
				dups = append(dups, sprintf("%q names fields %s", n, strings.Join(fs, ",")))
			}
		}
		sort.Strings(dups)
		r.Check(len(dups) == 0, R, tn+"|json-members-unique", pos, sprintf("%d members, names unique", len(have)), "duplicate JSON member names (encoding/json drops both): "+strings.Join(dups, "; "))
		want := map[string]bool{}
		for _, m := range c38W3CMembers[tn] {
			want[m] = true
			r.Check(len(have[m]) == 1, R, tn+"|json-member|"+m, pos, "member present (field "+strings.Join(have[m], ",")+")", sprintf("no field is encoded as W3C member %q (members: %s)", m, strings.Join(sortedKeys(func() map[string]bool {
				s := map[string]bool{}
				for k := range have {
					s[k] = true
				}
				return s
			}()), ",")))
		}
		for n := range have {
			if !want[n] {
				r.Info(R, tn+"|json-member|"+n, pos, "member not in the W3C dictionary (listed)")
			}
		}
	}
}

// c38MayEncodeNull: the expression stored under a JSON key has a nilable type and the store is not
// guarded by a non-nil / non-empty test of that same expression.
func c38MayEncodeNull(info *types.Info, par map[ast.Node]ast.Node, stmt *ast.AssignStmt, rhs ast.Expr) (bool, string) {
	t := info.TypeOf(rhs)
	if t == nil {
		return true, "untyped"
	}
	if n := c38NamedOf(t); n != nil {
		// a named type with its own MarshalJSON/MarshalText decides its encoding itself
		for _, m := range []string{"MarshalJSON", "MarshalText"} {
			if obj, _, _ := types.LookupFieldOrMethod(t, true, n.Obj().Pkg(), m); obj != nil {
				return false, "type has " + m
			}
		}
	}
	kind := ""
	switch t.Underlying().(type) {
	case *types.Slice:
		kind = "nil slice"
	case *types.Map:
		kind = "nil map"
	case *types.Pointer:
		kind = "nil pointer"
	case *types.Interface:
		kind = "nil interface"
	default:
		return false, "non-nilable type " + t.String()
	}
	same := func(a, b ast.Expr) bool {
		fa, fb := core.FieldOf(info, a), core.FieldOf(info, b)
		if fa != nil || fb != nil {
			return fa == fb && core.CanonExpr(a) == core.CanonExpr(b)
		}
		va, vb := core.VarOf(info, a), core.VarOf(info, b)
		return va != nil && va == vb
	}
	// enclosing if-statements whose condition implies rhs != nil on the then-branch
	var cur ast.Node = stmt
	for cur != nil {
		p := par[cur]
		if is, ok := p.(*ast.IfStmt); ok && cur == ast.Node(is.Body) {
			guarded := false
			ast.Inspect(is.Cond, func(n ast.Node) bool {
				be, ok := n.(*ast.BinaryExpr)
				if !ok {
					return true
				}
				switch be.Op {
				case token.NEQ:
					if (core.IsNilIdent(info, be.Y) && same(be.X, rhs)) || (core.IsNilIdent(info, be.X) && same(be.Y, rhs)) {
						guarded = true
					}
				case token.GTR:
					if call, ok := ast.Unparen(be.X).(*ast.CallExpr); ok && len(call.Args) == 1 {
						if id, ok := call.Fun.(*ast.Ident); ok && id.Name == "len" && same(call.Args[0], rhs) {
							guarded = true
						}
					}
				}
				return true
			})
			// only conjunctions keep the implication
			hasOr := false
			ast.Inspect(is.Cond, func(n ast.Node) bool {
				if be, ok := n.(*ast.BinaryExpr); ok && be.Op == token.LOR {
					hasOr = true
				}
				return true
			})
			if guarded && !hasOr {
				return false, "stored only when non-nil"
			}
		}
		cur = p
	}
	return true, kind + " of type " + t.String() + " is stored unconditionally"
}

// c38RejectsNil reports whether a nil interface value held in v is rejected by the statements of body
// (in function fi): it reaches a type assertion to a concrete type without a preceding v == nil diversion,
// directly or through a same-package helper that receives v as an argument.
func c38RejectsNil(c *Ctx, fi *core.FuncInfo, body ast.Node, v *types.Var, depth int) (bool, string) {
	info := fi.Pkg.TypesInfo
	g := c.P.GraphOf(fi)
	if g == nil {
		return true, "no CFG"
	}
	// edges a nil value cannot take
	nonNil := map[core.EdgeRef]bool{}
	for _, n := range g.Nodes {
		if len(n.Succs) != 2 || n.Succs[0].Cond == nil || n.Succs[0].Tag != nil {
			continue
		}
		be, ok := ast.Unparen(n.Succs[0].Cond).(*ast.BinaryExpr)
		if !ok || (be.Op != token.EQL && be.Op != token.NEQ) {
			continue
		}
		if !((core.IsNilIdent(info, be.Y) && core.VarOf(info, be.X) == v) || (core.IsNilIdent(info, be.X) && core.VarOf(info, be.Y) == v)) {
			continue
		}
		if be.Op == token.EQL {
			nonNil[core.EdgeRef{From: n.ID, Idx: 1}] = true // false edge of v == nil
		} else {
			nonNil[core.EdgeRef{From: n.ID, Idx: 0}] = true // true edge of v != nil
		}
	}
	reach := g.ReachFromEntry(nil, func(from, idx int, e core.Edge) bool { return nonNil[core.EdgeRef{From: from, Idx: idx}] })
	inBody := func(n ast.Node) bool { return body == nil || (body.Pos() <= n.Pos() && n.End() <= body.End()) }
	rejects, why := false, ""
	for _, n := range g.Nodes {
		if n.Ast == nil || !reach[n.ID] || !inBody(n.Ast) {
			continue
		}
		core.InspectShallow(n.Ast, func(y ast.Node) bool {
			switch x := y.(type) {
			case *ast.TypeAssertExpr:
				if x.Type != nil && core.VarOf(info, x.X) == v {
					if _, isIface := info.TypeOf(x.Type).Underlying().(*types.Interface); !isIface {
						rejects, why = true, "in "+fi.Name()+" the value is asserted to "+exprStr(x.Type)+" with no nil case before it (a nil interface fails every concrete type assertion)"
					}
				}
			case *ast.CallExpr:
				fn := core.Callee(info, x)
				hfi := c.P.DeclOf(fn)
				if hfi == nil || hfi.Decl.Body == nil || depth >= 2 {
					return true
				}
				for i, a := range x.Args {
					if core.VarOf(info, a) != v {
						continue
					}
					sig := fn.Type().(*types.Signature)
					if i < sig.Params().Len() {
						if rj, w := c38RejectsNil(c, hfi, nil, sig.Params().At(i), depth+1); rj {
							rejects, why = true, w
						}
					}
				}
			}
			return true
		})
	}
	return rejects, why
}

// c38X509ParsersOn collects the crypto/x509 functions that are applied to the bytes denoted by isBytes inside
// node n; a same-module helper that receives those bytes as an argument is followed with the corresponding
// parameter (and its plain local copies) standing for the bytes.
func c38X509ParsersOn(c *Ctx, info *types.Info, n ast.Node, isBytes func(ast.Expr) bool, out map[string]bool, depth int) {
	ast.Inspect(n, func(y ast.Node) bool {
		call, ok := y.(*ast.CallExpr)
		if !ok {
			return true
		}
		fn := core.Callee(info, call)
		if fn == nil || fn.Pkg() == nil {
			return true
		}
		if fn.Pkg().Path() == "crypto/x509" {
			if len(call.Args) >= 1 && isBytes(call.Args[0]) {
				out[fn.Name()] = true
			}
			return true
		}
		hfi := c.P.DeclOf(fn)
		if hfi == nil || hfi.Decl.Body == nil || depth >= 2 {
			return true
		}
		sig := fn.Type().(*types.Signature)
		for i, arg := range call.Args {
			if !isBytes(arg) || i >= sig.Params().Len() || (sig.Variadic() && i >= sig.Params().Len()-1) {
				continue
			}
			hinfo := hfi.Pkg.TypesInfo
			vars := c29Aliases(hinfo, hfi.Decl.Body, sig.Params().At(i))
			c.R.Saw(hfi.Name())
			c38X509ParsersOn(c, hinfo, hfi.Decl.Body, func(e ast.Expr) bool {
				v := core.VarOf(hinfo, ast.Unparen(e))
				return v != nil && vars[v]
			}, out, depth+1)
		}
		return true
	})
}
