package props

import (
	"go/ast"
	"go/types"
	"sort"
	"strings"

	"verif/checker/core"
)

// c25R5 (C25): "its JSON form (ToJSON) is accepted by AddICECandidate": the string handed to the ICE candidate parser is the
// init's Candidate text with the literal "candidate:" prefix removed and nothing else done to it. pion represents an
// empty foundation as a leading space ("candidate: 1 udp ..."), so whitespace trimming shifts every token. Rule: the
// argument of ice.UnmarshalCandidate in AddICECandidate, followed through single-definition locals, contains no call of
// the strings package other than TrimPrefix / CutPrefix.
//
// c36R6 (C36): "every record the Writer wrote is read back": the rtpdump Reader fills its fixed-size header and payload
// buffers completely - only through io.ReadFull / io.ReadAtLeast / binary.Read; a bare Read returns what is buffered (a
// payload above the bufio size is then taken for a malformed record).
func c25R5(c *Ctx) {
	r := c.R
	const rule = "C25.R5"
	fi := c.mustFunc(rule, "", "PeerConnection.AddICECandidate")
	if fi == nil {
		return
	}
	g := c.P.GraphOf(fi)
	info := g.Info
	n := 0
	for _, nd := range g.Nodes {
		if nd.Ast == nil {
			continue
		}
		core.InspectShallow(nd.Ast, func(x ast.Node) bool {
			call, ok := x.(*ast.CallExpr)
			if !ok || len(call.Args) != 1 {
				return true
			}
			fn := core.Callee(info, call)
			if fn == nil || fn.Name() != "UnmarshalCandidate" || fn.Pkg() == nil || !strings.Contains(fn.Pkg().Path(), "pion/ice") {
				return true
			}
			n++
			bad := map[string]bool{}
			var walk func(e ast.Expr, depth int)
			walk = func(e ast.Expr, depth int) {
				ast.Inspect(e, func(y ast.Node) bool {
					switch v := y.(type) {
					case *ast.CallExpr:
						if f := core.Callee(info, v); f != nil && f.Pkg() != nil && f.Pkg().Path() == "strings" {
							if f.Name() != "TrimPrefix" && f.Name() != "CutPrefix" {
								bad["strings."+f.Name()] = true
							}
						}
					case *ast.Ident:
						if vv, ok := info.Uses[v].(*types.Var); ok && depth < 4 {
							if rhs, _ := g.UniqueDef(vv); rhs != nil {
								walk(rhs, depth+1)
							}
						}
					}
					return true
				})
			}
			walk(call.Args[0], 0)
			var names []string
			for k := range bad {
				names = append(names, k)
			}
			sort.Strings(names)
			r.Cells++
			r.Check(len(bad) == 0, rule, sprintf("AddICECandidate|UnmarshalCandidate#%d|argument-is-the-signaled-text-minus-prefix", n), c.P.Pos(call.Pos()),
				"the parser receives the init's Candidate text with only the literal prefix removed",
				"the string handed to ice.UnmarshalCandidate is further transformed by "+strings.Join(names, ", ")+": pion writes an empty foundation as a leading space (`candidate: 1 udp ...`), so trimming shifts every token and a candidate pion itself produced is rejected")
			return true
		})
	}
	if n == 0 {
		r.Undecided(rule, "AddICECandidate|UnmarshalCandidate", c.P.Pos(fi.Decl.Pos()), "no call of ice.UnmarshalCandidate in AddICECandidate")
	}
}

func c36R6(c *Ctx) {
	r := c.R
	const rule = "C36.R6"
	pkg := c.P.Pkg("pkg/media/rtpdump")
	if pkg == nil {
		r.Fail(rule, "anchor:pkg/media/rtpdump", "-", "package no longer resolves")
		return
	}
	n := 0
	for _, fi := range c.P.AllFuncs() {
		if fi.Pkg != pkg || fi.Decl == nil || fi.Decl.Body == nil {
			continue
		}
		info := pkg.TypesInfo
		var bad []string
		full := 0
		ast.Inspect(fi.Decl.Body, func(x ast.Node) bool {
			call, ok := x.(*ast.CallExpr)
			if !ok {
				return true
			}
			fn := core.Callee(info, call)
			if fn == nil {
				return true
			}
			if fn.Pkg() != nil && fn.Pkg().Path() == "io" && (fn.Name() == "ReadFull" || fn.Name() == "ReadAtLeast") {
				full++
				return true
			}
			if fn.Name() == "Read" && len(call.Args) == 1 {
				if sig, ok := fn.Type().(*types.Signature); ok && sig.Recv() != nil && sig.Results().Len() == 2 {
					if sl, ok := sig.Params().At(0).Type().Underlying().(*types.Slice); ok && types.Identical(sl.Elem(), types.Typ[types.Byte]) {
						bad = append(bad, c.P.Pos(call.Pos()))
					}
				}
			}
			return true
		})
		if full == 0 && len(bad) == 0 {
			continue
		}
		n++
		r.Cells++
		r.Check(len(bad) == 0, rule, fi.Name()+"|buffers-filled-completely", c.P.Pos(fi.Decl.Pos()), sprintf("%d complete read(s), no bare Read", full),
			"a record buffer is filled by a bare Read (at "+strings.Join(bad, ", ")+"): Read may return fewer bytes than asked for (a bufio.Reader returns only what is buffered), so a valid record with a large payload is taken for a malformed file")
	}
	if n == 0 {
		r.Undecided(rule, "rtpdump|reads", "-", "no read of the underlying stream found in pkg/media/rtpdump")
	}
}
