package props

import (
	"go/ast"
	"go/constant"
	"go/token"
	"go/types"

	"verif/checker/core"
)

// c38OmissionDiscipline (C38.R6): writer/reader agreement of ICEServer's hand-written JSON
// codec beyond key names.
//
//	(a) omission discipline: MarshalJSON may leave a key out only for the value
//	    that decoding an absent key yields. Every condition guarding a
//	    `m[key] = s.F` store must therefore be a test of that same field F
//	    against its type's zero value; any further condition omits a value
//	    that then decodes to something else.
//	(null acceptance for unconditionally stored nil-able fields is C38.R5, props/c38b.go)
func c38OmissionDiscipline(c *Ctx, rule string) {
	r := c.R
	mar := c.mustFunc(rule, "", "ICEServer.MarshalJSON")
	if mar == nil {
		return
	}
	g := c.P.GraphOf(mar)
	info := g.Info
	recv := mar.Obj.Type().(*types.Signature).Recv()
	type store struct {
		node  int
		key   string
		field *types.Var
	}
	var stores []store
	for _, n := range g.Nodes {
		as, ok := n.Ast.(*ast.AssignStmt)
		if !ok || len(as.Lhs) != 1 || len(as.Rhs) != 1 {
			continue
		}
		ix, ok := ast.Unparen(as.Lhs[0]).(*ast.IndexExpr)
		if !ok {
			continue
		}
		if _, isMap := info.TypeOf(ix.X).Underlying().(*types.Map); !isMap {
			continue
		}
		tv := info.Types[ix.Index]
		if tv.Value == nil || tv.Value.Kind() != constant.String {
			continue
		}
		se, ok := ast.Unparen(as.Rhs[0]).(*ast.SelectorExpr)
		if !ok || core.VarOf(info, se.X) != recv {
			continue
		}
		stores = append(stores, store{n.ID, constant.StringVal(tv.Value), core.FieldOf(info, se)})
	}
	if len(stores) == 0 {
		r.Undecided(rule, "ICEServer.MarshalJSON|key-stores", c.P.Pos(mar.Decl.Pos()), "no `m[\"key\"] = s.Field` stores found")
		return
	}
	isZeroOf := func(e ast.Expr, t types.Type) bool {
		if core.IsNilIdent(info, e) {
			switch t.Underlying().(type) {
			case *types.Pointer, *types.Interface, *types.Slice, *types.Map, *types.Chan, *types.Signature:
				return true
			}
			return false
		}
		tv := info.Types[e]
		if tv.Value == nil {
			return false
		}
		b, ok := t.Underlying().(*types.Basic)
		if !ok {
			return false
		}
		switch {
		case b.Info()&types.IsString != 0:
			return tv.Value.Kind() == constant.String && constant.StringVal(tv.Value) == ""
		case b.Info()&types.IsNumeric != 0:
			return constant.Sign(tv.Value) == 0
		case b.Info()&types.IsBoolean != 0:
			return tv.Value.Kind() == constant.Bool && !constant.BoolVal(tv.Value)
		}
		return false
	}
	uncond := map[string]bool{}
	for _, st := range stores {
		key := "ICEServer.MarshalJSON|key:" + st.key
		pos := c.P.Pos(g.PosOf(st.node))
		if st.field == nil {
			r.Undecided(rule, key, pos, "stored value is not a field of the receiver")
			continue
		}
		bad := ""
		guards := 0
		for _, n := range g.Nodes {
			for i, e := range n.Succs {
				if e.Cond == nil || e.Tag != nil || e.Branch == 0 {
					continue
				}
				if !g.DominatedByEdges(st.node, map[core.EdgeRef]bool{{From: n.ID, Idx: i}: true}) {
					continue
				}
				guards++
				x, truth := c31StripNot(e.Cond, e.Branch == 1)
				be, ok := x.(*ast.BinaryExpr)
				okGuard := false
				if ok && (be.Op == token.NEQ || be.Op == token.EQL) {
					nonZero := (be.Op == token.NEQ) == truth
					for _, pr := range [][2]ast.Expr{{be.X, be.Y}, {be.Y, be.X}} {
						if se, ok := ast.Unparen(pr[0]).(*ast.SelectorExpr); ok && core.FieldOf(info, se) == st.field && core.VarOf(info, se.X) == recv &&
							isZeroOf(pr[1], st.field.Type()) && nonZero {
							okGuard = true
						}
					}
				}
				if !okGuard {
					bad = "key \"" + st.key + "\" is omitted under condition `" + exprStr(e.Cond) + "`, which is not a test of " + st.field.Name() + " against its zero value: a value other than the one an absent key decodes to is dropped by the encoder"
				}
			}
		}
		r.Cells += guards
		r.Check(bad == "", rule, key+"|omitted-only-for-decode-default", pos, sprintf("%d guard(s), each a zero test of the stored field", guards), bad)
		if guards == 0 {
			uncond[st.key] = true
		}
	}
	// (b) presence guards of the reader: a key the writer stores unconditionally is always present, possibly as null or a
	// zero value; the reader must hand whatever is present to the key's decoder - its guard is the bare presence test.
	// A narrowed guard (`ok && val != nil`) routes a present null to the absent-key default, which need not be the value
	// null encodes (nil URL list -> empty list).
	rd := c.mustFunc(rule, "", "ICEServer.iceserverUnmarshalFields")
	if rd == nil {
		return
	}
	rinfo := rd.Pkg.TypesInfo
	var fieldsParam *types.Var
	if sig, ok := rd.Obj.Type().(*types.Signature); ok {
		for i := 0; i < sig.Params().Len(); i++ {
			if _, isMap := sig.Params().At(i).Type().Underlying().(*types.Map); isMap {
				fieldsParam = sig.Params().At(i)
			}
		}
	}
	nGuards := 0
	ast.Inspect(rd.Decl.Body, func(x ast.Node) bool {
		ifs, ok := x.(*ast.IfStmt)
		if !ok || ifs.Init == nil {
			return true
		}
		as, ok := ifs.Init.(*ast.AssignStmt)
		if !ok || len(as.Lhs) != 2 || len(as.Rhs) != 1 {
			return true
		}
		ix, ok := ast.Unparen(as.Rhs[0]).(*ast.IndexExpr)
		if !ok || core.VarOf(rinfo, ix.X) != fieldsParam || fieldsParam == nil {
			return true
		}
		tv := rinfo.Types[ix.Index]
		if tv.Value == nil || tv.Value.Kind() != constant.String {
			return true
		}
		k := constant.StringVal(tv.Value)
		if !uncond[k] {
			return true
		}
		nGuards++
		okVar := core.VarOf(rinfo, as.Lhs[1])
		bare := okVar != nil && core.VarOf(rinfo, ifs.Cond) == okVar
		r.Check(bare, rule, "ICEServer.iceserverUnmarshalFields|key:"+k+"|presence-guard-is-bare", c.P.Pos(ifs.Pos()), "a present value (null included) always reaches the key's decoder",
			"key \""+k+"\" is always written by MarshalJSON, but the reader treats some present values as absent (guard `"+exprStr(ifs.Cond)+"`): they get the absent-key default instead of what they encode (a nil URL list, written as null, comes back as an empty non-nil list)")
		return true
	})
	if len(uncond) > 0 && nGuards == 0 {
		r.Undecided(rule, "ICEServer.iceserverUnmarshalFields|presence-guards", c.P.Pos(rd.Decl.Pos()), "no `if val, ok := fields[key]; ...` lookups found for the unconditionally written keys")
	}
}
