package props

import (
	"go/ast"
	"go/constant"
	"go/token"
	"go/types"

	"verif/checker/core"
)

// c38ICEServer (C38.R5): writer/reader agreement of ICEServer's hand-written JSON
// codec beyond key names.
//
//	(a) omission discipline: MarshalJSON may leave a key out only for the value
//	    that decoding an absent key yields. Every condition guarding a
//	    `m[key] = s.F` store must therefore be a test of that same field F
//	    against its type's zero value; any further condition omits a value
//	    that then decodes to something else.
//	(b) null acceptance: a field of nil-able type that is stored unconditionally
//	    is encoded as JSON null when nil; the reader's conversion of that key
//	    must accept a nil value (else the nil case does not round-trip).
func c38ICEServer(c *Ctx, rule string) {
	r := c.R
	mar := c.mustFunc(rule, "", "ICEServer.MarshalJSON")
	unm := c.mustFunc(rule, "", "ICEServer.iceserverUnmarshalFields")
	if mar == nil || unm == nil {
		return
	}
	g := c.P.GraphOf(mar)
	info := g.Info
	recv := mar.Obj.Type().(*types.Signature).Recv()
	type store struct {
		node  int
		key   string
		field *types.Var
	}
	var stores []store
	for _, n := range g.Nodes {
		as, ok := n.Ast.(*ast.AssignStmt)
		if !ok || len(as.Lhs) != 1 || len(as.Rhs) != 1 {
			continue
		}
		ix, ok := ast.Unparen(as.Lhs[0]).(*ast.IndexExpr)
		if !ok {
			continue
		}
		if _, isMap := info.TypeOf(ix.X).Underlying().(*types.Map); !isMap {
			continue
		}
		tv := info.Types[ix.Index]
		if tv.Value == nil || tv.Value.Kind() != constant.String {
			continue
		}
		se, ok := ast.Unparen(as.Rhs[0]).(*ast.SelectorExpr)
		if !ok || core.VarOf(info, se.X) != recv {
			continue
		}
		stores = append(stores, store{n.ID, constant.StringVal(tv.Value), core.FieldOf(info, se)})
	}
	if len(stores) == 0 {
		r.Undecided(rule, "ICEServer.MarshalJSON|key-stores", c.P.Pos(mar.Decl.Pos()), "no `m[\"key\"] = s.Field` stores found")
		return
	}
	isZeroOf := func(e ast.Expr, t types.Type) bool {
		if core.IsNilIdent(info, e) {
			switch t.Underlying().(type) {
			case *types.Pointer, *types.Interface, *types.Slice, *types.Map, *types.Chan, *types.Signature:
				return true
			}
			return false
		}
		tv := info.Types[e]
		if tv.Value == nil {
			return false
		}
		b, ok := t.Underlying().(*types.Basic)
		if !ok {
			return false
		}
		switch {
		case b.Info()&types.IsString != 0:
			return tv.Value.Kind() == constant.String && constant.StringVal(tv.Value) == ""
		case b.Info()&types.IsNumeric != 0:
			return constant.Sign(tv.Value) == 0
		case b.Info()&types.IsBoolean != 0:
			return tv.Value.Kind() == constant.Bool && !constant.BoolVal(tv.Value)
		}
		return false
	}
	for _, st := range stores {
		key := "ICEServer.MarshalJSON|key:" + st.key
		pos := c.P.Pos(g.PosOf(st.node))
		if st.field == nil {
			r.Undecided(rule, key, pos, "stored value is not a field of the receiver")
			continue
		}
		bad := ""
		guards := 0
		for _, n := range g.Nodes {
			for i, e := range n.Succs {
				if e.Cond == nil || e.Tag != nil || e.Branch == 0 {
					continue
				}
				if !g.DominatedByEdges(st.node, map[core.EdgeRef]bool{{From: n.ID, Idx: i}: true}) {
					continue
				}
				guards++
				x, truth := c31StripNot(e.Cond, e.Branch == 1)
				be, ok := x.(*ast.BinaryExpr)
				okGuard := false
				if ok && (be.Op == token.NEQ || be.Op == token.EQL) {
					nonZero := (be.Op == token.NEQ) == truth
					for _, pr := range [][2]ast.Expr{{be.X, be.Y}, {be.Y, be.X}} {
						if se, ok := ast.Unparen(pr[0]).(*ast.SelectorExpr); ok && core.FieldOf(info, se) == st.field && core.VarOf(info, se.X) == recv &&
							isZeroOf(pr[1], st.field.Type()) && nonZero {
							okGuard = true
						}
					}
				}
				if !okGuard {
					bad = "key \"" + st.key + "\" is omitted under condition `" + exprStr(e.Cond) + "`, which is not a test of " + st.field.Name() + " against its zero value: a value other than the one an absent key decodes to is dropped by the encoder"
				}
			}
		}
		r.Cells += guards
		r.Check(bad == "", rule, key+"|omitted-only-for-decode-default", pos, sprintf("%d guard(s), each a zero test of the stored field", guards), bad)

		// (b) unconditional + nil-able => reader must accept nil
		if guards > 0 {
			continue
		}
		switch st.field.Type().Underlying().(type) {
		case *types.Slice, *types.Map, *types.Pointer:
		default:
			continue
		}
		c38NullAccept(c, rule, unm, st.key, st.field)
	}
}

// c38NullAccept checks that the reader's conversion of fields[key] tolerates a nil value.
func c38NullAccept(c *Ctx, rule string, unm *core.FuncInfo, key string, field *types.Var) {
	r := c.R
	info := unm.Pkg.TypesInfo
	k := "ICEServer.iceserverUnmarshalFields|key:" + key + "|accepts-null"
	// val, ok := fields["key"]
	var val *types.Var
	ast.Inspect(unm.Decl.Body, func(n ast.Node) bool {
		as, ok := n.(*ast.AssignStmt)
		if !ok || len(as.Rhs) != 1 || len(as.Lhs) < 1 {
			return true
		}
		ix, ok := ast.Unparen(as.Rhs[0]).(*ast.IndexExpr)
		if !ok {
			return true
		}
		tv := info.Types[ix.Index]
		if tv.Value != nil && tv.Value.Kind() == constant.String && constant.StringVal(tv.Value) == key {
			val = core.VarOf(info, as.Lhs[0])
		}
		return true
	})
	if val == nil {
		r.Fail(rule, k, c.P.Pos(unm.Decl.Pos()), "the reader never looks up key \""+key+"\" that the writer always emits")
		return
	}
	// where does val go: helper(val) or val.(T)
	checked := false
	verdict := func(fi *core.FuncInfo, v *types.Var) {
		inf := fi.Pkg.TypesInfo
		nilTest, assertNoNil := false, false
		var apos token.Pos
		ast.Inspect(fi.Decl.Body, func(n ast.Node) bool {
			switch x := n.(type) {
			case *ast.BinaryExpr:
				if x.Op == token.EQL || x.Op == token.NEQ {
					if (core.VarOf(inf, x.X) == v && core.IsNilIdent(inf, x.Y)) || (core.VarOf(inf, x.Y) == v && core.IsNilIdent(inf, x.X)) {
						nilTest = true
					}
				}
			case *ast.TypeAssertExpr:
				if core.VarOf(inf, x.X) == v && x.Type != nil {
					if _, isIface := inf.TypeOf(x.Type).Underlying().(*types.Interface); !isIface {
						assertNoNil = true
						apos = x.Pos()
					}
				}
			}
			return true
		})
		if assertNoNil {
			checked = true
			r.Check(nilTest, rule, k, c.P.Pos(apos), "nil is tested before the concrete-type assertion",
				"the writer emits JSON null for a nil "+field.Name()+" (stored unconditionally), but the reader asserts a concrete type on the decoded value without a nil case: an ICEServer with a nil "+field.Name()+" list does not survive its own JSON encoding")
		}
	}
	verdict(unm, val)
	ast.Inspect(unm.Decl.Body, func(n ast.Node) bool {
		call, ok := n.(*ast.CallExpr)
		if !ok {
			return true
		}
		for i, a := range call.Args {
			if core.VarOf(info, a) != val {
				continue
			}
			if fn := core.Callee(info, call); fn != nil {
				if fi := c.P.DeclOf(fn); fi != nil && fi.Decl.Body != nil {
					sig := fn.Type().(*types.Signature)
					if i < sig.Params().Len() {
						verdict(fi, sig.Params().At(i))
					}
				}
			}
		}
		return true
	})
	if !checked {
		r.Info(rule, k, c.P.Pos(unm.Decl.Pos()), "decoded value is not narrowed by a concrete-type assertion")
	}
}
