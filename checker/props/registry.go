// Package props holds the per-property rule instantiations.
package props

import (
	"fmt"
	"go/ast"
	"go/token"
	"go/types"
	"sort"
	"strings"

	"verif/checker/core"
)

// Ctx is what a property check receives.
type Ctx struct {
	P        *core.Program
	R        *core.Report
	Thorough bool
	// Load386 lazily loads the GOARCH=386 configuration (thorough tier).
	Load386 func() (*core.Program, error)
}

// Prop describes one claimed property.
type Prop struct {
	ID        string
	Engine    string
	Technique string
	LevelText string
	LevelNote string
	DesignRef string
	Run       func(c *Ctx)
	// Own386: the check runs its linux/386 configuration itself (the E4 checks re-derive the compiler's obligations per
	// configuration and keep one ledger); the generic "same rules on a 386 load" re-run of the thorough tier is skipped.
	Own386 bool
}

// All is the registry of claimed properties.
var All = map[string]*Prop{}

func register(p *Prop) { All[p.ID] = p }

// IDs returns the registered ids in order.
func IDs() []string {
	var out []string
	for id := range All {
		out = append(out, id)
	}
	sort.Strings(out)
	return out
}

// NA lists properties that are not claimed, with the reason.
var NA = map[string]string{}

// ---- helpers shared by property files ----

// mustFunc resolves a function or records an anchor failure.
func (c *Ctx) mustFunc(rule, rel, name string) *core.FuncInfo {
	fi := c.P.Func(rel, name)
	if fi == nil || fi.Decl.Body == nil {
		c.R.Fail(rule, "anchor:"+rel+"/"+name, "-", "anchored function no longer resolves; the rule cannot be evaluated (fails closed)")
		return nil
	}
	c.R.Saw(pkgLabel(rel) + fi.Name())
	return fi
}

func pkgLabel(rel string) string {
	if rel == "" {
		return ""
	}
	return rel + "."
}

// mustField resolves a struct field or records an anchor failure.
func (c *Ctx) mustField(rule, rel, typ, field string) *types.Var {
	v := c.P.Field(rel, typ, field)
	if v == nil {
		c.R.Fail(rule, "anchor:"+rel+"/"+typ+"."+field, "-", "anchored field no longer resolves (fails closed)")
	}
	return v
}

// mustConst resolves a constant or records an anchor failure.
func (c *Ctx) mustConst(rule, rel, name string) *types.Const {
	k := c.P.Const(rel, name)
	if k == nil {
		c.R.Fail(rule, "anchor:"+rel+"/"+name, "-", "anchored constant no longer resolves (fails closed)")
	}
	return k
}

// exprStr renders an expression compactly.
func exprStr(e ast.Expr) string {
	if e == nil {
		return ""
	}
	return types.ExprString(e)
}

// calleeName renders the resolved callee of a call, or the expression text for dynamic calls.
func calleeName(info *types.Info, call *ast.CallExpr) string {
	if fn := core.Callee(info, call); fn != nil {
		return core.FuncName(fn)
	}
	return "dyn:" + exprStr(call.Fun)
}

func joinSorted(m map[string]bool) string {
	var s []string
	for k := range m {
		s = append(s, k)
	}
	sort.Strings(s)
	return strings.Join(s, ",")
}

func sprintf(f string, a ...any) string { return fmt.Sprintf(f, a...) }

// reachingDefs returns the RHS descriptions of the assignments to v that reach node `at` in g.
func reachingDefs(g *core.Graph, at int, v *types.Var) map[string]bool {
	out := map[string]bool{}
	seen := map[int]bool{}
	var walk func(n int)
	walk = func(n int) {
		for _, p := range g.Nodes[n].Preds {
			if seen[p] {
				continue
			}
			seen[p] = true
			pn := g.Nodes[p]
			if pn.Ast != nil {
				if d := defOf(g.Info, pn.Ast, v); d != "" {
					out[d] = true
					continue
				}
			}
			walk(p)
		}
	}
	walk(at)
	if len(out) == 0 {
		out["(param-or-zero)"] = true
	}
	return out
}

// defOf describes the definition node n gives to v ("" if n does not assign v).
func defOf(info *types.Info, n ast.Node, v *types.Var) string {
	res := ""
	core.InspectShallow(n, func(x ast.Node) bool {
		switch s := x.(type) {
		case *ast.AssignStmt:
			for i, l := range s.Lhs {
				if core.VarOf(info, l) != v {
					continue
				}
				var rhs ast.Expr
				if len(s.Rhs) == len(s.Lhs) {
					rhs = s.Rhs[i]
				} else if len(s.Rhs) == 1 {
					rhs = s.Rhs[0]
				}
				res = describeRHS(info, rhs)
			}
		case *ast.ValueSpec:
			for i, nm := range s.Names {
				if info.Defs[nm] == v {
					if len(s.Values) == len(s.Names) {
						res = describeRHS(info, s.Values[i])
					} else if len(s.Values) == 1 {
						res = describeRHS(info, s.Values[0])
					} else {
						res = "zero"
					}
				}
			}
		}
		return true
	})
	return res
}

func describeRHS(info *types.Info, e ast.Expr) string {
	if e == nil {
		return "?"
	}
	e = ast.Unparen(e)
	if c, ok := e.(*ast.CallExpr); ok {
		if _, isLit := ast.Unparen(c.Fun).(*ast.FuncLit); isLit {
			return "call:func-literal"
		}
		return "call:" + calleeName(info, c)
	}
	return "expr:" + exprStr(e)
}

type tokenPos = token.Pos

func sortStrings(s []string) { sort.Strings(s) }
