package props

import (
	"strings"

	"verif/checker/core"
	"verif/checker/e4"
)

func init() {
	register(&Prop{
		ID:        "C37",
		Engine:    "e4range",
		Technique: "bounds obligations = the index/slice checks the Go compiler's prove pass could not eliminate (re-derived on every run by compiling the five reader packages with -d=ssa/check_bce), plus explicit panics, single-value type assertions, integer divisions, narrowing conversions and computed make sizes; discharged by a linear-arithmetic prover over facts from dominating guards (go/cfg), definitions, range loops, caller-side guards and callee post-conditions; the rest is a frozen, justified ledger",
		LevelText: "Bounds clause of 'the container readers never crash': every place in ivfreader, oggreader (incl. ParseOpusHead/ParseOpusTags), h264reader, h265reader and rtpdump where an index, slice, make, division, assertion or panic could fail is either proved safe by the compiler, proved by a structural rule, or accepted in a written ledger; anything else is a violation.",
		LevelNote: "Ledger entries are reading, not proof (counted separately). Trusted: the compiler's prove pass; io.Reader/strings contracts listed in the evidence; 64-bit sums of lengths and <=32-bit quantities do not wrap. Does not decide progress/hangs nor allocation sizes.",
		DesignRef: "DESIGN.md §5 C37, §4 E4",
		Run:       runC37,
		Own386:    true,
	})
}

var c37Pkgs = []string{"pkg/media/ivfreader", "pkg/media/oggreader", "pkg/media/h264reader", "pkg/media/h265reader", "pkg/media/rtpdump"}

// c37Ledger: residual obligations accepted after reading the code (function | operand | kind:goal).
var c37Ledger = e4Ledger{}

func runC37(c *Ctx) {
	r := c.R
	r.Rule("C37.R0", "engine sanity: the compiler's residual list is obtained from a fresh compile of each scoped package, the prove-pass canary behaves, every diagnostic maps to an expression of a function, and the ledger has no stale entry", 2)
	r.Rule("C37.R1", "every index/slice expression of the five reader packages whose bounds check the prove pass kept (Found), refuted (Disproved) or never saw (folded away before it: marked *) is implied by dominating guards, definitions, range loops, earlier accesses, caller-side guards, callee post-conditions or a field invariant (linear arithmetic), or is justified in the ledger; checks the prove pass proved count as discharged by the compiler", 150)
	r.Rule("C37.R2", "no explicit panic and no single-value type assertion in the reader packages unless justified in the ledger", 0)
	r.Rule("C37.R3", "every integer division by a non-constant and every make with a computed size in the reader packages is proved safe or justified in the ledger (narrowing conversions are listed, not judged: they cannot panic, and the bounds proofs treat their result as unknown)", 5)
	r.NotCovered = append(r.NotCovered,
		"hangs / per-call progress",
		"allocation sizes driven by length fields (make([]byte, n) with n up to 4 GiB)",
		"nil dereferences",
		"concurrent use of one reader (the readers are documented single-goroutine)")
	r.Trusted = append(r.Trusted, "the Go compiler's prove pass (bounds-check elimination) is sound")
	r.Trusted = append(r.Trusted, e4.ExternalContracts...)
	r.Trusted = append(r.Trusted, "sums of 64-bit ints built from lengths, constants and values of at most 32 bits do not wrap around")

	inPkgs := map[string]bool{}
	for _, rel := range c37Pkgs {
		inPkgs[core.ModPath+"/"+rel] = true
	}
	sc := &e4Scope{Prop: "C37", Pkgs: c37Pkgs, Ledger: c37Ledger,
		InScope: func(fi *core.FuncInfo) bool { return inPkgs[fi.Pkg.PkgPath] },
		RBounds: "C37.R1", RPanic: "C37.R2", RArith: "C37.R3", RInfra: "C37.R0"}
	st := e4Run(c, c.P, sc, "")
	e4Extra(r, "", st)
	if c.Thorough {
		p386, err := c.Load386()
		if err != nil {
			r.Fail("C37.R0", "load-386", "-", "cannot load the GOARCH=386 configuration: "+err.Error())
			return
		}
		st386 := e4Run(c, p386, sc, "@386")
		e4Extra(r, "_386", st386)
	}
	_ = strings.TrimSpace
}
