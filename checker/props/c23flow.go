package props

import (
	"go/ast"
	"go/types"

	"verif/checker/core"
)

// Small provenance helpers (engine E6, AST/CFG flavour) shared by C23, C26, C29 and C38.

// c23RHSOf returns the expression node n assigns to v (nil if n does not assign v;
// the call expression for a multi-value assignment v, _ := f()).
func c23RHSOf(info *types.Info, n ast.Node, v *types.Var) (rhs ast.Expr, idx int, found bool) {
	idx = -1
	core.InspectShallow(n, func(x ast.Node) bool {
		switch s := x.(type) {
		case *ast.AssignStmt:
			for i, l := range s.Lhs {
				if core.VarOf(info, l) != v {
					continue
				}
				found = true
				if len(s.Rhs) == len(s.Lhs) {
					rhs, idx = s.Rhs[i], -1
				} else if len(s.Rhs) == 1 {
					rhs, idx = s.Rhs[0], i
				}
			}
		case *ast.ValueSpec:
			for i, nm := range s.Names {
				if info.Defs[nm] != types.Object(v) {
					continue
				}
				found = true
				if len(s.Values) == len(s.Names) {
					rhs, idx = s.Values[i], -1
				} else if len(s.Values) == 1 {
					rhs, idx = s.Values[0], i
				} else {
					rhs = nil
				}
			}
		case *ast.IncDecStmt:
			if core.VarOf(info, s.X) == v {
				found = true
				rhs = s.X
			}
		}
		return true
	})
	return
}

// c23Def is one reaching definition of a variable.
type c23Def struct {
	Node int
	RHS  ast.Expr // nil: zero value / range variable / unknown
	Idx  int      // >= 0: the Idx-th result of the multi-value RHS
}

// c23ReachingDefs lists the definitions of v that reach node `at` of g
// (param/zero reaches when a path from entry has no definition: reported as Node -1).
func c23ReachingDefs(g *core.Graph, at int, v *types.Var) []c23Def {
	var out []c23Def
	seen := map[int]bool{}
	entryReached := false
	var walk func(n int)
	walk = func(n int) {
		if n == g.Entry {
			entryReached = true
		}
		for _, p := range g.Nodes[n].Preds {
			if seen[p] {
				continue
			}
			seen[p] = true
			pn := g.Nodes[p]
			if pn.Ast != nil {
				if rhs, idx, ok := c23RHSOf(g.Info, pn.Ast, v); ok {
					out = append(out, c23Def{Node: p, RHS: rhs, Idx: idx})
					continue
				}
			}
			walk(p)
		}
	}
	walk(at)
	if entryReached || len(out) == 0 {
		out = append(out, c23Def{Node: -1})
	}
	return out
}

// c23SingleDef returns the unique reaching definition's RHS (ok=false unless exactly one real definition reaches).
func c23SingleDef(g *core.Graph, at int, v *types.Var) (c23Def, bool) {
	ds := c23ReachingDefs(g, at, v)
	if len(ds) == 1 && ds[0].Node >= 0 {
		return ds[0], true
	}
	return c23Def{}, false
}

// c23ResolveDef follows plain copies y := x backwards: it returns the defining expression of v at node
// `at` after skipping up to four single-definition alias hops (ok=false when no single definition exists).
func c23ResolveDef(g *core.Graph, at int, v *types.Var) (c23Def, bool) {
	d, ok := c23SingleDef(g, at, v)
	for hop := 0; ok && hop < 4; hop++ {
		if d.RHS == nil || d.Idx >= 0 {
			break
		}
		src := core.VarOf(g.Info, ast.Unparen(d.RHS))
		if src == nil {
			break
		}
		nd, nok := c23SingleDef(g, d.Node, src)
		if !nok {
			break
		}
		d = nd
	}
	return d, ok
}

// c23ResolveCond normalises a branch condition to a binary comparison: it strips parentheses and
// negations and follows a boolean local with a single definition (`same := a == b; if !same`).
// negated reports whether the condition is the negation of the returned comparison.
func c23ResolveCond(g *core.Graph, at int, e ast.Expr) (be *ast.BinaryExpr, negated bool) {
	for hop := 0; hop < 6; hop++ {
		e = ast.Unparen(e)
		switch x := e.(type) {
		case *ast.UnaryExpr:
			if x.Op.String() != "!" {
				return nil, false
			}
			negated = !negated
			e = x.X
		case *ast.BinaryExpr:
			return x, negated
		case *ast.Ident:
			v := core.VarOf(g.Info, x)
			if v == nil {
				return nil, false
			}
			d, ok := c23SingleDef(g, at, v)
			if !ok || d.RHS == nil || d.Idx >= 0 {
				return nil, false
			}
			e, at = d.RHS, d.Node
		default:
			return nil, false
		}
	}
	return nil, false
}

// c23NodeOf returns the graph node whose AST contains x (-1 if none).
func c23NodeOf(g *core.Graph, x ast.Node) int {
	for _, n := range g.Nodes {
		if n.Ast == nil {
			continue
		}
		if n.Ast.Pos() <= x.Pos() && x.End() <= n.Ast.End() {
			found := false
			core.InspectShallow(n.Ast, func(y ast.Node) bool {
				if y == x {
					found = true
				}
				return !found
			})
			if found {
				return n.ID
			}
		}
	}
	return -1
}

// c23Strip removes parentheses and value-preserving conversions T(x).
func c23Strip(info *types.Info, e ast.Expr) ast.Expr {
	for {
		e = ast.Unparen(e)
		call, ok := e.(*ast.CallExpr)
		if !ok || len(call.Args) != 1 {
			return e
		}
		if tv, ok := info.Types[call.Fun]; ok && tv.IsType() {
			e = call.Args[0]
			continue
		}
		return e
	}
}
