package props

import (
	"go/ast"
	"go/token"
	"go/types"
	"strings"
	"time"

	"verif/checker/core"
)

func init() {
	register(&Prop{
		ID:        "C23",
		Engine:    "e6flow+e2cfg",
		Technique: "provenance (field-path agreement) of the values a TrackRemote is built from: SDP trackDetails -> RTPReceiveParameters -> newTrackRemote -> TrackRemote fields; who-may-write rule for TrackRemote.id/streamID; provenance of the payload-type lookup in checkAndUpdateTrack; provenance of the sender binding created at Bind and of the header rewrite in writeRTP; routing rule of runIfNewReceiver",
		LevelText: "Structural remainder of 'media arrives on the negotiated stream': (1) configureReceive builds each TrackRemote from SSRC / RTX.SSRC / RID of the same encoding and newTrackRemote stores each parameter in the field of the same meaning; (2) trackDetailsToRTPReceiveParameters fills SSRC/RID/RTX/FEC of encoding i from ssrcs[i]/rids[i]/rtxSsrc/fecSsrc of the trackDetails; (3) TrackRemote.id and .streamID are only ever written from trackDetails.id and .streamID of one trackDetails value (the one also used to configure the receiver, or the one looked up by the track's own SSRC/RID on renegotiation); (4) checkAndUpdateTrack takes the payload type from byte 1 & 0x7F of the packet, resolves the codec with exactly that payload type and stores both; (5) Bind records SSRC, writer and id of one TrackLocalContext and the payload type of the codec matched among that context's negotiated codecs; (6) writeRTP rewrites SSRC/payload type from that binding (shared with C29.R2/R3); (7) runIfNewReceiver hands a track to the receiver of the transceiver whose mid equals the track's mid.",
		LevelNote: "Trusted: go/types resolution, go/cfg. This is explicitly the structural remainder: nothing is decided about packets actually arriving, SRTP, the payload bytes, or C12.R3 / C15.R4 (announced SSRCs, negotiated-first codec lookup), which belong to their own properties.",
		DesignRef: "DESIGN.md §5 C23",
		Run:       runC23,
	})
}

// c23Chain decomposes a selector/index/deref chain: root variable, path elements and index variables.
// b.x[i].y -> root b, path ["x","[]","y"], idx [i]; *p.q -> ["q","*"].
func c23Chain(info *types.Info, e ast.Expr) (root *types.Var, path []string, idx []*types.Var, ok bool) {
	e = c23Strip(info, e)
	switch x := e.(type) {
	case *ast.Ident:
		v := core.VarOf(info, x)
		return v, nil, nil, v != nil
	case *ast.SelectorExpr:
		if core.FieldOf(info, x) == nil {
			return nil, nil, nil, false
		}
		r, p, i, ok := c23Chain(info, x.X)
		return r, append(p, x.Sel.Name), i, ok
	case *ast.IndexExpr:
		r, p, i, ok := c23Chain(info, x.X)
		iv := core.VarOf(info, x.Index)
		if iv == nil {
			return nil, nil, nil, false
		}
		return r, append(p, "[]"), append(i, iv), ok
	case *ast.StarExpr:
		r, p, i, ok := c23Chain(info, x.X)
		return r, append(p, "*"), i, ok
	case *ast.UnaryExpr:
		if x.Op == token.AND {
			r, p, i, ok := c23Chain(info, x.X)
			return r, append(p, "&"), i, ok
		}
	}
	return nil, nil, nil, false
}

func c23PathStr(p []string) string { return strings.Join(p, ".") }

func runC23(c *Ctx) {
	r := c.R
	g7Start = time.Now()
	r.Rule("C23.R1", "configureReceive creates one TrackRemote per encoding with newTrackRemote(kind of the receiver, Encodings[i].SSRC, Encodings[i].RTX.SSRC, Encodings[i].RID, the receiver) and newTrackRemote stores each parameter in the TrackRemote field of the same meaning (composed: field <- encoding path)", 6)
	r.Rule("C23.R2", "trackDetailsToRTPReceiveParameters fills encoding i from the same trackDetails: SSRC <- ssrcs[i], RID <- rids[i], RTX.SSRC <- *rtxSsrc, FEC.SSRC <- *fecSsrc, and returns those encodings", 5)
	r.Rule("C23.R3", "every write to TrackRemote.id / TrackRemote.streamID in the module takes trackDetails.id / trackDetails.streamID of one trackDetails value; in configureReceiver that value is the one the receiver is configured from; on renegotiation it is looked up by the track's own rid / ssrc", 9)
	r.Rule("C23.R4", "checkAndUpdateTrack reads the payload type as packet[1] & 0x7F, resolves the RTP parameters with exactly that payload type, and stores that payload type, the resolved codec and parameters; getRTPParametersByPayloadType returns the codec found for its argument", 6)
	r.Rule("C23.R5", "Bind appends a binding whose ssrc, writeStream and id come from the TrackLocalContext it was given and whose payloadType is that of the codec matched among that context's CodecParameters(); the matched codec is what Bind returns", 6)
	r.Rule("C23.R6", "writeRTP sends, for each binding, the packet rewritten with that binding's ssrc and payloadType to that binding's writer, exactly once (same obligations as C29.R2/R3)", 10)
	r.Rule("C23.R8", "a sender that unbinds is the one removed from the fan-out list (Unbind removes the binding whose id matches; same rule as C29.R6): the other connections keep receiving the track on their negotiated stream", 1)
	r.Rule("C23.R9", "the payload type a local H.264 track binds to is that of the negotiated codec with the same profile: the profile comparison behind Bind's exact match is true exactly when profile_idc and profile-iop agree (same table as C15.R6)", 16)
	r.Rule("C23.R10", "ReplaceTrack: every successful return after the new track's Bind passes a store of the codec Bind returned into the encoding's stored context (or a test that the payload type is unchanged): the context a failed later replace re-binds the current track with names the codec it is really bound with", 1)
	r.Rule("C23.R11", "same rule as C26.R5: a retransmitted packet reaches TrackRemote with its original header - the RTX unwrap reads the original sequence number at 12 + 4*CC (+ 4*(1+L) with a header extension), CC/X/P from byte 0", 6)
	r.Rule("C23.R12", "no local stored into trackDetails.id / trackDetails.streamID is assigned the result of a cutset-trimming call (strings.Trim/TrimLeft/TrimRight with a constant multi-character alphanumeric cutset): identifiers are cut out of the SDP text by slicing, prefix removal or splitting", 4)
	r.Rule("C23.R7", "runIfNewReceiver invokes the callback with the incoming track and the receiver of a transceiver whose Mid() equals the track's mid", 3)
	r.NotCovered = append(r.NotCovered, "packets actually arriving, SRTP, payload integrity", "C12.R3 (announced SSRCs are the ones used by RTPSender.Send) and C15.R4 (negotiated codecs consulted first) are decided by their own properties", "how trackDetailsFromSDP parses the SDP")
	r.Trusted = append(r.Trusted, "go/types object resolution; go/cfg")

	c23R1(c)
	c23R2(c)
	c23R3(c)
	c23R4(c)
	c23R5(c)
	if a := c29Resolve(c, "C23.R6"); a != nil {
		c29R2R3(c, a, "C23.R6", "C23.R6")
	}
	c23R7(c)
	g7DebugDump(c)
	c29Unbind(c, "C23.R8")
	c15R6(c, "C23.R9")
	c23R10(c) // c23c.go
	c26R5(c, "C23.R11") // c26b.go
	c23R12(c)
}

func c23R1(c *Ctx) {
	r := c.R
	const R = "C23.R1"
	conf := c.mustFunc(R, "", "RTPReceiver.configureReceive")
	ctor := c.mustFunc(R, "", "newTrackRemote")
	tr := c.P.Named("", "TrackRemote")
	if conf == nil || ctor == nil || tr == nil {
		if tr == nil {
			r.Fail(R, "anchor:TrackRemote", "-", "anchored type no longer resolves")
		}
		return
	}
	info := conf.Pkg.TypesInfo
	pos := c.P.Pos(conf.Decl.Pos())
	// ---- constructor: field <- parameter index
	csig := ctor.Obj.Type().(*types.Signature)
	paramIdx := map[*types.Var]int{}
	for i := 0; i < csig.Params().Len(); i++ {
		paramIdx[csig.Params().At(i)] = i
	}
	fieldFrom := map[string]int{}
	nlit := 0
	ast.Inspect(ctor.Decl.Body, func(n ast.Node) bool {
		cl, ok := n.(*ast.CompositeLit)
		if !ok || c38NamedOf(info.TypeOf(cl)) != tr {
			return true
		}
		nlit++
		for _, el := range cl.Elts {
			kv, ok := el.(*ast.KeyValueExpr)
			if !ok {
				continue
			}
			id, _ := kv.Key.(*ast.Ident)
			if id == nil {
				continue
			}
			if pv := core.VarOf(info, c23Strip(info, kv.Value)); pv != nil {
				if i, isParam := paramIdx[pv]; isParam {
					fieldFrom[id.Name] = i
				}
			}
		}
		return true
	})
	if nlit != 1 {
		r.Undecided(R, "newTrackRemote|literal", c.P.Pos(ctor.Decl.Pos()), sprintf("expected one TrackRemote composite literal in newTrackRemote, found %d", nlit))
		return
	}
	// ---- call site
	var call *ast.CallExpr
	var loop *ast.RangeStmt
	ast.Inspect(conf.Decl.Body, func(n ast.Node) bool {
		if rs, ok := n.(*ast.RangeStmt); ok {
			ast.Inspect(rs.Body, func(m ast.Node) bool {
				if cl, ok := m.(*ast.CallExpr); ok && core.Callee(info, cl) == ctor.Obj {
					call, loop = cl, rs
				}
				return true
			})
		}
		return true
	})
	if call == nil {
		r.Undecided(R, "configureReceive|newTrackRemote-call", pos, "no call to newTrackRemote inside a range loop of configureReceive")
		return
	}
	sig := conf.Obj.Type().(*types.Signature)
	params := sig.Params().At(0)
	recv := sig.Recv()
	lroot, lpath, _, lok := c23Chain(info, loop.X)
	loopOK := lok && lroot == params && c23PathStr(lpath) == "Encodings"
	var key0 *types.Var
	if loop.Key != nil {
		key0 = core.VarOf(info, loop.Key)
	}
	var val0 *types.Var
	if loop.Value != nil {
		val0 = core.VarOf(info, loop.Value)
	}
	r.Check(loopOK, R, "configureReceive|one-track-per-encoding", c.P.Pos(loop.Pos()), "ranges over parameters.Encodings", "the TrackRemotes are not created by ranging over the Encodings of the parameters")
	// normalised source path of an argument: "SSRC", "RTX.SSRC", "RID", "recv.kind", "recv"
	srcOf := func(e ast.Expr) string {
		root, path, idx, ok := c23Chain(info, e)
		if !ok {
			return "?" + exprStr(e)
		}
		switch {
		case root == params && len(path) >= 2 && path[0] == "Encodings" && path[1] == "[]" && len(idx) == 1 && idx[0] == key0:
			return "enc." + c23PathStr(path[2:])
		case val0 != nil && root == val0:
			return "enc." + c23PathStr(path)
		case root == recv && len(path) == 0:
			return "receiver"
		case root == recv:
			return "receiver." + c23PathStr(path)
		}
		return "?" + exprStr(e)
	}
	want := map[string]string{"ssrc": "enc.SSRC", "rtxSsrc": "enc.RTX.SSRC", "rid": "enc.RID", "kind": "receiver.kind", "receiver": "receiver"}
	r.Cells += len(call.Args) + len(fieldFrom)
	for _, f := range []string{"ssrc", "rtxSsrc", "rid", "kind", "receiver"} {
		key := "TrackRemote." + f + "<-" + want[f]
		i, ok := fieldFrom[f]
		if !ok || i >= len(call.Args) {
			r.Fail(R, key, c.P.Pos(ctor.Decl.Pos()), "newTrackRemote does not store a parameter in TrackRemote."+f)
			continue
		}
		got := srcOf(call.Args[i])
		r.Check(got == want[f], R, key, c.P.Pos(call.Args[i].Pos()), "composed through newTrackRemote parameter "+csig.Params().At(i).Name(),
			sprintf("TrackRemote.%s receives %s (argument %d of newTrackRemote), expected %s of the same encoding", f, strings.TrimPrefix(got, "?"), i, want[f]))
	}
}

func c23R2(c *Ctx) {
	r := c.R
	const R = "C23.R2"
	fi := c.mustFunc(R, "", "trackDetailsToRTPReceiveParameters")
	if fi == nil {
		return
	}
	info := fi.Pkg.TypesInfo
	pos := c.P.Pos(fi.Decl.Pos())
	td := fi.Obj.Type().(*types.Signature).Params().At(0)
	want := map[string]string{"SSRC": "ssrcs.[]", "RID": "rids.[]", "RTX.SSRC": "rtxSsrc.*", "FEC.SSRC": "fecSsrc.*"}
	seen := map[string]bool{}
	var encVar *types.Var
	ast.Inspect(fi.Decl.Body, func(n ast.Node) bool {
		as, ok := n.(*ast.AssignStmt)
		if !ok || len(as.Lhs) != len(as.Rhs) {
			return true
		}
		for i, l := range as.Lhs {
			lroot, lpath, lidx, ok := c23Chain(info, l)
			if !ok || len(lpath) < 2 || lpath[0] != "[]" || lroot == nil {
				continue
			}
			if _, isSlice := lroot.Type().Underlying().(*types.Slice); !isSlice {
				continue
			}
			field := c23PathStr(lpath[1:])
			w, known := want[field]
			if !known {
				r.Info(R, "encoding."+field, c.P.Pos(l.Pos()), "encoding member not in the table (listed)")
				continue
			}
			encVar = lroot
			seen[field] = true
			rroot, rpath, ridx, rok := c23Chain(info, as.Rhs[i])
			got := "?" + exprStr(as.Rhs[i])
			if rok && rroot == td {
				got = c23PathStr(rpath)
			}
			sameIdx := true
			if len(ridx) == 1 && (len(lidx) != 1 || ridx[0] != lidx[0]) {
				sameIdx = false
			}
			r.Check(got == w && sameIdx, R, "encoding."+field+"<-trackDetails."+w, c.P.Pos(l.Pos()), "same trackDetails, same index",
				sprintf("encoding member %s is filled from %s (expected trackDetails.%s with the encoding's own index)", field, strings.TrimPrefix(got, "?"), w))
		}
		return true
	})
	for f, w := range want {
		if !seen[f] {
			r.Fail(R, "encoding."+f+"<-trackDetails."+w, pos, "encoding member "+f+" is never filled from the trackDetails")
		}
	}
	// returned encodings are the ones filled
	ok := false
	ast.Inspect(fi.Decl.Body, func(n ast.Node) bool {
		ret, isRet := n.(*ast.ReturnStmt)
		if !isRet || len(ret.Results) != 1 {
			return true
		}
		if cl, isCl := ast.Unparen(ret.Results[0]).(*ast.CompositeLit); isCl {
			for _, el := range cl.Elts {
				if kv, isKV := el.(*ast.KeyValueExpr); isKV {
					if id, _ := kv.Key.(*ast.Ident); id != nil && id.Name == "Encodings" && encVar != nil && core.VarOf(info, kv.Value) == encVar {
						ok = true
					}
				}
			}
		}
		return true
	})
	r.Check(ok, R, "trackDetailsToRTPReceiveParameters|returns-filled-encodings", pos, "returns the encodings it filled", "the returned RTPReceiveParameters do not carry the encodings filled from the trackDetails")
}

func c23R3(c *Ctx) {
	r := c.R
	const R = "C23.R3"
	idF := c.mustField(R, "", "TrackRemote", "id")
	sidF := c.mustField(R, "", "TrackRemote", "streamID")
	tdID := c.mustField(R, "", "trackDetails", "id")
	tdSID := c.mustField(R, "", "trackDetails", "streamID")
	tdRid := c.P.Func("", "trackDetailsForRID")
	tdSsrc := c.P.Func("", "trackDetailsForSSRC")
	toParams := c.P.Func("", "trackDetailsToRTPReceiveParameters")
	confRecv := c.mustFunc(R, "", "PeerConnection.configureReceiver")
	if idF == nil || sidF == nil || tdID == nil || tdSID == nil || confRecv == nil {
		return
	}
	type write struct {
		field  *types.Var
		rhs    ast.Expr
		lhs    ast.Expr
		within ast.Node // innermost enclosing function body (decl or literal)
	}
	for _, fi := range c.P.AllFuncs() {
		if fi.Decl.Body == nil {
			continue
		}
		info := fi.Pkg.TypesInfo
		var ws []write
		var stack []ast.Node
		ast.Inspect(fi.Decl.Body, func(n ast.Node) bool {
			if n == nil {
				stack = stack[:len(stack)-1]
				return false
			}
			stack = append(stack, n)
			as, ok := n.(*ast.AssignStmt)
			if !ok {
				return true
			}
			for i, l := range as.Lhs {
				fv := core.FieldOf(info, l)
				if fv != idF && fv != sidF {
					continue
				}
				var rhs ast.Expr
				if len(as.Lhs) == len(as.Rhs) {
					rhs = as.Rhs[i]
				}
				var within ast.Node = fi.Decl.Body
				for j := len(stack) - 1; j >= 0; j-- {
					if fl, ok := stack[j].(*ast.FuncLit); ok {
						within = fl.Body
						break
					}
				}
				ws = append(ws, write{fv, rhs, l, within})
			}
			return true
		})
		if len(ws) == 0 {
			continue
		}
		r.Cells += len(ws)
		r.Saw(fi.Name())
		// per field
		bases := map[*types.Var]map[*types.Var]bool{idF: {}, sidF: {}}
		for _, f := range []*types.Var{idF, sidF} {
			wantF := tdID
			if f == sidF {
				wantF = tdSID
			}
			var bad []string
			n := 0
			var p token.Pos
			for _, w := range ws {
				if w.field != f {
					continue
				}
				n++
				p = w.lhs.Pos()
				if w.rhs == nil {
					bad = append(bad, "assigned from a multi-value expression")
					continue
				}
				se, ok := c23Strip(info, w.rhs).(*ast.SelectorExpr)
				if !ok || core.FieldOf(info, se) != wantF {
					bad = append(bad, sprintf("%s = %s", exprStr(w.lhs), exprStr(w.rhs)))
					continue
				}
				if b := core.VarOf(info, se.X); b != nil {
					bases[f][b] = true
				}
			}
			if n == 0 {
				continue
			}
			r.Check(len(bad) == 0, R, "track-identity|"+fi.Name()+"|"+f.Name()+"<-trackDetails."+wantF.Name(), c.P.Pos(p),
				sprintf("%d write(s), all from trackDetails.%s", n, wantF.Name()), "TrackRemote."+f.Name()+" is written from something other than trackDetails."+wantF.Name()+": "+strings.Join(bad, "; "))
		}
		// both fields from the same trackDetails value, per enclosing body
		{
			ok := true
			why := ""
			type pair struct{ id, sid *types.Var }
			perBody := map[ast.Node]*pair{}
			for _, w := range ws {
				if w.rhs == nil {
					continue
				}
				se, isSel := c23Strip(info, w.rhs).(*ast.SelectorExpr)
				if !isSel {
					continue
				}
				b := core.VarOf(info, se.X)
				// group writes by the innermost block they share: use the enclosing if/for body via position buckets
				blk := c23EnclosingBlock(fi.Decl.Body, w.lhs)
				if perBody[blk] == nil {
					perBody[blk] = &pair{}
				}
				if w.field == idF {
					perBody[blk].id = b
				} else {
					perBody[blk].sid = b
				}
			}
			for _, pr := range perBody {
				if pr.id == nil || pr.sid == nil || pr.id != pr.sid {
					ok = false
					why = "id and streamID written in one block come from different trackDetails values (or one of them is missing)"
				}
			}
			r.Check(ok, R, "track-identity|"+fi.Name()+"|id-and-streamID-of-one-trackDetails", c.P.Pos(ws[0].lhs.Pos()), "paired", why)
		}
		// where the trackDetails value comes from
		for b := range bases[idF] {
			key := "track-identity|" + fi.Name() + "|trackDetails-source"
			sig := fi.Obj.Type().(*types.Signature)
			isParam := false
			for i := 0; i < sig.Params().Len(); i++ {
				if sig.Params().At(i) == b {
					isParam = true
				}
			}
			if isParam {
				// the same parameter must be what the receiver is configured from
				ok := false
				ast.Inspect(fi.Decl.Body, func(n ast.Node) bool {
					call, isCall := n.(*ast.CallExpr)
					if !isCall || toParams == nil || core.Callee(info, call) != toParams.Obj || len(call.Args) != 1 {
						return true
					}
					if root, _, _, rok := c23Chain(info, call.Args[0]); rok && root == b {
						ok = true
					}
					return true
				})
				r.Check(ok, R, key, c.P.Pos(fi.Decl.Pos()), "the parameter the receiver is configured from", "the trackDetails whose id/streamID are stored is not the one passed to trackDetailsToRTPReceiveParameters in this function")
				continue
			}
			// local: defined by a lookup keyed by the track's own rid / ssrc
			var def *ast.CallExpr
			ast.Inspect(fi.Decl.Body, func(n ast.Node) bool {
				as, ok := n.(*ast.AssignStmt)
				if !ok || len(as.Lhs) != 1 || len(as.Rhs) != 1 || core.VarOf(info, as.Lhs[0]) != b {
					return true
				}
				if call, ok := ast.Unparen(as.Rhs[0]).(*ast.CallExpr); ok {
					def = call
				}
				return true
			})
			okSrc, why := false, "the trackDetails value is not the result of trackDetailsForRID / trackDetailsForSSRC"
			via := "unknown"
			if def != nil {
				fn := core.Callee(info, def)
				var wantKey string
				switch {
				case tdRid != nil && fn == tdRid.Obj:
					wantKey, via = "rid", fn.Name()
				case tdSsrc != nil && fn == tdSsrc.Obj:
					wantKey, via = "ssrc", fn.Name()
				}
				if wantKey != "" {
					last := def.Args[len(def.Args)-1]
					_, path, _, ok := c23Chain(info, last)
					if ok && len(path) == 1 && path[0] == wantKey && core.FieldOf(info, c23Strip(info, last)) != nil {
						okSrc = true
					} else {
						why = "the lookup is not keyed by the track's own " + wantKey
					}
				}
			}
			r.Check(okSrc, R, key+"|via:"+via, c.P.Pos(fi.Decl.Pos()), "looked up by the track's own rid/ssrc", why)
		}
	}
}

// c23EnclosingBlock returns the innermost block statement of root that contains x.
func c23EnclosingBlock(root ast.Node, x ast.Node) ast.Node {
	var best ast.Node = root
	ast.Inspect(root, func(n ast.Node) bool {
		if n == nil {
			return false
		}
		if n.Pos() > x.Pos() || x.End() > n.End() {
			return false
		}
		if _, ok := n.(*ast.BlockStmt); ok {
			best = n
		}
		return true
	})
	return best
}

func c23R4(c *Ctx) {
	r := c.R
	const R = "C23.R4"
	fi := c.mustFunc(R, "", "TrackRemote.checkAndUpdateTrack")
	lookup := c.mustFunc(R, "", "MediaEngine.getRTPParametersByPayloadType")
	byPT := c.mustFunc(R, "", "MediaEngine.getCodecByPayload")
	ptF := c.mustField(R, "", "TrackRemote", "payloadType")
	codecF := c.mustField(R, "", "TrackRemote", "codec")
	paramsF := c.mustField(R, "", "TrackRemote", "params")
	if fi == nil || lookup == nil || byPT == nil || ptF == nil || codecF == nil || paramsF == nil {
		return
	}
	info := fi.Pkg.TypesInfo
	g := c.P.GraphOf(fi)
	pos := c.P.Pos(fi.Decl.Pos())
	b := fi.Obj.Type().(*types.Signature).Params().At(0)
	// the lookup call
	var call *ast.CallExpr
	var callNode int = -1
	var paramsVar *types.Var
	for _, n := range g.Nodes {
		as, ok := n.Ast.(*ast.AssignStmt)
		if !ok || len(as.Rhs) != 1 {
			continue
		}
		if cl, ok := ast.Unparen(as.Rhs[0]).(*ast.CallExpr); ok && core.Callee(info, cl) == lookup.Obj {
			call, callNode = cl, n.ID
			paramsVar = core.VarOf(info, as.Lhs[0])
		}
	}
	if call == nil || len(call.Args) != 1 {
		r.Undecided(R, "checkAndUpdateTrack|lookup", pos, "no `params, err := ...getRTPParametersByPayloadType(pt)` statement found")
		return
	}
	pt := core.VarOf(info, call.Args[0])
	{
		key := "checkAndUpdateTrack|payload-type<-packet[1]&0x7F"
		ok, why := false, "the looked-up payload type is not a local with a single definition"
		if pt != nil {
			if d, single := c23ResolveDef(g, callNode, pt); single && d.RHS != nil {
				why = "payload type is defined as " + exprStr(d.RHS)
				if be, isB := c23Strip(info, d.RHS).(*ast.BinaryExpr); isB && be.Op == token.AND {
					for _, pr := range [][2]ast.Expr{{be.X, be.Y}, {be.Y, be.X}} {
						ix, isIx := c23Strip(info, pr[0]).(*ast.IndexExpr)
						m, isC := c26LinOf(info, pr[1])
						if !isIx || !isC || len(m.co) != 0 || core.VarOf(info, ix.X) != b {
							continue
						}
						i, isCI := c26LinOf(info, ix.Index)
						switch {
						case !isCI || len(i.co) != 0 || i.k != 1:
							why = "the payload type is not read from byte 1 of the packet"
						case m.k != 0x7F:
							why = sprintf("the payload-type mask is %#x, RFC 3550 gives the low 7 bits (0x7F)", m.k)
						default:
							ok = true
						}
					}
				}
			}
		}
		r.Check(ok, R, key, c.P.Pos(call.Pos()), "pt := packet[1] & 0x7F, codec resolved with pt", why)
	}
	// stores
	stores := map[*types.Var]ast.Expr{}
	storeNode := map[*types.Var]int{}
	for _, n := range g.Nodes {
		as, ok := n.Ast.(*ast.AssignStmt)
		if !ok || len(as.Lhs) != len(as.Rhs) {
			continue
		}
		for i, l := range as.Lhs {
			if fv := core.FieldOf(info, l); fv == ptF || fv == codecF || fv == paramsF {
				stores[fv] = as.Rhs[i]
				storeNode[fv] = n.ID
			}
		}
	}
	chk := func(f *types.Var, name string, pred func(e ast.Expr) bool, want string) {
		key := "checkAndUpdateTrack|stores|" + name
		e, ok := stores[f]
		if !ok {
			r.Fail(R, key, pos, "TrackRemote."+f.Name()+" is never updated")
			return
		}
		okDom := g.Dominated(storeNode[f], map[int]bool{callNode: true})
		r.Check(pred(e) && okDom, R, key, c.P.Pos(e.Pos()), want, sprintf("TrackRemote.%s = %s; expected %s, after the lookup", f.Name(), exprStr(e), want))
	}
	chk(ptF, "payloadType<-looked-up-pt", func(e ast.Expr) bool { return pt != nil && core.VarOf(info, c23Strip(info, e)) == pt }, "the payload type the codec was resolved with")
	chk(paramsF, "params<-lookup-result", func(e ast.Expr) bool { return paramsVar != nil && core.VarOf(info, c23Strip(info, e)) == paramsVar }, "the parameters returned by the lookup")
	chk(codecF, "codec<-lookup-result.Codecs[0]", func(e ast.Expr) bool {
		ix, ok := c23Strip(info, e).(*ast.IndexExpr)
		if !ok {
			return false
		}
		i, isC := c26LinOf(info, ix.Index)
		root, path, _, cok := c23Chain(info, ix.X)
		return isC && len(i.co) == 0 && i.k == 0 && cok && root == paramsVar && c23PathStr(path) == "Codecs"
	}, "Codecs[0] of the parameters returned by the lookup")
	// the update is not skipped when the payload type changed
	{
		key := "checkAndUpdateTrack|update-when-pt-differs"
		ok := false
		ptAliases := map[*types.Var]bool{}
		if pt != nil {
			// pt and the locals it was copied from
			ptAliases[pt] = true
			cur, at := pt, callNode
			for hop := 0; hop < 4; hop++ {
				d, single := c23SingleDef(g, at, cur)
				if !single || d.RHS == nil {
					break
				}
				src := core.VarOf(info, ast.Unparen(d.RHS))
				if src == nil {
					break
				}
				ptAliases[src] = true
				cur, at = src, d.Node
			}
		}
		for _, n := range g.Nodes {
			if len(n.Succs) != 2 || n.Succs[0].Cond == nil {
				continue
			}
			ast.Inspect(n.Succs[0].Cond, func(y ast.Node) bool {
				be, isB := y.(*ast.BinaryExpr)
				if !isB || be.Op != token.NEQ {
					return true
				}
				for _, pr := range [][2]ast.Expr{{be.X, be.Y}, {be.Y, be.X}} {
					if pv := core.VarOf(info, c23Strip(info, pr[0])); pv != nil && pt != nil && ptAliases[pv] {
						other := c23Strip(info, pr[1])
						if cl, isCall := other.(*ast.CallExpr); isCall {
							if fn := core.Callee(info, cl); fn != nil && fn.Name() == "PayloadType" {
								ok = true
							}
						}
						if core.FieldOf(info, other) == ptF {
							ok = true
						}
					}
				}
				return true
			})
		}
		r.Check(ok, R, key, pos, "compares the packet's payload type with the stored one", "no comparison `pt != stored payload type` guards the update: a payload-type change would not re-resolve the codec")
	}
	// getRTPParametersByPayloadType resolves its own argument
	{
		key := "getRTPParametersByPayloadType|codec-of-its-argument"
		linfo := lookup.Pkg.TypesInfo
		p0 := lookup.Obj.Type().(*types.Signature).Params().At(0)
		var codecVar *types.Var
		okCall := false
		ast.Inspect(lookup.Decl.Body, func(n ast.Node) bool {
			as, ok := n.(*ast.AssignStmt)
			if !ok || len(as.Rhs) != 1 {
				return true
			}
			if cl, ok := ast.Unparen(as.Rhs[0]).(*ast.CallExpr); ok && core.Callee(linfo, cl) == byPT.Obj && len(cl.Args) == 1 && core.VarOf(linfo, cl.Args[0]) == p0 {
				okCall = true
				codecVar = core.VarOf(linfo, as.Lhs[0])
			}
			return true
		})
		okRet := false
		ast.Inspect(lookup.Decl.Body, func(n ast.Node) bool {
			kv, ok := n.(*ast.KeyValueExpr)
			if !ok {
				return true
			}
			if id, _ := kv.Key.(*ast.Ident); id != nil && id.Name == "Codecs" {
				if cl, ok := ast.Unparen(kv.Value).(*ast.CompositeLit); ok && len(cl.Elts) >= 1 && codecVar != nil && core.VarOf(linfo, cl.Elts[0]) == codecVar {
					okRet = true
				}
			}
			return true
		})
		r.Check(okCall && okRet, R, key, c.P.Pos(lookup.Decl.Pos()), "Codecs[0] is getCodecByPayload(argument)", "getRTPParametersByPayloadType does not return, as Codecs[0], the codec getCodecByPayload finds for its own argument")
	}
}

func c23R5(c *Ctx) {
	r := c.R
	const R = "C23.R5"
	bind := c.mustFunc(R, "", "TrackLocalStaticRTP.Bind")
	search := c.mustFunc(R, "", "codecParametersFuzzySearch")
	tb := c.P.Named("", "trackBinding")
	bindingsF := c.mustField(R, "", "TrackLocalStaticRTP", "bindings")
	if bind == nil || search == nil || tb == nil || bindingsF == nil {
		return
	}
	info := bind.Pkg.TypesInfo
	g := c.P.GraphOf(bind)
	pos := c.P.Pos(bind.Decl.Pos())
	ctx := bind.Obj.Type().(*types.Signature).Params().At(0)
	// method of the context parameter
	ctxMethod := func(e ast.Expr) string {
		call, ok := c23Strip(info, e).(*ast.CallExpr)
		if !ok || len(call.Args) != 0 {
			return ""
		}
		se, ok := ast.Unparen(call.Fun).(*ast.SelectorExpr)
		if !ok || core.VarOf(info, se.X) != ctx {
			return ""
		}
		return se.Sel.Name
	}
	var lit *ast.CompositeLit
	var litNode int = -1
	for _, n := range g.Nodes {
		if n.Ast == nil {
			continue
		}
		core.InspectShallow(n.Ast, func(y ast.Node) bool {
			if cl, ok := y.(*ast.CompositeLit); ok && c38NamedOf(info.TypeOf(cl)) == tb {
				lit, litNode = cl, n.ID
			}
			return true
		})
	}
	if lit == nil {
		r.Undecided(R, "Bind|binding-literal", pos, "no trackBinding composite literal in Bind")
		return
	}
	// appended to s.bindings
	{
		ok := false
		if as, isAs := g.Nodes[litNode].Ast.(*ast.AssignStmt); isAs && len(as.Lhs) == 1 && core.FieldOf(info, as.Lhs[0]) == bindingsF {
			if call, isCall := ast.Unparen(as.Rhs[0]).(*ast.CallExpr); isCall && len(call.Args) >= 2 && core.FieldOf(info, call.Args[0]) == bindingsF {
				if id, isId := call.Fun.(*ast.Ident); isId && id.Name == "append" {
					ok = true
				}
			}
		}
		r.Check(ok, R, "Bind|binding-appended", c.P.Pos(lit.Pos()), "appended to s.bindings", "the new binding is not appended to s.bindings")
	}
	vals := map[string]ast.Expr{}
	for _, el := range lit.Elts {
		if kv, ok := el.(*ast.KeyValueExpr); ok {
			if id, _ := kv.Key.(*ast.Ident); id != nil {
				vals[id.Name] = kv.Value
			}
		}
	}
	for _, fm := range [][2]string{{"ssrc", "SSRC"}, {"writeStream", "WriteStream"}, {"id", "ID"}} {
		key := "Bind|binding." + fm[0] + "<-context." + fm[1] + "()"
		e := vals[fm[0]]
		if e == nil {
			r.Fail(R, key, c.P.Pos(lit.Pos()), "binding member "+fm[0]+" is not set")
			continue
		}
		got := ctxMethod(e)
		r.Check(got == fm[1], R, key, c.P.Pos(e.Pos()), "from the bound context", sprintf("binding.%s = %s, expected %s() of the TrackLocalContext being bound", fm[0], exprStr(e), fm[1]))
	}
	// payload type: codec.PayloadType where codec, _ := codecParametersFuzzySearch(_, ctx.CodecParameters())
	{
		key := "Bind|binding.payloadType<-matched-negotiated-codec"
		e := vals["payloadType"]
		ok, why := false, "binding member payloadType is not set"
		var codecVar *types.Var
		if e != nil {
			why = "payloadType is " + exprStr(e) + ", not PayloadType of the matched codec"
			if se, isSel := c23Strip(info, e).(*ast.SelectorExpr); isSel && se.Sel.Name == "PayloadType" {
				codecVar = core.VarOf(info, se.X)
				if codecVar != nil {
					if d, single := c23SingleDef(g, litNode, codecVar); single && d.RHS != nil && d.Idx == 0 {
						if call, isCall := ast.Unparen(d.RHS).(*ast.CallExpr); isCall && core.Callee(info, call) == search.Obj && len(call.Args) == 2 {
							if ctxMethod(call.Args[1]) == "CodecParameters" {
								ok = true
							} else {
								why = "the codec is not searched among CodecParameters() of the context being bound"
							}
						} else {
							why = "the codec is not the result of codecParametersFuzzySearch"
						}
					}
				}
			}
		}
		r.Check(ok, R, key, c.P.Pos(lit.Pos()), "PayloadType of the codec matched among the context's negotiated codecs", why)
		// Bind returns that codec on the success path
		okRet := false
		ast.Inspect(bind.Decl.Body, func(n ast.Node) bool {
			if ret, isRet := n.(*ast.ReturnStmt); isRet && len(ret.Results) == 2 && codecVar != nil && core.VarOf(info, ret.Results[0]) == codecVar && core.IsNilIdent(info, ret.Results[1]) {
				okRet = true
			}
			return true
		})
		r.Check(okRet, R, "Bind|returns-matched-codec", pos, "returns the matched codec", "Bind does not return the codec whose payload type it recorded")
	}
}

func c23R7(c *Ctx) {
	r := c.R
	const R = "C23.R7"
	fi := c.mustFunc(R, "", "runIfNewReceiver")
	midF := c.mustField(R, "", "trackDetails", "mid")
	if fi == nil || midF == nil {
		return
	}
	info := fi.Pkg.TypesInfo
	g := c.P.GraphOf(fi)
	pos := c.P.Pos(fi.Decl.Pos())
	sig := fi.Obj.Type().(*types.Signature)
	if sig.Params().Len() != 3 {
		r.Undecided(R, "runIfNewReceiver|signature", pos, "unexpected signature")
		return
	}
	track, cb := sig.Params().At(0), sig.Params().At(2)
	var loop *ast.RangeStmt
	ast.Inspect(fi.Decl.Body, func(n ast.Node) bool {
		if rs, ok := n.(*ast.RangeStmt); ok && core.VarOf(info, rs.X) == sig.Params().At(1) {
			loop = rs
		}
		return true
	})
	if loop == nil || loop.Value == nil {
		r.Undecided(R, "runIfNewReceiver|loop", pos, "no `for _, t := range transceivers` loop")
		return
	}
	t := core.VarOf(info, loop.Value)
	head, body := -1, -1
	for _, n := range g.Nodes {
		if len(n.Succs) == 2 && n.Succs[0].Range == loop {
			head, body = n.ID, n.Succs[0].To
		}
	}
	calls := g.FindNodes(func(n ast.Node) bool {
		call, ok := n.(*ast.CallExpr)
		return ok && core.VarOf(info, call.Fun) == cb
	})
	if len(calls) != 1 || head < 0 {
		r.Undecided(R, "runIfNewReceiver|callback-call", pos, sprintf("expected one call of the callback parameter, found %d", len(calls)))
		return
	}
	var call *ast.CallExpr
	core.InspectShallow(g.Nodes[calls[0]].Ast, func(n ast.Node) bool {
		if cl, ok := n.(*ast.CallExpr); ok && core.VarOf(info, cl.Fun) == cb {
			call = cl
		}
		return true
	})
	// argument 0 is the incoming track; argument 1 is t.Receiver()
	r.Check(len(call.Args) == 2 && core.VarOf(info, call.Args[0]) == track, R, "runIfNewReceiver|callback-gets-the-incoming-track", c.P.Pos(call.Pos()), "first argument is the incoming track", "the callback is not invoked with the incoming track it was asked to place")
	{
		ok, why := false, "second argument is not a local"
		if len(call.Args) == 2 {
			if rv := core.VarOf(info, call.Args[1]); rv != nil {
				why = "the receiver does not come from Receiver() of the transceiver being visited"
				if d, single := c23SingleDef(g, calls[0], rv); single && d.RHS != nil {
					if cl, isCall := ast.Unparen(d.RHS).(*ast.CallExpr); isCall {
						if se, isSel := ast.Unparen(cl.Fun).(*ast.SelectorExpr); isSel && se.Sel.Name == "Receiver" && core.VarOf(info, se.X) == t {
							ok = true
						}
					}
				}
			}
		}
		r.Check(ok, R, "runIfNewReceiver|receiver-of-the-visited-transceiver", c.P.Pos(call.Pos()), "receiver := t.Receiver()", why)
	}
	// the mid test: an edge on which t.Mid() == incomingTrack.mid holds must separate the iteration start from the call
	{
		key := "runIfNewReceiver|mid-equal-before-callback"
		passEdges := map[core.EdgeRef]bool{}
		for _, n := range g.Nodes {
			if len(n.Succs) != 2 || n.Succs[0].Cond == nil {
				continue
			}
			be, negated := c23ResolveCond(g, n.ID, n.Succs[0].Cond)
			if be == nil || (be.Op != token.EQL && be.Op != token.NEQ) {
				continue
			}
			isMidCall := func(e ast.Expr) bool {
				cl, ok := c23Strip(info, e).(*ast.CallExpr)
				if !ok {
					return false
				}
				se, ok := ast.Unparen(cl.Fun).(*ast.SelectorExpr)
				return ok && se.Sel.Name == "Mid" && core.VarOf(info, se.X) == t
			}
			isTrackMid := func(e ast.Expr) bool {
				se, ok := c23Strip(info, e).(*ast.SelectorExpr)
				return ok && core.FieldOf(info, se) == midF && core.VarOf(info, se.X) == track
			}
			if (isMidCall(be.X) && isTrackMid(be.Y)) || (isMidCall(be.Y) && isTrackMid(be.X)) {
				idx := 0 // true edge
				if (be.Op == token.NEQ) != negated {
					idx = 1
				}
				passEdges[core.EdgeRef{From: n.ID, Idx: idx}] = true
			}
		}
		ok := len(passEdges) > 0
		if ok {
			reach := g.Reach([]int{body}, func(n int) bool { return n == head }, func(from, idx int, e core.Edge) bool { return passEdges[core.EdgeRef{From: from, Idx: idx}] })
			ok = !reach[calls[0]]
		}
		r.Check(ok, R, key, c.P.Pos(call.Pos()), "the callback runs only for a transceiver whose mid equals the track's mid", "the callback can be reached for a transceiver whose Mid() was not compared equal to the incoming track's mid: the track would be attached to the wrong receiver")
	}
}
