package props

import (
	"fmt"
	"go/ast"
	"go/token"
	"go/types"
	"os"
	"sort"
	"strings"
	"time"

	"golang.org/x/tools/go/packages"

	"verif/checker/core"
)

func init() {
	register(&Prop{
		ID:        "C40",
		Engine:    "e3lock",
		Technique: "interprocedural lockset analysis: module lock-order graph (acyclicity), frozen guarded-by table checked at every field access with entry locksets, no blocking operation under a lock",
		LevelText: "Lock clauses of race- and deadlock-freedom, decided for every schedule because they speak about code: the lock-order graph of all mutex classes is acyclic; every access to a tabled field of the connection objects holds the field's guard (or the field is atomic / immutable after construction); no channel wait or WaitGroup.Wait executes with a lock held.",
		LevelNote: "Trusted: go/types, go/cfg, the static call graph (dynamic calls under a lock are listed, not followed in the quick tier). Does not decide liveness, races inside dependencies, or accesses through unresolved interfaces.",
		DesignRef: "DESIGN.md §5 C40",
		Run:       runC40,
	})
}

// c40Include selects the library packages (quick tier): the example and e2e programs are clients of the library.
func c40Include(pk *packages.Package) bool {
	rel := strings.TrimPrefix(strings.TrimPrefix(pk.PkgPath, core.ModPath), "/")
	return !strings.HasPrefix(rel, "examples") && !strings.HasPrefix(rel, "e2e")
}

// c40IncludeAll (thorough tier) also analyses the example / e2e programs: their own mutexes join the lock-order graph
// (a program lock held around a library call must not close a cycle) and the no-blocking rule.
func c40IncludeAll(pk *packages.Package) bool { return true }

func runC40(c *Ctx) {
	t0 := time.Now()
	include := c40Include
	if c.Thorough {
		include = c40IncludeAll
	}
	lp := core.BuildLockProgram(c.P, include)
	lp.CallerHolds = map[*types.Func]bool{}
	for _, nm := range c40CallerHolds {
		if fi := c.mustFunc("C40.R2", "", nm); fi != nil {
			lp.CallerHolds[fi.Obj] = true
		}
	}
	if os.Getenv("VERIF_DEBUG") == "c40dump" {
		c40Dump(c, lp)
	}
	if os.Getenv("VERIF_DEBUG") == "c40fields" {
		c40DumpFields(c, lp)
	}
	r := c.R
	r.Rule("C40.R1", "lock order: the graph 'class B acquired while class A is held' over every mutex class of the module (own Lock calls, in-place literals, static and module-interface callees, transitively) is acyclic; no mutex instance is re-acquired while held; function values invoked under a lock are on the reviewed list", 54)
	r.Rule("C40.R2", "guarded-by: every access to a field of PeerConnection, SCTPTransport, RTPTransceiver, RTPSender, RTPReceiver, DataChannel, operations, TrackLocalStaticRTP/Sample, statsReportCollector respects the field's frozen guard (mutex class held - write mode for writes - with entry locksets for unexported helpers; atomic type used through its methods; immutable after construction; confined to listed functions); objects under construction are exempt", 530)
	r.Rule("C40.R4", "no element access (range, index, slice) through a local copy of the header of a mutex-guarded slice or map that is edited in place somewhere in the module, unless the guard is held at the access", 0)
	r.Rule("C40.R3", "no blocking under a lock: no channel receive/send, select without default, range over a channel, WaitGroup.Wait or Cond.Wait executes (directly or through static callees) while a mutex is held, except the reviewed list", 190)
	r.NotCovered = append(r.NotCovered,
		"liveness: that every call returns",
		"data races and lock usage inside dependencies (ice, dtls, sctp, srtp, interceptor) and calls through their interfaces (listed as dynamic-under-lock)",
		"user callbacks: what a handler invoked by pion does (handlers invoked under a lock are enumerated and frozen)",
		"fields of helper structs (trackEncoding, trackStreams, trackBinding, TrackRemote, ICE/DTLS transports): only the ten scoped struct types are tabled",
		"a lock of the right class but of a different instance (locksets are class-level for R2)",
		"publication of an object before its constructor returns (accesses through a freshly allocated local are exempt for the whole constructor)",
		"accesses listed as exceptions in the table rely on a happens-before argument (channel close, atomic state, write-once) that was confirmed by reading, not proved")
	r.Trusted = append(r.Trusted, "go/types, go/cfg; core.Locks (must/may locksets per CFG node)", "static call graph plus class-hierarchy resolution of module-declared interfaces; other dynamic calls are not followed")
	c40R1(c, lp)
	c40R2(c, lp)
	c40R3(c, lp)
	var classes []string
	for cl := range lp.Classes {
		classes = append(classes, cl)
	}
	sort.Strings(classes)
	nLit := 0
	for _, u := range lp.Units {
		if u.Kind != core.UDecl {
			nLit++
		} else {
			r.Saw(u.Name)
		}
	}
	c40R4(c)
	r.Extra["lock_classes"] = classes
	r.Extra["analysis_units"] = map[string]int{"declared_functions": len(lp.Units) - nLit, "function_literals": nLit}
	r.Extra["guarded_by_table_entries"] = len(c40Table)
	r.Extra["analysis_seconds_after_load"] = time.Since(t0).Seconds()
}

func c40Dump(c *Ctx, lp *core.LockProgram) {
	fmt.Fprintln(os.Stderr, "units:", len(lp.Units))
	var cls []string
	for k := range lp.Classes {
		cls = append(cls, k)
	}
	sort.Strings(cls)
	fmt.Fprintln(os.Stderr, "classes:", len(cls), cls)
	for _, s := range lp.ForeignUnlocks() {
		fmt.Fprintln(os.Stderr, "foreign-unlock:", s)
	}
	for _, s := range lp.ReturnsHolding() {
		fmt.Fprintln(os.Stderr, "returns-holding:", s)
	}
	edges := lp.OrderEdges()
	agg := map[string][]core.OrderEdge{}
	for _, e := range edges {
		k := e.From + " -> " + e.To
		if e.From == e.To {
			k += sprintf(" same=%v", e.SameInstance)
		}
		agg[k] = append(agg[k], e)
	}
	var ks []string
	for k := range agg {
		ks = append(ks, k)
	}
	sort.Strings(ks)
	for _, k := range ks {
		fmt.Fprintf(os.Stderr, "edge %s (%d)\n", k, len(agg[k]))
		for i, e := range agg[k] {
			if i >= 4 {
				break
			}
			fmt.Fprintf(os.Stderr, "    in %s @ %s held=%s chain=%v acq@%s\n", e.Unit.Name, c.P.Pos(e.Pos), e.HeldInst, e.Chain, c.P.Pos(e.AcqPos))
		}
	}
	for _, b := range lp.BlocksUnderLock() {
		fmt.Fprintf(os.Stderr, "block-under %s in %s @ %s: %s %s chain=%v\n", b.Class, b.Unit.Name, c.P.Pos(b.Pos), b.Op.Kind, b.Op.What, b.Op.Chain)
	}
	for _, d := range lp.DynamicCallsUnderLock() {
		fmt.Fprintf(os.Stderr, "dyn-under %s in %s @ %s: %s\n", d.Class, d.Unit.Name, c.P.Pos(d.Pos), d.What)
	}
}

// ---- R2: field accesses ----

// c40Scope lists the struct types whose fields the guarded-by rule covers.
var c40Scope = []string{"PeerConnection", "SCTPTransport", "RTPTransceiver", "RTPSender", "RTPReceiver", "DataChannel",
	"operations", "TrackLocalStaticRTP", "TrackLocalStaticSample", "statsReportCollector", "TrackRemote"}

// c40Extended: struct types tabled although the property's call set does not reach their racy paths (reading from a
// remote track is not in K): accesses that break the guard are listed (not judged).
var c40Extended = map[string]bool{"TrackRemote": true}

type c40Access struct {
	Key    string // "Type.field"
	Field  *types.Var
	Unit   *core.LUnit
	Node   int
	Pos    token.Pos
	Write  bool
	Fresh  bool // through a local that this function allocated itself (object not yet published)
	Held   map[string]string
	Atomic bool // &field handed to a sync/atomic function
	Method bool // the field is the receiver of a method call (x.f.M())
	Addr   bool // &x.f (not as a sync/atomic argument)
}

// c40FieldIndex maps the fields of the scoped struct types to "Type.field".
func c40FieldIndex(c *Ctx) map[*types.Var]string {
	out := map[*types.Var]string{}
	for _, tn := range c40Scope {
		n := c.P.Named("", tn)
		if n == nil {
			c.R.Fail("C40.R2", "anchor:type:"+tn, "-", "scoped struct type no longer resolves (fails closed)")
			continue
		}
		st, ok := n.Underlying().(*types.Struct)
		if !ok {
			c.R.Fail("C40.R2", "anchor:type:"+tn, "-", "scoped type is no longer a struct")
			continue
		}
		for i := 0; i < st.NumFields(); i++ {
			out[st.Field(i)] = tn + "." + st.Field(i).Name()
		}
	}
	return out
}

func c40RootVar(info *types.Info, e ast.Expr) *types.Var {
	for {
		switch x := ast.Unparen(e).(type) {
		case *ast.Ident:
			return core.VarOf(info, x)
		case *ast.SelectorExpr:
			e = x.X
		case *ast.StarExpr:
			e = x.X
		case *ast.IndexExpr:
			e = x.X
		default:
			return nil
		}
	}
}

func c40IsStructValue(info *types.Info, e ast.Expr) bool {
	tv, ok := info.Types[e]
	if !ok || tv.Type == nil {
		return false
	}
	_, isS := tv.Type.Underlying().(*types.Struct)
	return isS
}

// c40WriteTargets returns the field selectors written by statement/expression node n.
func c40WriteTargets(info *types.Info, n ast.Node) (writes, atomics, addrs map[*ast.SelectorExpr]bool) {
	writes, atomics, addrs = map[*ast.SelectorExpr]bool{}, map[*ast.SelectorExpr]bool{}, map[*ast.SelectorExpr]bool{}
	var mark func(e ast.Expr)
	mark = func(e ast.Expr) {
		switch x := ast.Unparen(e).(type) {
		case *ast.SelectorExpr:
			if core.FieldOf(info, x) != nil {
				writes[x] = true
				if c40IsStructValue(info, x.X) {
					mark(x.X)
				}
			}
		case *ast.IndexExpr:
			tv := info.Types[x.X]
			if tv.Type == nil {
				return
			}
			switch tv.Type.Underlying().(type) {
			case *types.Map, *types.Slice, *types.Array:
				mark(x.X)
			case *types.Pointer: // pointer to array
			}
		}
	}
	core.InspectShallow(n, func(x ast.Node) bool {
		switch s := x.(type) {
		case *ast.AssignStmt:
			for _, l := range s.Lhs {
				mark(l)
			}
		case *ast.IncDecStmt:
			mark(s.X)
		case *ast.RangeStmt:
			if s.Key != nil {
				mark(s.Key)
			}
			if s.Value != nil {
				mark(s.Value)
			}
		case *ast.CallExpr:
			if id, ok := ast.Unparen(s.Fun).(*ast.Ident); ok {
				if b, ok := info.Uses[id].(*types.Builtin); ok && (b.Name() == "delete" || b.Name() == "clear") && len(s.Args) > 0 {
					mark(s.Args[0])
				}
			}
			fn := core.Callee(info, s)
			isAtomicFn := fn != nil && fn.Pkg() != nil && fn.Pkg().Path() == "sync/atomic"
			for _, a := range s.Args {
				if u, ok := ast.Unparen(a).(*ast.UnaryExpr); ok && u.Op == token.AND {
					if se, ok := ast.Unparen(u.X).(*ast.SelectorExpr); ok && core.FieldOf(info, se) != nil {
						if isAtomicFn {
							atomics[se] = true
						} else {
							addrs[se] = true // address handed out: the callee may write through it
						}
					}
				}
			}
		case *ast.UnaryExpr:
			if s.Op == token.AND {
				if se, ok := ast.Unparen(s.X).(*ast.SelectorExpr); ok && core.FieldOf(info, se) != nil {
					if !atomics[se] {
						addrs[se] = true // &x.f stored / returned / passed on
					}
				}
			}
		}
		return true
	})
	for se := range atomics {
		delete(writes, se)
		delete(addrs, se)
	}
	return writes, atomics, addrs
}

// c40Accesses enumerates every access to an indexed field in the analysed packages.
func c40Accesses(c *Ctx, lp *core.LockProgram, idx map[*types.Var]string) []c40Access {
	var out []c40Access
	for _, u := range lp.Units {
		if u.Kind == core.ULitDead {
			continue
		}
		info := u.G.Info
		live := u.G.Live()
		for _, nd := range u.G.Nodes {
			if nd.Ast == nil || !live[nd.ID] {
				continue
			}
			var writes, atomics, addrs map[*ast.SelectorExpr]bool
			methodRecv := map[ast.Expr]bool{}
			core.InspectShallow(nd.Ast, func(x ast.Node) bool {
				if call, ok := x.(*ast.CallExpr); ok {
					if fs, ok := ast.Unparen(call.Fun).(*ast.SelectorExpr); ok {
						if sel := info.Selections[fs]; sel != nil && sel.Kind() == types.MethodVal {
							methodRecv[ast.Unparen(fs.X)] = true
						}
					}
				}
				return true
			})
			core.InspectShallow(nd.Ast, func(x ast.Node) bool {
				se, ok := x.(*ast.SelectorExpr)
				if !ok {
					return true
				}
				fv := core.FieldOf(info, se)
				key, scoped := idx[fv]
				if fv == nil || !scoped {
					return true
				}
				if writes == nil {
					writes, atomics, addrs = c40WriteTargets(info, nd.Ast)
				}
				a := c40Access{Key: key, Field: fv, Unit: u, Node: nd.ID, Pos: se.Sel.Pos(), Write: writes[se], Atomic: atomics[se], Method: methodRecv[se], Addr: addrs[se]}
				// constructor exemption: the base is a local this function allocated, and the code runs in the
				// allocating function itself (or a literal it invokes in place), not in a callback defined there
				if u.Kind == core.UDecl || u.Kind == core.ULitCall {
					if rv := c40RootVar(info, se.X); rv != nil && lp.FreshVars(u.Owner)[rv] {
						// only direct fields of the fresh object: v.f, not v.other.f
						if id, ok := ast.Unparen(se.X).(*ast.Ident); ok && core.VarOf(info, id) == rv {
							a.Fresh = true
						}
					}
				}
				a.Held = lp.HeldAt(u, nd.ID)
				out = append(out, a)
				return true
			})
		}
	}
	return out
}

func c40HeldStr(h map[string]string) string {
	var s []string
	for k, v := range h {
		s = append(s, k+":"+v)
	}
	sort.Strings(s)
	return "{" + strings.Join(s, ",") + "}"
}

func c40DumpFields(c *Ctx, lp *core.LockProgram) {
	idx := c40FieldIndex(c)
	acc := c40Accesses(c, lp, idx)
	byField := map[string][]c40Access{}
	for _, a := range acc {
		byField[a.Key] = append(byField[a.Key], a)
	}
	var keys []string
	for v, k := range idx {
		_ = v
		keys = append(keys, k)
	}
	sort.Strings(keys)
	typeOf := map[string]string{}
	for v, k := range idx {
		typeOf[k] = types.TypeString(v.Type(), func(p *types.Package) string { return p.Name() })
	}
	for _, k := range keys {
		fmt.Fprintf(os.Stderr, "FIELD %s  type=%s  accesses=%d\n", k, typeOf[k], len(byField[k]))
		grp := map[string][]c40Access{}
		for _, a := range byField[k] {
			g := "R"
			if a.Write {
				g = "W"
			}
			if a.Addr {
				g = "&"
			}
			if a.Atomic {
				g = "A"
			}
			if a.Fresh {
				g += " fresh"
			}
			g += " " + c40HeldStr(a.Held)
			grp[g] = append(grp[g], a)
		}
		var gs []string
		for g := range grp {
			gs = append(gs, g)
		}
		sort.Strings(gs)
		for _, g := range gs {
			fmt.Fprintf(os.Stderr, "   %-60s n=%d", g, len(grp[g]))
			seen := map[string]bool{}
			for _, a := range grp[g] {
				if !seen[a.Unit.Name] && len(seen) < 8 {
					seen[a.Unit.Name] = true
					fmt.Fprintf(os.Stderr, " %s", a.Unit.Name)
				}
			}
			fmt.Fprintln(os.Stderr)
		}
	}
}

// ---- the frozen guarded-by table ----

type c40Guard struct {
	Kind  string // "lock" (the mutex itself), "mutex", "atomic", "immutable"
	Class string // for Kind "mutex": the lock class that guards the field
	// SOnly: reads without the lock are accepted in code that only runs inside the serialised signaling calls,
	// provided every write of the field is in such code too (S×S is serialised by the property's quantifier).
	SOnly bool
	// Writers lists units (besides constructors) that may write an "immutable" field, with the reason in Why.
	Writers []string
	// Except lists units whose accesses are exempt, each with a reason.
	Except map[string]string
	Why    string
}

func c40Mu(class, why string) c40Guard { return c40Guard{Kind: "mutex", Class: class, Why: why} }
func c40MuS(class, why string) c40Guard {
	return c40Guard{Kind: "mutex", Class: class, SOnly: true, Why: why}
}
func c40Atomic(why string) c40Guard { return c40Guard{Kind: "atomic", Why: why} }
func c40Imm(why string) c40Guard    { return c40Guard{Kind: "immutable", Why: why} }
func c40Confined(why string, units ...string) c40Guard {
	return c40Guard{Kind: "confined", Why: why, Writers: units}
}
func (g c40Guard) except(unit, why string) c40Guard {
	m := map[string]string{}
	for k, v := range g.Except {
		m[k] = v
	}
	m[unit] = why
	g.Except = m
	return g
}
func (g c40Guard) writers(units ...string) c40Guard {
	g.Writers = append(append([]string{}, g.Writers...), units...)
	return g
}

const (
	c40PC   = "PeerConnection.mu"
	c40SCTP = "SCTPTransport.lock"
	c40DC   = "DataChannel.mu"
	c40TR   = "RTPTransceiver.mu"
	c40SND  = "RTPSender.mu"
	c40RCV  = "RTPReceiver.mu"
	c40OPS  = "operations.mu"
	c40TL   = "TrackLocalStaticRTP.mu"
	c40TLS  = "TrackLocalStaticSample.mu"
	c40STAT = "statsReportCollector.mux"
)

const c40Ctor = "set only while the object is constructed"

// c40Table: field -> guard. Inferred once from the access statistics (VERIF_DEBUG=c40fields), confirmed by
// reading every unguarded access, then frozen. One reason per entry.
var c40Table = map[string]c40Guard{}

// c40CallerHolds lists exported methods documented as "the caller should hold the lock": the rule does not treat them
// as lock-free entry points but checks every call site in the module instead.
var c40CallerHolds = []string{"SCTPTransport.GetSctpInit"}

// c40Serial lists the serialised signaling entry points (the property's S).
var c40Serial = []string{"PeerConnection.CreateOffer", "PeerConnection.CreateAnswer", "PeerConnection.SetLocalDescription",
	"PeerConnection.SetRemoteDescription", "PeerConnection.AddICECandidate"}

// c40SelfSync lists the types whose own methods synchronise (accepted for Kind "atomic").
func c40SelfSync(t types.Type) (ok bool, pointer bool) {
	if p, isP := t.(*types.Pointer); isP {
		t, pointer = p.Elem(), true
	}
	n, isN := t.(*types.Named)
	if !isN || n.Obj().Pkg() == nil {
		return false, pointer
	}
	switch n.Obj().Pkg().Path() {
	case "sync/atomic":
		return true, pointer
	case "sync":
		switch n.Obj().Name() {
		case "Once", "Pool", "WaitGroup", "Map":
			return true, pointer
		}
	case core.ModPath:
		// SignalingState: Get/Set go through sync/atomic on the receiver (checked separately by c40SelfSyncMethods)
		return n.Obj().Name() == "SignalingState", pointer
	}
	return false, pointer
}

func c40R2(c *Ctx, lp *core.LockProgram) {
	r := c.R
	idx := c40FieldIndex(c)
	if len(idx) == 0 {
		return
	}
	for _, s := range lp.ForeignUnlocks() {
		r.Undecided("C40.R2", "engine|foreign-unlock|"+s, "-", "a function releases a lock it did not acquire: entry locksets are not sound for it (unsupported shape)")
	}
	for _, s := range lp.ReturnsHolding() {
		r.Undecided("C40.R2", "engine|returns-holding|"+s, "-", "a function may return with a lock held and no deferred unlock: callers' locksets are not sound (unsupported shape)")
	}
	// table <-> struct agreement
	byKey := map[string]*types.Var{}
	for v, k := range idx {
		byKey[k] = v
	}
	var keys []string
	for k := range byKey {
		keys = append(keys, k)
	}
	sort.Strings(keys)
	for _, k := range keys {
		if _, ok := c40Table[k]; !ok {
			r.Undecided("C40.R2", "table|"+k, c.P.Pos(byKey[k].Pos()), "field of a scoped struct has no entry in the guarded-by table: classify it (mutex / atomic / immutable) after reading its accesses")
		}
	}
	for k := range c40Table {
		if byKey[k] == nil {
			r.Info("C40.R2", "table|unused-entry|"+k, "-", "guarded-by table names a field that no longer exists (unused entry; the instance minimum guards against losing the anchors wholesale)")
		}
	}
	serial := map[*core.LUnit]bool{}
	for _, nm := range c40Serial {
		fi := c.mustFunc("C40.R2", "", nm)
		if fi == nil {
			continue
		}
		if u := lp.ByDecl[fi.Obj]; u != nil {
			serial[u] = true
		}
	}
	// client programs (thorough tier) are not part of the library: how they schedule their signaling calls is the
	// property's quantifier, not something to infer from their code
	conc := lp.ConcurrentReach(func(u *core.LUnit) bool { return serial[u] }, c40IsClient)
	acc := c40Accesses(c, lp, idx)
	r.Cells += len(acc)
	// completeness of the enumeration: every selector of a tabled field written in a function body must have been
	// seen on a live CFG node (go/cfg drops nothing but dead code; a mismatch means an unsupported statement shape)
	perUnit := map[*core.LUnit]int{}
	for _, a := range acc {
		perUnit[a.Unit]++
	}
	for _, u := range lp.Units {
		if u.Kind == core.ULitDead {
			continue
		}
		var body ast.Node
		if u.Lit != nil {
			body = u.Lit.Body
		} else {
			body = u.Decl.Decl.Body
		}
		n := 0
		core.InspectShallow(body, func(x ast.Node) bool {
			if se, ok := x.(*ast.SelectorExpr); ok {
				if _, scoped := idx[core.FieldOf(u.G.Info, se)]; scoped {
					n++
				}
			}
			return true
		})
		if n != perUnit[u] {
			r.Undecided("C40.R2", "engine|coverage|"+u.Name, c.P.Pos(u.Pos()), sprintf("%d accesses of tabled fields in the source of this function, %d seen on live CFG nodes: some code is unreachable or in a statement shape the analysis does not visit", n, perUnit[u]))
		}
	}

	// under(u, name): u is the function called name, a literal defined in it, or code that only ever runs inside it
	// (every call path from outside goes through it). Table exceptions therefore survive extracting the exempted
	// statements into a helper or a closure.
	avoidCache := map[string]map[*core.LUnit]bool{}
	under := func(u *core.LUnit, name string) bool {
		if u.Name == name {
			return true
		}
		if owner := lp.ByDecl[u.Owner.Obj]; owner != nil && owner.Name == name {
			return true
		}
		av, ok := avoidCache[name]
		if !ok {
			found := false
			for _, cand := range lp.Units {
				if cand.Name == name {
					found = true
				}
			}
			if found {
				av = lp.ReachAvoiding(func(x *core.LUnit) bool { return x.Name == name })
			}
			avoidCache[name] = av
		}
		return av != nil && !av[u]
	}

	// all writes of a field in signaling-only code?
	sOnlyWrites := map[string]bool{}
	for k, g := range c40Table {
		if g.SOnly {
			sOnlyWrites[k] = true
		}
	}
	for _, a := range acc {
		if a.Write && !a.Fresh && conc[a.Unit] {
			sOnlyWrites[a.Key] = false
		}
	}

	type obKey struct{ field, unit, rw string }
	type obVal struct {
		pos  token.Pos
		bad  string
		note string
		n    int
	}
	obs := map[obKey]*obVal{}
	var order []obKey
	for _, a := range acc {
		g, ok := c40Table[a.Key]
		if !ok || g.Kind == "lock" {
			continue
		}
		rw := "read"
		if a.Write {
			rw = "write"
		}
		k := obKey{a.Key, a.Unit.Name, rw}
		v := obs[k]
		if v == nil {
			v = &obVal{pos: a.Pos}
			obs[k] = v
			order = append(order, k)
		}
		v.n++
		bad, note := c40Judge(a, g, conc, sOnlyWrites, under)
		if bad != "" && v.bad == "" {
			v.bad, v.pos = bad, a.Pos
		}
		if note != "" {
			v.note = note
		}
	}
	for _, k := range order {
		v := obs[k]
		key := "guard|" + k.field + "|in:" + k.unit + "|" + k.rw
		g := c40Table[k.field]
		want := g.Kind
		if g.Kind == "mutex" {
			want = g.Class
		}
		if v.bad == "" {
			d := sprintf("%d access(es) respect guard %s", v.n, want)
			if v.note != "" {
				d += " (" + v.note + ")"
			}
			r.OK("C40.R2", key, c.P.Pos(v.pos), d)
		} else if c40Extended[strings.SplitN(k.field, ".", 2)[0]] {
			r.Info("C40.R2", key, c.P.Pos(v.pos), "OUTSIDE K (listed, not judged): "+v.bad)
		} else {
			r.Fail("C40.R2", key, c.P.Pos(v.pos), v.bad)
		}
	}
	// exceptions and writer lists must still match something (the table cannot rot)
	used := map[string]bool{}
	for _, a := range acc {
		used[a.Key+"|"+a.Unit.Name] = true
		if g, ok := c40Table[a.Key]; ok {
			for u := range g.Except {
				if under(a.Unit, u) {
					used[a.Key+"|"+u] = true
				}
			}
			for _, u := range g.Writers {
				if under(a.Unit, u) {
					used[a.Key+"|"+u] = true
				}
			}
		}
	}
	for k, g := range c40Table {
		for u := range g.Except {
			if !used[k+"|"+u] {
				r.Info("C40.R2", "table|unused-exception|"+k+"|"+u, "-", "the guarded-by table exempts accesses in a function that no longer accesses the field (unused justification, listed so the table can be pruned)")
			}
		}
		for _, u := range g.Writers {
			if !used[k+"|"+u] {
				r.Info("C40.R2", "table|unused-writer|"+k+"|"+u, "-", "the guarded-by table lists a writer that no longer accesses the field (unused justification, listed so the table can be pruned)")
			}
		}
	}
}

// c40Judge decides one access against the field's guard; bad is "" when the access is fine.
func c40Judge(a c40Access, g c40Guard, conc map[*core.LUnit]bool, sOnlyWrites map[string]bool, under func(*core.LUnit, string) bool) (bad, note string) {
	if a.Fresh {
		return "", "object under construction"
	}
	for name, why := range g.Except {
		if under(a.Unit, name) {
			return "", "exempt (in or only reachable through " + name + "): " + why
		}
	}
	switch g.Kind {
	case "confined":
		for _, w := range g.Writers {
			if under(a.Unit, w) {
				return "", "confined: " + g.Why
			}
		}
		return "field " + a.Key + " is confined to " + strings.Join(g.Writers, ", ") + " (" + g.Why + ") but is accessed here without any guard", ""
	case "mutex":
		mode, held := a.Held[g.Class]
		if a.Write || a.Addr {
			switch {
			case held && mode == "W":
				return "", ""
			case held:
				return "field " + a.Key + " is written while " + g.Class + " is held only in read mode (RLock): concurrent readers race with this write", ""
			}
			return "field " + a.Key + " is written without " + g.Class + " (held here: " + c40HeldStr(a.Held) + "); other accesses hold that lock, so this write races with them", ""
		}
		if held {
			return "", ""
		}
		if a.Atomic {
			return "", "through sync/atomic"
		}
		if g.SOnly && !conc[a.Unit] && sOnlyWrites[a.Key] {
			return "", "unlocked read on the signaling thread; every write is on the signaling thread too"
		}
		return "field " + a.Key + " is read without " + g.Class + " (held here: " + c40HeldStr(a.Held) + ") although its writers hold that lock: data race with a concurrent writer", ""
	case "atomic":
		ok, ptr := c40SelfSync(a.Field.Type())
		if !ok {
			return "field " + a.Key + " is tabled atomic but its type " + a.Field.Type().String() + " is not a self-synchronising type", ""
		}
		if a.Write {
			for _, w := range g.Writers {
				if under(a.Unit, w) {
					return "", "listed writer: " + g.Why
				}
			}
			return "field " + a.Key + " (atomic) is re-assigned outside construction: readers use its methods without a lock", ""
		}
		if !a.Method && !a.Atomic && !a.Addr && !ptr {
			return "field " + a.Key + " (atomic, by value) is copied or read directly instead of through its methods", ""
		}
		return "", ""
	case "immutable":
		if a.Write || a.Addr {
			for _, w := range g.Writers {
				if under(a.Unit, w) {
					return "", "listed writer: " + g.Why
				}
			}
			return "field " + a.Key + " is tabled immutable-after-construction (" + g.Why + ") but is written here; it is read without a lock elsewhere", ""
		}
		return "", ""
	}
	return "unknown guard kind " + g.Kind, ""
}

// ---- R1: lock order ----

// c40Classes are the lock classes the module has today (hand-confirmed): losing one means the analysis lost its anchors.
var c40Classes = []string{
	"DTLSTransport.lock", "DataChannel.mu", "ICEGatherer.candidatePoolLock", "ICEGatherer.lock", "ICETransport.lock", "MediaEngine.mu",
	"PeerConnection.mu", "RTPReceiver.mu", "RTPSender.mu", "RTPTransceiver.mu", "SCTPTransport.lock", "TrackLocalStaticRTP.mu",
	"TrackLocalStaticSample.mu", "TrackRemote.mu", "defaultAudioPlayoutStatsProvider.mu", "operations.mu", "srtpWriterFuture.mu",
	"statsReportCollector.mux", "Mux.lock",
}

// c40Reviewed is one reviewed exception of R1 (function value invoked under a lock) or R3 (blocking operation under a
// lock). It is identified by the lock class, the resolved identity of the callback / blocking operation, and the
// anchor functions in whose execution the reviewed region lies: the entry covers the construct in an anchor itself, in a
// literal defined inside an anchor, and in any helper that only ever runs inside an anchor (every call path from outside
// goes through an anchor). Moving the reviewed code into such a helper, or back into a closure, therefore keeps the
// entry valid, while the same operation under another lock, another operation under the same lock, or the same pair
// reachable from elsewhere is new and fails.
type c40Reviewed struct {
	Class   string
	What    string
	Anchors []string
	Why     string
}

// c40CallbackUnderLock: function values invoked while a lock is held, confirmed by reading. Anything else is new.
var c40CallbackUnderLock = []c40Reviewed{
	// endpoint match functions (MatchDTLS/MatchSRTP/MatchSRTCP: pure predicates on the datagram, see C27.R2)
	{"Mux.lock", "func-value:local mux.MatchFunc", []string{"internal/mux.(*Mux).dispatch", "internal/mux.(*Mux).NewEndpoint"},
		"endpoint match function (pure predicate on the datagram); NewEndpoint runs it over the pending queue through handlePendingPackets"},
	{"ICETransport.lock", "func-value:local mux.MatchFunc", []string{"(*ICETransport).newEndpoint"},
		"endpoint match function run by Mux.NewEndpoint over the pending queue (pure predicate)"},
	{"DTLSTransport.lock", "func-value:local mux.MatchFunc", []string{"(*DTLSTransport).prepareStart"},
		"endpoint match function run by Mux.NewEndpoint over the pending queue (pure predicate)"},
	// state-change handlers invoked synchronously under a transport lock
	{"DTLSTransport.lock", "func-value:DTLSTransport.onStateChangeHandler",
		[]string{"(*DTLSTransport).prepareStart", "(*DTLSTransport).completeStart", "(*DTLSTransport).failStart", "(*DTLSTransport).Stop"},
		"onStateChange is documented 'requires the caller holds the lock'; PeerConnection never registers a DTLSTransport.OnStateChange handler (ORTC users only), so inside the property's program the handler is nil. An ORTC handler that calls back into the transport would self-deadlock (what user handlers do is not covered)"},
	{"ICEGatherer.lock", "func-value:local func(state webrtc.ICEGathererState)", []string{"(*ICEGatherer).close"},
		"ICEGatherer.setState notifies the OnStateChange handler (PeerConnection.OnICEGatheringStateChange wraps the user's handler) while close holds the gatherer lock; the wrapper itself takes no module lock; what the user handler does is not covered"},
	{"ICETransport.lock", "func-value:local func(state webrtc.ICEGathererState)", []string{"(*ICETransport).restart"},
		"restart -> gatherer.Gather -> setState notifies the gathering-state handler while the transport lock is held; the wrapper takes no module lock; what the user handler does is not covered"},
	{"ICEGatherer.lock", "func-value:local func()", []string{"(*ICEGatherer).close"},
		"onGatheringCompleteHandler: set only by GatheringCompletePromise (closes a channel); takes no module lock"},
	// context cancel functions
	{"ICETransport.lock", "func-value:local context.CancelFunc", []string{"(*ICETransport).StartContext"},
		"context.CancelFunc: never blocks, takes no module lock"},
	{"ICETransport.lock", "func-value:ICETransport.ctxCancel", []string{"(*ICETransport).stop"},
		"context.CancelFunc: never blocks, takes no module lock"},
	{"defaultAudioPlayoutStatsProvider.mu", "func-value:trackContext.cancel", []string{"(*defaultAudioPlayoutStatsProvider).removeTrackInternal"},
		"context.CancelFunc: never blocks, takes no module lock"},
	// payloader factory (payloaderForCodec or the WithPayloader option): builds a payloader value, takes no module lock.
	// TrackLocalStaticSample.Bind calls it under the track lock; Bind itself is reached through TrackLocal.Bind from the sender paths below.
	{"TrackLocalStaticRTP.mu", "func-value:local func(webrtc.RTPCodecCapability) (rtp.Payloader, error)", []string{"(*TrackLocalStaticSample).Bind"},
		"payloader factory: builds a payloader value, takes no module lock"},
	{"RTPSender.mu", "func-value:local func(webrtc.RTPCodecCapability) (rtp.Payloader, error)", []string{"(*RTPSender).ReplaceTrack", "(*RTPSender).Send"},
		"payloader factory reached through TrackLocal.Bind while the sender lock is held: builds a payloader value, takes no module lock"},
	{"PeerConnection.mu", "func-value:local func(webrtc.RTPCodecCapability) (rtp.Payloader, error)",
		[]string{"(*PeerConnection).AddTrack", "(*PeerConnection).RemoveTrack", "(*PeerConnection).close"},
		"payloader factory reached through sender.ReplaceTrack/Stop -> TrackLocal.Bind while pc.mu is held: builds a payloader value, takes no module lock"},
	// bundle-group predicate returned by bundleMatchFromRemote (closure over a string slice, pure)
	{"PeerConnection.mu", "func-value:call:bundleMatchFromRemote", []string{"(*PeerConnection).CreateOffer", "(*PeerConnection).CreateAnswer"},
		"predicate closure built by bundleMatchFromRemote (slices.Contains over the bundle tags); pure"},
	{"SCTPTransport.lock", "func-value:call:bundleMatchFromRemote", []string{"(*PeerConnection).generateUnmatchedSDP", "(*PeerConnection).generateMatchedSDP"},
		"predicate closure built by bundleMatchFromRemote; pure"},
	// pkg/media/oggwriter: package-internal function values
	{"Writer.mu", "func-value:local oggwriter.trackOptionFunc", []string{"pkg/media/oggwriter.(*Writer).NewTrack"},
		"TrackOption applied to a private trackConfig while the writer lock is held; options only fill the config"},
	{"Writer.mu", "func-value:local func(*oggwriter.oggTrack, []byte, uint8, uint64) error",
		[]string{"pkg/media/oggwriter.(*Track).WriteRTP", "pkg/media/oggwriter.(*Writer).Close"},
		"page writer passed down by the Writer itself (its own writePage method value); runs under the lock by design"},
}

// c40ReviewMatcher decides whether a construct found in unit u is covered by a reviewed entry.
type c40ReviewMatcher struct {
	lp      *core.LockProgram
	entries []c40Reviewed
	avoid   []map[*core.LUnit]bool // per entry: units that can run outside the entry's anchors (computed lazily)
	anchors []map[*core.LUnit]bool
	Used    []bool
}

func c40NewMatcher(lp *core.LockProgram, entries []c40Reviewed) *c40ReviewMatcher {
	return &c40ReviewMatcher{lp: lp, entries: entries, avoid: make([]map[*core.LUnit]bool, len(entries)),
		anchors: make([]map[*core.LUnit]bool, len(entries)), Used: make([]bool, len(entries))}
}

// match returns the reason of the first entry covering (class, what) in unit u, and the anchor it lies under.
func (m *c40ReviewMatcher) match(class, what string, u *core.LUnit) (why string, ok bool) {
	for i, e := range m.entries {
		if e.Class != class || e.What != what {
			continue
		}
		if m.anchors[i] == nil {
			m.anchors[i] = map[*core.LUnit]bool{}
			for _, cand := range m.lp.Units {
				if cand.Kind != core.UDecl {
					continue
				}
				for _, a := range e.Anchors {
					if cand.Name == a {
						m.anchors[i][cand] = true
					}
				}
			}
		}
		if len(m.anchors[i]) == 0 {
			continue // anchor no longer resolves: the entry covers nothing (it is listed as unused)
		}
		inside := false
		if owner := m.lp.ByDecl[u.Owner.Obj]; owner != nil && m.anchors[i][owner] {
			inside = true // the anchor itself or a literal defined in it
		} else {
			if m.avoid[i] == nil {
				anch := m.anchors[i]
				m.avoid[i] = m.lp.ReachAvoiding(func(x *core.LUnit) bool { return anch[x] })
			}
			inside = !m.avoid[i][u]
		}
		if inside {
			m.Used[i] = true
			return e.Why + " [reviewed under " + strings.Join(e.Anchors, ", ") + "]", true
		}
	}
	return "", false
}

func c40R1(c *Ctx, lp *core.LockProgram) {
	r := c.R
	have := map[string]bool{}
	for cl := range lp.Classes {
		have[cl] = true
	}
	for _, cl := range c40Classes {
		r.Check(have[cl], "C40.R1", "class|"+cl, "-", "mutex class found and analysed", "expected mutex class has no Lock/Unlock operation any more (renamed / removed?): lock-order analysis lost an anchor")
	}
	for _, u := range lp.Units {
		for _, o := range u.LI.Ops {
			if o.Field == nil && c40IsClient(u) {
				continue // example programs use local / package-level mutexes; they get a "var:" class and are not judged
			}
			if o.Field == nil {
				r.Undecided("C40.R1", "mutex-not-a-field|in:"+u.Name+"|"+o.Class, c.P.Pos(o.Call.Pos()), "lock operation on a mutex that is not a struct field: no lock class can be assigned")
			}
		}
	}
	edges := lp.OrderEdges()
	r.Cells += len(edges)
	type agg struct {
		first core.OrderEdge
		n     int
	}
	pair := map[[2]string]*agg{}
	succ := map[string]map[string]bool{}
	var self []core.OrderEdge
	for _, e := range edges {
		if e.From == e.To {
			self = append(self, e)
			continue
		}
		k := [2]string{e.From, e.To}
		if pair[k] == nil {
			pair[k] = &agg{first: e}
			if succ[e.From] == nil {
				succ[e.From] = map[string]bool{}
			}
			succ[e.From][e.To] = true
		}
		pair[k].n++
		// prefer the shortest witness
		if len(e.Chain) < len(pair[k].first.Chain) {
			pair[k].first = e
		}
	}
	// reachability closure: an edge A->B lies on a cycle iff A is reachable from B
	reach := func(from string) map[string]bool {
		seen := map[string]bool{}
		stack := []string{from}
		for len(stack) > 0 {
			x := stack[len(stack)-1]
			stack = stack[:len(stack)-1]
			for y := range succ[x] {
				if !seen[y] {
					seen[y] = true
					stack = append(stack, y)
				}
			}
		}
		return seen
	}
	reachOf := map[string]map[string]bool{}
	var keys [][2]string
	for k := range pair {
		keys = append(keys, k)
	}
	sort.Slice(keys, func(i, j int) bool {
		if keys[i][0] != keys[j][0] {
			return keys[i][0] < keys[j][0]
		}
		return keys[i][1] < keys[j][1]
	})
	witness := func(e core.OrderEdge) string {
		return sprintf("%s holds %s (%s) at %s and acquires %s via %s (Lock at %s)", e.Unit.Name, e.From, e.HeldInst, c.P.Pos(e.Pos), e.To,
			strings.Join(e.Chain, " -> "), c.P.Pos(e.AcqPos))
	}
	for _, k := range keys {
		a := pair[k]
		if reachOf[k[1]] == nil {
			reachOf[k[1]] = reach(k[1])
		}
		key := "order|" + k[0] + "->" + k[1]
		if !reachOf[k[1]][k[0]] {
			r.OK("C40.R1", key, c.P.Pos(a.first.Pos), sprintf("%d site(s); not on a cycle. e.g. %s", a.n, witness(a.first)))
			continue
		}
		// find the way back for the message
		back := c40PathBack(succ, k[1], k[0])
		var backW []string
		for i := 0; i+1 < len(back); i++ {
			if b := pair[[2]string{back[i], back[i+1]}]; b != nil {
				backW = append(backW, witness(b.first))
			}
		}
		r.Fail("C40.R1", key, c.P.Pos(a.first.Pos), "lock-order cycle "+k[0]+" -> "+strings.Join(back, " -> ")+": "+witness(a.first)+"; in the opposite direction: "+strings.Join(backW, "; ")+
			". Two goroutines taking these paths concurrently can deadlock.")
	}
	// self edges
	seenSelf := map[string]bool{}
	for _, e := range self {
		key := "self|" + e.From + "|in:" + e.Unit.Name + "|via:" + strings.Join(e.Chain, ">")
		if seenSelf[key] {
			continue
		}
		seenSelf[key] = true
		switch {
		case e.SameInstance && (e.FromMode == "W" || e.ToMode == "W"):
			r.Fail("C40.R1", key, c.P.Pos(e.Pos), "self-deadlock: "+witness(e)+" - the same mutex instance is acquired again while held (sync mutexes are not re-entrant)")
		case e.SameInstance:
			r.Fail("C40.R1", key, c.P.Pos(e.Pos), "recursive read lock: "+witness(e)+" - RLock is re-acquired on the same RWMutex while held; a writer arriving in between blocks both (sync.RWMutex documentation prohibits recursive read locking)")
		default:
			r.Info("C40.R1", key, c.P.Pos(e.Pos), "a second mutex of class "+e.From+" is acquired while one is held; the instances are not provably the same ("+witness(e)+")")
		}
	}
	// calls the static call graph cannot follow, made while a lock is held
	seenDyn := map[string]bool{}
	cbReviewed := c40NewMatcher(lp, c40CallbackUnderLock)
	for _, d := range lp.DynamicCallsUnderLock() {
		k := d.Class + "|" + d.Unit.Name + "|" + d.What
		if seenDyn[k] {
			continue
		}
		seenDyn[k] = true
		if strings.HasPrefix(d.What, "func-value:") {
			if why, ok := cbReviewed.match(d.Class, d.What, d.Unit); ok {
				r.OK("C40.R1", "callback-under-lock|"+k, c.P.Pos(d.Pos), "listed: "+why)
			} else if c40IsClient(d.Unit) {
				r.Info("C40.R1", "callback-under-lock|"+k, c.P.Pos(d.Pos), "example/e2e program invokes a function value under its own lock (client code, not judged)")
			} else {
				r.Fail("C40.R1", "callback-under-lock|"+k, c.P.Pos(d.Pos), "a function value (callback / handler) is invoked (via "+strings.Join(d.Chain, " -> ")+") while "+d.Class+" is held by "+d.Unit.Name+" and is not covered by the reviewed list: a callback that re-enters the API deadlocks or inverts the lock order")
			}
			continue
		}
		r.Info("C40.R1", "dynamic-under-lock|"+k, c.P.Pos(d.Pos), "interface method of a dependency called with "+d.Class+" held; not followed (races/locks inside dependencies are not covered)")
	}
	for i, e := range c40CallbackUnderLock {
		if !cbReviewed.Used[i] {
			r.Info("C40.R1", "callback-under-lock|unused-review|"+e.Class+"|"+e.What+"|under:"+strings.Join(e.Anchors, ","), "-", "reviewed callback-under-lock entry matches no call on this tree (an unused justification; listed so the list can be pruned)")
		}
	}
}

// c40IsClient reports whether a unit belongs to an example / e2e program (analysed in the thorough tier only).
func c40IsClient(u *core.LUnit) bool {
	return strings.HasPrefix(u.Name, "examples/") || strings.HasPrefix(u.Name, "e2e")
}

func c40PathBack(succ map[string]map[string]bool, from, to string) []string {
	prev := map[string]string{from: ""}
	queue := []string{from}
	for len(queue) > 0 {
		x := queue[0]
		queue = queue[1:]
		if x == to {
			break
		}
		var ys []string
		for y := range succ[x] {
			ys = append(ys, y)
		}
		sort.Strings(ys)
		for _, y := range ys {
			if _, seen := prev[y]; !seen {
				prev[y] = x
				queue = append(queue, y)
			}
		}
	}
	var path []string
	for x := to; x != ""; x = prev[x] {
		path = append([]string{x}, path...)
		if x == from {
			break
		}
	}
	return path
}

// ---- R3: no blocking operation under a lock ----

// c40BlockOK: blocking operations that execute while a lock is held on today's tree, each confirmed by reading.
var c40BlockOK = []c40Reviewed{
	{"RTPSender.mu", "select:recv:DTLSTransport.srtpReady+recv:RTPSender.stopCalled", []string{"(*RTPSender).SetReadDeadlineSimulcast"},
		"OUTSIDE K: SetReadDeadlineSimulcast is not in the property's call set. It holds r.mu.RLock while srtpWriterFuture.SetReadDeadline waits for SRTP to become ready; before the transports are up a later CreateOffer (setNegotiated needs r.mu.Lock under pc.mu) stalls behind it (reproduced: findings/C40/setreaddeadline_simulcast_block_test.go; proposed repair in findings/C40/C40-setreaddeadline-simulcast-unlock.diff). Listed, not a finding of C40 because the triggering call is outside K."},
	{"SCTPTransport.lock", "recv:DataChannel.readLoopActive", []string{"(*PeerConnection).close"},
		"GracefulClose only (not in the property's call set): waits for each data channel's read loop while holding the transport lock; the loop's exit path (setReadyState, onError, onClose) takes only DataChannel.mu, and sctpTransport.Stop() has already aborted the association, so the awaited close does not need SCTPTransport.lock. A user OnMessage handler that re-enters the SCTP API here would deadlock (documented on GracefulClose)."},
}

func c40R3(c *Ctx, lp *core.LockProgram) {
	r := c.R
	bad := map[string][]core.BlockUnder{}
	for _, b := range lp.BlocksUnderLock() {
		k := b.Class + "|in:" + b.Unit.Name
		bad[k] = append(bad[k], b)
	}
	r.Cells += len(lp.Units)
	// one obligation per (lock class, unit that holds it somewhere)
	type region struct {
		pos token.Pos
	}
	regions := map[string]region{}
	var order []string
	for _, u := range lp.Units {
		if u.Kind == core.ULitDead {
			continue
		}
		for _, o := range u.LI.Ops {
			if o.Op != "Lock" && o.Op != "RLock" {
				continue
			}
			k := o.Class + "|in:" + u.Name
			if _, ok := regions[k]; !ok {
				regions[k] = region{o.Call.Pos()}
				order = append(order, k)
			}
		}
	}
	blkReviewed := c40NewMatcher(lp, c40BlockOK)
	for _, k := range order {
		bs := bad[k]
		if len(bs) == 0 {
			r.OK("C40.R3", "noblock|"+k, c.P.Pos(regions[k].pos), "no channel operation / Wait reachable while the lock is held (own code, in-place literals, static and module-interface callees)")
			continue
		}
		seen := map[string]bool{}
		for _, b := range bs {
			op := b.Op.Kind + ":" + b.Op.What
			key := "block|" + k + "|" + op
			if seen[key] {
				continue
			}
			seen[key] = true
			detail := sprintf("%s may block on %s %s (at %s via %s) while %s is held in %s mode", b.Unit.Name, b.Op.Kind, b.Op.What, c.P.Pos(b.Op.Pos),
				strings.Join(b.Op.Chain, " -> "), b.Class, map[string]string{"W": "write", "R": "read"}[b.Mode])
			if why, ok := blkReviewed.match(b.Class, op, b.Unit); ok {
				r.OK("C40.R3", key, c.P.Pos(b.Pos), "listed: "+why+" ["+detail+"]")
			} else if c40IsClient(b.Unit) {
				r.Info("C40.R3", key, c.P.Pos(b.Pos), "example/e2e program (client code, not judged): "+detail)
			} else {
				r.Fail("C40.R3", key, c.P.Pos(b.Pos), detail+": every other path that needs "+b.Class+" stalls until the awaited event, and deadlocks if that event needs the lock")
			}
		}
	}
	for i, e := range c40BlockOK {
		if !blkReviewed.Used[i] {
			r.Info("C40.R3", "block|unused-review|"+e.Class+"|"+e.What+"|under:"+strings.Join(e.Anchors, ","), "-", "reviewed blocking-under-lock entry matches nothing on this tree (an unused justification; listed so the list can be pruned)")
		}
	}
}
