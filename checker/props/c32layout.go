package props

import (
	"go/ast"
	"go/constant"
	"go/token"
	"go/types"
	"sort"
	"strings"

	"verif/checker/core"
)

// Shared helpers of the layout-agreement checks (C32, C33, C36.R3): a frozen
// table of format fields (the container specification) is compared with the
// layout entries core.Layout extracts from the writer and from the reader.

// c32Row is one field of a binary format as the specification defines it.
type c32Row struct {
	Name   string
	Off    int64
	Width  int64
	Endian string // "LE"/"BE"/"" (bytes)
	// WOrigins: the written value must come from exactly these leaves (core.Layout.Origins); a leading "~" makes an
	// entry a prefix match, "*" accepts any origin (the value is not part of the layout claim).
	WOrigins []string
	// RSink: the read value must reach this leaf (core.Layout.Sinks, prefix match); "" = the field need not be read.
	RSink string
	// ROptional: the reader may ignore the field.
	ROptional bool
	// WAlternatives: number of writer entries expected at this position (exclusive arms); 0 = exactly one.
	WAlternatives int
}

// c32Buffer picks, among the layout entries of fi, those of the one buffer that carries the most
// constant-offset entries in the requested direction. ok=false (and an UNDECIDED obligation) when there is none.
func c32Buffer(c *Ctx, l *core.Layout, rule, key string, fi *core.FuncInfo, write bool) (entries []*core.LayoutEntry, buf types.Object, ok bool) {
	es, unrec := l.Entries(fi)
	for _, u := range unrec {
		c.R.Undecided(rule, key+"|unrecognised:"+u.What, c.P.Pos(u.Call.Pos()), "a use of encoding/binary the layout extractor does not model occurs in "+fi.Name()+"; the field list may be incomplete")
	}
	// candidates: buffers accessed here, and byte buffers handed to module functions
	cands := map[types.Object]bool{}
	for obj := range core.GroupByBuffer(es) {
		if obj != nil {
			cands[obj] = true
		}
	}
	info := fi.Pkg.TypesInfo
	ast.Inspect(fi.Decl.Body, func(n ast.Node) bool {
		if call, ok := n.(*ast.CallExpr); ok {
			if fn := core.Callee(info, call); fn != nil && c.P.DeclOf(fn) != nil {
				for _, a := range call.Args {
					if v := core.RootVar(info, a); v != nil {
						switch v.Type().Underlying().(type) {
						case *types.Slice, *types.Array:
							cands[v] = true
						}
					}
				}
			}
		}
		return true
	})
	deepOf := map[types.Object][]*core.LayoutEntry{}
	best, bestN, tie := types.Object(nil), 0, false
	var objs []types.Object
	for obj := range cands {
		objs = append(objs, obj)
	}
	sort.Slice(objs, func(i, j int) bool { return objs[i].Pos() < objs[j].Pos() })
	for _, obj := range objs {
		deep, un := l.EntriesDeep(fi, obj)
		for _, u := range un[min(len(unrec), len(un)):] {
			c.R.Undecided(rule, key+"|unrecognised:"+u.What, c.P.Pos(u.Call.Pos()), "a use of encoding/binary the layout extractor does not model occurs in a helper of "+fi.Name())
		}
		deepOf[obj] = deep
		n := 0
		for _, e := range deep {
			if e.Write == write && e.OffKnown {
				n++
			}
		}
		switch {
		case n > bestN:
			best, bestN, tie = obj, n, false
		case n == bestN && n > 0:
			tie = true
		}
	}
	if best == nil || tie {
		c.R.Undecided(rule, key+"|buffer", c.P.Pos(fi.Decl.Pos()), sprintf("cannot single out the header buffer of %s (candidates with constant-offset entries: %d, tie=%v)", fi.Name(), bestN, tie))
		return nil, nil, false
	}
	for _, e := range deepOf[best] {
		if e.Write == write {
			entries = append(entries, e)
		}
	}
	c.R.Cells += len(entries)
	return entries, best, true
}

func c32OriginsOK(got []string, want []string) (bool, string) {
	if len(want) == 1 && want[0] == "*" {
		return true, ""
	}
	for _, g := range got {
		ok := false
		for _, w := range want {
			if w == g || (strings.HasPrefix(w, "~") && strings.HasPrefix(g, w[1:])) {
				ok = true
			}
		}
		if !ok {
			return false, sprintf("the written value has origin %q, expected only %v", g, want)
		}
	}
	// every exact (non-prefix) expected origin must be present
	for _, w := range want {
		if strings.HasPrefix(w, "~") {
			continue
		}
		found := false
		for _, g := range got {
			if g == w {
				found = true
			}
		}
		if !found {
			return false, sprintf("the written value never comes from %q (origins %v)", w, got)
		}
	}
	return len(got) > 0, "no origin"
}

func c32HasSink(got []string, want string) bool {
	for _, g := range got {
		if g == want || strings.HasPrefix(g, want+" ") || strings.HasPrefix(g, want+"[") {
			return true
		}
	}
	return false
}

// c32CheckRows compares a specification table with writer and reader entries. One obligation per row
// (rule, prefix|row name); reader entries outside the table must still be produced by some writer entry;
// writer entries outside the table are listed.
func c32CheckRows(c *Ctx, l *core.Layout, rule, prefix string, rows []c32Row, w, r []*core.LayoutEntry) {
	rep := c.R
	usedW := map[*core.LayoutEntry]bool{}
	usedR := map[*core.LayoutEntry]bool{}
	for _, row := range rows {
		key := prefix + "|" + row.Name
		pos, bad := "-", ""
		// writer
		var ws []*core.LayoutEntry
		for _, e := range w {
			if e.OffKnown && e.Off == row.Off {
				ws = append(ws, e)
			}
		}
		wantN := max(row.WAlternatives, 1)
		switch {
		case len(ws) == 0:
			bad = sprintf("the writer stores nothing at offset %d (specification: %s, %d bytes %s)", row.Off, row.Name, row.Width, row.Endian)
		case len(ws) != wantN:
			pos = c.P.Pos(ws[0].Pos)
			bad = sprintf("%d writer entries at offset %d, expected %d", len(ws), row.Off, wantN)
		}
		for _, e := range ws {
			usedW[e] = true
			if bad != "" {
				break
			}
			pos = c.P.Pos(e.Pos)
			switch {
			case row.Width < 0:
				// variable-length tail: any width, origin still checked
				if ok, why := c32OriginsOK(l.EntryOrigins(e), row.WOrigins); !ok {
					bad = sprintf("offset %d (%s): %s", row.Off, row.Name, why)
				}
			case e.Width != row.Width:
				bad = sprintf("writer stores %d bytes at offset %d, the format has %d (%s)", e.Width, row.Off, row.Width, e)
			case row.Endian != "" && e.Endian != row.Endian:
				bad = sprintf("writer byte order %q at offset %d, the format is %s", e.Endian, row.Off, row.Endian)
			case row.Endian == "" && e.Kind == "uint" && e.Width > 1:
				bad = sprintf("writer encodes an integer at offset %d where the format has raw bytes", row.Off)
			default:
				if ok, why := c32OriginsOK(l.EntryOrigins(e), row.WOrigins); !ok {
					bad = sprintf("offset %d (%s): %s", row.Off, row.Name, why)
				}
			}
		}
		// reader
		var rs []*core.LayoutEntry
		for _, e := range r {
			if e.OffKnown && e.Off >= row.Off && (e.Off < row.Off+row.Width || (row.Width < 0 && e.Off == row.Off)) {
				rs = append(rs, e)
			}
		}
		if bad == "" {
			switch {
			case len(rs) == 0 && !row.ROptional:
				bad = sprintf("the reader never decodes offset %d (%s)", row.Off, row.Name)
			}
		}
		covered := int64(0)
		for _, e := range rs {
			usedR[e] = true
			if bad != "" {
				break
			}
			pos2 := c.P.Pos(e.Pos)
			switch {
			case row.Width < 0:
				if row.RSink != "" && !c32HasSink(l.EntrySinks(e), row.RSink) {
					pos, bad = pos2, sprintf("the bytes read from offset %d do not reach %s (sinks %v)", e.Off, row.RSink, l.EntrySinks(e))
				}
				covered = row.Width
			case e.Off+e.Width > row.Off+row.Width || e.Width < 0:
				pos, bad = pos2, sprintf("reader decodes %d bytes at offset %d, beyond the %d-byte field %s at %d", e.Width, e.Off, row.Width, row.Name, row.Off)
			case e.Kind == "uint" && (e.Width != row.Width || e.Off != row.Off):
				pos, bad = pos2, sprintf("reader decodes a %d-byte integer at offset %d, the format has %d bytes at %d (%s)", e.Width, e.Off, row.Width, row.Off, row.Name)
			case e.Kind == "uint" && e.Endian != row.Endian:
				pos, bad = pos2, sprintf("reader byte order %q at offset %d, the format is %q", e.Endian, row.Off, row.Endian)
			case e.SliceWidth >= 0 && e.Kind == "uint" && e.SliceWidth < e.Width:
				pos, bad = pos2, sprintf("reader slices %d bytes but decodes %d at offset %d (panics)", e.SliceWidth, e.Width, e.Off)
			default:
				want := row.RSink
				if want != "" && e.Width < row.Width && e.Kind == "byte" && strings.Contains(want, "%d") {
					// byte-wise read of a wider field: element index = byte index
					want = sprintf(row.RSink, e.Off-row.Off)
				}
				if want != "" && !c32HasSink(l.EntrySinks(e), want) {
					pos, bad = pos2, sprintf("the value read at offset %d does not reach %s (sinks %v)", e.Off, want, l.EntrySinks(e))
				}
				covered += e.Width
			}
		}
		if bad == "" && len(rs) > 0 && covered != row.Width && !row.ROptional {
			bad = sprintf("the reader decodes %d of the %d bytes of %s", covered, row.Width, row.Name)
		}
		rep.Check(bad == "", rule, key, pos, sprintf("@%d/%d %s written and read consistently", row.Off, row.Width, row.Endian), bad)
	}
	// entries outside the table: generic one-to-one rule
	var extraR []*core.LayoutEntry
	for _, e := range r {
		if !usedR[e] && e.OffKnown {
			extraR = append(extraR, e)
		}
	}
	pairs, problems := core.MatchLayout(w, extraR)
	for _, pr := range problems {
		if pr.Reader == nil {
			rep.Fail(rule, prefix+"|writer-overlap@"+sprintf("%d", pr.Writer.Off), c.P.Pos(pr.Writer.Pos), pr.Why)
			continue
		}
		rep.Fail(rule, prefix+"|extra-read@"+sprintf("%d", pr.Reader.Off), c.P.Pos(pr.Reader.Pos), "reader field outside the specification table is not produced by the writer: "+pr.Why)
	}
	for re, we := range pairs {
		usedW[we] = true
		rep.OK(rule, prefix+"|extra-read@"+sprintf("%d", re.Off), c.P.Pos(re.Pos), "field outside the specification table, written and read with the same shape "+we.Field())
	}
	for _, e := range w {
		if !usedW[e] && e.OffKnown {
			rep.Info(rule, prefix+"|extra-write@"+sprintf("%d", e.Off), c.P.Pos(e.Pos), "written, never read: "+e.String())
		}
	}
}

// c32FieldCompared lists the constants a struct field is compared with (== / != / switch case) in package rel.
func c32FieldCompared(c *Ctx, rel string, f *types.Var) []constant.Value {
	pk := c.P.Pkg(rel)
	if pk == nil || f == nil {
		return nil
	}
	info := pk.TypesInfo
	var out []constant.Value
	mentions := func(e ast.Expr) bool {
		found := false
		ast.Inspect(e, func(n ast.Node) bool {
			if se, ok := n.(*ast.SelectorExpr); ok && core.FieldOf(info, se) == f {
				found = true
			}
			return !found
		})
		return found
	}
	for _, file := range pk.Syntax {
		ast.Inspect(file, func(n ast.Node) bool {
			switch x := n.(type) {
			case *ast.BinaryExpr:
				if x.Op != token.EQL && x.Op != token.NEQ {
					return true
				}
				for _, pair := range [][2]ast.Expr{{x.X, x.Y}, {x.Y, x.X}} {
					if tv, ok := info.Types[pair[1]]; ok && tv.Value != nil && mentions(pair[0]) {
						out = append(out, tv.Value)
					}
				}
			case *ast.SwitchStmt:
				if x.Tag != nil && mentions(x.Tag) {
					for _, cc := range x.Body.List {
						for _, e := range cc.(*ast.CaseClause).List {
							if tv, ok := info.Types[e]; ok && tv.Value != nil {
								out = append(out, tv.Value)
							}
						}
					}
				}
			}
			return true
		})
	}
	return out
}

// c32NodeOf returns the graph node whose statement/expression contains the AST node (-1 if none).
func c32NodeOf(g *core.Graph, target ast.Node) int {
	ids := g.FindNodes(func(n ast.Node) bool { return n == target })
	if len(ids) == 0 {
		return -1
	}
	return ids[0]
}

// c32EqFacts returns, for node n, the constants that dominating facts equate the given subject with
// (subject chosen by pred over the fact's X expression).
func c32EqFacts(g *core.Graph, n int, pred func(x ast.Expr) bool) []constant.Value {
	var out []constant.Value
	for _, a := range g.AtomsAt(n) {
		if a.K != nil && a.Op == token.EQL && pred(a.X) {
			out = append(out, a.K)
		}
	}
	return out
}

// c32ConstName names a constant value of a named type by its declared constant (package rel), or prints it.
func c32ConstName(c *Ctx, rel, typ string, v constant.Value) string {
	for _, k := range c.P.ConstsOfType(rel, typ) {
		if constant.Compare(k.Val(), token.EQL, v) {
			return k.Name()
		}
	}
	return v.ExactString()
}

func c32SortedKeys[V any](m map[string]V) []string {
	var out []string
	for k := range m {
		out = append(out, k)
	}
	sort.Strings(out)
	return out
}

// c32Sweep (thorough tier): every function of the package other than the anchored ones is scanned for
// positioned byte-buffer accesses and encoding/binary uses; they are listed (not judged), and uses of
// encoding/binary the extractor does not model are reported UNDECIDED so that a new header field written
// through an unmodelled API cannot go unnoticed.
func c32Sweep(c *Ctx, l *core.Layout, rule, rel string, anchored map[string]bool) {
	pkg := c.P.Pkg(rel)
	if pkg == nil {
		return
	}
	n := 0
	for _, fi := range c.P.AllFuncs() {
		if fi.Pkg != pkg || fi.Decl.Body == nil || anchored[fi.Name()] {
			continue
		}
		es, unrec := l.Entries(fi)
		for _, u := range unrec {
			c.R.Undecided(rule, "sweep|"+rel+"|"+fi.Name()+"|"+u.What, c.P.Pos(u.Call.Pos()), "a use of encoding/binary that the layout extractor does not model, outside the anchored header functions")
		}
		k := 0
		for _, e := range es {
			if e.OffKnown && (e.Kind == "uint" || e.Write) {
				k++
			}
		}
		if k > 0 {
			n += k
			c.R.Info(rule, "sweep|"+rel+"|"+fi.Name(), c.P.Pos(fi.Decl.Pos()), sprintf("%d further constant-offset buffer accesses outside the anchored functions (listed, not judged)", k))
		}
	}
	c.R.Cells += n
}
