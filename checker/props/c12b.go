package props

import (
	"go/ast"
	"go/token"
	"go/types"
	"sort"
	"strings"

	"verif/checker/core"
)

// c12R5: "an application section is present exactly when a data channel was created". dataChannelsRequested is what
// the generators read; C12.R2 shows it is incremented once on every success path of CreateDataChannel. The converse:
// a CreateDataChannel that FAILS must not have counted - no possibly-failing return is reachable after the increment,
// except under the guard `sctpTransport.State() == SCTPTransportStateConnected` (SCTP is up only after an application
// section was negotiated, so the count no longer changes the section's presence).
func c12R5(c *Ctx) {
	r := c.R
	const rule = "C12.R5"
	fi := c.mustFunc(rule, "", "PeerConnection.CreateDataChannel")
	requested := c.mustField(rule, "", "SCTPTransport", "dataChannelsRequested")
	stateFn := c.mustFunc(rule, "", "SCTPTransport.State")
	connected := c.mustConst(rule, "", "SCTPTransportStateConnected")
	if fi == nil || requested == nil || stateFn == nil || connected == nil {
		return
	}
	g := c.P.GraphOf(fi)
	info := g.Info
	var incs []int
	for _, n := range g.Nodes {
		switch s := n.Ast.(type) {
		case *ast.IncDecStmt:
			if core.FieldOf(info, s.X) == requested {
				incs = append(incs, n.ID)
			}
		case *ast.AssignStmt:
			for _, l := range s.Lhs {
				if core.FieldOf(info, l) == requested {
					incs = append(incs, n.ID)
				}
			}
		}
	}
	// the count may live in a helper (e.g. a registration method of the SCTP transport): calls that can reach a write count too
	{
		var writers []*types.Func
		for _, f := range c.P.AllFuncs() {
			if f.Decl == nil || f.Decl.Body == nil || f == fi || f.Obj == nil {
				continue
			}
			finfo := f.Pkg.TypesInfo
			w := false
			ast.Inspect(f.Decl.Body, func(x ast.Node) bool {
				switch s := x.(type) {
				case *ast.IncDecStmt:
					if core.FieldOf(finfo, s.X) == requested {
						w = true
					}
				case *ast.AssignStmt:
					for _, l := range s.Lhs {
						if core.FieldOf(finfo, l) == requested {
							w = true
						}
					}
				}
				return true
			})
			if w {
				writers = append(writers, f.Obj)
			}
		}
		if len(writers) > 0 {
			may := c.P.BuildStaticCalls().MayReach(writers...)
			for _, n := range g.Nodes {
				if n.Ast == nil {
					continue
				}
				core.InspectShallow(n.Ast, func(x ast.Node) bool {
					if call, ok := x.(*ast.CallExpr); ok {
						if fn := core.Callee(info, call); fn != nil && fn != fi.Obj && may[fn] {
							incs = append(incs, n.ID)
						}
					}
					return true
				})
			}
		}
	}
	pos := c.P.Pos(fi.Decl.Pos())
	if len(incs) == 0 {
		r.Undecided(rule, "CreateDataChannel|no-failure-after-count", pos, "CreateDataChannel does not write dataChannelsRequested directly (moved into a helper?)")
		return
	}
	isConnectedEdge := func(e core.Edge) bool {
		if e.Cond == nil || e.Tag != nil || e.Branch == 0 {
			return false
		}
		b, ok := ast.Unparen(e.Cond).(*ast.BinaryExpr)
		if !ok || (b.Op != token.EQL && b.Op != token.NEQ) || (e.Branch == 1) != (b.Op == token.EQL) {
			return false
		}
		isState := func(x ast.Expr) bool {
			call, ok := ast.Unparen(x).(*ast.CallExpr)
			return ok && core.IsCallTo(info, call, stateFn.Obj)
		}
		isConn := func(x ast.Expr) bool {
			tv, ok := info.Types[x]
			return ok && tv.Value != nil && tv.Value.ExactString() == connected.Val().ExactString() && types.Identical(tv.Type, connected.Type())
		}
		return isState(b.X) && isConn(b.Y) || isState(b.Y) && isConn(b.X)
	}
	reach := g.Reach(incs, nil, func(from, idx int, e core.Edge) bool { return isConnectedEdge(e) })
	var bad []string
	for id := range reach {
		ret, ok := g.Nodes[id].Ast.(*ast.ReturnStmt)
		if !ok {
			continue
		}
		if mayFail, _ := g.ReturnMayFail(ret, nil); mayFail {
			bad = append(bad, c.P.Pos(ret.Pos()))
		}
	}
	sort.Strings(bad)
	r.Cells++
	r.Check(len(bad) == 0, rule, "CreateDataChannel|no-failure-after-count", c.P.Pos(g.PosOf(incs[0])), "no failing return is reachable after dataChannelsRequested was incremented, other than under State() == Connected",
		"CreateDataChannel can fail (at "+strings.Join(bad, ", ")+") after it has already counted the channel in dataChannelsRequested: the next offer carries an application section although no data channel was created")
}

// c12R6: "including RTX/FEC SSRC groups when those are enabled". addEncoding gives an encoding an RTX / FEC SSRC under a
// MediaEngine predicate; configureRTXAndFEC clears it when, after negotiation, the predicate no longer holds. The two
// siblings must agree: for each SSRC field the predicate that guards the non-zero store in addEncoding is the one whose
// negation guards the zero store in configureRTXAndFEC, and the two fields use different predicates.
func c12R6(c *Ctx) {
	r := c.R
	const rule = "C12.R6"
	add := c.mustFunc(rule, "", "RTPSender.addEncoding")
	cfg := c.mustFunc(rule, "", "RTPSender.configureRTXAndFEC")
	fRTX := c.mustField(rule, "", "trackEncoding", "ssrcRTX")
	fFEC := c.mustField(rule, "", "trackEncoding", "ssrcFEC")
	if add == nil || cfg == nil || fRTX == nil || fFEC == nil {
		return
	}
	type guard struct {
		fn   *types.Func
		pol  bool // store happens when the predicate is pol
		zero bool // the stored value is the constant 0
		pos  token.Pos
		ok   bool
		why  string
	}
	find := func(fi *core.FuncInfo, f *types.Var) []guard {
		info := fi.Pkg.TypesInfo
		var out []guard
		var stack []ast.Node
		ast.Inspect(fi.Decl.Body, func(x ast.Node) bool {
			if x == nil {
				stack = stack[:len(stack)-1]
				return true
			}
			stack = append(stack, x)
			as, ok := x.(*ast.AssignStmt)
			if !ok {
				return true
			}
			for i, l := range as.Lhs {
				if core.FieldOf(info, l) != f {
					continue
				}
				gd := guard{pos: as.Pos()}
				if len(as.Rhs) == len(as.Lhs) {
					if tv, ok := info.Types[as.Rhs[i]]; ok && tv.Value != nil && tv.Value.ExactString() == "0" {
						gd.zero = true
					}
				}
				// nearest enclosing if whose condition is (!)pred(...)
				for k := len(stack) - 2; k >= 0; k-- {
					ifs, ok := stack[k].(*ast.IfStmt)
					if !ok {
						continue
					}
					inBody := stack[k+1] == ast.Node(ifs.Body)
					inElse := ifs.Else != nil && stack[k+1] == ifs.Else
					if !inBody && !inElse {
						continue
					}
					cond, pol := ast.Unparen(ifs.Cond), inBody
					for {
						u, ok := cond.(*ast.UnaryExpr)
						if !ok || u.Op != token.NOT {
							break
						}
						cond, pol = ast.Unparen(u.X), !pol
					}
					if call, ok := cond.(*ast.CallExpr); ok {
						if fn := core.Callee(info, call); fn != nil && types.Identical(fn.Type().(*types.Signature).Results().At(0).Type(), types.Typ[types.Bool]) {
							gd.fn, gd.pol, gd.ok = fn, pol, true
						}
					}
					if !gd.ok {
						gd.why = "the enclosing condition `" + exprStr(ifs.Cond) + "` is not a (negated) predicate call"
					}
					break
				}
				if !gd.ok && gd.why == "" {
					gd.why = "the store is not inside an if"
				}
				out = append(out, gd)
			}
			return true
		})
		return out
	}
	preds := map[string]*types.Func{}
	for _, f := range []*types.Var{fRTX, fFEC} {
		key := "trackEncoding." + f.Name() + "|set-and-clear-under-one-predicate"
		a, z := find(add, f), find(cfg, f)
		pos := c.P.Pos(cfg.Decl.Pos())
		if len(a) != 1 || len(z) != 1 {
			r.Undecided(rule, key, pos, sprintf("expected one store of %s in addEncoding and one in configureRTXAndFEC, found %d / %d", f.Name(), len(a), len(z)))
			continue
		}
		pos = c.P.Pos(z[0].pos)
		if !a[0].ok || !z[0].ok {
			r.Undecided(rule, key, pos, "guard not recognised: "+a[0].why+" "+z[0].why)
			continue
		}
		var bad []string
		if a[0].zero || !a[0].pol {
			bad = append(bad, "addEncoding does not give the encoding a non-zero "+f.Name()+" when "+a[0].fn.Name()+" holds")
		}
		if !z[0].zero || z[0].pol {
			bad = append(bad, "configureRTXAndFEC does not clear "+f.Name()+" exactly when "+z[0].fn.Name()+" is false")
		}
		if a[0].fn != z[0].fn {
			bad = append(bad, f.Name()+" is allocated under "+a[0].fn.Name()+" but cleared under !"+z[0].fn.Name())
		}
		preds[f.Name()] = a[0].fn
		r.Cells++
		r.Check(len(bad) == 0, rule, key, pos, f.Name()+" is allocated when "+a[0].fn.Name()+" and cleared when !"+z[0].fn.Name(),
			strings.Join(bad, "; ")+": after a negotiation the offer announces an SSRC group for a mechanism that is off, or omits the group of one that is on")
	}
	if p1, p2 := preds[fRTX.Name()], preds[fFEC.Name()]; p1 != nil && p2 != nil {
		r.Check(p1 != p2, rule, "trackEncoding|rtx-and-fec-predicates-differ", c.P.Pos(add.Decl.Pos()), "RTX and FEC are governed by different predicates ("+p1.Name()+", "+p2.Name()+")",
			"the RTX and FEC SSRCs are governed by the same predicate "+p1.Name())
	}
}

// c12R8: "a sending track is announced with msid '<streamID> <trackID>'": the generators read the track from the
// sender's encoding, so a ReplaceTrack that succeeded in binding the new track must record it there: every path from
// the successful Bind of the new track to a successful return of ReplaceTrack passes a store of the new track (the
// parameter) into a trackEncoding's track field. (Seed C12-m6: the store was moved under `payloadType != codec.PayloadType`,
// false for payload type 0.)
func c12R8(c *Ctx) {
	r := c.R
	const rule = "C12.R8"
	fi := c.mustFunc(rule, "", "RTPSender.ReplaceTrack")
	trackF := c.mustField(rule, "", "trackEncoding", "track")
	if fi == nil || trackF == nil {
		return
	}
	g := c.P.GraphOf(fi)
	info := g.Info
	sig := fi.Obj.Type().(*types.Signature)
	if sig.Params().Len() != 1 {
		r.Undecided(rule, "ReplaceTrack|new-track-recorded", c.P.Pos(fi.Decl.Pos()), "ReplaceTrack no longer takes exactly the new track")
		return
	}
	track := sig.Params().At(0)
	bind := -1
	for _, n := range g.Nodes {
		as, ok := n.Ast.(*ast.AssignStmt)
		if !ok || len(as.Rhs) != 1 {
			continue
		}
		call, ok := ast.Unparen(as.Rhs[0]).(*ast.CallExpr)
		if !ok {
			continue
		}
		if sel, ok := ast.Unparen(call.Fun).(*ast.SelectorExpr); ok && sel.Sel.Name == "Bind" && core.VarOf(info, sel.X) == track {
			bind = n.ID
		}
	}
	if bind < 0 {
		r.Undecided(rule, "ReplaceTrack|new-track-recorded", c.P.Pos(fi.Decl.Pos()), "no Bind call on the new track")
		return
	}
	stores := map[int]bool{}
	for _, n := range g.Nodes {
		as, ok := n.Ast.(*ast.AssignStmt)
		if !ok || len(as.Lhs) != len(as.Rhs) {
			continue
		}
		for i, l := range as.Lhs {
			if core.FieldOf(info, l) == trackF && core.VarOf(info, as.Rhs[i]) == track {
				stores[n.ID] = true
			}
		}
	}
	reach := g.Reach([]int{bind}, func(x int) bool { return stores[x] }, nil)
	var bad []string
	for x := range reach {
		if ret, ok := g.Nodes[x].Ast.(*ast.ReturnStmt); ok {
			if mf, _ := g.ReturnMayFail(ret, nil); !mf {
				bad = append(bad, c.P.Pos(ret.Pos()))
			}
		}
	}
	sort.Strings(bad)
	r.Cells++
	r.Check(len(bad) == 0, rule, "ReplaceTrack|new-track-recorded", c.P.Pos(g.PosOf(bind)), sprintf("every successful return after the new track's Bind passes one of %d store(s) of the new track into the encoding", len(stores)),
		"ReplaceTrack can succeed (at "+strings.Join(bad, ", ")+") after binding the new track without recording it in the sender's encoding: the sender sends the new track but every later offer announces the old track's msid")
}
