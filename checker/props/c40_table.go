package props

// The frozen guarded-by table of C40.R2 (DESIGN.md §5 C40, §3 "statistics only to discover").
// Candidates were inferred once from the per-field lockset statistics (VERIF_DEBUG=c40fields ./run.sh C40 quick),
// every access outside the majority guard was read, and the result is frozen here: one reason per entry.

func init() {
	t := c40Table
	const lock = "the mutex itself"
	mk := func(kind, why string) c40Guard { return c40Guard{Kind: kind, Why: why} }

	// ---- PeerConnection
	t["PeerConnection.mu"] = mk("lock", lock)
	t["PeerConnection.id"] = c40Imm(c40Ctor)
	t["PeerConnection.sdpOrigin"] = c40Mu(c40PC, "session version bumped by CreateOffer/CreateAnswer under pc.mu")
	t["PeerConnection.ops"] = c40Imm(c40Ctor)
	t["PeerConnection.configuration"] = c40Imm("written by the constructor (initConfiguration) and by SetConfiguration only").
		writers("(*PeerConnection).SetConfiguration")
	t["PeerConnection.currentLocalDescription"] = c40MuS(c40PC, "written by setDescription under pc.mu; signaling-thread reads are unlocked")
	t["PeerConnection.pendingLocalDescription"] = c40MuS(c40PC, "as currentLocalDescription")
	t["PeerConnection.currentRemoteDescription"] = c40MuS(c40PC, "as currentLocalDescription")
	t["PeerConnection.pendingRemoteDescription"] = c40MuS(c40PC, "as currentLocalDescription")
	t["PeerConnection.signalingState"] = c40Atomic("SignalingState.Get/Set use sync/atomic")
	t["PeerConnection.iceConnectionState"] = c40Atomic("atomic.Value")
	t["PeerConnection.connectionState"] = c40Atomic("atomic.Value")
	t["PeerConnection.idpLoginURL"] = c40Imm("never assigned")
	t["PeerConnection.isClosed"] = c40Atomic("*atomic.Bool allocated by the constructor")
	t["PeerConnection.isGracefullyClosingOrClosed"] = c40Mu(c40PC, "read and set in close() under pc.mu")
	t["PeerConnection.isCloseDone"] = c40Imm("channel made by the constructor")
	t["PeerConnection.isGracefulCloseDone"] = c40Imm("channel made by the constructor")
	t["PeerConnection.isNegotiationNeeded"] = c40Atomic("*atomic.Bool allocated by the constructor")
	t["PeerConnection.updateNegotiationNeededFlagOnEmptyChain"] = c40Atomic("*atomic.Bool allocated by the constructor")
	t["PeerConnection.lastOffer"] = c40MuS(c40PC, "written by CreateOffer under pc.mu, compared on the signaling thread")
	t["PeerConnection.lastAnswer"] = c40MuS(c40PC, "written by CreateAnswer under pc.mu, compared on the signaling thread")
	t["PeerConnection.canTrickleICECandidates"] = c40Mu(c40PC, "set by SetRemoteDescription under pc.mu, getter takes RLock")
	t["PeerConnection.greaterMid"] = c40Mu(c40PC, "only touched by CreateOffer under pc.mu")
	t["PeerConnection.rtpTransceivers"] = c40Mu(c40PC, "appended by addRTPTransceiver (caller holds pc.mu), iterated under pc.mu")
	t["PeerConnection.nonMediaBandwidthProbe"] = c40Atomic("atomic.Value")
	t["PeerConnection.onSignalingStateChangeHandler"] = c40Mu(c40PC, "setter Lock, dispatcher RLock")
	t["PeerConnection.onICEConnectionStateChangeHandler"] = c40Atomic("atomic.Value")
	t["PeerConnection.onConnectionStateChangeHandler"] = c40Atomic("atomic.Value")
	t["PeerConnection.onTrackHandler"] = c40Mu(c40PC, "setter Lock, dispatcher RLock")
	t["PeerConnection.onDataChannelHandler"] = c40Mu(c40PC, "setter Lock, dispatcher RLock")
	t["PeerConnection.onNegotiationNeededHandler"] = c40Atomic("atomic.Value")
	t["PeerConnection.iceGatherer"] = c40Imm(c40Ctor)
	t["PeerConnection.iceTransport"] = c40Imm(c40Ctor)
	t["PeerConnection.dtlsTransport"] = c40Imm(c40Ctor)
	t["PeerConnection.sctpTransport"] = c40Imm(c40Ctor)
	t["PeerConnection.api"] = c40Imm(c40Ctor)
	t["PeerConnection.log"] = c40Imm(c40Ctor)
	t["PeerConnection.interceptorRTCPWriter"] = c40Imm(c40Ctor)
	t["PeerConnection.statsGetter"] = c40Mu(c40PC, "cleared by close(), read by GetStats: both are in the concurrent call set, so the field needs pc.mu")

	// ---- SCTPTransport
	t["SCTPTransport.lock"] = mk("lock", lock)
	t["SCTPTransport.dtlsTransport"] = c40Imm(c40Ctor)
	t["SCTPTransport.state"] = c40Mu(c40SCTP, "Start/Stop write under lock, State() RLock")
	t["SCTPTransport.isStarted"] = c40Confined("start-once flag private to Start; in the WebRTC API Start is only called by startSCTP on the operations queue, which runs one operation at a time (ORTC users calling Start concurrently are outside the property)",
		"(*SCTPTransport).Start")
	t["SCTPTransport.maxChannels"] = c40Imm("set by updateMaxChannels, which only the constructor calls")
	t["SCTPTransport.onErrorHandler"] = c40Mu(c40SCTP, "setter Lock, dispatcher RLock")
	t["SCTPTransport.onCloseHandler"] = c40Mu(c40SCTP, "setter Lock, dispatcher RLock")
	t["SCTPTransport.sctpAssociation"] = c40Mu(c40SCTP, "Start/Stop write under lock")
	t["SCTPTransport.onDataChannelHandler"] = c40Mu(c40SCTP, "setter Lock, dispatcher Lock")
	t["SCTPTransport.onDataChannelOpenedHandler"] = c40Mu(c40SCTP, "setter Lock, dispatcher Lock")
	t["SCTPTransport.dataChannels"] = c40Mu(c40SCTP, "appended by CreateDataChannel/onDataChannel under lock")
	t["SCTPTransport.dataChannelIDsUsed"] = c40Mu(c40SCTP, "id allocation is one critical section (C18)")
	t["SCTPTransport.dataChannelsOpened"] = c40Mu(c40SCTP, "stats counter")
	t["SCTPTransport.dataChannelsRequested"] = c40Mu(c40SCTP, "stats counter")
	t["SCTPTransport.dataChannelsAccepted"] = c40Mu(c40SCTP, "stats counter")
	t["SCTPTransport.localSctpInit"] = c40Mu(c40SCTP, "lazily generated SNAP token; GetSctpInit is documented 'caller holds the lock' (checked at every call site)").
		except("(*SCTPTransport).Start", "Start runs on the operations queue after the local description that generated (and cached) the token was applied; once cached, GetSctpInit does not write again")
	t["SCTPTransport.api"] = c40Imm(c40Ctor)
	t["SCTPTransport.log"] = c40Imm(c40Ctor)

	// ---- RTPTransceiver
	t["RTPTransceiver.mu"] = mk("lock", lock)
	t["RTPTransceiver.mid"] = c40Atomic("atomic.Value")
	t["RTPTransceiver.sender"] = c40Atomic("atomic.Value")
	t["RTPTransceiver.receiver"] = c40Atomic("atomic.Value")
	t["RTPTransceiver.direction"] = c40Atomic("atomic.Value")
	t["RTPTransceiver.currentDirection"] = c40Atomic("atomic.Value")
	t["RTPTransceiver.currentRemoteDirection"] = c40Atomic("atomic.Value")
	t["RTPTransceiver.codecs"] = c40Mu(c40TR, "SetCodecPreferences Lock, getCodecs RLock")
	t["RTPTransceiver.kind"] = c40Imm(c40Ctor)
	t["RTPTransceiver.api"] = c40Imm(c40Ctor)

	// ---- RTPSender
	t["RTPSender.mu"] = mk("lock", lock)
	t["RTPSender.trackEncodings"] = c40Mu(c40SND, "appended by AddEncoding, tracks replaced by ReplaceTrack, under r.mu").
		except("(*PeerConnection).newTransceiverFromTrack", "the sender was returned by NewRTPSender a few lines above and is not published yet").
		except("(*RTPSender).Stop", "read after stopCalled was closed under r.mu: AddEncoding refuses (hasStopped, under r.mu) from then on, the slice is frozen").
		except("(*RTPSender).Read", "read after <-sendCalled: Send closed it under r.mu after filling the encodings and AddEncoding refuses once sent").
		except("(*RTPSender).SetReadDeadline", "OUTSIDE K: unsynchronised with AddEncoding's append; neither call is in the property's call set (listed in DELIVER.md)")
	t["RTPSender.transport"] = c40Imm(c40Ctor)
	t["RTPSender.payloadType"] = c40Mu(c40SND, "set by ReplaceTrack/Send under r.mu")
	t["RTPSender.kind"] = c40Imm(c40Ctor)
	t["RTPSender.negotiated"] = c40Mu(c40SND, "setNegotiated Lock, isNegotiated RLock")
	t["RTPSender.api"] = c40Imm(c40Ctor)
	t["RTPSender.id"] = c40Imm(c40Ctor)
	t["RTPSender.rtpTransceiver"] = c40Mu(c40SND, "setRTPTransceiver Lock")
	t["RTPSender.sendCalled"] = c40Imm("channel made by the constructor")
	t["RTPSender.stopCalled"] = c40Imm("channel made by the constructor")

	// ---- RTPReceiver
	t["RTPReceiver.mu"] = mk("lock", lock)
	t["RTPReceiver.kind"] = c40Imm(c40Ctor)
	t["RTPReceiver.transport"] = c40Imm(c40Ctor)
	t["RTPReceiver.tracks"] = c40Mu(c40RCV, "configureReceive appends, receiveForRid/receiveForRtx fill elements, under r.mu").
		except("(*PeerConnection).configureReceiver", "iterates right after its own configureReceive call on the operations queue (the only appender); reads only the immutable track pointer of each element").
		except("(*RTPReceiver).Read", "read after <-received, which startReceive closes under r.mu after the slice is complete; no append afterwards").
		except("(*RTPReceiver).streamsForTrack", "called by readRTP after <-received (slice complete) or under RLock; a RID track's streams are filled before the track is handed to OnTrack")
	t["RTPReceiver.closed"] = c40Atomic("atomic.Bool")
	t["RTPReceiver.closedChan"] = c40Imm("channel made by the constructor")
	t["RTPReceiver.received"] = c40Imm("channel made by the constructor")
	t["RTPReceiver.tr"] = c40Mu(c40RCV, "setRTPTransceiver Lock")
	t["RTPReceiver.api"] = c40Imm(c40Ctor)
	t["RTPReceiver.rtxPool"] = c40Atomic("sync.Pool")
	t["RTPReceiver.log"] = c40Imm(c40Ctor)

	// ---- DataChannel
	t["DataChannel.mu"] = mk("lock", lock)
	t["DataChannel.statsID"] = c40Imm(c40Ctor)
	t["DataChannel.label"] = c40Imm(c40Ctor)
	t["DataChannel.ordered"] = c40Imm(c40Ctor)
	t["DataChannel.maxPacketLifeTime"] = c40Imm(c40Ctor)
	t["DataChannel.maxRetransmits"] = c40Imm(c40Ctor)
	t["DataChannel.protocol"] = c40Imm(c40Ctor)
	t["DataChannel.negotiated"] = c40Imm(c40Ctor)
	t["DataChannel.id"] = c40Mu(c40DC, "assigned by open() under d.mu when the DTLS role is known")
	t["DataChannel.readyState"] = c40Atomic("atomic.Value")
	t["DataChannel.bufferedAmountLowThreshold"] = c40Mu(c40DC, "setter Lock, getter RLock")
	t["DataChannel.detachCalled"] = c40Mu(c40DC, "Detach Lock")
	t["DataChannel.readLoopActive"] = c40Mu(c40DC, "handleOpen Lock, close Lock")
	t["DataChannel.isGracefulClosed"] = c40Mu(c40DC, "close Lock, dispatchers RLock")
	t["DataChannel.onMessageHandler"] = c40Mu(c40DC, "setter Lock, dispatcher RLock")
	t["DataChannel.openHandlerOnce"] = c40Atomic("sync.Once; reset by OnOpen under d.mu together with the handler, and Do is only reached after the handler was read non-nil under d.mu, so the reset happens-before; re-registering while a Do is in flight is outside the property's call set").
		writers("(*DataChannel).OnOpen")
	t["DataChannel.onOpenHandler"] = c40Mu(c40DC, "setter Lock, dispatcher RLock")
	t["DataChannel.dialHandlerOnce"] = c40Atomic("sync.Once; as openHandlerOnce").writers("(*DataChannel).OnDial")
	t["DataChannel.onDialHandler"] = c40Mu(c40DC, "setter Lock, dispatcher RLock")
	t["DataChannel.closeHandlerOnce"] = c40Atomic("sync.Once; as openHandlerOnce").writers("(*DataChannel).OnClose")
	t["DataChannel.onCloseHandler"] = c40Mu(c40DC, "setter Lock, dispatcher RLock")
	t["DataChannel.onBufferedAmountLow"] = c40Mu(c40DC, "setter Lock")
	t["DataChannel.onErrorHandler"] = c40Mu(c40DC, "setter Lock, dispatcher RLock")
	t["DataChannel.sctpTransport"] = c40Mu(c40DC, "assigned once by open() under d.mu (nil -> transport)").
		except("(*DataChannel).open", "unlocked read of the value this call just stored; a concurrent open() returns at the non-nil check and never writes").
		except("(*DataChannel).DetachWithDeadline", "reached only after dataChannel != nil was seen under d.mu, i.e. after open() stored the write-once transport")
	t["DataChannel.dataChannel"] = c40Mu(c40DC, "assigned once by handleOpen under d.mu (nil -> channel)").
		except("(*DataChannel).handleOpen", "unlocked read of the value this call just stored (write-once)").
		except("(*DataChannel).readLoop", "goroutine started by handleOpen after the store").
		except("(*DataChannel).Send", "after ensureOpen: readyState Open is published (atomic.Value) after the store").
		except("(*DataChannel).SendText", "after ensureOpen: readyState Open is published (atomic.Value) after the store").
		except("(*DataChannel).close", "after the non-nil value was seen under d.mu (haveSctpTransport); write-once").
		except("(*SCTPTransport).acceptDataChannels", "after the non-nil value was seen under dc.mu; write-once")
	t["DataChannel.api"] = c40Imm(c40Ctor)
	t["DataChannel.log"] = c40Imm(c40Ctor)

	// ---- operations
	t["operations.mu"] = mk("lock", lock)
	t["operations.busyCh"] = c40Mu(c40OPS, "worker handshake")
	t["operations.ops"] = c40Mu(c40OPS, "the queue (container/list is not goroutine safe)")
	t["operations.updateNegotiationNeededFlagOnEmptyChain"] = c40Atomic("*atomic.Bool shared with the connection")
	t["operations.onNegotiationNeeded"] = c40Imm(c40Ctor)
	t["operations.isClosed"] = c40Mu(c40OPS, "GracefulClose Lock")

	// ---- TrackLocalStaticRTP / Sample
	t["TrackLocalStaticRTP.mu"] = mk("lock", lock)
	t["TrackLocalStaticRTP.bindings"] = c40Mu(c40TL, "Bind/Unbind Lock, writeRTP RLock")
	t["TrackLocalStaticRTP.codec"] = c40Imm(c40Ctor)
	t["TrackLocalStaticRTP.payloader"] = c40Imm("option closures run by the constructor before the track is returned").writers("WithPayloader$1")
	t["TrackLocalStaticRTP.id"] = c40Imm(c40Ctor)
	t["TrackLocalStaticRTP.rid"] = c40Imm("option closures run by the constructor before the track is returned").writers("WithRTPStreamID$1")
	t["TrackLocalStaticRTP.streamID"] = c40Imm(c40Ctor)
	t["TrackLocalStaticRTP.initalTimestamp"] = c40Imm("option closures run by the constructor before the track is returned").writers("WithRTPTimestamp$1")
	t["TrackLocalStaticRTP.initialSeqNumber"] = c40Imm("option closures run by the constructor before the track is returned").writers("WithRTPSequenceNumber$1")
	t["TrackLocalStaticSample.mu"] = mk("lock", lock)
	t["TrackLocalStaticSample.packetizer"] = c40Mu(c40TL, "created by Bind under rtpTrack.mu, used by WriteSample under RLock")
	t["TrackLocalStaticSample.sequencer"] = c40Mu(c40TL, "as packetizer")
	t["TrackLocalStaticSample.rtpTrack"] = c40Imm(c40Ctor)
	t["TrackLocalStaticSample.clockRate"] = c40Mu(c40TL, "as packetizer")
	t["TrackLocalStaticSample.remainder"] = c40Mu(c40TLS, "sample-duration remainder, WriteSample holds s.mu")

	// ---- TrackRemote (extended scope: reading a remote track is outside K; broken guards are listed, not judged)
	const c40TRK = "TrackRemote.mu"
	t["TrackRemote.mu"] = mk("lock", lock)
	t["TrackRemote.repairReadRequested"] = c40Atomic("atomic.Bool")
	t["TrackRemote.id"] = c40Mu(c40TRK, "set from the SDP by configureReceiver under t.mu")
	t["TrackRemote.streamID"] = c40Mu(c40TRK, "as id")
	t["TrackRemote.payloadType"] = c40Mu(c40TRK, "updated by checkAndUpdateTrack under t.mu")
	t["TrackRemote.kind"] = c40Mu(c40TRK, "as payloadType")
	t["TrackRemote.ssrc"] = c40Mu(c40TRK, "set by receiveForRid under t.mu")
	t["TrackRemote.rtxSsrc"] = c40Mu(c40TRK, "setRtxSSRC under t.mu")
	t["TrackRemote.codec"] = c40Mu(c40TRK, "as payloadType")
	t["TrackRemote.params"] = c40Mu(c40TRK, "as payloadType")
	t["TrackRemote.rid"] = c40Imm(c40Ctor)
	t["TrackRemote.receiver"] = c40Imm(c40Ctor)
	t["TrackRemote.peekedPackets"] = c40Mu(c40TRK, "queue of peeked packets: peek appends under Lock")
	t["TrackRemote.audioPlayoutStatsProviders"] = c40Mu(c40TRK, "addProvider/removeProvider under Lock")

	// ---- statsReportCollector
	t["statsReportCollector.collectingGroup"] = c40Atomic("sync.WaitGroup")
	t["statsReportCollector.report"] = c40Mu(c40STAT, "Collect/Ready hold mux")
	t["statsReportCollector.mux"] = mk("lock", lock)
}
