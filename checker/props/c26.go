package props

import (
	"go/ast"
	"go/constant"
	"go/token"
	"go/types"
	"sort"
	"strings"
	"time"

	"verif/checker/core"
)

func init() {
	register(&Prop{
		ID:        "C26",
		Engine:    "e2cfg+e4range+e6flow",
		Technique: "edge-dominance of every buffer write and of the hand-over to the repair channel by the pass edge of the 'too short for an OSN' guard (per loop iteration); affine bounds of every later index/slice of the buffer derived from that guard; provenance and ordering rules for the rewritten header bytes and the saved attributes",
		LevelText: "In the repair-stream goroutine of maybeStartRepairStreamReader: (1) every write into the received buffer and the send on the repair channel happen only after the guard `len - headerLength - padding < K -> drop` let the packet pass, in the same iteration; (2) with len - headerLength >= K every index b[headerLength+c], b[c] and every slice bound used after the guard is proved inside the received length, and the OSN width is the same constant in the guard, the sequence-number copy, the payload move and the length handed on; (3) the payload type and SSRC written come from PayloadType()/SSRC() of the track this repair stream belongs to, the marker bit is kept (b[1]&0x80), the sequence number bytes are the first K payload bytes in order, and the original payload type / sequence number / SSRC are saved into the attributes before the bytes are overwritten; (4) TrackRemote.read releases the RTX buffer only after copying it out.",
		LevelNote: "Trusted: RFC 3550 fixed-header offsets (PT byte 1, sequence number bytes 2..3, SSRC bytes 8..11) and RFC 4588 OSN position as transcribed; interceptor.RTPReader.Read returns n <= len(b). Not decided: the header-length arithmetic itself (uint16 wrap with huge extension lengths, the extension-length read and b[len-1] before the guard, len = 0), stale bytes beyond len. These residual pre-guard accesses are listed as not-judged.",
		DesignRef: "DESIGN.md §5 C26",
		Run:       runC26,
	})
}

// c26Lin is an affine form sum(co[v]*v) + k over integer variables.
type c26Lin struct {
	co map[*types.Var]int64
	k  int64
}

func (l c26Lin) add(o c26Lin, sign int64) c26Lin {
	out := c26Lin{co: map[*types.Var]int64{}, k: l.k + sign*o.k}
	for v, c := range l.co {
		out.co[v] += c
	}
	for v, c := range o.co {
		out.co[v] += sign * c
	}
	for v, c := range out.co {
		if c == 0 {
			delete(out.co, v)
		}
	}
	return out
}

func (l c26Lin) scale(f int64) c26Lin {
	out := c26Lin{co: map[*types.Var]int64{}, k: l.k * f}
	for v, c := range l.co {
		if c*f != 0 {
			out.co[v] = c * f
		}
	}
	return out
}

// c26LinOf normalises an integer expression (+, -, * by a constant, integer conversions, parentheses).
func c26LinOf(info *types.Info, e ast.Expr) (c26Lin, bool) {
	e = ast.Unparen(e)
	if tv, ok := info.Types[e]; ok && tv.Value != nil && tv.Value.Kind() == constant.Int {
		if n, exact := constant.Int64Val(tv.Value); exact {
			return c26Lin{co: map[*types.Var]int64{}, k: n}, true
		}
		return c26Lin{}, false
	}
	switch x := e.(type) {
	case *ast.Ident:
		if v := core.VarOf(info, x); v != nil {
			if b, ok := v.Type().Underlying().(*types.Basic); ok && b.Info()&types.IsInteger != 0 {
				return c26Lin{co: map[*types.Var]int64{v: 1}}, true
			}
		}
	case *ast.CallExpr:
		if tv, ok := info.Types[x.Fun]; ok && tv.IsType() && len(x.Args) == 1 {
			if b, ok := tv.Type.Underlying().(*types.Basic); ok && b.Info()&types.IsInteger != 0 {
				return c26LinOf(info, x.Args[0])
			}
		}
	case *ast.UnaryExpr:
		if x.Op == token.SUB {
			if l, ok := c26LinOf(info, x.X); ok {
				return l.scale(-1), true
			}
		}
		if x.Op == token.ADD {
			return c26LinOf(info, x.X)
		}
	case *ast.BinaryExpr:
		a, ok1 := c26LinOf(info, x.X)
		b, ok2 := c26LinOf(info, x.Y)
		if !ok1 || !ok2 {
			return c26Lin{}, false
		}
		switch x.Op {
		case token.ADD:
			return a.add(b, 1), true
		case token.SUB:
			return a.add(b, -1), true
		case token.MUL:
			if len(a.co) == 0 {
				return b.scale(a.k), true
			}
			if len(b.co) == 0 {
				return a.scale(b.k), true
			}
		}
	}
	return c26Lin{}, false
}

// c26Ctx holds the resolved pieces of the repair goroutine.
type c26Ctx struct {
	c       *Ctx
	fn      *core.FuncInfo
	lit     *ast.FuncLit
	g       *core.Graph // graph of the goroutine literal
	info    *types.Info
	buf     *types.Var
	length  *types.Var
	attrs   *types.Var
	reader  *types.Var
	read    int // node of the Read call
	hdr     *types.Var
	pads    []*types.Var
	K       int64
	H0      int64
	guard   int
	passIdx int
	post    map[int]bool // nodes executed only after the guard passed in the same iteration
}

func (x *c26Ctx) render(l c26Lin) string {
	var parts []string
	name := func(v *types.Var) string {
		switch {
		case v == x.length:
			return "len"
		case v == x.hdr:
			return "hdr"
		}
		for _, p := range x.pads {
			if v == p {
				return "pad"
			}
		}
		return "var:" + v.Name()
	}
	var vs []*types.Var
	for v := range l.co {
		vs = append(vs, v)
	}
	sort.Slice(vs, func(i, j int) bool { return name(vs[i]) < name(vs[j]) })
	for _, v := range vs {
		c := l.co[v]
		switch {
		case c == 1:
			parts = append(parts, "+"+name(v))
		case c == -1:
			parts = append(parts, "-"+name(v))
		default:
			parts = append(parts, sprintf("%+d*%s", c, name(v)))
		}
	}
	if l.k != 0 || len(parts) == 0 {
		parts = append(parts, sprintf("%+d", l.k))
	}
	return strings.TrimPrefix(strings.Join(parts, ""), "+")
}

// nonNeg proves l >= 0 from: len - hdr >= K, hdr >= H0 (so len >= H0 + K).
func (x *c26Ctx) nonNeg(l c26Lin) bool {
	a, b := l.co[x.length], l.co[x.hdr]
	for v := range l.co {
		if v != x.length && v != x.hdr {
			return false
		}
	}
	switch {
	case a == 0 && b == 0:
		return l.k >= 0
	case a == 1 && b == -1:
		return x.K+l.k >= 0
	case a == 1 && b == 0:
		return x.H0+x.K+l.k >= 0
	case a == 0 && b == 1:
		return x.H0+l.k >= 0
	}
	return false
}

// lin normalises e and inlines locals that have exactly one plain affine definition in the goroutine
// (so `n := len - hdr - pad; if n < 2` is read like the direct form).
func (x *c26Ctx) lin(e ast.Expr) (c26Lin, bool) {
	l, ok := c26LinOf(x.info, e)
	if !ok {
		return l, false
	}
	for round := 0; round < 4; round++ {
		changed := false
		for v, co := range l.co {
			if v == x.length || v == x.buf {
				continue
			}
			plain, ops, other := c26Defs(x, v)
			if other || len(ops) > 0 || len(plain) != 1 {
				continue
			}
			d, ok := c26LinOf(x.info, plain[0])
			if !ok {
				continue
			}
			if _, self := d.co[v]; self {
				continue
			}
			rest := c26Lin{co: map[*types.Var]int64{}, k: l.k}
			for w, c2 := range l.co {
				if w != v {
					rest.co[w] = c2
				}
			}
			l = rest.add(d.scale(co), 1)
			changed = true
			break
		}
		if !changed {
			break
		}
	}
	return l, true
}

func (x *c26Ctx) rootedAtBuf(e ast.Expr) bool {
	ok, _ := c29RootedAt(x.info, e, map[*types.Var]bool{x.buf: true})
	return ok
}

func runC26(c *Ctx) {
	r := c.R
	g7Start = time.Now()
	r.Rule("C26.R1", "in the repair goroutine every write into the received buffer (index assignment, binary.*.PutUintN, copy destination) and the send on the repair channel is reachable, within one iteration, only through the pass edge of the guard `len - headerLength - padding < K`", 6)
	r.Rule("C26.R2", "with the guard's fact len - headerLength >= K (padding >= 0, headerLength >= its constant part), every index and slice bound of the buffer used after the guard lies inside the received length; the OSN width K is the same in the guard, the sequence-number copy, the payload move and the length handed on", 13)
	r.Rule("C26.R3", "the rewritten payload type and SSRC come from PayloadType()/SSRC() of the track whose repair interceptor is read, the marker bit is preserved (b[1]&0x80), the SSRC is stored big-endian at bytes 8..11, sequence-number bytes 2..3 are the first two payload bytes in order, and the original payload type / sequence number / SSRC are saved into the attributes before those bytes are overwritten", 9)
	r.Rule("C26.R4", "TrackRemote.read copies the RTX packet out before releasing its buffer and returns the packet's own attributes", 2)
	r.Rule("C26.R5", "RTP header-length arithmetic (RFC 3550): CC, X and P come from byte 0 with masks 0x0F/0x10/0x20; the extension length is read at an offset that depends on CC; the OSN offset depends on CC and on the extension length and is built from 12 and 4", 6)
	r.NotCovered = append(r.NotCovered,
		"the header-length arithmetic (uint16 wrap for extension lengths >= 16380 words), the extension-length read b[hdr+2:hdr+4] and the padding read b[len-1] before the guard (len = 0 panics), stale bytes beyond len",
		"a payload type >= 128 on the track would clobber the marker bit (values come from SDP payload types)",
		"end-to-end equality of the delivered packet")
	r.Trusted = append(r.Trusted, "RFC 3550 §5.1 fixed header offsets; RFC 4588 §4 OSN = first two payload bytes", "interceptor.RTPReader.Read returns n <= len(b)")

	x := c26Resolve(c)
	if x == nil {
		g7DebugDump(c)
		return
	}
	c26R1(x)
	c26R2(x)
	c26R3(x)
	c26R4(c)
	c26R5(c, "C26.R5")
	g7DebugDump(c)
}

func c26Resolve(c *Ctx) *c26Ctx {
	r := c.R
	const R = "C26.R1"
	fn := c.mustFunc(R, "", "RTPReceiver.maybeStartRepairStreamReader")
	if fn == nil {
		return nil
	}
	x := &c26Ctx{c: c, fn: fn, info: fn.Pkg.TypesInfo}
	pos := c.P.Pos(fn.Decl.Pos())
	var lits []*ast.FuncLit
	ast.Inspect(fn.Decl.Body, func(n ast.Node) bool {
		if gs, ok := n.(*ast.GoStmt); ok {
			if fl, ok := ast.Unparen(gs.Call.Fun).(*ast.FuncLit); ok {
				lits = append(lits, fl)
			}
		}
		return true
	})
	if len(lits) != 1 {
		r.Undecided(R, "repair-reader|goroutine", pos, sprintf("expected one goroutine literal in maybeStartRepairStreamReader, found %d", len(lits)))
		return nil
	}
	x.lit = lits[0]
	x.g = c.P.GraphOfLit(x.lit)
	if x.g == nil {
		r.Undecided(R, "repair-reader|goroutine", pos, "no CFG for the goroutine literal")
		return nil
	}
	// the Read call on an interceptor.RTPReader
	x.read = -1
	for _, n := range x.g.Nodes {
		as, ok := n.Ast.(*ast.AssignStmt)
		if !ok || len(as.Rhs) != 1 || len(as.Lhs) != 3 {
			continue
		}
		call, ok := ast.Unparen(as.Rhs[0]).(*ast.CallExpr)
		if !ok || len(call.Args) < 1 {
			continue
		}
		fnc := core.Callee(x.info, call)
		if fnc == nil || fnc.Name() != "Read" || fnc.Pkg() == nil || fnc.Pkg().Path() != "github.com/pion/interceptor" {
			continue
		}
		se, _ := ast.Unparen(call.Fun).(*ast.SelectorExpr)
		if se == nil {
			continue
		}
		if x.read >= 0 {
			r.Undecided(R, "repair-reader|read-call", pos, "more than one interceptor Read in the goroutine")
			return nil
		}
		x.read = n.ID
		x.reader = core.VarOf(x.info, se.X)
		x.buf = core.VarOf(x.info, call.Args[0])
		x.length = core.VarOf(x.info, as.Lhs[0])
		x.attrs = core.VarOf(x.info, as.Lhs[1])
	}
	if x.read < 0 || x.buf == nil || x.length == nil || x.reader == nil {
		r.Undecided(R, "repair-reader|read-call", pos, "the `n, attributes, err := <interceptor.RTPReader>.Read(buf, ...)` statement was not found")
		return nil
	}
	c.R.Saw("(*RTPReceiver).maybeStartRepairStreamReader$go")

	// ---- the guard: a branch on an affine condition over len with coefficient 1
	type cand struct {
		node, pass int
		K          int64
		neg        []*types.Var
	}
	var cands []cand
	for _, n := range x.g.Nodes {
		if len(n.Succs) != 2 || n.Succs[0].Cond == nil || n.Succs[0].Tag != nil {
			continue
		}
		be, ok := ast.Unparen(n.Succs[0].Cond).(*ast.BinaryExpr)
		if !ok {
			continue
		}
		switch be.Op {
		case token.LSS, token.LEQ, token.GTR, token.GEQ:
		default:
			continue
		}
		a, ok1 := x.lin(be.X)
		b, ok2 := x.lin(be.Y)
		if !ok1 || !ok2 {
			continue
		}
		d := a.add(b, -1) // cond: d OP 0
		op := be.Op
		if d.co[x.length] == -1 {
			d = d.scale(-1)
			op = map[token.Token]token.Token{token.LSS: token.GTR, token.LEQ: token.GEQ, token.GTR: token.LSS, token.GEQ: token.LEQ}[op]
		}
		if d.co[x.length] != 1 {
			continue
		}
		// d = len - (...) + k ; the edge on which d >= m holds
		var pass int
		var m int64
		switch op {
		case token.LSS: // true: d<0 ; false: d>=0
			pass, m = 1, 0
		case token.LEQ: // false: d>=1
			pass, m = 1, 1
		case token.GEQ: // true: d>=0
			pass, m = 0, 0
		case token.GTR: // true: d>=1
			pass, m = 0, 1
		}
		var neg []*types.Var
		okShape := true
		for v, co := range d.co {
			if v == x.length {
				continue
			}
			if co != -1 {
				okShape = false
			}
			neg = append(neg, v)
		}
		if !okShape || len(neg) == 0 {
			continue
		}
		// len - sum(neg) >= m - d.k
		cands = append(cands, cand{n.ID, pass, m - d.k, neg})
	}
	if len(cands) != 1 {
		r.Undecided(R, "repair-reader|guard", pos, sprintf("expected one branch of the form len - headerLength [- padding] < K, found %d", len(cands)))
		return nil
	}
	x.guard, x.passIdx, x.K = cands[0].node, cands[0].pass, cands[0].K

	// post-guard nodes: not reachable from the Read without the pass edge, and not reachable from entry without the Read
	var rsucc []int
	for _, e := range x.g.Nodes[x.read].Succs {
		rsucc = append(rsucc, e.To)
	}
	noPass := x.g.Reach(rsucc, nil, func(from, idx int, e core.Edge) bool { return from == x.guard && idx == x.passIdx })
	noRead := x.g.ReachFromEntry(func(n int) bool { return n == x.read }, nil)
	live := x.g.Live()
	x.post = map[int]bool{}
	for _, n := range x.g.Nodes {
		if live[n.ID] && !noPass[n.ID] && !noRead[n.ID] && n.ID != x.read {
			x.post[n.ID] = true
		}
	}

	// roles of the subtracted variables: the one used to index the buffer after the guard is the header length
	usedAsIndex := map[*types.Var]bool{}
	for _, n := range x.g.Nodes {
		if n.Ast == nil || !live[n.ID] {
			continue
		}
		core.InspectShallow(n.Ast, func(y ast.Node) bool {
			var idx []ast.Expr
			switch e := y.(type) {
			case *ast.IndexExpr:
				if core.VarOf(x.info, e.X) == x.buf {
					idx = append(idx, e.Index)
				}
			case *ast.SliceExpr:
				if core.VarOf(x.info, e.X) == x.buf {
					idx = append(idx, e.Low, e.High)
				}
			}
			for _, ie := range idx {
				if ie == nil {
					continue
				}
				if l, ok := x.lin(ie); ok {
					for v := range l.co {
						usedAsIndex[v] = true
					}
				}
			}
			return true
		})
	}
	for _, v := range cands[0].neg {
		if usedAsIndex[v] && x.hdr == nil {
			x.hdr = v
		} else {
			x.pads = append(x.pads, v)
		}
	}
	if x.hdr == nil {
		r.Undecided(R, "repair-reader|guard", c.P.Pos(x.g.PosOf(x.guard)), "cannot tell which subtracted variable is the header length (none indexes the buffer)")
		return nil
	}
	// every other subtracted variable must be provably >= 0, the header length >= H0
	for _, p := range x.pads {
		if ok, why := c26NonNegVar(x, p); !ok {
			r.Undecided("C26.R2", "rtx-unwrap|guard|padding-nonnegative", c.P.Pos(x.g.PosOf(x.guard)), "a variable subtracted in the guard is not provably non-negative: "+why)
			return nil
		}
	}
	x.H0 = c26MinOfVar(x, x.hdr)
	return x
}

// c26MultiDef is a definition `..., v, ... := f(...)`: v receives result Idx of Call.
type c26MultiDef struct {
	Call *ast.CallExpr
	Idx  int
}

// c26DefsIn lists the definitions of v inside body: plain single-value assignments, op-assignments,
// multi-value assignments from one call, and anything else (inc/dec, address taken, tuple from a non-call).
func c26DefsIn(info *types.Info, body ast.Node, v *types.Var) (plain []ast.Expr, opAssign []*ast.AssignStmt, multi []c26MultiDef, other bool) {
	ast.Inspect(body, func(n ast.Node) bool {
		switch s := n.(type) {
		case *ast.AssignStmt:
			for i, l := range s.Lhs {
				if core.VarOf(info, l) != v {
					continue
				}
				switch {
				case s.Tok == token.ASSIGN || s.Tok == token.DEFINE:
					if len(s.Lhs) == len(s.Rhs) {
						plain = append(plain, s.Rhs[i])
					} else if call, ok := ast.Unparen(s.Rhs[0]).(*ast.CallExpr); ok && len(s.Rhs) == 1 {
						multi = append(multi, c26MultiDef{call, i})
					} else {
						other = true
					}
				default:
					opAssign = append(opAssign, s)
				}
			}
		case *ast.IncDecStmt:
			if core.VarOf(info, s.X) == v {
				other = true
			}
		case *ast.UnaryExpr:
			if s.Op == token.AND && core.VarOf(info, s.X) == v {
				other = true
			}
		case *ast.RangeStmt:
			if (s.Key != nil && core.VarOf(info, s.Key) == v) || (s.Value != nil && core.VarOf(info, s.Value) == v) {
				other = true
			}
		case *ast.ValueSpec:
			for i, nm := range s.Names {
				if info.Defs[nm] != types.Object(v) {
					continue
				}
				switch {
				case len(s.Values) == len(s.Names):
					plain = append(plain, s.Values[i])
				case len(s.Values) == 1:
					if call, ok := ast.Unparen(s.Values[0]).(*ast.CallExpr); ok {
						multi = append(multi, c26MultiDef{call, i})
					} else {
						other = true
					}
				}
			}
		}
		return true
	})
	return
}

// c26Defs lists the definitions of v in the goroutine literal; a multi-value definition counts as "other"
// (callers that can follow the callee use c26DefsIn).
func c26Defs(x *c26Ctx, v *types.Var) (plain []ast.Expr, opAssign []*ast.AssignStmt, other bool) {
	var multi []c26MultiDef
	plain, opAssign, multi, other = c26DefsIn(x.info, x.lit.Body, v)
	if len(multi) > 0 {
		other = true
	}
	return
}

// c26Helper resolves the callee of a multi-value definition to a declared function of the module with a body.
func c26Helper(c *Ctx, info *types.Info, call *ast.CallExpr) *core.FuncInfo {
	fi := c.P.DeclOf(core.Callee(info, call))
	if fi == nil || fi.Decl.Body == nil {
		return nil
	}
	return fi
}

// c26ResultExprs lists, for result idx of helper h, the expression every return statement yields
// (the named result variable for a naked return). ok=false when a return forwards another call's tuple.
func c26ResultExprs(h *core.FuncInfo, idx int) (exprs []ast.Expr, named *types.Var, ok bool) {
	sig := h.Obj.Type().(*types.Signature)
	if idx >= sig.Results().Len() {
		return nil, nil, false
	}
	if rv := sig.Results().At(idx); rv.Name() != "" && rv.Name() != "_" {
		named = rv
	}
	ok = true
	var walk func(n ast.Node) bool
	walk = func(n ast.Node) bool {
		if _, isLit := n.(*ast.FuncLit); isLit {
			return false
		}
		ret, isRet := n.(*ast.ReturnStmt)
		if !isRet {
			return true
		}
		switch {
		case len(ret.Results) == 0:
			if named == nil {
				ok = false
			}
			// naked return: the named result variable (represented by nil expression)
			exprs = append(exprs, nil)
		case len(ret.Results) == sig.Results().Len():
			exprs = append(exprs, ret.Results[idx])
		default:
			ok = false
		}
		return true
	}
	ast.Inspect(h.Decl.Body, walk)
	return
}

func c26IsParamOf(h *core.FuncInfo, v *types.Var) bool {
	sig := h.Obj.Type().(*types.Signature)
	if sig.Recv() == v {
		return true
	}
	for i := 0; i < sig.Params().Len(); i++ {
		if sig.Params().At(i) == v {
			return true
		}
	}
	return false
}

func c26IsUnsigned(t types.Type) bool {
	b, ok := t.Underlying().(*types.Basic)
	return ok && b.Info()&types.IsUnsigned != 0
}

// c26NonNegExpr: a constant >= 0, an unsigned-typed expression, or a conversion of one.
func c26NonNegExpr(info *types.Info, e ast.Expr) bool {
	e = ast.Unparen(e)
	if tv, ok := info.Types[e]; ok && tv.Value != nil && tv.Value.Kind() == constant.Int {
		return constant.Sign(tv.Value) >= 0
	}
	if t := info.TypeOf(e); t != nil && c26IsUnsigned(t) {
		return true
	}
	if call, ok := e.(*ast.CallExpr); ok && len(call.Args) == 1 {
		if tv, ok := info.Types[call.Fun]; ok && tv.IsType() {
			// widening conversion of an unsigned value into a signed type keeps it non-negative
			if at := info.TypeOf(call.Args[0]); at != nil && c26IsUnsigned(at) {
				if ab, ok := at.Underlying().(*types.Basic); ok {
					if tb, ok := tv.Type.Underlying().(*types.Basic); ok && c26Width(tb) > c26Width(ab) {
						return true
					}
				}
			}
		}
	}
	return false
}

func c26Width(b *types.Basic) int {
	switch b.Kind() {
	case types.Int8, types.Uint8:
		return 8
	case types.Int16, types.Uint16:
		return 16
	case types.Int32, types.Uint32:
		return 32
	case types.Int, types.Uint, types.Int64, types.Uint64, types.Uintptr:
		return 64
	}
	return 0
}

func c26NonNegVar(x *c26Ctx, v *types.Var) (bool, string) {
	return c26NonNegVarIn(x.c, x.info, x.lit.Body, nil, v, 0)
}

// c26NonNegVarIn proves v >= 0 from its definitions inside body (h is the enclosing helper, nil for the
// goroutine literal): unsigned type, or every definition is a non-negative expression, or result k of a
// same-module helper whose every return yields a non-negative value for that result.
func c26NonNegVarIn(c *Ctx, info *types.Info, body ast.Node, h *core.FuncInfo, v *types.Var, depth int) (bool, string) {
	if c26IsUnsigned(v.Type()) {
		return true, ""
	}
	if h != nil && c26IsParamOf(h, v) {
		return false, v.Name() + " is a parameter of " + h.Name()
	}
	plain, ops, multi, other := c26DefsIn(info, body, v)
	if other || len(ops) > 0 {
		return false, v.Name() + " is modified by an op-assignment or through its address"
	}
	for _, e := range plain {
		if !c26NonNegExpr(info, e) {
			return false, v.Name() + " = " + exprStr(e)
		}
	}
	for _, m := range multi {
		callee := c26Helper(c, info, m.Call)
		if callee == nil || depth >= 2 {
			return false, v.Name() + " is a result of " + calleeName(info, m.Call) + ", which is not a function of the module that can be followed"
		}
		if ok, why := c26NonNegResult(c, callee, m.Idx, depth+1); !ok {
			return false, "result " + itoa26(m.Idx) + " of " + callee.Name() + ": " + why
		}
	}
	isNamedResult := false
	if h != nil {
		sig := h.Obj.Type().(*types.Signature)
		for i := 0; i < sig.Results().Len(); i++ {
			if sig.Results().At(i) == v {
				isNamedResult = true // starts at the zero value
			}
		}
	}
	if len(plain)+len(multi) == 0 && !isNamedResult {
		return false, "no definition found for " + v.Name()
	}
	return true, ""
}

func itoa26(i int) string { return sprintf("%d", i) }

// c26NonNegResult proves that result idx of helper h is >= 0 on every return.
func c26NonNegResult(c *Ctx, h *core.FuncInfo, idx int, depth int) (bool, string) {
	sig := h.Obj.Type().(*types.Signature)
	if idx < sig.Results().Len() && c26IsUnsigned(sig.Results().At(idx).Type()) {
		return true, ""
	}
	exprs, named, ok := c26ResultExprs(h, idx)
	if !ok || len(exprs) == 0 {
		return false, "a return statement forwards a tuple or the function never returns"
	}
	info := h.Pkg.TypesInfo
	for _, e := range exprs {
		var rv *types.Var
		if e == nil {
			rv = named
		} else if c26NonNegExpr(info, e) {
			continue
		} else {
			rv = core.VarOf(info, ast.Unparen(e))
		}
		if rv == nil {
			return false, "returns " + exprStr(e)
		}
		if ok, why := c26NonNegVarIn(c, info, h.Decl.Body, h, rv, depth); !ok {
			return false, why
		}
	}
	return true, ""
}

// c26MinOfVarIn: a lower bound of v from its definitions inside body: the constant part of its single plain
// definition when all other terms are non-negative multiples of unsigned values and later changes only add
// unsigned amounts. For a named result of helper h the definition must lie on every path to the exit
// (otherwise the zero value can be returned). A single multi-value definition is followed into the helper.
func c26MinOfVarIn(c *Ctx, info *types.Info, body ast.Node, h *core.FuncInfo, v *types.Var, depth int) int64 {
	plain, ops, multi, other := c26DefsIn(info, body, v)
	if other {
		return 0
	}
	if len(plain) == 0 && len(ops) == 0 && len(multi) == 1 && depth < 2 {
		callee := c26Helper(c, info, multi[0].Call)
		if callee == nil {
			return 0
		}
		exprs, named, ok := c26ResultExprs(callee, multi[0].Idx)
		if !ok || len(exprs) == 0 {
			return 0
		}
		cinfo := callee.Pkg.TypesInfo
		var rv *types.Var
		for _, e := range exprs {
			w := named
			if e != nil {
				w = core.VarOf(cinfo, ast.Unparen(e))
			}
			if w == nil || (rv != nil && w != rv) {
				return 0
			}
			rv = w
		}
		if c26IsParamOf(callee, rv) {
			return 0
		}
		return c26MinOfVarIn(c, cinfo, callee.Decl.Body, callee, rv, depth+1)
	}
	if len(multi) > 0 || len(plain) != 1 {
		return 0
	}
	for _, s := range ops {
		if s.Tok != token.ADD_ASSIGN || !c26NonNegExpr(info, s.Rhs[0]) {
			return 0
		}
	}
	l, ok := c26LinOf(info, plain[0])
	if !ok || l.k < 0 {
		return 0
	}
	for w, co := range l.co {
		if co < 0 || !c26IsUnsigned(w.Type()) {
			return 0
		}
	}
	if h != nil {
		// a named result (or a `var` declared earlier) starts at zero: the definition must dominate the exit
		isDecl := false
		ast.Inspect(body, func(n ast.Node) bool {
			if as, ok := n.(*ast.AssignStmt); ok && as.Tok == token.DEFINE {
				for i, lhs := range as.Lhs {
					if id, ok := lhs.(*ast.Ident); ok && info.Defs[id] == types.Object(v) && i < len(as.Rhs) && as.Rhs[i] == plain[0] {
						isDecl = true
					}
				}
			}
			return true
		})
		if !isDecl {
			g := c.P.GraphOf(h)
			if g == nil {
				return 0
			}
			defs := g.FindNodes(func(n ast.Node) bool {
				as, ok := n.(*ast.AssignStmt)
				if !ok || len(as.Lhs) != len(as.Rhs) {
					return false
				}
				for i := range as.Lhs {
					if as.Rhs[i] == plain[0] {
						return true
					}
				}
				return false
			})
			if len(defs) == 0 || !g.Dominated(g.Exit, core.NodeSet(defs)) {
				return 0
			}
		}
	}
	return l.k
}

func c26MinOfVar(x *c26Ctx, v *types.Var) int64 {
	return c26MinOfVarIn(x.c, x.info, x.lit.Body, nil, v, 0)
}

// c26BufWrites lists the nodes that write into the buffer or hand it on, with a canonical description.
func c26BufWrites(x *c26Ctx) map[int][]string {
	out := map[int][]string{}
	idxStr := func(e ast.Expr) string {
		switch s := ast.Unparen(e).(type) {
		case *ast.IndexExpr:
			if l, ok := x.lin(s.Index); ok {
				return "buf[" + x.render(l) + "]"
			}
		case *ast.SliceExpr:
			lo, hi := "", ""
			if s.Low != nil {
				if l, ok := x.lin(s.Low); ok {
					lo = x.render(l)
				} else {
					lo = "?"
				}
			}
			if s.High != nil {
				if l, ok := x.lin(s.High); ok {
					hi = x.render(l)
				} else {
					hi = "?"
				}
			}
			return "buf[" + lo + ":" + hi + "]"
		}
		return "buf[?]"
	}
	for _, n := range x.g.Nodes {
		if n.Ast == nil || n.ID == x.read {
			continue
		}
		if ss, ok := n.Ast.(*ast.SendStmt); ok {
			if ch, ok := x.info.TypeOf(ss.Chan).Underlying().(*types.Chan); ok {
				if nm := c38NamedOf(ch.Elem()); nm != nil && nm.Obj().Name() == "rtxPacketWithAttributes" {
					out[n.ID] = append(out[n.ID], "send:rtxPacketWithAttributes")
				}
			}
		}
		core.InspectShallow(n.Ast, func(y ast.Node) bool {
			switch s := y.(type) {
			case *ast.AssignStmt:
				for _, l := range s.Lhs {
					if _, isIdent := ast.Unparen(l).(*ast.Ident); !isIdent && x.rootedAtBuf(l) {
						out[n.ID] = append(out[n.ID], "write:"+idxStr(l))
					}
				}
			case *ast.IncDecStmt:
				if _, isIdent := ast.Unparen(s.X).(*ast.Ident); !isIdent && x.rootedAtBuf(s.X) {
					out[n.ID] = append(out[n.ID], "write:"+idxStr(s.X))
				}
			case *ast.CallExpr:
				if id, ok := ast.Unparen(s.Fun).(*ast.Ident); ok {
					if b, ok := x.info.Uses[id].(*types.Builtin); ok && b.Name() == "copy" && len(s.Args) == 2 && x.rootedAtBuf(s.Args[0]) {
						out[n.ID] = append(out[n.ID], "copy-into:"+idxStr(s.Args[0]))
					}
				}
				if fnc := core.Callee(x.info, s); fnc != nil && fnc.Pkg() != nil && fnc.Pkg().Path() == "encoding/binary" && strings.HasPrefix(fnc.Name(), "Put") && len(s.Args) >= 1 && x.rootedAtBuf(s.Args[0]) {
					out[n.ID] = append(out[n.ID], fnc.Name()+":"+idxStr(s.Args[0]))
				}
			}
			return true
		})
	}
	return out
}

func c26R1(x *c26Ctx) {
	r := x.c.R
	const R = "C26.R1"
	writes := c26BufWrites(x)
	var ids []int
	for id := range writes {
		ids = append(ids, id)
	}
	sort.Ints(ids)
	nsend := 0
	for _, id := range ids {
		for _, w := range writes[id] {
			if strings.HasPrefix(w, "send:") {
				nsend++
			}
			r.Check(x.post[id], R, "rtx-unwrap|guarded|"+w, x.c.P.Pos(x.g.PosOf(id)), "only reachable through the guard's pass edge",
				"reachable in an iteration without passing the `too short for an OSN` guard: a short packet would be rewritten/forwarded")
		}
	}
	r.Cells += len(x.g.Nodes)
	if nsend == 0 {
		r.Fail(R, "rtx-unwrap|guarded|send:rtxPacketWithAttributes", x.c.P.Pos(x.g.PosOf(x.guard)), "the goroutine never sends on the repair channel")
	}
}

func c26R2(x *c26Ctx) {
	r := x.c.R
	const R = "C26.R2"
	gpos := x.c.P.Pos(x.g.PosOf(x.guard))
	r.Check(x.K == 2, R, "rtx-unwrap|guard|K", gpos, sprintf("guard passes only when len - hdr - pad >= %d (the RFC 4588 OSN is 2 bytes); hdr >= %d", x.K, x.H0),
		sprintf("the guard passes packets iff they carry at least %d payload bytes; the RFC 4588 OSN is exactly 2 bytes (fewer: short packets are unwrapped; more: valid retransmissions of empty packets are dropped)", x.K))

	type access struct {
		desc string
		obls []c26Lin
		what []string
		pos  token.Pos
		und  string
	}
	one := c26Lin{co: map[*types.Var]int64{}, k: 1}
	lenL := c26Lin{co: map[*types.Var]int64{x.length: 1}}
	zero := c26Lin{co: map[*types.Var]int64{}}
	collect := func(id int) []access {
		var out []access
		n := x.g.Nodes[id]
		if n.Ast == nil {
			return nil
		}
		core.InspectShallow(n.Ast, func(y ast.Node) bool {
			switch e := y.(type) {
			case *ast.IndexExpr:
				if core.VarOf(x.info, e.X) != x.buf {
					return true
				}
				l, ok := x.lin(e.Index)
				if !ok {
					out = append(out, access{desc: "index:?", pos: e.Pos(), und: "index " + exprStr(e.Index) + " is not affine"})
					return true
				}
				out = append(out, access{desc: "index:" + x.render(l), pos: e.Pos(),
					obls: []c26Lin{l, lenL.add(l, -1).add(one, -1)}, what: []string{"index >= 0", "index <= len-1"}})
			case *ast.SliceExpr:
				if core.VarOf(x.info, e.X) != x.buf {
					return true
				}
				lo, hi := zero, lenL
				los, his := "", ""
				okA := true
				if e.Low != nil {
					l, ok := x.lin(e.Low)
					okA = okA && ok
					lo, los = l, x.render(l)
				}
				if e.High != nil {
					l, ok := x.lin(e.High)
					okA = okA && ok
					hi, his = l, x.render(l)
				}
				if !okA {
					out = append(out, access{desc: "slice:?", pos: e.Pos(), und: "slice bounds of " + exprStr(e) + " are not affine"})
					return true
				}
				a := access{desc: "slice:" + los + ":" + his, pos: e.Pos(), obls: []c26Lin{lo, hi.add(lo, -1)}, what: []string{"low >= 0", "low <= high"}}
				if e.High != nil {
					a.obls = append(a.obls, lenL.add(hi, -1))
					a.what = append(a.what, "high <= len")
				}
				out = append(out, a)
			}
			return true
		})
		return out
	}
	var ids []int
	for _, n := range x.g.Nodes {
		ids = append(ids, n.ID)
	}
	live := x.g.Live()
	seen := map[string]bool{}
	for _, id := range ids {
		if !live[id] || id == x.read {
			continue
		}
		for _, a := range collect(id) {
			if !x.post[id] {
				if !seen["pre|"+a.desc] {
					seen["pre|"+a.desc] = true
					r.Info(R, "rtx-unwrap|pre-guard-access|"+a.desc, x.c.P.Pos(a.pos), "buffer access before the guard: residual obligation, not decided (see not_covered)")
				}
				continue
			}
			key := "rtx-unwrap|in-range|" + a.desc
			if seen[key] {
				continue
			}
			seen[key] = true
			r.Cells += len(a.obls)
			if a.und != "" {
				r.Undecided(R, key, x.c.P.Pos(a.pos), a.und)
				continue
			}
			var bad []string
			for i, o := range a.obls {
				if !x.nonNeg(o) {
					bad = append(bad, sprintf("cannot prove %s (i.e. %s >= 0) from len-hdr >= %d, hdr >= %d", a.what[i], x.render(o), x.K, x.H0))
				}
			}
			r.Check(len(bad) == 0, R, key, x.c.P.Pos(a.pos), "inside the received length", strings.Join(bad, "; "))
		}
	}

	// ---- OSN width consistency: copy(buf[hdr : len-K], buf[hdr+K : len]); handed on: buf[: len-K]
	K := x.K
	var copies []*ast.CallExpr
	var sends []*ast.SendStmt
	for id := range x.post {
		n := x.g.Nodes[id]
		if n.Ast == nil {
			continue
		}
		if ss, ok := n.Ast.(*ast.SendStmt); ok {
			sends = append(sends, ss)
		}
		core.InspectShallow(n.Ast, func(y ast.Node) bool {
			if call, ok := y.(*ast.CallExpr); ok {
				if idn, ok := ast.Unparen(call.Fun).(*ast.Ident); ok {
					if b, ok := x.info.Uses[idn].(*types.Builtin); ok && b.Name() == "copy" && len(call.Args) == 2 && x.rootedAtBuf(call.Args[0]) {
						copies = append(copies, call)
					}
				}
			}
			return true
		})
	}
	sliceOf := func(e ast.Expr) (lo, hi c26Lin, ok bool) {
		s, isS := ast.Unparen(e).(*ast.SliceExpr)
		if !isS || core.VarOf(x.info, s.X) != x.buf {
			return
		}
		lo, hi = zero, lenL
		ok = true
		if s.Low != nil {
			lo, ok = x.lin(s.Low)
		}
		if ok && s.High != nil {
			hi, ok = x.lin(s.High)
		}
		return
	}
	eq := func(a c26Lin, b c26Lin) bool { d := a.add(b, -1); return len(d.co) == 0 && d.k == 0 }
	hdrL := c26Lin{co: map[*types.Var]int64{x.hdr: 1}}
	kL := c26Lin{co: map[*types.Var]int64{}, k: K}
	if len(copies) != 1 {
		r.Undecided(R, "rtx-unwrap|osn|payload-move", gpos, sprintf("expected one copy() that moves the payload over the OSN, found %d", len(copies)))
	} else {
		dlo, dhi, ok1 := sliceOf(copies[0].Args[0])
		slo, shi, ok2 := sliceOf(copies[0].Args[1])
		p := x.c.P.Pos(copies[0].Pos())
		if !ok1 || !ok2 {
			r.Undecided(R, "rtx-unwrap|osn|payload-move", p, "copy operands are not affine slices of the buffer")
		} else {
			okMove := eq(dlo, hdrL) && eq(slo, hdrL.add(kL, 1)) && eq(shi, lenL) && eq(dhi, lenL.add(kL, -1))
			r.Check(okMove, R, "rtx-unwrap|osn|payload-move", p, sprintf("copy(buf[hdr:len-%d], buf[hdr+%d:len])", K, K),
				sprintf("the payload move is copy(buf[%s:%s], buf[%s:%s]); with an OSN of %d bytes (guard) it must be copy(buf[hdr:len-%d], buf[hdr+%d:len])", x.render(dlo), x.render(dhi), x.render(slo), x.render(shi), K, K, K))
		}
	}
	nsl := 0
	for _, ss := range sends {
		ast.Inspect(ss.Value, func(y ast.Node) bool {
			if s, ok := y.(*ast.SliceExpr); ok && core.VarOf(x.info, s.X) == x.buf {
				nsl++
				lo, hi, ok := sliceOf(s)
				p := x.c.P.Pos(s.Pos())
				if !ok {
					r.Undecided(R, "rtx-unwrap|osn|forwarded-length", p, "forwarded slice is not affine")
					return true
				}
				r.Check(eq(lo, zero) && eq(hi, lenL.add(kL, -1)), R, "rtx-unwrap|osn|forwarded-length", p, sprintf("forwards buf[:len-%d]", K),
					sprintf("forwards buf[%s:%s]; after removing an OSN of %d bytes the packet is buf[:len-%d]", x.render(lo), x.render(hi), K, K))
			}
			return true
		})
	}
	if nsl == 0 {
		r.Undecided(R, "rtx-unwrap|osn|forwarded-length", gpos, "the value sent on the repair channel contains no slice of the buffer")
	}
}

// c26MethodOn matches conv(recv.M()) where M is method name of *TrackRemote; returns the receiver variable.
func c26MethodOn(info *types.Info, e ast.Expr, typ *types.Named, method string) *types.Var {
	call, ok := c23Strip(info, e).(*ast.CallExpr)
	if !ok || len(call.Args) != 0 {
		return nil
	}
	fn := core.Callee(info, call)
	if fn == nil || fn.Name() != method {
		return nil
	}
	sig := fn.Type().(*types.Signature)
	if sig.Recv() == nil || c38NamedOf(sig.Recv().Type()) != typ {
		return nil
	}
	se, ok := ast.Unparen(call.Fun).(*ast.SelectorExpr)
	if !ok {
		return nil
	}
	return core.VarOf(info, se.X)
}

func c26R3(x *c26Ctx) {
	c, r := x.c, x.c.R
	const R = "C26.R3"
	gpos := c.P.Pos(x.g.PosOf(x.guard))
	trackRemote := c.P.Named("", "TrackRemote")
	if trackRemote == nil {
		r.Fail(R, "anchor:TrackRemote", "-", "anchored type no longer resolves")
		return
	}
	constIdx := func(e ast.Expr) (int64, bool) {
		ix, ok := ast.Unparen(e).(*ast.IndexExpr)
		if !ok || core.VarOf(x.info, ix.X) != x.buf {
			return 0, false
		}
		l, ok := x.lin(ix.Index)
		if !ok || len(l.co) != 0 {
			return 0, false
		}
		return l.k, true
	}
	constOf := func(e ast.Expr) (int64, bool) {
		l, ok := x.lin(e)
		if !ok || len(l.co) != 0 {
			return 0, false
		}
		return l.k, true
	}
	// ---- collect byte writes: buf[c] = rhs, and PutUintN(buf[a:b], v)
	type bw struct {
		node int
		rhs  ast.Expr
		pos  token.Pos
	}
	byteW := map[int64]bw{}
	type put struct {
		node   int
		lo, hi int64
		call   *ast.CallExpr
	}
	var puts []put
	for id := range x.post {
		n := x.g.Nodes[id]
		if n.Ast == nil {
			continue
		}
		core.InspectShallow(n.Ast, func(y ast.Node) bool {
			switch s := y.(type) {
			case *ast.AssignStmt:
				if len(s.Lhs) != len(s.Rhs) {
					return true
				}
				for i, l := range s.Lhs {
					if k, ok := constIdx(l); ok {
						byteW[k] = bw{id, s.Rhs[i], l.Pos()}
					}
				}
			case *ast.CallExpr:
				fnc := core.Callee(x.info, s)
				if fnc != nil && fnc.Pkg() != nil && fnc.Pkg().Path() == "encoding/binary" && strings.HasPrefix(fnc.Name(), "PutUint") && len(s.Args) == 2 {
					if sl, ok := ast.Unparen(s.Args[0]).(*ast.SliceExpr); ok && core.VarOf(x.info, sl.X) == x.buf && sl.Low != nil && sl.High != nil {
						lo, ok1 := constOf(sl.Low)
						hi, ok2 := constOf(sl.High)
						if ok1 && ok2 {
							puts = append(puts, put{id, lo, hi, s})
						}
					}
				}
			}
			return true
		})
	}
	// ---- payload type byte (RFC 3550: byte 1 = M | PT)
	var trackVar *types.Var
	if w, ok := byteW[1]; !ok {
		r.Fail(R, "rtx-unwrap|payload-type|from-track+marker-kept", gpos, "byte 1 (marker | payload type) is never rewritten after the guard")
	} else {
		okShape, why := false, "right-hand side is not (buf[1] & 0x80) | uint8(<track>.PayloadType())"
		if be, isB := c23Strip(x.info, w.rhs).(*ast.BinaryExpr); isB && be.Op == token.OR {
			for _, pair := range [][2]ast.Expr{{be.X, be.Y}, {be.Y, be.X}} {
				m, isM := c23Strip(x.info, pair[0]).(*ast.BinaryExpr)
				if !isM || m.Op != token.AND {
					continue
				}
				var mask int64 = -1
				var src ast.Expr
				if k, ok := constOf(m.Y); ok {
					mask, src = k, m.X
				} else if k, ok := constOf(m.X); ok {
					mask, src = k, m.Y
				}
				idx, isIdx := constIdx(src)
				tv := c26MethodOn(x.info, pair[1], trackRemote, "PayloadType")
				switch {
				case !isIdx || idx != 1:
					why = "the kept bits are not taken from buf[1]"
				case mask != 0x80:
					why = sprintf("the mask kept from buf[1] is %#x, the marker bit is 0x80", mask)
				case tv == nil:
					why = "the payload type does not come from TrackRemote.PayloadType()"
				default:
					okShape, trackVar = true, tv
				}
			}
		}
		r.Check(okShape, R, "rtx-unwrap|payload-type|from-track+marker-kept", c.P.Pos(w.pos), "(buf[1]&0x80) | track.PayloadType()", why)
	}
	// ---- SSRC (bytes 8..11, big endian)
	{
		key := "rtx-unwrap|ssrc|from-track-at-8..11-big-endian"
		var found *put
		for i := range puts {
			if puts[i].lo == 8 {
				found = &puts[i]
			}
		}
		if found == nil {
			r.Fail(R, key, gpos, "no binary.*.PutUint32(buf[8:12], ...) after the guard: the SSRC is not rewritten")
		} else {
			why := ""
			fnc := core.Callee(x.info, found.call)
			se, _ := ast.Unparen(found.call.Fun).(*ast.SelectorExpr)
			order := ""
			if se != nil {
				if v, ok := x.info.Uses[c26LastIdent(se.X)].(*types.Var); ok {
					order = v.Name()
				}
			}
			tv := c26MethodOn(x.info, found.call.Args[1], trackRemote, "SSRC")
			switch {
			case fnc.Name() != "PutUint32" || found.hi != 12:
				why = sprintf("the SSRC field is bytes 8..11 written with PutUint32; found %s(buf[%d:%d])", fnc.Name(), found.lo, found.hi)
			case order != "BigEndian":
				why = "RTP header fields are big-endian; found binary." + order
			case tv == nil:
				why = "the SSRC does not come from TrackRemote.SSRC()"
			case trackVar != nil && tv != trackVar:
				why = "SSRC and payload type are taken from different tracks"
			}
			if trackVar == nil {
				trackVar = tv
			}
			r.Check(why == "", R, key, c.P.Pos(found.call.Pos()), "binary.BigEndian.PutUint32(buf[8:12], track.SSRC())", why)
		}
	}
	// ---- sequence number: buf[2+j] = buf[hdr+j], j < K (RFC 4588: OSN = first two payload bytes, network order)
	for j := int64(0); j < 2; j++ {
		key := sprintf("rtx-unwrap|sequence-number|byte%d<-payload[%d]", 2+j, j)
		w, ok := byteW[2+j]
		if !ok {
			r.Fail(R, key, gpos, sprintf("byte %d of the header (sequence number) is not rewritten after the guard", 2+j))
			continue
		}
		okSrc := false
		if ix, isIx := c23Strip(x.info, w.rhs).(*ast.IndexExpr); isIx && core.VarOf(x.info, ix.X) == x.buf {
			if l, ok := x.lin(ix.Index); ok && len(l.co) == 1 && l.co[x.hdr] == 1 && l.k == j {
				okSrc = true
			}
		}
		r.Check(okSrc, R, key, c.P.Pos(w.pos), sprintf("buf[%d] = buf[hdr+%d]", 2+j, j), sprintf("buf[%d] must be the OSN byte buf[hdr+%d]; found %s", 2+j, j, exprStr(w.rhs)))
	}
	// the OSN bytes must be read before the payload move overwrites them
	{
		var moves []int
		for id, ws := range c26BufWrites(x) {
			for _, w := range ws {
				if strings.HasPrefix(w, "copy-into:") {
					moves = append(moves, id)
				}
			}
		}
		ok := len(moves) > 0
		for _, mv := range moves {
			var succ []int
			for _, e := range x.g.Nodes[mv].Succs {
				succ = append(succ, e.To)
			}
			after := x.g.Reach(succ, func(n int) bool { return n == x.read }, nil)
			for j := int64(0); j < 2; j++ {
				if w, has := byteW[2+j]; has && after[w.node] {
					ok = false
				}
			}
		}
		r.Check(ok, R, "rtx-unwrap|sequence-number|read-before-payload-move", gpos, "OSN bytes are copied into the header before the payload is moved over them", "the payload move can run before the OSN bytes were copied into the sequence-number field")
	}
	// ---- track / reader / channel belong to the same trackStreams
	{
		key := "rtx-unwrap|track-of-this-repair-stream"
		og := c.P.GraphOf(x.fn)
		goNode := -1
		for _, n := range og.Nodes {
			if gs, ok := n.Ast.(*ast.GoStmt); ok && ast.Unparen(gs.Call.Fun) == ast.Expr(x.lit) {
				goNode = n.ID
			}
		}
		baseOf := func(v *types.Var, field string) *types.Var {
			if v == nil || goNode < 0 {
				return nil
			}
			d, ok := c23SingleDef(og, goNode, v)
			if !ok || d.RHS == nil {
				return nil
			}
			se, ok := ast.Unparen(d.RHS).(*ast.SelectorExpr)
			if !ok {
				return nil
			}
			fv := core.FieldOf(x.info, se)
			if fv == nil || fv.Name() != field {
				return nil
			}
			return core.VarOf(x.info, se.X)
		}
		tb := baseOf(trackVar, "track")
		rb := baseOf(x.reader, "repairInterceptor")
		why := ""
		switch {
		case goNode < 0:
			why = "go statement not found in the enclosing CFG"
		case trackVar == nil:
			why = "no track variable identified"
		case tb == nil:
			why = "the track is not <streams>.track of a single trackStreams value"
		case rb == nil:
			why = "the reader is not <streams>.repairInterceptor"
		case tb != rb:
			why = "the rewritten SSRC/payload type come from a different trackStreams than the repair interceptor that is read"
		}
		// the channel sent on
		if why == "" {
			for id := range x.post {
				if ss, ok := x.g.Nodes[id].Ast.(*ast.SendStmt); ok {
					if cb := baseOf(core.VarOf(x.info, ss.Chan), "repairStreamChannel"); cb != tb {
						why = "the unwrapped packet is sent on a channel that is not repairStreamChannel of the same trackStreams"
					}
				}
			}
		}
		r.Check(why == "", R, key, c.P.Pos(x.lit.Pos()), "track, repair interceptor and repair channel are members of the same trackStreams", why)
	}
	// ---- attributes saved before the bytes are overwritten
	type saved struct {
		name   string
		lo, hi int64 // byte range read
		reader string
	}
	want := []saved{{"AttributeRtxPayloadType", 1, 2, "mask7f"}, {"AttributeRtxSequenceNumber", 2, 4, "Uint16"}, {"AttributeRtxSsrc", 8, 12, "Uint32"}}
	for _, sv := range want {
		key := "rtx-unwrap|saved-before-overwrite|" + sv.name
		k := c.mustConst(R, "", sv.name)
		if k == nil {
			continue
		}
		setNode := -1
		var valExpr ast.Expr
		for _, n := range x.g.Nodes {
			if n.Ast == nil {
				continue
			}
			core.InspectShallow(n.Ast, func(y ast.Node) bool {
				call, ok := y.(*ast.CallExpr)
				if !ok || len(call.Args) != 2 {
					return true
				}
				fnc := core.Callee(x.info, call)
				if fnc == nil || fnc.Name() != "Set" || fnc.Pkg() == nil || fnc.Pkg().Path() != "github.com/pion/interceptor" {
					return true
				}
				if id, ok := ast.Unparen(call.Args[0]).(*ast.Ident); ok && x.info.Uses[id] == types.Object(k) {
					setNode, valExpr = n.ID, call.Args[1]
				}
				return true
			})
		}
		if setNode < 0 {
			r.Fail(R, key, gpos, "the original value is never saved under "+sv.name)
			continue
		}
		// what is read
		okRead, why := false, ""
		switch sv.reader {
		case "mask7f":
			if be, ok := c23Strip(x.info, valExpr).(*ast.BinaryExpr); ok && be.Op == token.AND {
				var mask int64 = -1
				var src ast.Expr
				if m, ok := constOf(be.Y); ok {
					mask, src = m, be.X
				} else if m, ok := constOf(be.X); ok {
					mask, src = m, be.Y
				}
				if idx, ok := constIdx(src); ok && idx == 1 && mask == 0x7F {
					okRead = true
				}
			}
			why = "saved value is not buf[1] & 0x7F"
		default:
			if call, ok := c23Strip(x.info, valExpr).(*ast.CallExpr); ok && len(call.Args) == 1 {
				fnc := core.Callee(x.info, call)
				if fnc != nil && fnc.Pkg() != nil && fnc.Pkg().Path() == "encoding/binary" && fnc.Name() == sv.reader {
					if sl, ok := ast.Unparen(call.Args[0]).(*ast.SliceExpr); ok && core.VarOf(x.info, sl.X) == x.buf && sl.Low != nil && sl.High != nil {
						lo, ok1 := constOf(sl.Low)
						hi, ok2 := constOf(sl.High)
						order := ""
						if se, ok := ast.Unparen(call.Fun).(*ast.SelectorExpr); ok {
							if v, ok := x.info.Uses[c26LastIdent(se.X)].(*types.Var); ok {
								order = v.Name()
							}
						}
						if ok1 && ok2 && lo == sv.lo && hi == sv.hi && order == "BigEndian" {
							okRead = true
						}
					}
				}
			}
			why = sprintf("saved value is not binary.BigEndian.%s(buf[%d:%d])", sv.reader, sv.lo, sv.hi)
		}
		// ordering: no overwrite of these bytes can precede the save within an iteration
		okOrder := true
		var overwriters []int
		for b := sv.lo; b < sv.hi; b++ {
			if w, ok := byteW[b]; ok {
				overwriters = append(overwriters, w.node)
			}
		}
		for _, p := range puts {
			if p.lo < sv.hi && sv.lo < p.hi {
				overwriters = append(overwriters, p.node)
			}
		}
		for _, w := range overwriters {
			var succ []int
			for _, e := range x.g.Nodes[w].Succs {
				succ = append(succ, e.To)
			}
			after := x.g.Reach(succ, func(n int) bool { return n == x.read }, nil)
			if after[setNode] || w == setNode {
				okOrder = false
			}
			// and the save happens on every path to the overwrite
			noSave := x.g.Reach([]int{x.read}, func(n int) bool { return n == setNode }, nil)
			if noSave[w] {
				okOrder = false
			}
		}
		switch {
		case !okRead:
			r.Fail(R, key, c.P.Pos(x.g.PosOf(setNode)), why)
		case len(overwriters) == 0:
			r.Undecided(R, key, c.P.Pos(x.g.PosOf(setNode)), "no overwrite of the saved bytes found")
		default:
			r.Check(okOrder, R, key, c.P.Pos(x.g.PosOf(setNode)), "saved on every path before the bytes are overwritten", "the header bytes can be overwritten before (or without) their original value being saved: the attribute would carry the rewritten value")
		}
	}
}

func c26LastIdent(e ast.Expr) *ast.Ident {
	switch x := ast.Unparen(e).(type) {
	case *ast.Ident:
		return x
	case *ast.SelectorExpr:
		return x.Sel
	}
	return nil
}

// c26R4: TrackRemote.read copies the RTX packet out before releasing it.
func c26R4(c *Ctx) {
	r := c.R
	const R = "C26.R4"
	fi := c.mustFunc(R, "", "TrackRemote.read")
	readRTX := c.mustFunc(R, "", "RTPReceiver.readRTX")
	release := c.mustFunc(R, "", "rtxPacketWithAttributes.release")
	if fi == nil || readRTX == nil || release == nil {
		return
	}
	info := fi.Pkg.TypesInfo
	g := c.P.GraphOf(fi)
	pos := c.P.Pos(fi.Decl.Pos())
	var pkt *types.Var
	for _, n := range g.Nodes {
		if n.Ast == nil {
			continue
		}
		core.InspectShallow(n.Ast, func(y ast.Node) bool {
			if as, ok := y.(*ast.AssignStmt); ok && len(as.Rhs) == 1 && len(as.Lhs) == 1 {
				if call, ok := ast.Unparen(as.Rhs[0]).(*ast.CallExpr); ok && core.Callee(info, call) == readRTX.Obj {
					pkt = core.VarOf(info, as.Lhs[0])
				}
			}
			return true
		})
	}
	if pkt == nil {
		r.Undecided(R, "TrackRemote.read|rtx-packet", pos, "the result of readRTX is not bound to a local variable")
		return
	}
	rel := g.FindNodes(func(n ast.Node) bool {
		call, ok := n.(*ast.CallExpr)
		if !ok || core.Callee(info, call) != release.Obj {
			return false
		}
		se, ok := ast.Unparen(call.Fun).(*ast.SelectorExpr)
		return ok && core.VarOf(info, se.X) == pkt
	})
	usesPkt := func(n ast.Node, field string) bool {
		found := false
		core.InspectShallow(n, func(y ast.Node) bool {
			if se, ok := y.(*ast.SelectorExpr); ok && core.VarOf(info, se.X) == pkt {
				if fv := core.FieldOf(info, se); fv != nil && (field == "" || fv.Name() == field) {
					found = true
				}
			}
			return true
		})
		return found
	}
	copies := g.FindNodes(func(n ast.Node) bool {
		call, ok := n.(*ast.CallExpr)
		if !ok || len(call.Args) != 2 {
			return false
		}
		id, ok := ast.Unparen(call.Fun).(*ast.Ident)
		if !ok {
			return false
		}
		b, ok := info.Uses[id].(*types.Builtin)
		return ok && b.Name() == "copy" && usesPkt(call.Args[1], "pkt")
	})
	key := "TrackRemote.read|copy-out-before-release"
	switch {
	case len(rel) == 0:
		r.Info(R, key, pos, "the RTX buffer is never released here (left to the garbage collector)")
	case len(copies) == 0:
		r.Fail(R, key, c.P.Pos(g.PosOf(rel[0])), "the RTX packet is released without having been copied into the caller's buffer")
	default:
		bad := ""
		for _, rn := range rel {
			if !g.Dominated(rn, core.NodeSet(copies)) {
				bad = "release() can run before the packet was copied into the caller's buffer"
			}
			var succ []int
			for _, e := range g.Nodes[rn].Succs {
				succ = append(succ, e.To)
			}
			for n := range g.Reach(succ, nil, nil) {
				if g.Nodes[n].Ast != nil && usesPkt(g.Nodes[n].Ast, "pkt") {
					bad = "the packet bytes are read after release() handed the buffer back to the pool"
				}
			}
		}
		r.Check(bad == "", R, key, c.P.Pos(g.PosOf(rel[0])), "copied out, then released, never touched again", bad)
	}
	// the attributes returned on the RTX path are the RTX packet's attributes
	{
		key := "TrackRemote.read|returns-rtx-attributes"
		sig := fi.Obj.Type().(*types.Signature)
		okAttr := false
		var attrRes *types.Var
		if sig.Results().Len() == 3 {
			attrRes = sig.Results().At(1)
		}
		for _, n := range g.Nodes {
			if n.Ast == nil {
				continue
			}
			core.InspectShallow(n.Ast, func(y ast.Node) bool {
				switch s := y.(type) {
				case *ast.AssignStmt:
					for i, l := range s.Lhs {
						if attrRes != nil && core.VarOf(info, l) == attrRes && len(s.Lhs) == len(s.Rhs) && usesPkt(s.Rhs[i], "attributes") {
							okAttr = true
						}
					}
				case *ast.ReturnStmt:
					if len(s.Results) == 3 && usesPkt(s.Results[1], "attributes") {
						okAttr = true
					}
				}
				return true
			})
		}
		r.Check(okAttr, R, key, pos, "attributes of the RTX packet are returned", "the RTX path of TrackRemote.read does not return the packet's attributes (rtx_* attributes lost)")
	}
}
