package props

import (
	"go/ast"
	"go/constant"
	"go/token"
	"go/types"
	"sort"
	"strings"
	"time"

	"verif/checker/core"
)

func init() {
	register(&Prop{
		ID:        "C35",
		Engine:    "e2cfg+e1eval+e6flow",
		Technique: "forward must-analysis of the keyframe flag on the WriteRTP graphs (the output write is reached only with the flag known true; the flag is assigned only from the keyframe predicate and only while it is false); who-may-write sweeps; exhaustive tabulation of the keyframe predicates over the packet's header bytes (single NAL, aggregation, fragmentation) against the property's keyframe sets; provenance of the written bytes",
		LevelText: "For H264Writer and H265Writer: (1) the only write to the output is reached, on every path, with hasKeyFrame known true, and hasKeyFrame is assigned only the result of isKeyFrame and only while it is false, so the gate opens at the first keyframe packet and never closes; (2) isKeyFrame/isKeyFrameNalu are evaluated for every NAL type and every value of the relevant header bytes of single-NAL, aggregation and fragmentation packets and compared with the property's keyframe sets ({SPS, IDR} / {VPS, SPS, PPS, IDR_W_RADL, IDR_N_LP}); (3) what is written is exactly the depacketizer's output for the packet's payload.",
		LevelNote: "Trusted: RFC 6184 / RFC 7798 payload header layouts as transcribed; core/eval semantics incl. the model of bytes.NewReader + binary.Read. Bytes that must not matter are varied over {0x00, 0xff} only. Does not decide the depacketizers (pion/rtp) or the byte-exact round trip through the readers.",
		DesignRef: "DESIGN.md §5 C35",
		Run:       runC35,
	})
}

type c35Writer struct {
	rel, typ, depack string
}

var c35Writers = []c35Writer{
	{"pkg/media/h264writer", "H264Writer", "H264Packet"},
	{"pkg/media/h265writer", "H265Writer", "H265Depacketizer"},
}

func runC35(c *Ctx) {
	r := c.R
	t0 := time.Now()
	defer func() { r.Extra["rules_wall_s"] = time.Since(t0).Seconds() }()
	r.Rule("C35.R1", "keyframe gate: every write to the output happens in WriteRTP and is reached only with hasKeyFrame known true; hasKeyFrame is assigned only from isKeyFrame (or true), only at a point where it is known false, never taken by address and not preset in a literal", 4)
	r.Rule("C35.R2", "keyframe predicates, evaluated for every NAL type / header byte value: H.265 isKeyFrameNalu = {VPS, SPS, PPS, IDR_W_RADL, IDR_N_LP}; H.265 isKeyFrame on single NAL units (type of byte 0), fragmentation units (FuType = low 6 bits of byte 2) and aggregation packets (any aggregated unit); H.264 isKeyFrame on single NAL units, STAP-A (first aggregated unit) and FU-A start fragments against {SPS, IDR}", 353)
	r.Rule("C35.R4", "once the gate is open every packet reaches the depacketizer: in H264Writer.WriteRTP / H265Writer.WriteRTP a path to a return bypasses cachedPacket.Unmarshal only through a pure drop branch that establishes len(packet.Payload) == 0 or a closed keyframe gate", 2)
	r.Rule("C35.R3", "the bytes written are the first result of the depacketizer's Unmarshal applied to the packet's payload, unmodified", 2)
	r.NotCovered = append(r.NotCovered, "the depacketizers themselves (github.com/pion/rtp/codecs)", "byte-exact round trip through h264reader/h265reader", "packets shorter than the bytes the predicate inspects (listed, not judged)")
	r.Trusted = append(r.Trusted, "RFC 6184 §5.3/§5.7/§5.8 and RFC 7798 §4.4 payload structures as transcribed in props/c35.go", "core/eval model of bytes.NewReader and encoding/binary.Read")
	l := core.NewLayout(c.P)
	for _, w := range c35Writers {
		c35Gate(c, l, w)
	}
	c35H265Tables(c, l)
	c35H264Tables(c, l)
	c35R4(c) // c35b.go
}

// ---------- R1 / R3 ----------

// c35BoolFacts computes, for every node, what is known about boolean field f on entry to the node: 'T', 'F' or 'U'.
func c35BoolFacts(c *Ctx, g *core.Graph, f *types.Var) map[int]byte {
	info := g.Info
	recv := g.Sig().Recv()
	evalWith := func(cond ast.Expr, v bool) core.EVal {
		ev := &core.Evaluator{P: c.P, Fuel: 200}
		ev.Path = func(p string) (core.EVal, bool) {
			if p == "recv."+f.Name() {
				return core.EBool(v), true
			}
			return core.EVal{}, false
		}
		fr := ev.NewFrame(g)
		if recv != nil {
			fr.Locals[recv] = core.EVal{K: core.ERef, Path: "recv"}
		}
		return fr.Eval(cond)
	}
	// mirrors: same-package methods all of whose returns return the field itself (a gate helper):
	// a branch on a call to such a method is a branch on the field's value after the call
	mirrorsCall := func(cond ast.Expr) bool {
		call, ok := ast.Unparen(cond).(*ast.CallExpr)
		if !ok {
			return false
		}
		fn := core.Callee(info, call)
		fi := c.P.DeclOf(fn)
		if fi == nil || fi.Decl.Body == nil || fi.Pkg != g.Owner.Pkg {
			return false
		}
		sel, ok := ast.Unparen(call.Fun).(*ast.SelectorExpr)
		if !ok || recv == nil || core.VarOf(info, sel.X) != recv {
			return false
		}
		rets, all := 0, true
		ast.Inspect(fi.Decl.Body, func(n ast.Node) bool {
			if _, isLit := n.(*ast.FuncLit); isLit {
				return false
			}
			if rs, ok := n.(*ast.ReturnStmt); ok {
				rets++
				if len(rs.Results) != 1 || core.FieldOf(fi.Pkg.TypesInfo, rs.Results[0]) != f {
					all = false
				}
			}
			return true
		})
		return rets > 0 && all
	}
	mirrors := func(cond ast.Expr) (is, negated bool) {
		cond = ast.Unparen(cond)
		for {
			u, ok := cond.(*ast.UnaryExpr)
			if !ok || u.Op != token.NOT {
				break
			}
			negated = !negated
			cond = ast.Unparen(u.X)
		}
		return mirrorsCall(cond), negated
	}
	// edge refinement
	refine := func(e core.Edge, in byte) byte {
		if e.Cond == nil || e.Tag != nil || e.Branch == 0 {
			return in
		}
		if is, neg := mirrors(e.Cond); is {
			if (e.Branch == 1) != neg {
				return 'T'
			}
			return 'F'
		}
		t, fl := evalWith(e.Cond, true), evalWith(e.Cond, false)
		if !(t.IsTrue() || t.IsFalse()) || !(fl.IsTrue() || fl.IsFalse()) || t.IsTrue() == fl.IsTrue() {
			return in
		}
		// cond is a function of the field alone
		want := e.Branch == 1
		if t.IsTrue() == want {
			return 'T'
		}
		return 'F'
	}
	transfer := func(n *core.Node, in byte) byte {
		if n.Ast == nil {
			return in
		}
		out := in
		core.InspectShallow(n.Ast, func(x ast.Node) bool {
			switch s := x.(type) {
			case *ast.AssignStmt:
				for i, lh := range s.Lhs {
					if core.FieldOf(info, lh) != f {
						continue
					}
					out = 'U'
					if len(s.Rhs) == len(s.Lhs) {
						if tv := info.Types[s.Rhs[i]]; tv.Value != nil && tv.Value.Kind() == constant.Bool {
							out = map[bool]byte{true: 'T', false: 'F'}[constant.BoolVal(tv.Value)]
						}
					}
				}
			case *ast.UnaryExpr:
				if s.Op == token.AND && core.FieldOf(info, s.X) == f {
					out = 'U'
				}
			case *ast.CallExpr:
				// a call that receives the receiver may modify the field: only same-package callees that assign it
				if fn := core.Callee(info, s); fn != nil {
					if fi := c.P.DeclOf(fn); fi != nil && fi.Decl.Body != nil {
						ast.Inspect(fi.Decl.Body, func(y ast.Node) bool {
							if as, ok := y.(*ast.AssignStmt); ok {
								for _, lh := range as.Lhs {
									if core.FieldOf(fi.Pkg.TypesInfo, lh) == f {
										out = 'U'
									}
								}
							}
							return true
						})
					}
				}
			}
			return true
		})
		return out
	}
	in := map[int]byte{g.Entry: 'U'}
	work := []int{g.Entry}
	for len(work) > 0 {
		n := work[len(work)-1]
		work = work[:len(work)-1]
		out := transfer(g.Nodes[n], in[n])
		for _, e := range g.Nodes[n].Succs {
			v := refine(e, out)
			old, seen := in[e.To]
			nv := v
			if seen && old != v {
				nv = 'U'
			}
			if !seen || nv != old {
				in[e.To] = nv
				work = append(work, e.To)
			}
		}
	}
	return in
}

func c35Gate(c *Ctx, l *core.Layout, w c35Writer) {
	r := c.R
	wr := c.mustFunc("C35.R1", w.rel, w.typ+".WriteRTP")
	isKF := c.mustFunc("C35.R1", w.rel, "isKeyFrame")
	outF := c.mustField("C35.R1", w.rel, w.typ, "writer")
	flagF := c.mustField("C35.R1", w.rel, w.typ, "hasKeyFrame")
	cacheF := c.mustField("C35.R3", w.rel, w.typ, "cachedPacket")
	if wr == nil || isKF == nil || outF == nil || flagF == nil || cacheF == nil {
		return
	}
	pkg := c.P.Pkg(w.rel)
	info := pkg.TypesInfo
	g := c.P.GraphOf(wr)
	facts := c35BoolFacts(c, g, flagF)
	r.Cells += len(facts)

	// (a) output writes
	nWrites := 0
	for _, fi := range c.P.AllFuncs() {
		if fi.Pkg != pkg || fi.Decl.Body == nil {
			continue
		}
		ast.Inspect(fi.Decl.Body, func(n ast.Node) bool {
			call, ok := n.(*ast.CallExpr)
			if !ok {
				return true
			}
			sel, ok := ast.Unparen(call.Fun).(*ast.SelectorExpr)
			if !ok || core.FieldOf(info, sel.X) != outF {
				return true
			}
			if sel.Sel.Name == "Close" {
				return true
			}
			nWrites++
			key := w.typ + "|output-" + sel.Sel.Name + "|in:" + fi.Name()
			pos := c.P.Pos(call.Pos())
			if fi != wr {
				r.Fail("C35.R1", key, pos, "the output is written outside WriteRTP, bypassing the keyframe gate")
				return true
			}
			n2 := c32NodeOf(g, call)
			st := byte('U')
			if n2 >= 0 {
				st = facts[n2]
			}
			r.Check(st == 'T', "C35.R1", key, pos, "reached only with hasKeyFrame known true", "the write to the output is reachable on a path where hasKeyFrame is not known to be true: packets before the first keyframe can be written")
			if st == 'T' {
				c35Written(c, l, w, wr, g, call, cacheF)
			}
			return true
		})
		// writer field handed out / aliased
		ast.Inspect(fi.Decl.Body, func(n ast.Node) bool {
			if se, ok := n.(*ast.SelectorExpr); ok && core.FieldOf(info, se) == outF {
				p := l.Parent(fi, se)
				switch pp := p.(type) {
				case *ast.SelectorExpr: // method call on it
				case *ast.BinaryExpr: // nil comparison
				case *ast.TypeAssertExpr:
				case *ast.KeyValueExpr:
				case *ast.AssignStmt:
					for _, rh := range pp.Rhs {
						if ast.Unparen(rh) == ast.Expr(se) {
							r.Fail("C35.R1", w.typ+"|output-aliased|in:"+fi.Name(), c.P.Pos(se.Pos()), "the output writer is copied into another variable; writes through the alias bypass the gate")
						}
					}
				case *ast.CallExpr:
					for _, a := range pp.Args {
						if ast.Unparen(a) == ast.Expr(se) {
							r.Fail("C35.R1", w.typ+"|output-passed|in:"+fi.Name(), c.P.Pos(se.Pos()), "the output writer is passed to another function; writes there bypass the gate")
						}
					}
				}
			}
			return true
		})
	}
	if nWrites == 0 {
		r.Fail("C35.R1", w.typ+"|output-write|none", c.P.Pos(wr.Decl.Pos()), "no write to the output found")
	}

	// (b) flag writes
	for _, fi := range c.P.AllFuncs() {
		if fi.Pkg != pkg || fi.Decl.Body == nil {
			continue
		}
		ast.Inspect(fi.Decl.Body, func(n ast.Node) bool {
			switch s := n.(type) {
			case *ast.AssignStmt:
				for i, lh := range s.Lhs {
					if core.FieldOf(info, lh) != flagF {
						continue
					}
					key := w.typ + "|hasKeyFrame-write|in:" + fi.Name()
					pos := c.P.Pos(s.Pos())
					var rhs ast.Expr
					if len(s.Rhs) == len(s.Lhs) {
						rhs = s.Rhs[i]
					}
					switch {
					case rhs == nil:
						r.Undecided("C35.R1", key, pos, "hasKeyFrame assigned from a multi-value expression")
					case info.Types[rhs].Value != nil:
						v := constant.BoolVal(info.Types[rhs].Value)
						r.Check(v, "C35.R1", key, pos, "set to true", "hasKeyFrame is reset to false: the writer stops and waits for another keyframe, dropping units after the first keyframe")
					default:
						call, isCall := ast.Unparen(rhs).(*ast.CallExpr)
						if !isCall || !core.IsCallTo(info, call, isKF.Obj) {
							r.Fail("C35.R1", key, pos, "hasKeyFrame is assigned from "+exprStr(rhs)+", not from the keyframe predicate")
							continue
						}
						// argument: the packet's payload (directly, or through a helper's parameter that every
						// call site in WriteRTP binds to the packet's payload)
						argOK := len(call.Args) == 1 && c35IsPayloadOfParam(info, fi, call.Args[0])
						if !argOK && len(call.Args) == 1 && fi != wr {
							if pv := core.VarOf(info, call.Args[0]); pv != nil {
								sig := fi.Obj.Type().(*types.Signature)
								for k := 0; k < sig.Params().Len(); k++ {
									if sig.Params().At(k) != pv {
										continue
									}
									sites := l.CallSites(fi.Obj)
									argOK = len(sites) > 0
									for _, cs := range sites {
										if cs.Caller != wr || k >= len(cs.Call.Args) || !c35IsPayloadOfParam(info, wr, cs.Call.Args[k]) {
											argOK = false
										}
									}
								}
							}
						}
						// what is known about the flag where it is assigned (facts of the enclosing function)
						st := byte('U')
						fg, ffacts := g, facts
						if fi != wr {
							fg = c.P.GraphOf(fi)
							ffacts = c35BoolFacts(c, fg, flagF)
						}
						if n2 := c32NodeOf(fg, s); n2 >= 0 {
							st = ffacts[n2]
						}
						switch {
						case !argOK:
							r.Fail("C35.R1", key, pos, "the keyframe predicate is not applied to the packet's payload")
						case st != 'F':
							r.Fail("C35.R1", key, pos, "hasKeyFrame is re-evaluated at a point where it may already be true: a non-keyframe packet after the first keyframe would close the gate again")
						default:
							r.OK("C35.R1", key, pos, "assigned isKeyFrame(packet.Payload) only while false")
						}
					}
				}
			case *ast.KeyValueExpr:
				if id, ok := s.Key.(*ast.Ident); ok && info.Uses[id] == types.Object(flagF) {
					tv := info.Types[s.Value]
					r.Check(tv.Value != nil && !constant.BoolVal(tv.Value), "C35.R1", w.typ+"|hasKeyFrame-init|in:"+fi.Name(), c.P.Pos(s.Pos()), "initialised false", "hasKeyFrame is preset in a literal: the gate starts open")
				}
			case *ast.UnaryExpr:
				if s.Op == token.AND && core.FieldOf(info, s.X) == flagF {
					r.Fail("C35.R1", w.typ+"|hasKeyFrame-addr|in:"+fi.Name(), c.P.Pos(s.Pos()), "address of hasKeyFrame taken")
				}
			}
			return true
		})
	}
}

func c35IsPayloadOfParam(info *types.Info, fi *core.FuncInfo, e ast.Expr) bool {
	se, ok := ast.Unparen(e).(*ast.SelectorExpr)
	if !ok || se.Sel.Name != "Payload" {
		return false
	}
	v := core.VarOf(info, se.X)
	sig := fi.Obj.Type().(*types.Signature)
	return v != nil && sig.Params().Len() > 0 && v == sig.Params().At(0)
}

// c35Written is R3: the argument of the output write is result 0 of cachedPacket.Unmarshal(packet.Payload), unmodified.
func c35Written(c *Ctx, l *core.Layout, w c35Writer, wr *core.FuncInfo, g *core.Graph, call *ast.CallExpr, cacheF *types.Var) {
	r := c.R
	info := g.Info
	key := w.typ + "|written-bytes-are-depacketizer-output"
	pos := c.P.Pos(call.Pos())
	if len(call.Args) != 1 {
		r.Undecided("C35.R3", key, pos, "unexpected Write arity")
		return
	}
	v := core.VarOf(info, call.Args[0])
	if v == nil {
		r.Fail("C35.R3", key, pos, "the written value is "+exprStr(call.Args[0])+", not the variable holding the depacketizer's output")
		return
	}
	defs := l.DefExprs(wr, v)
	bad := ""
	if len(defs) != 1 {
		bad = sprintf("the written variable has %d definitions (expected exactly the Unmarshal result)", len(defs))
	} else {
		dc, ok := ast.Unparen(defs[0]).(*ast.CallExpr)
		switch {
		case !ok:
			bad = "the written variable is defined by " + exprStr(defs[0])
		default:
			sel, _ := ast.Unparen(dc.Fun).(*ast.SelectorExpr)
			fn := core.Callee(info, dc)
			recvT := ""
			if fn != nil {
				if rv := fn.Type().(*types.Signature).Recv(); rv != nil {
					recvT = types.TypeString(rv.Type(), func(p *types.Package) string { return p.Path() })
				}
			}
			switch {
			case sel == nil || core.FieldOf(info, sel.X) != cacheF || fn == nil || fn.Name() != "Unmarshal":
				bad = "the written variable comes from " + exprStr(dc.Fun) + ", not from cachedPacket.Unmarshal"
			case !strings.HasSuffix(recvT, "github.com/pion/rtp/codecs."+w.depack):
				bad = "the depacketizer is " + recvT + ", expected codecs." + w.depack
			case len(dc.Args) != 1 || !c35IsPayloadOfParam(info, wr, dc.Args[0]):
				bad = "the depacketizer is not applied to the packet's payload"
			}
		}
	}
	// no element-wise modification of the variable
	if bad == "" {
		for _, nd := range g.Nodes {
			if as, ok := nd.Ast.(*ast.AssignStmt); ok {
				for _, lh := range as.Lhs {
					if ix, ok := ast.Unparen(lh).(*ast.IndexExpr); ok && core.VarOf(info, ix.X) == v {
						bad = "the depacketizer's output is modified before it is written"
					}
				}
			}
		}
	}
	r.Check(bad == "", "C35.R3", key, pos, "Write(data) with data, err := cachedPacket.Unmarshal(packet.Payload)", bad)
}

// ---------- R2: H.265 ----------

func c35TypeName(c *Ctx, rel string, t int64) string {
	for _, k := range c.P.ConstsOfType(rel, "NalUnitType") {
		if v, _ := constant.Int64Val(k.Val()); v == t {
			return sprintf("%s(%d)", k.Name(), t)
		}
	}
	return sprintf("type(%d)", t)
}

// c35Eval evaluates fn(data) with data bound to the given bytes (nil entry = unknown byte).
func c35Eval(c *Ctx, fn *core.FuncInfo, data []*uint8) core.RunOutcome {
	ev := &core.Evaluator{P: c.P, Fuel: 3000}
	ev.Byte = func(base string, i int64) (uint8, bool) {
		if base != "p0" || i < 0 || i >= int64(len(data)) || data[i] == nil {
			return 0, false
		}
		return *data[i], true
	}
	c.R.Cells++
	return ev.Call(fn, core.EVal{}, []core.EVal{core.EBytes("p0", int64(len(data)))})
}

func c35B(v int) *uint8 { b := uint8(v); return &b }

// c35Judge records one table cell family: all evaluations must be decided and equal want.
type c35Cell struct {
	bad, undec string
	n          int
}

func (cl *c35Cell) add(out core.RunOutcome, want bool, what string) {
	cl.n++
	if out.Kind != "return" || len(out.Results) != 1 || !(out.Results[0].IsTrue() || out.Results[0].IsFalse()) {
		if cl.undec == "" {
			cl.undec = what + ": " + out.Kind + " " + out.Why
			if out.Kind == "return" && len(out.Results) == 1 {
				cl.undec = what + ": " + out.Results[0].String()
			}
		}
		return
	}
	if got := out.Results[0].IsTrue(); got != want && cl.bad == "" {
		cl.bad = sprintf("%s: predicate says %v, the property's keyframe set says %v", what, got, want)
	}
}

func (cl *c35Cell) report(c *Ctx, key, pos, failText string) {
	switch {
	case cl.undec != "":
		c.R.Undecided("C35.R2", key, pos, "not evaluable: "+cl.undec)
	default:
		c.R.Check(cl.bad == "", "C35.R2", key, pos, sprintf("%d evaluations agree with the keyframe set", cl.n), failText+cl.bad)
	}
}

func c35H265Tables(c *Ctx, l *core.Layout) {
	const rel, rrel = "pkg/media/h265writer", "pkg/media/h265reader"
	nalu := c.mustFunc("C35.R2", rel, "isKeyFrameNalu")
	kf := c.mustFunc("C35.R2", rel, "isKeyFrame")
	nalT := c.P.Named(rrel, "NalUnitType")
	if nalu == nil || kf == nil || nalT == nil {
		c.R.Fail("C35.R2", "anchor:h265", "-", "isKeyFrameNalu / isKeyFrame / h265reader.NalUnitType no longer resolve")
		return
	}
	key265 := map[int64]bool{}
	for _, n := range []string{"NalUnitTypeVps", "NalUnitTypeSps", "NalUnitTypePps", "NalUnitTypeIdrWRadl", "NalUnitTypeIdrNLp"} {
		if k := c.mustConst("C35.R2", rrel, n); k != nil {
			v, _ := constant.Int64Val(k.Val())
			key265[v] = true
		}
	}
	if len(key265) != 5 {
		return
	}
	ap, fu := int64(48), int64(49)
	for name, p := range map[string]*int64{"typeAP": &ap, "typeFU": &fu} {
		if k := c.mustConst("C35.R2", rel, name); k != nil {
			v, _ := constant.Int64Val(k.Val())
			if v != *p {
				c.R.Fail("C35.R2", "h265|"+name, c.P.Pos(k.Pos()), sprintf("%s is %d, RFC 7798 has %d", name, v, *p))
			}
		}
	}
	pos := c.P.Pos(nalu.Decl.Pos())
	// (a) isKeyFrameNalu over all 256 values of the type
	for t := int64(0); t < 256; t++ {
		ev := &core.Evaluator{P: c.P, Fuel: 300}
		out := ev.Call(nalu, core.EVal{}, []core.EVal{core.EInt(t, nalT)})
		c.R.Cells++
		var cl c35Cell
		cl.add(out, key265[t], c35TypeName(c, rrel, t))
		if t < 64 {
			cl.report(c, "h265|isKeyFrameNalu|"+c35TypeName(c, rrel, t), pos, "")
		} else if cl.bad != "" || cl.undec != "" {
			cl.report(c, sprintf("h265|isKeyFrameNalu|out-of-range(%d)", t), pos, "")
		}
	}
	kpos := c.P.Pos(kf.Decl.Pos())
	// (b) single NAL unit packets: type in byte 0 (bits 6..1), F and layer bit varied, byte 1 unknown
	for t := int64(0); t < 64; t++ {
		if t == ap || t == fu {
			continue
		}
		var cl c35Cell
		for _, f := range []int{0, 0x80} {
			for _, lb := range []int{0, 1} {
				b0 := f | int(t)<<1 | lb
				for _, n := range []int{2, 3, 40} {
					data := make([]*uint8, n)
					data[0] = c35B(b0)
					cl.add(c35Eval(c, kf, data), key265[t], sprintf("single NAL, byte0=%#02x len=%d", b0, n))
				}
			}
		}
		cl.report(c, "h265|isKeyFrame|single-nal|"+c35TypeName(c, rrel, t), kpos, "an H.265 stream whose first packet is this unit: ")
	}
	// (c) fragmentation units: FuType = byte2 & 0x3f, S/E bits varied
	for t := int64(0); t < 64; t++ {
		var cl c35Cell
		for _, se := range []int{0x80, 0x40, 0x00, 0xC0} {
			for _, b0 := range []int{int(fu) << 1, int(fu)<<1 | 0x81} {
				data := make([]*uint8, 20)
				data[0], data[2] = c35B(b0), c35B(se|int(t))
				cl.add(c35Eval(c, kf, data), key265[t], sprintf("FU packet, FU header=%#02x (S/E bits %#02x, FuType %d)", se|int(t), se, t))
			}
		}
		cl.report(c, "h265|isKeyFrame|fragmentation-unit|FuType="+c35TypeName(c, rrel, t), kpos, "RFC 7798 §4.4.3: the FU header is S|E|FuType(6 bits); ")
	}
	// (d) aggregation packets with two units: keyframe iff any aggregated unit is a keyframe unit
	for t1 := int64(0); t1 < 64; t1++ {
		var cl c35Cell
		for t2 := int64(0); t2 < 64; t2++ {
			data := []*uint8{c35B(int(ap) << 1), c35B(1), c35B(0), c35B(2), c35B(int(t1) << 1), c35B(1), c35B(0), c35B(3), c35B(int(t2) << 1), c35B(1), c35B(0xaa)}
			cl.add(c35Eval(c, kf, data), key265[t1] || key265[t2], sprintf("AP with units of type %d and %d", t1, t2))
		}
		cl.report(c, "h265|isKeyFrame|aggregation-packet|first-unit="+c35TypeName(c, rrel, t1), kpos, "")
	}
	// (e) short / truncated packets: listed, and must not panic
	for _, tc := range []struct {
		name string
		data []*uint8
	}{
		{"empty", nil}, {"one-byte", []*uint8{c35B(0x40)}}, {"fu-without-header", []*uint8{c35B(int(fu) << 1), c35B(1)}},
		{"ap-truncated-size", []*uint8{c35B(int(ap) << 1), c35B(1), c35B(0)}}, {"ap-size-beyond-end", []*uint8{c35B(int(ap) << 1), c35B(1), c35B(0), c35B(9), c35B(0x40)}},
	} {
		out := c35Eval(c, kf, tc.data)
		key := "h265|isKeyFrame|malformed|" + tc.name
		switch {
		case out.Kind == "panic":
			c.R.Fail("C35.R2", key, kpos, "the keyframe predicate indexes past the end of a truncated packet: "+out.Why)
		case out.Kind == "return" && len(out.Results) == 1 && out.Results[0].IsFalse():
			c.R.OK("C35.R2", key, kpos, "returns false")
		default:
			c.R.Undecided("C35.R2", key, kpos, out.Kind+" "+out.Why)
		}
	}
}

// ---------- R2: H.264 ----------

func c35H264Tables(c *Ctx, l *core.Layout) {
	const rel, rrel = "pkg/media/h264writer", "pkg/media/h264reader"
	kf := c.mustFunc("C35.R2", rel, "isKeyFrame")
	if kf == nil {
		return
	}
	key264 := map[int64]bool{}
	for _, n := range []string{"NalUnitTypeSPS", "NalUnitTypeCodedSliceIdr"} {
		if k := c.mustConst("C35.R2", rrel, n); k != nil {
			v, _ := constant.Int64Val(k.Val())
			key264[v] = true
		}
	}
	if len(key264) != 2 {
		return
	}
	const stapA, fuA = 24, 28
	pos := c.P.Pos(kf.Decl.Pos())
	fill := []int{0x00, 0xff}
	if c.Thorough {
		fill = []int{0x00, 0xff, 0x55, 0xaa, 0x1f, 0xe0, 0x05, 0x07, 0x18, 0x80}
	}
	// single NAL units
	for t := int64(0); t < 32; t++ {
		if t == stapA || t == fuA {
			continue
		}
		var cl c35Cell
		for _, hi := range []int{0x00, 0x60, 0x80, 0xE0} {
			for _, f := range fill {
				for _, b3 := range []int{0x00, 0x05, 0x07, 0xff} {
					data := []*uint8{c35B(hi | int(t)), c35B(f), c35B(f), c35B(b3), c35B(f)}
					cl.add(c35Eval(c, kf, data), key264[t], sprintf("single NAL, byte0=%#02x", hi|int(t)))
				}
			}
		}
		cl.report(c, "h264|isKeyFrame|single-nal|"+c35TypeName(c, rrel, t), pos, "an H.264 stream whose first packet is this unit is discarded until the predicate fires: ")
	}
	// STAP-A: first aggregated unit's header is byte 3
	for t := int64(0); t < 32; t++ {
		var cl c35Cell
		for _, hi := range []int{0x00, 0x60, 0x80} {
			for _, hi3 := range []int{0x00, 0x60, 0xE0} {
				for _, f := range fill {
					data := []*uint8{c35B(hi | stapA), c35B(f), c35B(f), c35B(hi3 | int(t)), c35B(f)}
					cl.add(c35Eval(c, kf, data), key264[t], sprintf("STAP-A, first unit header=%#02x", hi3|int(t)))
				}
			}
		}
		cl.report(c, "h264|isKeyFrame|stap-a-first-unit|"+c35TypeName(c, rrel, t), pos, "")
	}
	// FU-A: byte 1 is the FU header S|E|R|type; a start fragment of a keyframe unit opens the gate
	for t := int64(0); t < 32; t++ {
		var cl c35Cell
		for _, s := range []int{0x80, 0x00, 0x40} {
			for _, f := range fill {
				data := []*uint8{c35B(0x60 | fuA), c35B(s | int(t)), c35B(f), c35B(f), c35B(f)}
				cl.add(c35Eval(c, kf, data), s == 0x80 && key264[t], sprintf("FU-A, FU header=%#02x (start=%v)", s|int(t), s == 0x80))
			}
		}
		cl.report(c, "h264|isKeyFrame|fu-a|"+c35TypeName(c, rrel, t), pos, "")
	}
	// short packets: the predicate reads a 32-bit word; fewer than 4 bytes can never be a keyframe (listed)
	var infos []string
	for n := 0; n < 4; n++ {
		data := make([]*uint8, n)
		for i := range data {
			data[i] = c35B(0x67)
		}
		out := c35Eval(c, kf, data)
		if out.Kind == "panic" {
			c.R.Fail("C35.R2", sprintf("h264|isKeyFrame|short|len=%d", n), pos, "panics on a short packet: "+out.Why)
			continue
		}
		infos = append(infos, sprintf("len %d -> %v", n, out.Results))
	}
	sort.Strings(infos)
	c.R.Info("C35.R2", "h264|isKeyFrame|short-packets", pos, "packets shorter than 4 bytes (even an SPS header) are never keyframes: "+strings.Join(infos, "; "))
}
