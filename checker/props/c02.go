package props

import (
	"go/ast"
	"go/types"
	"strings"

	"verif/checker/absint"
	"verif/checker/core"
)

func init() {
	register(&Prop{
		ID:        "C02",
		Engine:    "e1tab",
		Technique: "finite-domain abstract interpretation: rollback rows of the checkNextSignalingState table, rollback effect rows of setDescription, and the empty-SDP switch of SetLocalDescription",
		LevelText: "Exhaustive table rows for SDPType rollback extracted from the source and compared with JSEP: the four rollback edges must be accepted, rollback from stable rejected with InvalidModificationError, an accepted rollback must clear both pending descriptions and leave the current ones alone, and an empty-SDP rollback must reach the transition.",
		LevelNote: "Trusted: JSEP rollback rows as transcribed; absint soundness on the supported fragment. Effect rows are judged only for rollback edges the table accepts (unreachable arms are listed, not judged). Transceiver/ICE state after rollback is not covered.",
		DesignRef: "DESIGN.md §5 C02",
		Run:       runC02,
	})
}

func runC02(c *Ctx) {
	r := c.R
	r.Exhaustive = true
	r.Rule("C02.R1", "checkNextSignalingState accepts the four JSEP rollback edges (have-local-offer/have-local-pranswer x SetLocal, have-remote-offer/have-remote-pranswer x SetRemote -> stable) and rejects every other rollback tuple, rollback from stable with an InvalidModificationError", 60)
	r.Rule("C02.R2", "for every rollback edge that is accepted, setDescription's success outcome writes nil to both pending descriptions, writes neither current description and sets the state to stable", 0)
	r.Rule("C02.R3", "SetLocalDescription{Type: rollback, SDP: \"\"} reaches the signaling transition (JSEP 5.4: a rollback carries no SDP)", 1)
	r.NotCovered = append(r.NotCovered, "transceiver / ICE / media-engine state after a rollback", "SetRemoteDescription(rollback) with unparsable or empty SDP (the SDP parser is outside the module)")
	r.Trusted = append(r.Trusted, "transcribed JSEP rollback rows", "absint soundness on the supported fragment")

	r.Rule("C02.R4", "a rollback is applied only through the guarded transition: the description fields, signalingState.Set and onSignalingStateChange are written/called only in setDescription (shared who-may-write rule of C01.R3 / C03.R3): no entry point handles rollback on a side path that skips the state test or forgets a pending description", 17)
	if setDesc := c.mustFunc("C02.R4", "", "PeerConnection.setDescription"); setDesc != nil {
		whoMayWriteNegotiationState(c, "C02.R4", setDesc)
	}
	check := c.mustFunc("C02.R1", "", "checkNextSignalingState")
	if check == nil {
		return
	}
	states, ok1 := enumDomain(c, "C02.R1", "", "SignalingState", 77)
	ops, ok2 := enumDomain(c, "C02.R1", "", "stateChangeOp", 0)
	rb := c.mustConst("C02.R1", "", "SDPTypeRollback")
	if !ok1 || !ok2 || rb == nil {
		return
	}
	dims := []absint.Dim{{Key: "$p0", Domain: states}, {Key: "$p1", Domain: states}, {Key: "$p2", Domain: ops}, {Key: "$p3", Domain: []absint.Val{absint.ConstOf(rb)}}}
	t := absint.Tabulate(absint.Config{P: c.P, Dims: dims}, check)
	pos := c.P.Pos(check.Decl.Pos())
	if tableProblems(c, "C02.R1", "checkNextSignalingState|rollback-rows", pos, t) {
		return
	}
	r.Cells += len(t.Rows)
	acceptedRB := map[string]bool{}
	for _, row := range t.Rows {
		cur, next, op := row.Get("$p0"), row.Get("$p1"), row.Get("$p2")
		key := sprintf("checkNextSignalingState|rollback|%s,%s->%s", cur, op, next)
		if len(row.Outcomes) != 1 || len(row.Outcomes[0].Results) != 2 {
			r.Undecided("C02.R1", key, pos, "no single definite outcome: "+outcomesStr(row.Outcomes))
			continue
		}
		res := row.Outcomes[0].Results
		_, ok := res[1].(absint.Nil)
		nn, failed := res[1].(absint.NonNil)
		if !ok && !failed {
			r.Undecided("C02.R1", key, pos, "error result not decided: "+res[1].String())
			continue
		}
		want := inJSEP(cur, op, "SDPTypeRollback", next)
		switch {
		case want && ok:
			acceptedRB[cur+"|"+op] = true
			r.OK("C02.R1", key, pos, "rollback edge accepted")
		case want && !ok:
			r.Fail("C02.R1", key, pos, sprintf("JSEP rollback edge %s --%s(rollback)--> stable is rejected (%s): rollback cannot cancel the exchange", cur, op, nn.Desc))
		case !want && ok:
			r.Fail("C02.R1", key, pos, "rollback accepted where JSEP has no rollback edge")
		default:
			if cur == "SignalingStateStable" && !strings.Contains(nn.Desc, "InvalidModificationError") {
				r.Fail("C02.R1", key, pos, "rollback from stable must be rejected with an InvalidModificationError, got "+nn.Desc)
			} else {
				r.OK("C02.R1", key, pos, "rejected with "+nn.Desc)
			}
		}
	}

	c02R2(c, check, states, ops, rb, acceptedRB)
	c02R3(c, rb)
}

func c02R2(c *Ctx, check *core.FuncInfo, states, ops []absint.Val, rb *types.Const, acceptedRB map[string]bool) {
	r := c.R
	setDesc := c.mustFunc("C02.R2", "", "PeerConnection.setDescription")
	setFn := c.mustFunc("C02.R2", "", "SignalingState.Set")
	newSDPType := c.mustFunc("C02.R2", "", "NewSDPType")
	sdpString := c.mustFunc("C02.R2", "", "SDPType.String")
	if setDesc == nil || setFn == nil || newSDPType == nil || sdpString == nil {
		return
	}
	pos := c.P.Pos(setDesc.Decl.Pos())
	inline := map[*types.Func]bool{check.Obj: true, newSDPType.Obj: true, sdpString.Obj: true}
	watch := map[string]bool{"$recv.pendingLocalDescription": true, "$recv.pendingRemoteDescription": true, "$recv.currentLocalDescription": true, "$recv.currentRemoteDescription": true}
	dims := []absint.Dim{
		{Key: "$p1", Domain: ops[:len(ops)-1]},
		{Key: "$p0.Type", Domain: []absint.Val{absint.ConstOf(rb)}},
		{Key: "$recv.SignalingState()", Domain: states[:len(states)-1]},
		{Key: "$recv.isClosed.Load()", Domain: []absint.Val{absint.BoolVal(false)}},
	}
	t := absint.Tabulate(absint.Config{P: c.P, Dims: dims,
		Inline:     func(fn *types.Func) bool { return inline[fn] },
		WatchStore: func(p string) bool { return watch[p] },
		OnCall: func(in *absint.Interp, st *absint.State, call *ast.CallExpr, fn *types.Func, recv absint.Val, args []absint.Val) (absint.Val, bool) {
			if fn == setFn.Obj && len(args) == 1 {
				if rr, ok := recv.(absint.Ref); ok {
					st.SetPath(rr.Path+".Get()", args[0])
					st.Emit("Set(" + args[0].String() + ")")
					return absint.Tuple{}, true
				}
			}
			return nil, false
		}}, setDesc)
	if tableProblems(c, "C02.R2", "setDescription|rollback-rows", pos, t) {
		return
	}
	r.Cells += len(t.Rows)
	for _, row := range t.Rows {
		op, cur := row.Get("$p1"), row.Get("$recv.SignalingState()")
		key := sprintf("setDescription|rollback-effects|%s from %s", op, cur)
		if !acceptedRB[cur+"|"+op] {
			// arm not reachable with a nil error today: listed, not judged
			succ := false
			for _, o := range row.Outcomes {
				if len(o.Results) == 1 {
					if _, ok := o.Results[0].(absint.Nil); ok {
						succ = true
					}
				}
			}
			if succ {
				r.Fail("C02.R2", key, pos, "setDescription succeeds for a rollback the transition table does not accept")
			} else {
				r.Info("C02.R2", key, pos, "rollback not accepted from this state; effect arm unreachable, not judged")
			}
			continue
		}
		bad := ""
		succ := 0
		for _, o := range row.Outcomes {
			if len(o.Results) != 1 {
				bad = "indefinite outcome"
				continue
			}
			if _, ok := o.Results[0].(absint.Nil); !ok {
				continue
			}
			succ++
			eff := parseDescTrace(o.Trace)
			if eff.fields["pendingLocalDescription"] != "nil" || eff.fields["pendingRemoteDescription"] != "nil" {
				bad = sprintf("accepted rollback must discard both pending descriptions; writes were %v", eff.fields)
			}
			if _, w := eff.fields["currentLocalDescription"]; w {
				bad = "rollback writes currentLocalDescription"
			}
			if _, w := eff.fields["currentRemoteDescription"]; w {
				bad = "rollback writes currentRemoteDescription"
			}
			if len(eff.set) != 1 || eff.set[0] != "SignalingStateStable" {
				bad = sprintf("rollback must set the state to stable; Set=%v", eff.set)
			}
		}
		if succ == 0 && bad == "" {
			bad = "accepted rollback edge can never succeed in setDescription"
		}
		r.Check(bad == "", "C02.R2", key, pos, "clears both pending descriptions, leaves current ones, state stable", bad)
	}
}

func c02R3(c *Ctx, rb *types.Const) {
	r := c.R
	fi := c.mustFunc("C02.R3", "", "PeerConnection.SetLocalDescription")
	setDesc := c.P.Func("", "PeerConnection.setDescription")
	if fi == nil || setDesc == nil {
		return
	}
	pos := c.P.Pos(fi.Decl.Pos())
	dims := []absint.Dim{
		{Key: "$p0.Type", Domain: []absint.Val{absint.ConstOf(rb)}},
		{Key: "$p0.SDP", Domain: []absint.Val{absint.StrVal("")}},
		{Key: "$recv.isClosed.Load()", Domain: []absint.Val{absint.BoolVal(false)}},
	}
	t := absint.Tabulate(absint.Config{P: c.P, Dims: dims,
		WatchCall: func(fn *types.Func, call *ast.CallExpr) string {
			if fn == setDesc.Obj {
				return "setDescription"
			}
			return ""
		}}, fi)
	if tableProblems(c, "C02.R3", "SetLocalDescription|empty-sdp-rollback", pos, t) {
		return
	}
	r.Cells += len(t.Rows)
	reaches := false
	var outs []string
	for _, row := range t.Rows {
		for _, o := range row.Outcomes {
			outs = append(outs, o.String())
			for _, ev := range o.Trace {
				if strings.HasPrefix(ev, "setDescription(") {
					reaches = true
				}
			}
		}
	}
	r.Check(reaches, "C02.R3", "SetLocalDescription|empty-sdp-rollback-reaches-transition", pos,
		"an empty-SDP rollback reaches setDescription", "SetLocalDescription{Type: rollback, SDP: \"\"} returns before the transition on every path (outcomes: "+strings.Join(outs, " || ")+")")
}
