package props

import (
	"go/ast"
	"go/types"
	"sort"
	"strings"

	"verif/checker/core"
)

// c22R4 / c22R5: "at every update, PeerConnectionState equals the aggregate of the closed flag, the ICE state and the
// DTLS state". C22.R1 decides the function of its two arguments; these two rules tie the arguments to the states:
//
//	R4 (freshness): at every call of updateConnectionState the DTLS argument is pc.dtlsTransport.State() evaluated in the
//	   call itself, or a local defined by that call with no other call on any path between the definition and the update
//	   (a state sampled before e.g. the application's ICE callback runs is stale when the update publishes it); the same
//	   for an ICE argument that was sampled through ICEConnectionState().
//	R5 (no lost update): the DTLS transport reports to the PeerConnection only through these explicit calls, so after
//	   every pc.dtlsTransport.Start / Stop in a PeerConnection method every path to the function's exit passes an
//	   updateConnectionState call (Start puts the transport into connected OR failed and returns an error in the latter
//	   case: the error path needs the update as much as the success path).
func c22R45(c *Ctx) {
	r := c.R
	upd := c.mustFunc("C22.R4", "", "PeerConnection.updateConnectionState")
	dtlsState := c.mustFunc("C22.R4", "", "DTLSTransport.State")
	iceState := c.mustFunc("C22.R4", "", "PeerConnection.ICEConnectionState")
	dtlsStart := c.mustFunc("C22.R5", "", "DTLSTransport.Start")
	dtlsStop := c.mustFunc("C22.R5", "", "DTLSTransport.Stop")
	dtlsF := c.mustField("C22.R5", "", "PeerConnection", "dtlsTransport")
	if upd == nil || dtlsState == nil || iceState == nil || dtlsStart == nil || dtlsStop == nil || dtlsF == nil {
		return
	}
	hasCall := func(n ast.Node) bool {
		found := false
		if n == nil {
			return false
		}
		core.InspectShallow(n, func(x ast.Node) bool {
			if call, ok := x.(*ast.CallExpr); ok {
				// conversions and builtins are not calls that can run other code
				if tv, ok := infoOfCall(c, call); ok && tv {
					return true
				}
				found = true
			}
			return true
		})
		return found
	}
	for _, fi := range c.P.AllFuncs() {
		if fi.Decl == nil || fi.Decl.Body == nil || fi.Pkg != c.P.Pkg("") || fi == upd {
			continue
		}
		info := fi.Pkg.TypesInfo
		mentions := false
		ast.Inspect(fi.Decl.Body, func(x ast.Node) bool {
			if call, ok := x.(*ast.CallExpr); ok {
				if core.IsCallTo(info, call, upd.Obj) || core.IsCallTo(info, call, dtlsStart.Obj) || core.IsCallTo(info, call, dtlsStop.Obj) {
					mentions = true
				}
			}
			return true
		})
		if !mentions {
			continue
		}
		for gi, g := range c06GraphsOf(c, fi) {
			where := fi.Name()
			if gi > 0 {
				where += sprintf("$lit%d", gi)
			}
			var updNodes []int
			for _, n := range g.Nodes {
				if n.Ast == nil {
					continue
				}
				core.InspectShallow(n.Ast, func(x ast.Node) bool {
					if call, ok := x.(*ast.CallExpr); ok && core.IsCallTo(info, call, upd.Obj) {
						updNodes = append(updNodes, n.ID)
					}
					return true
				})
			}
			// R4
			for k, un := range updNodes {
				var call *ast.CallExpr
				core.InspectShallow(g.Nodes[un].Ast, func(x ast.Node) bool {
					if cl, ok := x.(*ast.CallExpr); ok && core.IsCallTo(info, cl, upd.Obj) {
						call = cl
					}
					return true
				})
				if call == nil || len(call.Args) != 2 {
					continue
				}
				for ai, want := range []*core.FuncInfo{iceState, dtlsState} {
					name := []string{"ice", "dtls"}[ai]
					key := sprintf("%s|updateConnectionState#%d|%s-argument-fresh", where, k+1, name)
					pos := c.P.Pos(call.Args[ai].Pos())
					arg := ast.Unparen(call.Args[ai])
					if cl, ok := arg.(*ast.CallExpr); ok && core.IsCallTo(info, cl, want.Obj) {
						r.OK("C22.R4", key, pos, "read in the call itself")
						continue
					}
					v := core.VarOf(info, arg)
					if v == nil {
						if ai == 1 {
							r.Undecided("C22.R4", key, pos, "the DTLS argument is neither pc.dtlsTransport.State() nor a local sampled from it")
						} else {
							r.OK("C22.R4", key, pos, "not a sampled state")
						}
						continue
					}
					rhs, dn := g.UniqueDef(v)
					cl, isCall := ast.Unparen(rhs).(*ast.CallExpr)
					sampled := rhs != nil && isCall && (core.IsCallTo(info, cl, dtlsState.Obj) || core.IsCallTo(info, cl, iceState.Obj))
					if !sampled {
						if ai == 1 {
							r.Undecided("C22.R4", key, pos, "the DTLS argument is a variable that is not a single sample of pc.dtlsTransport.State()")
						} else {
							r.OK("C22.R4", key, pos, "the event's own state (not sampled through a getter)")
						}
						continue
					}
					// nodes strictly between the sample and the update
					fwd := g.Reach([]int{dn}, func(x int) bool { return x == un }, nil)
					var stale []string
					for x := range fwd {
						if x == dn || x == un {
							continue
						}
						// x must be able to reach the update
						if !g.Reach([]int{x}, nil, nil)[un] {
							continue
						}
						if hasCall(g.Nodes[x].Ast) {
							stale = append(stale, c.P.Pos(g.PosOf(x)))
						}
					}
					sort.Strings(stale)
					r.Check(len(stale) == 0, "C22.R4", key, pos, "sampled immediately before the update (no call in between)",
						"the "+name+" state handed to updateConnectionState was sampled before other calls ran ("+strings.Join(stale, ", ")+"): if the transport changes state meanwhile the aggregate is computed from a stale state and overwrites the correct one")
				}
			}
			// R5
			isUpd := map[int]bool{}
			for _, un := range updNodes {
				isUpd[un] = true
			}
			idx := 0
			for _, n := range g.Nodes {
				if n.Ast == nil {
					continue
				}
				var what string
				core.InspectShallow(n.Ast, func(x ast.Node) bool {
					call, ok := x.(*ast.CallExpr)
					if !ok {
						return true
					}
					for _, t := range []*core.FuncInfo{dtlsStart, dtlsStop} {
						if core.IsCallTo(info, call, t.Obj) {
							if sel, ok := ast.Unparen(call.Fun).(*ast.SelectorExpr); ok && core.FieldOf(info, sel.X) == dtlsF {
								what = t.Obj.Name()
							}
						}
					}
					return true
				})
				if what == "" {
					continue
				}
				idx++
				reach := g.Reach([]int{n.ID}, func(x int) bool { return isUpd[x] }, nil)
				r.Cells++
				r.Check(!reach[g.Exit], "C22.R5", sprintf("%s|dtlsTransport.%s#%d|followed-by-update", where, what, idx), c.P.Pos(g.PosOf(n.ID)),
					"every path from the DTLS "+what+" to the exit passes updateConnectionState",
					"after pc.dtlsTransport."+what+"() a path reaches the function's exit without updateConnectionState: the DTLS state change (connected or failed) never reaches the aggregate, which keeps its old value and fires no notification")
			}
		}
	}
}

// infoOfCall reports (isConversionOrBuiltin, ok).
func infoOfCall(c *Ctx, call *ast.CallExpr) (bool, bool) {
	info := c.P.Pkg("").TypesInfo
	if tv, ok := info.Types[call.Fun]; ok {
		if tv.IsType() || tv.IsBuiltin() {
			return true, true
		}
		return false, true
	}
	if id, ok := ast.Unparen(call.Fun).(*ast.Ident); ok {
		if _, isB := info.Uses[id].(*types.Builtin); isB {
			return true, true
		}
	}
	return false, false
}
