package props

import (
	"go/ast"
	"go/token"
	"go/types"
	"sort"
	"strings"

	"verif/checker/absint"
	"verif/checker/core"
)

func init() {
	register(&Prop{
		ID:        "C06",
		Engine:    "e2cfg+e6flow+e1tab",
		Technique: "provenance of every mediaSection id and every SetMid argument (def-use on the node CFG); per-iteration path rules on populateSDP's section loop for the BUNDLE group; must-pass-through / exactly-once path counts for the per-section attributes; decision table of populateSDP over the fingerprint-placement flag",
		LevelText: "Structural clauses of 'unique mids, correct BUNDLE group, complete accepted sections', decided on every path of the generators: (R1) each section id and each transceiver mid comes from the remote section's mid, the section's own transceiver, a Plan-B constant under a Plan-B guard, or the fresh allocator incremented once per use; (R2) per section the BUNDLE group receives that section's id at most once, only for an emitted (non-rejected) section that matches the remote group, otherwise the port is zeroed; (R3) every path to the emission of an accepted section sets setup, mid (the id handed down by populateSDP), ICE credentials and exactly one direction attribute, and fingerprints are placed at media level iff the flag is set and at session level iff it is not.",
		LevelNote: "Trusted: go/types, go/cfg, absint on the supported fragment; pion/sdp's With* builders append what their name says. Uniqueness over arbitrary histories is argued from provenance only (distinct sources give distinct mids), not explored; parsing of the produced text is not covered.",
		DesignRef: "DESIGN.md §5 C06",
		Run:       runC06,
	})
}

func runC06(c *Ctx) {
	r := c.R
	// Instance minima count the semantic facts a rule must establish (one per kind of section source, per
	// attribute, per table cell, per guarded write …), not the incidental number of sites: a refactor that merges
	// two sites (one error return instead of two, one literal shared by two arms, a block moved into a helper)
	// must not trip them, while losing an anchor still does.
	r.Rule("C06.R1", "mid provenance: the id of every mediaSection literal derives only from getMidValue(remote media), the section's own transceiver's Mid(), or a distinct Plan-B constant under a Plan-B guard; every SetMid argument is the remote section's mid or strconv.Itoa(pc.greaterMid) with pc.greaterMid++ executed since the previous use", 8)
	r.Rule("C06.R2", "populateSDP, per section: the BUNDLE value receives section.id at most once, only on paths where the section was emitted (shouldAddID true: data section, or addTransceiverSDP returned true) and the remote bundle group matches; otherwise the emitted section's port is zeroed; exactly one of the two happens for an emitted section and neither for a rejected one; addTransceiverSDP returns true only after emitting the full section and false only after the rejected (port 0) one", 10)
	r.Rule("C06.R3", "every path of addTransceiverSDP / addDataMediaSection to the emission of the accepted section passes exactly one setup attribute (from the role parameter), exactly one mid attribute (from the parameter populateSDP binds to section.id), one WithICECredentials(ufrag, pwd) and exactly one direction attribute, and one fingerprint loop over the fingerprint parameter; populateSDP hands the fingerprints to the section builders iff mediaDescriptionFingerprint and emits them at session level iff not", 14)
	r.Rule("C06.R4", "fresh mids are unique: same scan rule as C09.R5 (every existing mid raises greaterMid before a fresh one is handed out)", 2)
	r.Rule("C06.R6", "typestate of new transceivers: every `v := &RTPTransceiver{...}` passes v.setDirection(d) on every path before v is used for anything but its own setters, and no setDirection is given the constant zero direction (a transceiver without a stored direction renders a=unknown, i.e. no direction attribute)", 2)
	r.Rule("C06.R7", "same rule as C12.R1's offer part: outside Plan-B both generator calls of CreateOffer are dominated by the loop that gives every transceiver without a mid a fresh one (a section rendered from a transceiver without a mid has the empty mid, shared by all such sections)", 2)
	r.Rule("C06.R8", "same rule as C07.R4 / C09.R7: the rejected (port 0) section addTransceiverSDP emits carries the mid PARAMETER (the section id populateSDP binds) as a=mid, so rejected sections keep distinct mids also where transceivers have none (Plan-B)", 3)
	r.Rule("C06.R5", "same rule as C09.R6: a len-based data-section mid is computed after all other sections were appended", 1)
	r.NotCovered = append(r.NotCovered,
		"uniqueness of mids over arbitrary histories beyond provenance (e.g. a remote peer reusing a mid)",
		"that the produced text parses (pion/sdp marshalling)",
		"that the max-tracking loops in CreateOffer visit every existing mid before pc.greaterMid++ (C09.R2 checks monotonicity only)")
	r.Trusted = append(r.Trusted, "pion/sdp builders (WithValueAttribute, WithPropertyAttribute, WithICECredentials, WithFingerprint, WithMedia) append exactly the attribute they are named after", "NewJSEPMediaDescription creates a section with a non-zero port")

	c06Tick(c, "loaded")
	c06Rules(c)
	c06Agree386(c, "C06.R1", c06Rules)
	c06Dump(c)
	c09R5(c, "C06.R4")
	c09R6(c, "C06.R5")
	c06R6(c, "C06.R6") // c06c.go
}

// c06Rules runs every rule of the property on the program held by c.
func c06Rules(c *Ctx) {
	env := c06Anchors(c, "C06.R1")
	if !env.ok {
		return
	}
	c06MidProvenance(env, "C06.R1")
	c06Bundle(env, "C06.R2")
	c06TransceiverReturns(env, "C06.R2")
	c06SectionAttrs(env, "C06.R3")
	c06Fingerprints(env, "C06.R3")
	c12OfferMids(env, "C06.R7")
	c07R4(env, "C06.R8")
}

// ---------------------------------------------------------------------------
// R1 (shared with C09.R4): provenance of section ids and transceiver mids

// c06PlanBVars finds the boolean locals of g that are Plan-B indicators: every definition is
// `x == SDPSemanticsPlanB`, a call of descriptionIsPlanB / descriptionPossiblyPlanB, or another indicator.
func c06PlanBVars(env *c06Env, g *core.Graph) map[*types.Var]bool {
	info := g.Info
	planB := env.c.P.Const("", "SDPSemanticsPlanB")
	isPB := env.c.P.Func("", "descriptionIsPlanB")
	possPB := env.c.P.Func("", "descriptionPossiblyPlanB")
	defsOf := map[*types.Var][]ast.Expr{}
	bad := map[*types.Var]bool{}
	note := func(l ast.Expr, rhs ast.Expr) {
		v := core.VarOf(info, l)
		if v == nil {
			return
		}
		if b, ok := v.Type().Underlying().(*types.Basic); !ok || b.Info()&types.IsBoolean == 0 {
			return
		}
		if rhs == nil {
			bad[v] = true
			return
		}
		defsOf[v] = append(defsOf[v], rhs)
	}
	ast.Inspect(g.Body, func(x ast.Node) bool {
		switch s := x.(type) {
		case *ast.AssignStmt:
			for i, l := range s.Lhs {
				if len(s.Lhs) == len(s.Rhs) && (s.Tok == token.ASSIGN || s.Tok == token.DEFINE) {
					note(l, s.Rhs[i])
				} else {
					note(l, nil)
				}
			}
		case *ast.ValueSpec:
			for i, nm := range s.Names {
				if len(s.Values) == len(s.Names) {
					note(nm, s.Values[i])
				} else {
					note(nm, nil)
				}
			}
		}
		return true
	})
	out := map[*types.Var]bool{}
	for changed := true; changed; {
		changed = false
		for v, rhss := range defsOf {
			if out[v] || bad[v] {
				continue
			}
			all := true
			for _, rhs := range rhss {
				rhs = ast.Unparen(rhs)
				ok := false
				switch x := rhs.(type) {
				case *ast.BinaryExpr:
					if x.Op == token.EQL && planB != nil {
						for _, side := range []ast.Expr{x.X, x.Y} {
							if tv, has := info.Types[side]; has && tv.Value != nil && types.Identical(tv.Type, planB.Type()) && tv.Value.ExactString() == planB.Val().ExactString() {
								ok = true
							}
						}
					}
				case *ast.CallExpr:
					if (isPB != nil && core.IsCallTo(info, x, isPB.Obj)) || (possPB != nil && core.IsCallTo(info, x, possPB.Obj)) {
						ok = true
					}
				case *ast.Ident:
					if w := core.VarOf(info, x); w != nil && out[w] {
						ok = true
					}
				}
				if !ok {
					all = false
				}
			}
			if all && len(rhss) > 0 {
				out[v] = true
				changed = true
			}
		}
	}
	return out
}

func c06MidProvenance(env *c06Env, rule string) {
	c, r := env.c, env.c.R
	root := c.P.Pkg("")
	greater := c.mustField(rule, "", "PeerConnection", "greaterMid")
	if greater == nil {
		return
	}
	for _, fi := range c.P.AllFuncs() {
		if fi.Pkg != root || fi.Decl.Body == nil {
			continue
		}
		if !c06Mentions(fi, func(x ast.Node) bool {
			switch e := x.(type) {
			case *ast.CompositeLit:
				return c06IsNamed(fi.Pkg.TypesInfo.TypeOf(e), env.msType)
			case *ast.CallExpr:
				// a same-package helper that returns a mediaSection literal
				if fn := core.Callee(fi.Pkg.TypesInfo, e); fn != nil && fn.Pkg() == fi.Pkg.Types {
					if sig, ok := fn.Type().(*types.Signature); ok && sig.Results().Len() == 1 && types.Identical(sig.Results().At(0).Type(), env.msType) {
						return true
					}
				}
			}
			return false
		}) {
			continue
		}
		secs := c06Sections(env, fi)
		if len(secs) == 0 {
			continue
		}
		r.Saw(fi.Name())
		g := c.P.GraphOf(fi)
		pbVars := c06PlanBVars(env, g)
		pbEdges := c06EdgesWhere(g, func(from int, f c06Fact) bool {
			for v := range pbVars {
				if c06BoolVarFact(g.Info, f, v, true) {
					return true
				}
			}
			return false
		})
		constSeen := map[string]bool{}
		for _, s := range secs {
			if s.HelperBody {
				// the literal of a section-building helper is judged at each call of the helper
				r.Info(rule, fi.Name()+"|mediaSection{"+s.fieldNames()+"}|helper-body", c.P.Pos(s.Lit.Pos()), "literal returned by a helper: judged at its call sites")
				continue
			}
			pos := c.P.Pos(s.pos())
			base := fi.Name() + "|mediaSection{" + s.fieldNames() + "}"
			src, has := s.idSrc(env)
			if !has {
				r.Fail(rule, base+"|id<-(none)", pos, "a media section is built without an id (empty mid)")
				continue
			}
			if s.Node < 0 {
				r.Undecided(rule, base+"|in-function-literal", pos, "mediaSection literal inside a function literal: provenance not analysed")
				continue
			}
			key := base + "|id<-" + src.Desc
			switch src.Class {
			case "remote-mid":
				r.OK(rule, key, pos, "id is the remote m-section's mid")
			case "transceiver-mid":
				// the section must carry exactly that transceiver
				ok := src.Var != nil && s.soleTransceiver() == src.Var
				r.Check(ok, rule, key, pos, "id is the mid of the section's own (single) transceiver", "id is taken from a transceiver that is not the one the section carries")
			case "const":
				switch {
				case constSeen[src.Const]:
					r.Fail(rule, key, pos, "two sections of one description use the same constant mid "+src.Desc)
				case !g.DominatedByEdges(s.Node, pbEdges):
					r.Fail(rule, key, pos, "constant mid "+src.Desc+" used outside a Plan-B guard: every description generated on this path carries the same mid for this section, colliding with any other section that has it")
				default:
					r.OK(rule, key, pos, "Plan-B constant under a Plan-B guard")
				}
				constSeen[src.Const] = true
			default:
				r.Fail(rule, key, pos, "section id does not derive from the remote mid, the section's transceiver or the fresh-mid allocator: "+src.Desc+" can equal a mid already in use (sparse or offset existing mids)")
			}
		}
	}

	// every SetMid argument
	for _, fi := range c.P.AllFuncs() {
		if fi.Decl.Body == nil || !c06Mentions(fi, func(x ast.Node) bool { return core.IsCallTo(fi.Pkg.TypesInfo, x, env.setMid.Obj) }) {
			continue
		}
		g := c.P.GraphOf(fi)
		if g == nil {
			continue
		}
		info := g.Info
		// calls inside function literals are not in g
		inLit := false
		ast.Inspect(fi.Decl.Body, func(x ast.Node) bool {
			if fl, ok := x.(*ast.FuncLit); ok {
				ast.Inspect(fl.Body, func(y ast.Node) bool {
					if core.IsCallTo(info, y, env.setMid.Obj) {
						inLit = true
					}
					return true
				})
				return false
			}
			return true
		})
		if inLit {
			r.Undecided(rule, "call:(*RTPTransceiver).SetMid|in:"+fi.Name()+"|function-literal", c.P.Pos(fi.Decl.Pos()), "SetMid called inside a function literal: provenance not analysed")
		}
		calls := g.FindNodes(func(x ast.Node) bool { return core.IsCallTo(info, x, env.setMid.Obj) })
		if len(calls) == 0 {
			continue
		}
		r.Saw(fi.Name())
		incs := core.NodeSet(g.FindNodes(func(x ast.Node) bool {
			s, ok := x.(*ast.IncDecStmt)
			return ok && s.Tok == token.INC && core.FieldOf(info, s.X) == greater
		}))
		for _, n := range calls {
			var call *ast.CallExpr
			core.InspectShallow(g.Nodes[n].Ast, func(x ast.Node) bool {
				if core.IsCallTo(info, x, env.setMid.Obj) {
					call = x.(*ast.CallExpr)
				}
				return true
			})
			if call == nil || len(call.Args) != 1 {
				continue
			}
			src := c06MidSource(env, g, n, call.Args[0])
			key := "call:(*RTPTransceiver).SetMid|in:" + fi.Name() + "|mid<-" + src.Desc
			pos := c.P.Pos(call.Pos())
			switch src.Class {
			case "remote-mid":
				r.OK(rule, key, pos, "transceiver takes the remote m-section's mid")
			case "fresh-mid":
				var succ []int
				for _, e := range g.Nodes[n].Succs {
					succ = append(succ, e.To)
				}
				again := g.Reach(succ, func(x int) bool { return incs[x] }, nil)[n]
				switch {
				case len(incs) == 0 || !g.Dominated(n, incs):
					r.Fail(rule, key, pos, "the allocator value is used without pc.greaterMid++ on some path before it: the mid is not fresh")
				case again && !incs[n]:
					r.Fail(rule, key, pos, "a second SetMid(strconv.Itoa(pc.greaterMid)) can execute without another pc.greaterMid++ in between: two transceivers get the same mid")
				default:
					r.OK(rule, key, pos, "fresh mid: pc.greaterMid++ executes before every use")
				}
			default:
				r.Fail(rule, key, pos, "transceiver mid does not derive from the remote mid or the fresh-mid allocator: "+src.Desc)
			}
		}
	}
}

// ---------------------------------------------------------------------------
// R2: BUNDLE construction in populateSDP

type c06Populate struct {
	g        *core.Graph
	loop     *c06Loop
	sections *types.Var // the []mediaSection parameter
	descr    *types.Var // the *sdp.SessionDescription parameter
	addTrN   []int      // nodes calling addTransceiverSDP
	addDataN []int
}

// c06PopulateShape resolves populateSDP's section loop; problems are reported under rule.
func c06PopulateShape(env *c06Env, rule string) *c06Populate {
	c, r := env.c, env.c.R
	fi := env.populate
	g := c.P.GraphOf(fi)
	pos := c.P.Pos(fi.Decl.Pos())
	p := &c06Populate{g: g}
	sig := g.Sig()
	for i := 0; i < sig.Params().Len(); i++ {
		pv := sig.Params().At(i)
		if sl, ok := pv.Type().(*types.Slice); ok && c06IsNamed(sl.Elem(), env.msType) {
			if p.sections != nil {
				r.Undecided(rule, "populateSDP|sections-parameter", pos, "more than one []mediaSection parameter")
				return nil
			}
			p.sections = pv
		}
		if c06IsExtNamed(pv.Type(), c06SDPPkg, "SessionDescription") {
			p.descr = pv
		}
	}
	if p.sections == nil || p.descr == nil {
		r.Undecided(rule, "populateSDP|parameters", pos, "populateSDP no longer takes a []mediaSection and a *sdp.SessionDescription")
		return nil
	}
	for _, l := range c06RangeLoops(g) {
		if core.VarOf(g.Info, l.Range.X) == p.sections {
			if p.loop != nil {
				r.Undecided(rule, "populateSDP|section-loop", pos, "more than one loop over the sections")
				return nil
			}
			p.loop = l
		}
	}
	if p.loop == nil || p.loop.ValueVar == nil {
		r.Undecided(rule, "populateSDP|section-loop", pos, "no `for _, section := range mediaSections` loop found")
		return nil
	}
	if c06AssignedAnywhere(g, p.sections) != 0 {
		r.Undecided(rule, "populateSDP|section-loop", pos, "the sections parameter is reassigned")
		return nil
	}
	p.addTrN = g.FindNodes(func(x ast.Node) bool { return core.IsCallTo(g.Info, x, env.addTr.Obj) })
	p.addDataN = g.FindNodes(func(x ast.Node) bool { return core.IsCallTo(g.Info, x, env.addData.Obj) })
	return p
}

// iterDominatedByEdges: every path from the start of an iteration to target uses one of the edges.
func (l *c06Loop) iterDominatedByEdges(target int, edges map[core.EdgeRef]bool) bool {
	inHeader := func(x int) bool { return x >= l.headBlock && x <= l.Head }
	reach := l.G.Reach([]int{l.BodyEntry}, inHeader, func(from, idx int, e core.Edge) bool { return edges[core.EdgeRef{From: from, Idx: idx}] })
	return !reach[target]
}

func c06Bundle(env *c06Env, rule string) {
	c, r := env.c, env.c.R
	p := c06PopulateShape(env, rule)
	if p == nil {
		return
	}
	g, info, l := p.g, p.g.Info, p.loop
	fpos := c.P.Pos(env.populate.Decl.Pos())

	// the variable written into a=group
	var groupVar *types.Var
	nGroup := 0
	ast.Inspect(g.Body, func(x ast.Node) bool {
		call, ok := x.(*ast.CallExpr)
		if !ok || !c06ExtMethod(info, call, c06SDPPkg, "SessionDescription", "WithValueAttribute") || len(call.Args) != 2 {
			return true
		}
		if k, ok := c06ConstString(info, call.Args[0]); ok && k == "group" {
			nGroup++
			groupVar = core.VarOf(info, call.Args[1])
		}
		return true
	})
	if nGroup != 1 || groupVar == nil {
		r.Undecided(rule, "populateSDP|group-attribute", fpos, sprintf("expected exactly one WithValueAttribute(\"group\", <variable>), found %d", nGroup))
		return
	}

	// writers of the group variable: the initialisation, and `G += " " + x` directly or inside a local closure
	type appender struct {
		lit   *ast.FuncLit
		param *types.Var
	}
	closures := map[*types.Var]*appender{}
	initOK := false
	var strayWrites []ast.Node
	isSpaceConcat := func(rhs ast.Expr) (ast.Expr, bool) {
		parts, ok := c06StringParts(info, rhs)
		if !ok || len(parts) != 2 || !parts[0].IsConst || parts[0].Const != " " || parts[1].IsConst {
			return nil, false
		}
		return parts[1].Expr, true
	}
	var scan func(body ast.Node, inLit *ast.FuncLit)
	litWrites := map[*ast.FuncLit][]ast.Expr{} // closure -> appended operands
	directAppend := map[*ast.AssignStmt]ast.Expr{}
	scan = func(body ast.Node, inLit *ast.FuncLit) {
		ast.Inspect(body, func(x ast.Node) bool {
			switch s := x.(type) {
			case *ast.FuncLit:
				if s != inLit {
					scan(s.Body, s)
					return false
				}
			case *ast.AssignStmt:
				for i, lhs := range s.Lhs {
					if core.VarOf(info, lhs) != groupVar {
						continue
					}
					switch {
					case s.Tok == token.DEFINE && inLit == nil && len(s.Rhs) == len(s.Lhs):
						if v, ok := c06ConstString(info, s.Rhs[i]); ok && v == "BUNDLE" {
							initOK = true
						} else {
							strayWrites = append(strayWrites, s)
						}
					case s.Tok == token.ADD_ASSIGN:
						if op, ok := isSpaceConcat(s.Rhs[0]); ok {
							if inLit != nil {
								litWrites[inLit] = append(litWrites[inLit], op)
							} else {
								directAppend[s] = op
							}
						} else {
							strayWrites = append(strayWrites, s)
						}
					default:
						strayWrites = append(strayWrites, s)
					}
				}
			case *ast.ValueSpec:
				for i, nm := range s.Names {
					if info.Defs[nm] == types.Object(groupVar) {
						if len(s.Values) == len(s.Names) {
							if v, ok := c06ConstString(info, s.Values[i]); ok && v == "BUNDLE" {
								initOK = true
								continue
							}
						}
						strayWrites = append(strayWrites, s)
					}
				}
			case *ast.UnaryExpr:
				if s.Op == token.AND && core.VarOf(info, s.X) == groupVar {
					strayWrites = append(strayWrites, s)
				}
			}
			return true
		})
	}
	scan(g.Body, nil)
	r.Check(initOK && len(strayWrites) == 0, rule, "populateSDP|group-value|writers", fpos,
		"the group value starts as \"BUNDLE\" and is only extended by ` \" \" + mid`", sprintf("the group value is not initialised to \"BUNDLE\" or is written other than by appending \" \"+mid (%d other write(s))", len(strayWrites)))
	// closures bound to locals
	ast.Inspect(g.Body, func(x ast.Node) bool {
		as, ok := x.(*ast.AssignStmt)
		if !ok || len(as.Lhs) != len(as.Rhs) {
			return true
		}
		for i, rhs := range as.Rhs {
			fl, ok := ast.Unparen(rhs).(*ast.FuncLit)
			if !ok || len(litWrites[fl]) == 0 {
				continue
			}
			v := core.VarOf(info, as.Lhs[i])
			if v == nil {
				continue
			}
			ap := &appender{lit: fl}
			if len(litWrites[fl]) == 1 {
				ap.param = core.VarOf(info, litWrites[fl][0])
			}
			closures[v] = ap
		}
		return true
	})

	// a closure that extends the group value does so on every one of its paths: a conditional early return inside it
	// (e.g. "skip if the value already contains the mid") silently drops an accepted section's mid from BUNDLE
	for _, ap := range closures {
		lg := c.P.GraphOfLit(ap.lit)
		if lg == nil {
			continue
		}
		wr := map[int]bool{}
		for _, nd := range lg.Nodes {
			if as, ok := nd.Ast.(*ast.AssignStmt); ok {
				for _, l := range as.Lhs {
					if core.VarOf(lg.Info, l) == groupVar {
						wr[nd.ID] = true
					}
				}
			}
		}
		reach := lg.ReachFromEntry(func(x int) bool { return wr[x] }, nil)
		r.Check(len(wr) > 0 && !reach[lg.Exit], rule, "populateSDP|bundle-append|closure-appends-on-every-path", c.P.Pos(ap.lit.Pos()), "the closure extends the BUNDLE value on every path",
			"the closure that extends the BUNDLE value can return without appending its argument: an accepted (non-zero-port) section's mid is missing from a=group:BUNDLE")
	}

	// bundle-append nodes inside the loop, with the appended operand
	type bnode struct {
		n   int
		arg ast.Expr
	}
	var bnodes []bnode
	var ids []int
	for n := range l.Body {
		ids = append(ids, n)
	}
	sort.Ints(ids)
	for _, n := range ids {
		a := g.Nodes[n].Ast
		if a == nil {
			continue
		}
		core.InspectShallow(a, func(x ast.Node) bool {
			switch s := x.(type) {
			case *ast.AssignStmt:
				if op, ok := directAppend[s]; ok {
					bnodes = append(bnodes, bnode{n, op})
				}
			case *ast.CallExpr:
				if id, ok := ast.Unparen(s.Fun).(*ast.Ident); ok {
					if ap := closures[core.VarOf(info, id)]; ap != nil {
						var arg ast.Expr
						if sig, ok := info.TypeOf(ap.lit).(*types.Signature); ok && ap.param != nil {
							for i := 0; i < sig.Params().Len() && i < len(s.Args); i++ {
								if sig.Params().At(i) == ap.param {
									arg = s.Args[i]
								}
							}
						}
						bnodes = append(bnodes, bnode{n, arg})
					}
				}
			}
			return true
		})
	}
	// a closure reassigned or called outside the loop would escape this accounting
	for v, ap := range closures {
		if c06AssignedAnywhere(g, v) != 1 {
			r.Undecided(rule, "populateSDP|bundle-append|closure", c.P.Pos(ap.lit.Pos()), "the closure that extends the group value is reassigned")
			return
		}
		outside := 0
		ast.Inspect(g.Body, func(x ast.Node) bool {
			if id, ok := x.(*ast.Ident); ok && info.Uses[id] == types.Object(v) {
				outside++
			}
			return true
		})
		inLoop := 0
		for _, b := range bnodes {
			core.InspectShallow(g.Nodes[b.n].Ast, func(x ast.Node) bool {
				if id, ok := x.(*ast.Ident); ok && info.Uses[id] == types.Object(v) {
					inLoop++
				}
				return true
			})
		}
		if outside != inLoop {
			r.Fail(rule, "populateSDP|bundle-append|outside-loop", c.P.Pos(ap.lit.Pos()), "the closure that extends the BUNDLE value is also used outside the per-section loop")
		}
	}
	for s := range directAppend {
		found := false
		for _, b := range bnodes {
			core.InspectShallow(g.Nodes[b.n].Ast, func(x ast.Node) bool {
				if x == ast.Node(s) {
					found = true
				}
				return true
			})
		}
		if !found {
			r.Fail(rule, "populateSDP|bundle-append|outside-loop", c.P.Pos(s.Pos()), "the BUNDLE value is extended outside the per-section loop")
		}
	}
	if len(bnodes) == 0 {
		r.Fail(rule, "populateSDP|bundle-append|none", fpos, "no statement of the section loop adds the section's mid to the BUNDLE group")
		return
	}

	// shouldAddID: the variable receiving addTransceiverSDP's boolean
	var sVar *types.Var
	if len(p.addTrN) == 1 && l.Body[p.addTrN[0]] {
		core.InspectShallow(g.Nodes[p.addTrN[0]].Ast, func(x ast.Node) bool {
			if as, ok := x.(*ast.AssignStmt); ok && len(as.Rhs) == 1 && len(as.Lhs) == 2 && core.IsCallTo(info, ast.Unparen(as.Rhs[0]), env.addTr.Obj) {
				sVar = core.VarOf(info, as.Lhs[0])
			}
			return true
		})
	}
	if sVar == nil {
		r.Undecided(rule, "populateSDP|emitted-flag", fpos, sprintf("cannot identify the variable that receives addTransceiverSDP's boolean (calls in loop: %d)", len(p.addTrN)))
		return
	}
	sEdges := c06EdgesWhere(g, func(from int, f c06Fact) bool { return c06BoolVarFact(info, f, sVar, true) })
	// the flag tested comes only from `true` (data sections) or from addTransceiverSDP
	flagOK, flagWhy := len(sEdges) > 0, "no branch tests the emitted-flag on its own"
	var afterCall []int
	for _, e := range g.Nodes[p.addTrN[0]].Succs {
		afterCall = append(afterCall, e.To)
	}
	inHdr := func(x int) bool { return x >= l.headBlock && x <= l.Head }
	pastCall := g.Reach(afterCall, inHdr, nil)
	for e := range sEdges {
		for _, d := range c06Defs(g, e.From, sVar) {
			switch d.Kind {
			case "assign":
				if b, ok := c06ConstBool(info, d.Rhs); ok && b {
					// initialised true: must be the per-iteration initialisation (inside the loop, before the builder call)
					if !l.Body[d.Node] {
						flagOK, flagWhy = false, "the flag's `true` initialisation lies outside the loop: a rejected section leaves it false/true for the following sections"
					}
					if pastCall[d.Node] {
						flagOK, flagWhy = false, "the flag is set to true again after addTransceiverSDP returned"
					}
					continue
				}
				flagOK, flagWhy = false, "the flag is assigned "+c06Canon(g, d.Node, d.Rhs)+" before the test"
			case "tuple":
				if d.Index != 0 || !core.IsCallTo(info, ast.Unparen(d.Rhs), env.addTr.Obj) {
					flagOK, flagWhy = false, "the flag is assigned from "+c06Canon(g, d.Node, d.Rhs)
				}
			default:
				flagOK, flagWhy = false, "the flag reaches the test with a "+d.Kind+" definition"
			}
		}
	}
	r.Check(flagOK, rule, "populateSDP|emitted-flag|sources", fpos, "the flag tested before bundling is `true` for data sections and addTransceiverSDP's result otherwise", flagWhy+": rejected sections can reach the BUNDLE group")

	// bundleMatch: a call through a local whose only definition is bundleMatchFromRemote(<*string parameter>)
	bmFrom := c.mustFunc(rule, "", "bundleMatchFromRemote")
	if bmFrom == nil {
		return
	}
	isMatchCall := func(from int, e ast.Expr) bool {
		call, ok := ast.Unparen(e).(*ast.CallExpr)
		if !ok || len(call.Args) != 1 {
			return false
		}
		id, ok := ast.Unparen(call.Fun).(*ast.Ident)
		if !ok {
			return false
		}
		v := core.VarOf(info, id)
		if v == nil || c06AssignedAnywhere(g, v) != 1 {
			return false
		}
		defs := c06Defs(g, from, v)
		if len(defs) != 1 || defs[0].Kind != "assign" || !core.IsCallTo(info, ast.Unparen(defs[0].Rhs), bmFrom.Obj) {
			return false
		}
		src := c06MidSource(env, g, from, call.Args[0])
		return src.Class == "section-id" && src.Var == l.ValueVar
	}
	mTrue := c06EdgesWhere(g, func(from int, f c06Fact) bool { return f.Truth && isMatchCall(from, f.Expr) })
	mFalse := c06EdgesWhere(g, func(from int, f c06Fact) bool { return !f.Truth && isMatchCall(from, f.Expr) })

	// port-zero nodes
	isZeroPort := func(a ast.Node) (ok bool, why string) {
		as, isAs := a.(*ast.AssignStmt)
		if !isAs || len(as.Lhs) != 1 || len(as.Rhs) != 1 {
			return false, ""
		}
		fv := core.FieldOf(info, as.Lhs[0])
		if fv == nil || fv.Name() != "Port" || fv.Pkg() == nil || fv.Pkg().Path() != c06SDPPkg {
			return false, ""
		}
		// RHS: RangedPort{Value: 0}
		zero := false
		if cl, isLit := ast.Unparen(as.Rhs[0]).(*ast.CompositeLit); isLit {
			zero = true
			for _, el := range cl.Elts {
				kv, isKV := el.(*ast.KeyValueExpr)
				if !isKV {
					zero = false
					continue
				}
				if id, ok := kv.Key.(*ast.Ident); ok && id.Name == "Value" {
					if n, ok := c06ConstInt(info, kv.Value); !ok || n != 0 {
						zero = false
					}
				}
			}
		}
		if !zero {
			return true, "the port is set to something other than RangedPort{Value: 0}"
		}
		// LHS: D.MediaDescriptions[len(D.MediaDescriptions)-1].MediaName.Port
		var ix *ast.IndexExpr
		ast.Inspect(as.Lhs[0], func(x ast.Node) bool {
			if i, ok := x.(*ast.IndexExpr); ok && ix == nil {
				ix = i
			}
			return true
		})
		if ix == nil {
			return true, "the zeroed port is not that of the last emitted media description"
		}
		rootV, path, okp := c06FieldPath(info, ix.X)
		be, isBin := ast.Unparen(ix.Index).(*ast.BinaryExpr)
		last := false
		if okp && rootV == p.descr && path == "MediaDescriptions" && isBin && be.Op == token.SUB {
			if one, ok := c06ConstInt(info, be.Y); ok && one == 1 {
				if lc, ok := ast.Unparen(be.X).(*ast.CallExpr); ok && c06IsBuiltin(info, lc, "len") && len(lc.Args) == 1 {
					if rv, pp, ok := c06FieldPath(info, lc.Args[0]); ok && rv == p.descr && pp == "MediaDescriptions" {
						last = true
					}
				}
			}
		}
		if !last {
			return true, "the zeroed port is not descr.MediaDescriptions[len(descr.MediaDescriptions)-1] (the section just emitted)"
		}
		return true, ""
	}
	var znodes []int
	for _, n := range ids {
		if a := g.Nodes[n].Ast; a != nil {
			if ok, why := isZeroPort(a); ok {
				znodes = append(znodes, n)
				if why != "" {
					r.Fail(rule, "populateSDP|unmatched-section|port-zero|shape", c.P.Pos(a.Pos()), why)
				}
			}
		}
	}

	bset := map[int]bool{}
	for _, b := range bnodes {
		bset[b.n] = true
	}
	inHeader := func(x int) bool { return x >= l.headBlock && x <= l.Head }
	for i, b := range bnodes {
		pos := c.P.Pos(g.PosOf(b.n))
		key := "populateSDP|bundle-append"
		if len(bnodes) > 1 {
			key += sprintf("#%d", i+1)
		}
		// operand
		if b.arg == nil {
			r.Undecided(rule, key+"|operand", pos, "cannot identify the value added to the BUNDLE group")
		} else {
			src := c06MidSource(env, g, b.n, b.arg)
			r.Check(src.Class == "section-id" && src.Var == l.ValueVar, rule, key+"|operand", pos, "the group receives this section's id", "the value added to the BUNDLE group is not the id of the section this iteration visits: "+c06Canon(g, b.n, b.arg))
		}
		r.Check(l.iterDominatedByEdges(b.n, sEdges), rule, key+"|only-when-emitted", pos, "reached only through a true test of the emitted-flag", "the section's mid is added to the BUNDLE group on a path where the emitted-flag (shouldAddID) was not tested true: rejected (port 0) sections enter the group")
		r.Check(l.iterDominatedByEdges(b.n, mTrue), rule, key+"|only-when-group-matches", pos, "reached only through a true bundleMatch(section.id)", "the section's mid is added to the BUNDLE group without a true bundleMatch(section.id) test (an answer may bundle a section the offerer did not)")
		var succ []int
		for _, e := range g.Nodes[b.n].Succs {
			succ = append(succ, e.To)
		}
		again := g.Reach(succ, inHeader, nil)
		twice := false
		for bn := range bset {
			if again[bn] {
				twice = true
			}
		}
		r.Check(!twice, rule, key+"|at-most-once", pos, "no second append in the same iteration", "a section's mid can be added to the BUNDLE group twice in one iteration")
	}
	if len(znodes) == 0 {
		r.Fail(rule, "populateSDP|unmatched-section|port-zero", fpos, "an emitted section that is not in the remote BUNDLE group is neither bundled nor has its port zeroed")
	}
	for _, z := range znodes {
		pos := c.P.Pos(g.PosOf(z))
		r.Check(l.iterDominatedByEdges(z, sEdges) && l.iterDominatedByEdges(z, mFalse), rule, "populateSDP|unmatched-section|port-zero", pos,
			"the port is zeroed only for an emitted section that the remote group does not contain", "the port of the last media description is zeroed on a path that is not (emitted && !bundleMatch): a rejected section zeroes the previous section's port, or a bundled one is disabled")
	}
	// exactly one of the two for an emitted section
	w := func(n int) c06Span {
		k := 0
		if bset[n] {
			k++
		}
		for _, z := range znodes {
			if z == n {
				k++
			}
		}
		return c06Span{k, k}
	}
	var es []core.EdgeRef
	for e := range sEdges {
		es = append(es, e)
	}
	sort.Slice(es, func(i, j int) bool {
		return es[i].From < es[j].From || (es[i].From == es[j].From && es[i].Idx < es[j].Idx)
	})
	for _, e := range es {
		if !l.Body[e.From] {
			continue
		}
		to := g.Nodes[e.From].Succs[e.Idx].To
		sp, ok := c06PathCount(g, to, l.headBlock, func(n int) bool { return !l.Body[n] }, nil, w)
		r.Cells++
		r.Check(ok && sp == c06Span{1, 1}, rule, "populateSDP|emitted-section|bundled-xor-port-zero", c.P.Pos(g.PosOf(e.From)),
			"every path of an emitted section either joins the BUNDLE group or zeroes its port, exactly once", "an emitted section passes "+sp.String()+" bundle-append/port-zero statements before the next section (expected exactly 1)")
	}
}

// ---------------------------------------------------------------------------
// addTransceiverSDP / addDataMediaSection: emission points and returns (shared by C06.R2, C07.R3/R4)

type c06Emit struct {
	fi     *core.FuncInfo
	g      *core.Graph
	descr  *types.Var
	normal []int              // emissions of a section with a live port (built by NewJSEPMediaDescription or a literal with a non-zero port)
	reject []int              // emissions of a literal media description with port 0
	other  []int              // emissions whose argument cannot be traced to its creation
	media  map[int]*types.Var // the variable emitted (nil when the argument is an expression)
	argOf  map[int]ast.Expr
	create map[int]ast.Expr   // root of the builder chain that creates the emitted description
	helper map[int]*c06Helper // set when the description is created inside a same-module helper that returns it
}

// c06Helper describes a same-module function that builds and returns a media description
// (`descr.WithMedia(rejectedMediaDescription(kind, mid))`): create[n] then lies in the helper's body.
type c06Helper struct {
	fi    *core.FuncInfo
	g     *core.Graph
	call  *ast.CallExpr // the call, in the emitting function
	ret   int           // the helper's single return node
	expr  ast.Expr      // the returned expression
	media *types.Var    // the returned variable (nil when an expression is returned)
}

// bound returns the caller's argument bound to helper parameter e (nil when e is not an unassigned parameter of the helper).
func (h *c06Helper) bound(e ast.Expr) ast.Expr {
	v := core.VarOf(h.g.Info, e)
	if v == nil || c06AssignedAnywhere(h.g, v) != 0 {
		return nil
	}
	i := c06IsParam(h.g, v)
	if i < 0 || i >= len(h.call.Args) || h.call.Ellipsis.IsValid() {
		return nil
	}
	if sig := h.g.Sig(); sig != nil && sig.Variadic() && i == sig.Params().Len()-1 {
		return nil
	}
	return h.call.Args[i]
}

// c06BuilderHelper recognises root as a call of a same-module function (no receiver chain) with a
// single return statement that returns a media description, and locates its creation expression.
func c06BuilderHelper(p *core.Program, info *types.Info, root ast.Expr) (*c06Helper, ast.Expr) {
	call, ok := ast.Unparen(root).(*ast.CallExpr)
	if !ok {
		return nil, nil
	}
	fi := p.DeclOf(core.Callee(info, call))
	if fi == nil || fi.Decl.Body == nil {
		return nil, nil
	}
	hg := p.GraphOf(fi)
	sig := hg.Sig()
	if sig == nil || sig.Results().Len() != 1 || !c06IsExtNamed(sig.Results().At(0).Type(), c06SDPPkg, "MediaDescription") {
		return nil, nil
	}
	rets := hg.Returns()
	if len(rets) != 1 {
		return nil, nil
	}
	ret, _ := hg.Nodes[rets[0]].Ast.(*ast.ReturnStmt)
	if ret == nil || len(ret.Results) != 1 {
		return nil, nil
	}
	h := &c06Helper{fi: fi, g: hg, call: call, ret: rets[0], expr: ret.Results[0]}
	var croot ast.Expr
	if v := core.VarOf(hg.Info, ret.Results[0]); v != nil {
		h.media = v
		croot = c06Creation(hg, rets[0], v)
	} else {
		_, croot = c06ChainCalls(hg.Info, ret.Results[0])
	}
	if croot == nil {
		return nil, nil
	}
	return h, croot
}

// c06MDLiteral returns the sdp.MediaDescription composite literal e denotes (through & and parentheses).
func c06MDLiteral(info *types.Info, e ast.Expr) *ast.CompositeLit {
	e = ast.Unparen(e)
	if u, ok := e.(*ast.UnaryExpr); ok && u.Op == token.AND {
		e = ast.Unparen(u.X)
	}
	lit, ok := e.(*ast.CompositeLit)
	if !ok || !c06IsExtNamed(info.TypeOf(lit), c06SDPPkg, "MediaDescription") {
		return nil
	}
	return lit
}

func c06LitField(cl *ast.CompositeLit, name string) ast.Expr {
	if cl == nil {
		return nil
	}
	for _, el := range cl.Elts {
		if kv, ok := el.(*ast.KeyValueExpr); ok {
			if id, ok := kv.Key.(*ast.Ident); ok && id.Name == name {
				return kv.Value
			}
		}
	}
	return nil
}

// c06LitPortZero reports whether the literal's MediaName.Port is RangedPort{Value: 0} (known=false when it cannot tell).
func c06LitPortZero(info *types.Info, lit *ast.CompositeLit) (zero, known bool) {
	mn, _ := ast.Unparen(c06LitField(lit, "MediaName")).(*ast.CompositeLit)
	if mn == nil {
		return false, false
	}
	pl, _ := ast.Unparen(c06LitField(mn, "Port")).(*ast.CompositeLit)
	if pl == nil {
		return false, false
	}
	v := c06LitField(pl, "Value")
	if v == nil {
		return true, true
	}
	k, isC := c06ConstInt(info, v)
	if !isC {
		return false, false
	}
	return k == 0, true
}

// c06Creation finds the expression that creates the media description held by v at node `at`:
// the root of the builder chain of its only definition that is not rooted at v itself.
func c06Creation(g *core.Graph, at int, v *types.Var) ast.Expr {
	var roots []ast.Expr
	seen := map[int]bool{}
	var visit func(n int)
	visit = func(n int) {
		for _, d := range c06Defs(g, n, v) {
			if d.Node < 0 || seen[d.Node] {
				if d.Node < 0 {
					roots = append(roots, nil)
				}
				continue
			}
			seen[d.Node] = true
			if d.Kind != "assign" {
				roots = append(roots, nil)
				continue
			}
			_, root := c06ChainCalls(g.Info, d.Rhs)
			if core.VarOf(g.Info, root) == v {
				visit(d.Node) // media = media.WithX(...): look further back
				continue
			}
			roots = append(roots, root)
		}
	}
	visit(at)
	if len(roots) != 1 {
		return nil
	}
	return roots[0]
}

func c06Emissions(env *c06Env, fi *core.FuncInfo) *c06Emit {
	g := env.c.P.GraphOf(fi)
	em := &c06Emit{fi: fi, g: g, media: map[int]*types.Var{}, argOf: map[int]ast.Expr{}, create: map[int]ast.Expr{}, helper: map[int]*c06Helper{}}
	sig := g.Sig()
	for i := 0; i < sig.Params().Len(); i++ {
		if c06IsExtNamed(sig.Params().At(i).Type(), c06SDPPkg, "SessionDescription") {
			em.descr = sig.Params().At(i)
		}
	}
	for _, n := range g.FindNodes(func(x ast.Node) bool {
		call, ok := x.(*ast.CallExpr)
		return ok && c06ExtMethod(g.Info, call, c06SDPPkg, "SessionDescription", "WithMedia")
	}) {
		core.InspectShallow(g.Nodes[n].Ast, func(x ast.Node) bool {
			call, ok := x.(*ast.CallExpr)
			if !ok || !c06ExtMethod(g.Info, call, c06SDPPkg, "SessionDescription", "WithMedia") || len(call.Args) != 1 {
				return true
			}
			em.argOf[n] = call.Args[0]
			var root ast.Expr
			if v := core.VarOf(g.Info, call.Args[0]); v != nil {
				em.media[n] = v
				root = c06Creation(g, n, v)
			} else {
				_, root = c06ChainCalls(g.Info, call.Args[0])
			}
			cinfo := g.Info
			if h, croot := c06BuilderHelper(env.c.P, g.Info, root); h != nil {
				// the description is created by a helper: classify what the helper builds
				em.helper[n] = h
				root, cinfo = croot, h.g.Info
			}
			em.create[n] = root
			switch {
			case root == nil:
				em.other = append(em.other, n)
			case c06MDLiteral(cinfo, root) != nil:
				if zero, known := c06LitPortZero(cinfo, c06MDLiteral(cinfo, root)); known && zero {
					em.reject = append(em.reject, n)
				} else if known {
					em.normal = append(em.normal, n)
				} else {
					em.other = append(em.other, n)
				}
			default:
				if rc, isCall := ast.Unparen(root).(*ast.CallExpr); isCall && c06ExtFunc(cinfo, rc, c06SDPPkg, "NewJSEPMediaDescription") {
					em.normal = append(em.normal, n)
				} else {
					em.other = append(em.other, n)
				}
			}
			return true
		})
	}
	return em
}

// c06TransceiverReturns checks what addTransceiverSDP's boolean result means.
func c06TransceiverReturns(env *c06Env, rule string) {
	c, r := env.c, env.c.R
	em := c06Emissions(env, env.addTr)
	g := em.g
	fpos := c.P.Pos(env.addTr.Decl.Pos())
	if len(em.normal) != 1 || len(em.reject) > 1 || len(em.other) > 0 {
		r.Undecided(rule, "addTransceiverSDP|emission-points", fpos, sprintf("expected one emission of a full section (NewJSEPMediaDescription) and at most one of a port-0 literal, found %d and %d (+%d untraceable)", len(em.normal), len(em.reject), len(em.other)))
		return
	}
	emitW := func(set []int) func(int) c06Span {
		return func(n int) c06Span {
			for _, x := range set {
				if x == n {
					return c06Span{1, 1}
				}
			}
			return c06Span{}
		}
	}
	nT, nF := 0, 0
	for _, rn := range g.Returns() {
		ret := g.Nodes[rn].Ast.(*ast.ReturnStmt)
		if len(ret.Results) != 2 {
			r.Undecided(rule, "addTransceiverSDP|return-shape", c.P.Pos(ret.Pos()), "return does not list (bool, error)")
			continue
		}
		b, isConst := c06ConstBool(g.Info, ret.Results[0])
		errNil := core.IsNilIdent(g.Info, ret.Results[1])
		if !isConst {
			r.Undecided(rule, "addTransceiverSDP|return-shape", c.P.Pos(ret.Pos()), "the boolean result is not a constant")
			continue
		}
		nsp, _ := c06PathCount(g, g.Entry, rn, nil, nil, emitW(em.normal))
		rsp, _ := c06PathCount(g, g.Entry, rn, nil, nil, emitW(em.reject))
		r.Cells += 2
		switch {
		case b && errNil:
			nT++
			r.Check(nsp == c06Span{1, 1} && rsp == c06Span{0, 0}, rule, "addTransceiverSDP|return(true,nil)|after-full-section", c.P.Pos(ret.Pos()),
				"true is returned only after exactly one WithMedia(media) of the full section", sprintf("`true` (emitted) is returned after %s full and %s rejected emissions: a section that was not emitted (or is port 0) is bundled", nsp, rsp))
		case b:
			r.Fail(rule, "addTransceiverSDP|return(true,err)", c.P.Pos(ret.Pos()), "true returned together with an error")
		case errNil:
			nF++
			r.Check(nsp == c06Span{0, 0} && rsp == c06Span{1, 1}, rule, "addTransceiverSDP|return(false,nil)|after-rejected-section", c.P.Pos(ret.Pos()),
				"false is returned only after exactly one WithMedia of the rejected (port 0) section", sprintf("`false, nil` is returned after %s full and %s rejected emissions: the section is dropped, duplicated, or an accepted one is left out of the BUNDLE group", nsp, rsp))
		default:
			r.Check(nsp.Max == 0 && rsp.Max == 0, rule, "addTransceiverSDP|return(false,err)|"+c06Canon(g, rn, ret.Results[1]), c.P.Pos(ret.Pos()),
				"error exit before any emission", "an error is returned after a media section was already appended to the description")
		}
	}
	if nT == 0 {
		r.Fail(rule, "addTransceiverSDP|return(true,nil)|after-full-section", fpos, "addTransceiverSDP never reports an emitted section")
	}
	_ = nF
}

// ---------------------------------------------------------------------------
// R3: attributes of an accepted section

var c06DirNames = map[string]bool{"sendrecv": true, "sendonly": true, "recvonly": true, "inactive": true}

// c06Where is a function body in which builder calls on a media description are looked for, together
// with the mapping of its operands to expressions of the root builder function (identity in the root
// itself; for a helper, a parameter maps to the argument bound to it at the call). toRoot returns nil
// when the operand cannot be expressed in the root function.
type c06Where struct {
	g      *core.Graph
	m      *types.Var
	toRoot func(ast.Expr) ast.Expr
}

// c06AttrKind classifies a builder call found in w.g: any = an attribute of this kind is set,
// exact = it is set to the expected value (judged in the root function).
type c06AttrKind struct {
	name  string
	match func(w *c06Where, call *ast.CallExpr) (any, exact bool)
}

// c06ChainCalls lists the method calls of the receiver chain of e (outermost first) and its root.
func c06ChainCalls(info *types.Info, e ast.Expr) (calls []*ast.CallExpr, root ast.Expr) {
	for {
		e = ast.Unparen(e)
		call, ok := e.(*ast.CallExpr)
		if !ok {
			return calls, e
		}
		rv := c06Recv(info, call)
		if rv == nil {
			return calls, e
		}
		calls = append(calls, call)
		e = rv
	}
}

// c06CallsOnVar lists the builder calls node a applies to media variable m: calls whose receiver
// chain is rooted at m, and the whole chain of an expression assigned to m.
func c06CallsOnVar(info *types.Info, a ast.Node, m *types.Var) []*ast.CallExpr {
	var out []*ast.CallExpr
	seen := map[*ast.CallExpr]bool{}
	add := func(cs []*ast.CallExpr) {
		for _, cl := range cs {
			if !seen[cl] {
				seen[cl] = true
				out = append(out, cl)
			}
		}
	}
	core.InspectShallow(a, func(x ast.Node) bool {
		switch s := x.(type) {
		case *ast.AssignStmt:
			if len(s.Lhs) == len(s.Rhs) {
				for i, l := range s.Lhs {
					if core.VarOf(info, l) == m {
						cs, _ := c06ChainCalls(info, s.Rhs[i])
						add(cs)
					}
				}
			}
		case *ast.ValueSpec:
			if len(s.Values) == len(s.Names) {
				for i, nm := range s.Names {
					if info.Defs[nm] == types.Object(m) {
						cs, _ := c06ChainCalls(info, s.Values[i])
						add(cs)
					}
				}
			}
		case *ast.CallExpr:
			cs, root := c06ChainCalls(info, s)
			if len(cs) > 0 && core.VarOf(info, root) == m {
				add(cs)
			}
		}
		return true
	})
	return out
}

// c06ParamBinder maps the operands of callee hg to the caller's context: an unassigned parameter
// becomes outer(argument bound to it); anything else is not expressible (nil).
func c06ParamBinder(hg *core.Graph, call *ast.CallExpr, outer func(ast.Expr) ast.Expr) func(ast.Expr) ast.Expr {
	return func(e ast.Expr) ast.Expr {
		if e == nil {
			return nil
		}
		v := core.VarOf(hg.Info, e)
		if v == nil || c06AssignedAnywhere(hg, v) != 0 {
			return nil
		}
		i := c06IsParam(hg, v)
		sig := hg.Sig()
		if i < 0 || i >= len(call.Args) || call.Ellipsis.IsValid() || sig == nil || (sig.Variadic() && i == sig.Params().Len()-1) {
			return nil
		}
		return outer(call.Args[i])
	}
}

// c06AttrWeight returns the per-node weight of attribute kind k applied to w.m in w.g. Builder calls made by
// same-module callees that receive the media description, and by a helper that creates and returns it, are
// counted with their operands mapped back through the parameter bindings.
func c06AttrWeight(env *c06Env, w *c06Where, k *c06AttrKind, exact bool, depth int) func(int) c06Span {
	g := w.g
	cache := map[int]c06Span{}
	count := func(hw *c06Where, calls []*ast.CallExpr) int {
		n := 0
		for _, call := range calls {
			an, ex := k.match(hw, call)
			if (exact && ex) || (!exact && an) {
				n++
			}
		}
		return n
	}
	return func(n int) c06Span {
		if v, ok := cache[n]; ok {
			return v
		}
		var sp c06Span
		a := g.Nodes[n].Ast
		if a != nil {
			d := count(w, c06CallsOnVar(g.Info, a, w.m))
			sp = sp.add(c06Span{d, d})
			if depth > 0 {
				for _, call := range core.CallsIn(a) {
					fn := core.Callee(g.Info, call)
					fi := env.c.P.DeclOf(fn)
					if fi == nil || fi.Decl.Body == nil {
						continue
					}
					hg := env.c.P.GraphOf(fi)
					sig := fn.Type().(*types.Signature)
					// (a) the callee receives the media description
					for i, arg := range call.Args {
						if core.VarOf(g.Info, arg) == w.m && i < sig.Params().Len() && !(sig.Variadic() && i == sig.Params().Len()-1) {
							hw := &c06Where{g: hg, m: sig.Params().At(i), toRoot: c06ParamBinder(hg, call, w.toRoot)}
							if hs, ok := c06PathCount(hg, hg.Entry, hg.Exit, nil, nil, c06AttrWeight(env, hw, k, exact, depth-1)); ok {
								sp = sp.add(hs)
							}
						}
					}
					// (b) the callee creates the description that this node assigns to the media variable
					receivesM := false
					for _, arg := range call.Args {
						if core.VarOf(g.Info, arg) == w.m {
							receivesM = true
						}
					}
					if h, _ := c06BuilderHelper(env.c.P, g.Info, call); h != nil && !receivesM && c06AssignsFrom(g.Info, a, w.m, call) {
						hw := &c06Where{g: h.g, m: h.media, toRoot: c06ParamBinder(h.g, call, w.toRoot)}
						if h.media != nil {
							if hs, ok := c06PathCount(h.g, h.g.Entry, h.ret, nil, nil, c06AttrWeight(env, hw, k, exact, depth-1)); ok {
								sp = sp.add(hs)
							}
						} else {
							chain, _ := c06ChainCalls(h.g.Info, h.expr)
							d := count(hw, chain)
							sp = sp.add(c06Span{d, d})
						}
					}
				}
			}
		}
		cache[n] = sp
		return sp
	}
}

// c06AssignsFrom reports whether node a assigns to m an expression whose builder chain is rooted at call.
func c06AssignsFrom(info *types.Info, a ast.Node, m *types.Var, call *ast.CallExpr) bool {
	hit := false
	check := func(lhs ast.Expr, obj types.Object, rhs ast.Expr) {
		if (lhs != nil && core.VarOf(info, lhs) == m) || (obj != nil && obj == types.Object(m)) {
			if _, root := c06ChainCalls(info, rhs); ast.Unparen(root) == ast.Expr(call) {
				hit = true
			}
		}
	}
	core.InspectShallow(a, func(x ast.Node) bool {
		switch s := x.(type) {
		case *ast.AssignStmt:
			if len(s.Lhs) == len(s.Rhs) {
				for i, l := range s.Lhs {
					check(l, nil, s.Rhs[i])
				}
			}
		case *ast.ValueSpec:
			if len(s.Values) == len(s.Names) {
				for i, nm := range s.Names {
					check(nil, info.Defs[nm], s.Values[i])
				}
			}
		}
		return true
	})
	return hit
}

// c06MidParam finds the parameter of fi that populateSDP binds to section.id.
func c06MidParam(env *c06Env, rule string, p *c06Populate, fi *core.FuncInfo, callNodes []int) *types.Var {
	c, r := env.c, env.c.R
	g := p.g
	key := "populateSDP|call:" + fi.Name() + "|mid-argument"
	if len(callNodes) != 1 {
		r.Undecided(rule, key, c.P.Pos(env.populate.Decl.Pos()), sprintf("expected one call of %s in populateSDP, found %d", fi.Name(), len(callNodes)))
		return nil
	}
	var call *ast.CallExpr
	core.InspectShallow(g.Nodes[callNodes[0]].Ast, func(x ast.Node) bool {
		if core.IsCallTo(g.Info, x, fi.Obj) {
			call = x.(*ast.CallExpr)
		}
		return true
	})
	sig := fi.Obj.Type().(*types.Signature)
	var pv *types.Var
	n := 0
	for i, a := range call.Args {
		src := c06MidSource(env, g, callNodes[0], a)
		if src.Class == "section-id" && src.Var == p.loop.ValueVar && i < sig.Params().Len() {
			pv = sig.Params().At(i)
			n++
		}
	}
	pos := c.P.Pos(call.Pos())
	if n != 1 {
		r.Fail(rule, key, pos, sprintf("populateSDP passes the section's id to %d parameter(s) of %s (expected exactly one): the section's a=mid is not the id used for BUNDLE", n, fi.Name()))
		return nil
	}
	if !c06InLoop(p.loop, callNodes[0]) {
		r.Fail(rule, key, pos, "the section builder is not called from the per-section loop")
		return nil
	}
	fg := c.P.GraphOf(fi)
	if c06AssignedAnywhere(fg, pv) != 0 {
		r.Fail(rule, key, pos, "the mid parameter is reassigned inside "+fi.Name())
		return nil
	}
	r.OK(rule, key, pos, "section.id is bound to parameter "+pv.Name())
	return pv
}

func c06InLoop(l *c06Loop, n int) bool { return l.Body[n] }

func c06SectionAttrs(env *c06Env, rule string) {
	c, r := env.c, env.c.R
	p := c06PopulateShape(env, rule)
	if p == nil {
		return
	}
	ufrag := c.mustField(rule, "", "ICEParameters", "UsernameFragment")
	pwd := c.mustField(rule, "", "ICEParameters", "Password")
	dirString := c.mustFunc(rule, "", "RTPTransceiverDirection.String")
	fpAlgo := c.mustField(rule, "", "DTLSFingerprint", "Algorithm")
	fpValue := c.mustField(rule, "", "DTLSFingerprint", "Value")
	if ufrag == nil || pwd == nil || dirString == nil || fpAlgo == nil || fpValue == nil {
		return
	}
	for _, spec := range []struct {
		fi    *core.FuncInfo
		calls []int
	}{{env.addTr, p.addTrN}, {env.addData, p.addDataN}} {
		fi := spec.fi
		g := c.P.GraphOf(fi)
		info := g.Info
		fpos := c.P.Pos(fi.Decl.Pos())
		midParam := c06MidParam(env, rule, p, fi, spec.calls)
		em := c06Emissions(env, fi)
		if len(em.normal) != 1 || len(em.other) > 0 || em.media[em.normal[0]] == nil {
			r.Undecided(rule, fi.Name()+"|accepted-section|emission", fpos, sprintf("expected exactly one emission of a full section held in a variable, found %d (+%d untraceable)", len(em.normal), len(em.other)))
			continue
		}
		target := em.normal[0]
		m := em.media[target]
		sig := g.Sig()
		rootW := &c06Where{g: g, m: m, toRoot: func(e ast.Expr) ast.Expr { return e }}
		isMD := func(ci *types.Info, call *ast.CallExpr, name string) bool {
			return c06ExtMethod(ci, call, c06SDPPkg, "MediaDescription", name)
		}
		rootParam := func(e ast.Expr) *types.Var {
			if e == nil {
				return nil
			}
			v := core.VarOf(info, e)
			if v == nil || c06IsParam(g, v) < 0 || c06AssignedAnywhere(g, v) != 0 {
				return nil
			}
			return v
		}
		keyIs := func(ci *types.Info, call *ast.CallExpr, k string) bool {
			if !isMD(ci, call, "WithValueAttribute") || len(call.Args) != 2 {
				return false
			}
			s, ok := c06ConstString(ci, call.Args[0])
			return ok && s == k
		}
		// rootOperand: pick extracts a sub-operand (e.g. the receiver of X.String()) from e, tried in the body
		// where e is written and, failing that, after mapping e itself to the root function
		rootOperand := func(w *c06Where, e ast.Expr, pick func(ci *types.Info, e ast.Expr) ast.Expr) ast.Expr {
			if sub := pick(w.g.Info, e); sub != nil {
				if re := w.toRoot(sub); re != nil {
					return re
				}
			}
			if re := w.toRoot(e); re != nil {
				return pick(info, re)
			}
			return nil
		}
		stringRecv := func(typeName string) func(ci *types.Info, e ast.Expr) ast.Expr {
			return func(ci *types.Info, e ast.Expr) ast.Expr {
				vc, ok := ast.Unparen(e).(*ast.CallExpr)
				if !ok || !c06ExtMethod(ci, vc, c06SDPPkg, typeName, "String") {
					return nil
				}
				return c06Recv(ci, vc)
			}
		}
		fieldBase := func(fv *types.Var) func(ci *types.Info, e ast.Expr) ast.Expr {
			return func(ci *types.Info, e ast.Expr) ast.Expr {
				se, ok := ast.Unparen(e).(*ast.SelectorExpr)
				if !ok || core.FieldOf(ci, se) != fv {
					return nil
				}
				return se.X
			}
		}
		isDirValue := func(ci *types.Info, e ast.Expr) bool {
			if s, ok := c06ConstString(ci, e); ok {
				return c06DirNames[s]
			}
			vc, ok := ast.Unparen(e).(*ast.CallExpr)
			return ok && core.IsCallTo(ci, vc, dirString.Obj)
		}
		kinds := []*c06AttrKind{
			{name: "setup", match: func(w *c06Where, call *ast.CallExpr) (bool, bool) {
				ci := w.g.Info
				if !keyIs(ci, call, "setup") {
					return false, false
				}
				pv := rootParam(rootOperand(w, call.Args[1], stringRecv("ConnectionRole")))
				return true, pv != nil && c06IsExtNamed(pv.Type(), c06SDPPkg, "ConnectionRole")
			}},
			{name: "mid", match: func(w *c06Where, call *ast.CallExpr) (bool, bool) {
				if !keyIs(w.g.Info, call, "mid") {
					return false, false
				}
				re := w.toRoot(call.Args[1])
				return true, midParam != nil && re != nil && core.VarOf(info, re) == midParam
			}},
			{name: "ice-credentials", match: func(w *c06Where, call *ast.CallExpr) (bool, bool) {
				if !isMD(w.g.Info, call, "WithICECredentials") {
					return false, false
				}
				if len(call.Args) != 2 {
					return true, false
				}
				p0 := rootParam(rootOperand(w, call.Args[0], fieldBase(ufrag)))
				p1 := rootParam(rootOperand(w, call.Args[1], fieldBase(pwd)))
				return true, p0 != nil && p0 == p1
			}},
			{name: "direction", match: func(w *c06Where, call *ast.CallExpr) (bool, bool) {
				ci := w.g.Info
				if !isMD(ci, call, "WithPropertyAttribute") || len(call.Args) != 1 {
					return false, false
				}
				if isDirValue(ci, call.Args[0]) {
					return true, true
				}
				// a helper parameter that the caller binds to a direction string
				if w.g != g {
					if re := w.toRoot(call.Args[0]); re != nil && isDirValue(info, re) {
						return true, true
					}
				}
				return false, false
			}},
		}
		for _, k := range kinds {
			ex, ok1 := c06PathCount(g, g.Entry, target, nil, nil, c06AttrWeight(env, rootW, k, true, 2))
			an, ok2 := c06PathCount(g, g.Entry, target, nil, nil, c06AttrWeight(env, rootW, k, false, 2))
			r.Cells += 2
			key := fi.Name() + "|accepted-section|" + k.name
			pos := c.P.Pos(g.PosOf(target))
			switch {
			case !ok1 || !ok2:
				r.Undecided(rule, key, pos, "the emission point is not reachable")
			case k.name == "direction":
				r.Check(an == c06Span{1, 1}, rule, key, pos, "exactly one direction attribute on every path to the emission",
					"the accepted section carries "+an.String()+" direction attributes on some path to its emission (exactly one required)")
			case ex == c06Span{1, 1} && an == c06Span{1, 1}:
				r.OK(rule, key, pos, "set exactly once, from the expected parameter, on every path to the emission")
			case ex.Min == 0 && an == (c06Span{1, 1}):
				r.Fail(rule, key, pos, "the "+k.name+" attribute of the accepted section is not taken from the parameter the caller provides (mid: the id populateSDP uses for BUNDLE; setup: the negotiated role; ICE: ufrag then password)")
			default:
				r.Fail(rule, key, pos, sprintf("on the paths to the emission of the accepted section the %s attribute is set %s time(s) from the expected parameter and %s time(s) in total (exactly once required)", k.name, ex, an))
			}
		}
		// fingerprints: one range loop over the []DTLSFingerprint parameter whose body applies WithFingerprint(f.Algorithm, …f.Value…)
		// to the media description; the loop may live in a helper that receives both
		var fpParam *types.Var
		for i := 0; i < sig.Params().Len(); i++ {
			if sl, ok := sig.Params().At(i).Type().(*types.Slice); ok && c06IsNamed(sl.Elem(), c.P.Named("", "DTLSFingerprint")) {
				fpParam = sig.Params().At(i)
			}
		}
		var fpWeight func(cg *core.Graph, mv, fpv *types.Var, depth int) func(int) c06Span
		fpWeight = func(cg *core.Graph, mv, fpv *types.Var, depth int) func(int) c06Span {
			ci := cg.Info
			fpNodes := map[int]bool{}
			if fpv != nil && c06AssignedAnywhere(cg, fpv) == 0 {
				for _, l := range c06RangeLoops(cg) {
					if core.VarOf(ci, l.Range.X) != fpv || l.ValueVar == nil {
						continue
					}
					good := false
					for n := range l.Body {
						if cg.Nodes[n].Ast == nil {
							continue
						}
						for _, call := range c06CallsOnVar(ci, cg.Nodes[n].Ast, mv) {
							if !isMD(ci, call, "WithFingerprint") || len(call.Args) != 2 {
								continue
							}
							r0, _, _ := c06FieldPath(ci, call.Args[0])
							usesValue := false
							ast.Inspect(call.Args[1], func(x ast.Node) bool {
								if se, ok := x.(*ast.SelectorExpr); ok && core.FieldOf(ci, se) == fpValue && core.VarOf(ci, se.X) == l.ValueVar {
									usesValue = true
								}
								return true
							})
							if r0 == l.ValueVar && core.FieldOf(ci, call.Args[0]) == fpAlgo && usesValue {
								good = true
							}
						}
					}
					if good {
						// the operand node of the range is evaluated once, before the loop
						for _, nd := range cg.Nodes {
							if nd.Ast == ast.Node(l.Range.X) {
								fpNodes[nd.ID] = true
							}
						}
					}
				}
			}
			cache := map[int]c06Span{}
			return func(n int) c06Span {
				if v, ok := cache[n]; ok {
					return v
				}
				var sp c06Span
				if fpNodes[n] {
					sp = c06Span{1, 1}
				}
				if a := cg.Nodes[n].Ast; a != nil && depth > 0 && fpv != nil {
					for _, call := range core.CallsIn(a) {
						fn := core.Callee(ci, call)
						hfi := c.P.DeclOf(fn)
						if hfi == nil || hfi.Decl.Body == nil {
							continue
						}
						hsig := fn.Type().(*types.Signature)
						var hm, hf *types.Var
						for i, arg := range call.Args {
							if i >= hsig.Params().Len() || (hsig.Variadic() && i == hsig.Params().Len()-1) {
								continue
							}
							switch core.VarOf(ci, arg) {
							case mv:
								hm = hsig.Params().At(i)
							case fpv:
								hf = hsig.Params().At(i)
							}
						}
						if hm != nil && hf != nil {
							hg := c.P.GraphOf(hfi)
							if hs, ok := c06PathCount(hg, hg.Entry, hg.Exit, nil, nil, fpWeight(hg, hm, hf, depth-1)); ok {
								sp = sp.add(hs)
							}
						}
					}
				}
				cache[n] = sp
				return sp
			}
		}
		sp, ok := c06PathCount(g, g.Entry, target, nil, nil, fpWeight(g, m, fpParam, 2))
		r.Cells++
		r.Check(ok && sp == c06Span{1, 1}, rule, fi.Name()+"|accepted-section|fingerprint-loop", c.P.Pos(g.PosOf(target)),
			"every path to the emission runs one loop adding WithFingerprint(f.Algorithm, f.Value) for the fingerprint parameter", "the accepted section passes "+sp.String()+" fingerprint loops over the fingerprint parameter (with media-level fingerprints enabled the section would carry none, or duplicates)")

		// a success return implies the emission
		for _, rn := range g.Returns() {
			ret := g.Nodes[rn].Ast.(*ast.ReturnStmt)
			if len(ret.Results) == 0 || !core.IsNilIdent(info, ret.Results[len(ret.Results)-1]) {
				continue
			}
			if len(ret.Results) == 2 {
				if b, ok := c06ConstBool(info, ret.Results[0]); ok && !b {
					continue // the rejected path (C07.R4)
				}
			}
			r.Check(g.Dominated(rn, core.NodeSet([]int{target})), rule, fi.Name()+"|success-return|after-emission", c.P.Pos(ret.Pos()),
				"the success return is dominated by the emission", "a success return is reachable without emitting the section")
		}
	}
}

// ---------------------------------------------------------------------------
// R3 (E1): fingerprint placement decided by mediaDescriptionFingerprint

func c06Fingerprints(env *c06Env, rule string) {
	c, r := env.c, env.c.R
	fi := env.populate
	g := c.P.GraphOf(fi)
	sig := g.Sig()
	pos := c.P.Pos(fi.Decl.Pos())
	fpIdx, flagIdx := -1, -1
	for i := 0; i < sig.Params().Len(); i++ {
		pv := sig.Params().At(i)
		if sl, ok := pv.Type().(*types.Slice); ok && c06IsNamed(sl.Elem(), c.P.Named("", "DTLSFingerprint")) {
			fpIdx = i
		}
	}
	// the flag is the boolean parameter that guards the session-level WithFingerprint
	var sessFP []int
	for _, n := range g.FindNodes(func(x ast.Node) bool {
		call, ok := x.(*ast.CallExpr)
		return ok && c06ExtMethod(g.Info, call, c06SDPPkg, "SessionDescription", "WithFingerprint")
	}) {
		sessFP = append(sessFP, n)
	}
	if fpIdx < 0 || len(sessFP) == 0 {
		r.Fail(rule, "populateSDP|fingerprints|session-level", pos, "populateSDP has no session-level WithFingerprint emission (or no fingerprint parameter): with media-level fingerprints disabled the description carries none")
		return
	}
	for i := 0; i < sig.Params().Len(); i++ {
		pv := sig.Params().At(i)
		if b, ok := pv.Type().Underlying().(*types.Basic); !ok || b.Info()&types.IsBoolean == 0 {
			continue
		}
		edges := c06EdgesWhere(g, func(from int, f c06Fact) bool { return c06BoolVarFact(g.Info, f, pv, false) })
		if len(edges) > 0 && g.DominatedByEdges(sessFP[0], edges) {
			flagIdx = i
		}
	}
	if flagIdx < 0 {
		r.Fail(rule, "populateSDP|fingerprints|session-level", c.P.Pos(g.PosOf(sessFP[0])), "the session-level fingerprint emission is not guarded by a false test of a boolean parameter (mediaDescriptionFingerprint): fingerprints appear at both levels or the placement flag is ignored")
		return
	}
	fpKey, flagKey := sprintf("$p%d", fpIdx), sprintf("$p%d", flagIdx)
	argIndex := func(fn *core.FuncInfo) int {
		s := fn.Obj.Type().(*types.Signature)
		for i := 0; i < s.Params().Len(); i++ {
			if sl, ok := s.Params().At(i).Type().(*types.Slice); ok && c06IsNamed(sl.Elem(), c.P.Named("", "DTLSFingerprint")) {
				return i
			}
		}
		return -1
	}
	iTr, iData := argIndex(env.addTr), argIndex(env.addData)
	if iTr < 0 || iData < 0 {
		r.Undecided(rule, "populateSDP|fingerprints|builder-parameters", pos, "a section builder has no []DTLSFingerprint parameter")
		return
	}
	secKey := ""
	for i := 0; i < sig.Params().Len(); i++ {
		if sl, ok := sig.Params().At(i).Type().(*types.Slice); ok && c06IsNamed(sl.Elem(), env.msType) {
			secKey = sprintf("$p%d", i)
		}
	}
	intT := types.Typ[types.Int]
	dims := []absint.Dim{
		{Key: flagKey, Domain: []absint.Val{absint.BoolVal(false), absint.BoolVal(true)}},
		{Key: "len(" + fpKey + ")", Domain: []absint.Val{absint.IntVal(1, intT)}},
		{Key: "len(" + secKey + ")", Domain: []absint.Val{absint.IntVal(1, intT)}},
		{Key: secKey + "[0].data", Domain: []absint.Val{absint.BoolVal(false), absint.BoolVal(true)}},
	}
	t := absint.Tabulate(absint.Config{P: c.P, Dims: dims, MaxPaths: 200000,
		OnCall: func(in *absint.Interp, st *absint.State, call *ast.CallExpr, fn *types.Func, recv absint.Val, args []absint.Val) (absint.Val, bool) {
			switch {
			case fn == env.addTr.Obj && iTr < len(args):
				st.Emit("media-fp:" + args[iTr].String())
				return absint.Tuple{absint.Top{}, absint.Top{}}, true
			case fn == env.addData.Obj && iData < len(args):
				st.Emit("media-fp:" + args[iData].String())
				return absint.Top{}, true
			case fn.Name() == "WithFingerprint" && fn.Pkg() != nil && fn.Pkg().Path() == c06SDPPkg:
				if c06ExtMethod(g.Info, call, c06SDPPkg, "SessionDescription", "WithFingerprint") {
					st.Emit("session-fp")
				}
				return absint.Top{}, true
			}
			return nil, false
		}}, fi)
	if tableProblems(c, rule, "populateSDP|fingerprints|table", pos, t) {
		return
	}
	r.Cells += len(t.Rows)
	for _, row := range t.Rows {
		flag := row.Get(flagKey) == "true"
		data := row.Get(secKey+"[0].data") == "true"
		key := sprintf("populateSDP|fingerprints|mediaLevel=%v,dataSection=%v", flag, data)
		bad := ""
		succ := 0
		for _, o := range row.Outcomes {
			if o.Panic != "" {
				bad = "indefinite outcome " + o.String()
				continue
			}
			// error exits return a nil description
			if len(o.Results) == 2 {
				if _, isNil := o.Results[0].(absint.Nil); isNil {
					continue
				}
			}
			succ++
			nMedia, nMediaFull, nSess := 0, 0, 0
			for _, ev := range o.Trace {
				switch {
				case strings.HasPrefix(ev, "media-fp:"):
					nMedia++
					if ev == "media-fp:ref("+fpKey+")" {
						nMediaFull++
					} else if ev != "media-fp:[]" {
						bad = "a section builder receives neither the fingerprint list nor an empty list: " + ev
					}
				case ev == "session-fp":
					nSess++
				}
			}
			switch {
			case bad != "":
			case nMedia != 1:
				bad = sprintf("one section must reach exactly one section builder, trace %v", o.Trace)
			case flag && (nMediaFull != 1 || nSess != 0):
				bad = sprintf("media-level placement requested: the builder must receive the fingerprints and none may be emitted at session level; trace %v", o.Trace)
			case !flag && (nMediaFull != 0 || nSess != 1):
				bad = sprintf("session-level placement requested: the builder must receive no fingerprints and each fingerprint must be emitted once at session level; trace %v", o.Trace)
			}
		}
		if succ == 0 && bad == "" {
			bad = "no successful outcome computed"
		}
		r.Check(bad == "", rule, key, pos, sprintf("%d outcome(s): fingerprints at exactly one level", succ), bad)
	}
}
