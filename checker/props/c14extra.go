package props

import (
	"go/ast"
	"go/constant"
	"go/token"
	"go/types"

	"golang.org/x/tools/go/ssa"

	"verif/checker/core"
)

// c14ClientAuth (C14.R6): when pion is the DTLS server the peer's certificate
// is only checked against the signaled fingerprint if the client is REQUIRED to
// present one. The ClientAuth handed to pion/dtls must therefore default to
// RequireAnyClientCert (or stricter); the only other source may be the
// application's explicit SettingEngine override.
func c14ClientAuth(c *Ctx) {
	r := c.R
	r.Rule("C14.R6", "server side: the ClientAuth option passed to pion/dtls defaults to RequireAnyClientCert (a client that sends no certificate must not complete the handshake unverified); the only other source is the SettingEngine override field", 2)
	fi := c.mustFunc("C14.R6", "", "DTLSTransport.toDTLSServerOptions")
	withCA := c.P.ExternalFuncObj("github.com/pion/dtls/v3", "WithClientAuth")
	fOverride := c.P.FieldDeep("", "SettingEngine", "dtls", "clientAuth")
	if fi == nil {
		return
	}
	if withCA == nil {
		r.Fail("C14.R6", "anchor:dtls.WithClientAuth", "-", "pion/dtls WithClientAuth no longer resolves (fails closed)")
		return
	}
	var want *types.Const
	var stricter []*types.Const
	if pk := withCA.Pkg(); pk != nil {
		want, _ = pk.Scope().Lookup("RequireAnyClientCert").(*types.Const)
		if k, ok := pk.Scope().Lookup("RequireAndVerifyClientCert").(*types.Const); ok {
			stricter = append(stricter, k)
		}
	}
	if want == nil {
		r.Fail("C14.R6", "anchor:dtls.RequireAnyClientCert", "-", "pion/dtls RequireAnyClientCert no longer resolves (fails closed)")
		return
	}
	fn := c.P.SSAFunc(fi)
	pos := c.P.Pos(fi.Decl.Pos())
	calls := core.SSACallsTo(fn, withCA)
	if len(calls) == 0 {
		r.Fail("C14.R6", "toDTLSServerOptions|WithClientAuth", pos, "the server options no longer set a ClientAuth policy: pion/dtls' default does not require a client certificate, so a peer without certificate connects unverified")
		return
	}
	for i, call := range calls {
		key := sprintf("toDTLSServerOptions|WithClientAuth#%d", i)
		if len(call.Common().Args) != 1 {
			r.Undecided("C14.R6", key, c.P.Pos(call.Pos()), "WithClientAuth no longer takes one argument")
			continue
		}
		d := core.ValueDeps(call.Common().Args[0])
		r.Cells += len(d.Values)
		bad := ""
		nConst := 0
		for v := range d.Values {
			k, ok := v.(*ssa.Const)
			if !ok || k.Value == nil || !types.Identical(k.Type(), want.Type()) {
				continue
			}
			nConst++
			okv := constant.Compare(k.Value, token.EQL, want.Val())
			for _, s := range stricter {
				if constant.Compare(k.Value, token.EQL, s.Val()) {
					okv = true
				}
			}
			if !okv {
				bad = "the default ClientAuth is " + k.Value.ExactString() + ", not RequireAnyClientCert: a DTLS client that sends no certificate completes the handshake without any fingerprint check"
			}
		}
		if nConst == 0 && bad == "" {
			bad = "no constant default for ClientAuth found"
		}
		for f := range d.Fields {
			if fOverride != nil && f == fOverride {
				continue
			}
			// fields on the access path to the override (t.api, api.settingEngine, settingEngine.dtls) are fine
			if f.Name() == "api" || f.Name() == "settingEngine" || f.Name() == "dtls" {
				continue
			}
			bad = "ClientAuth is also taken from field " + f.Name() + " (only the SettingEngine override may replace the default)"
		}
		r.Check(bad == "", "C14.R6", key, c.P.Pos(call.Pos()), "defaults to RequireAnyClientCert; override only from SettingEngine", bad)
	}
	// every path of toDTLSServerOptions passes the option: the call dominates the exit
	g := c.P.GraphOf(fi)
	nodes := g.FindNodes(func(n ast.Node) bool {
		call, ok := n.(*ast.CallExpr)
		return ok && core.Callee(g.Info, call) == withCA
	})
	r.Check(len(nodes) > 0 && g.Dominated(g.Exit, core.NodeSet(nodes)), "C14.R6", "toDTLSServerOptions|WithClientAuth-on-every-path", pos,
		"every path builds the server options with the ClientAuth policy", "a path through toDTLSServerOptions omits WithClientAuth")
}

// c14CertEquals (C14.R7 / C38.R4): Certificate.Equals is the guard that lets
// SetConfiguration keep "advertised certificate = presented certificate". It may
// answer true only when the X.509 certificates are Equal (C14), and it must not
// compare key material by pointer/interface identity (a re-imported certificate
// carries freshly parsed keys; C38's PEM round trip).
func c14CertEquals(c *Ctx, ruleTrue, ruleIdent string) {
	r := c.R
	fi := c.mustFunc(ruleTrue, "", "Certificate.Equals")
	fX := c.mustField(ruleTrue, "", "Certificate", "x509Cert")
	if fi == nil || fX == nil {
		return
	}
	g := c.P.GraphOf(fi)
	info := g.Info
	sig := fi.Obj.Type().(*types.Signature)
	recv, param := sig.Recv(), sig.Params().At(0)
	isX509Equal := func(e ast.Expr) bool {
		call, ok := ast.Unparen(e).(*ast.CallExpr)
		if !ok || len(call.Args) != 1 {
			return false
		}
		fn := core.Callee(info, call)
		if fn == nil || fn.Name() != "Equal" || fn.Pkg() == nil || fn.Pkg().Path() != "crypto/x509" {
			return false
		}
		sel, ok := ast.Unparen(call.Fun).(*ast.SelectorExpr)
		if !ok {
			return false
		}
		side := func(e ast.Expr) *types.Var {
			se, ok := ast.Unparen(e).(*ast.SelectorExpr)
			if !ok || core.FieldOf(info, se) != fX {
				return nil
			}
			return core.VarOf(info, se.X)
		}
		a, b := side(sel.X), side(call.Args[0])
		return a != nil && b != nil && a != b && (a == recv || a == param) && (b == recv || b == param)
	}
	var impliesEqual func(e ast.Expr) bool
	impliesEqual = func(e ast.Expr) bool {
		e = ast.Unparen(e)
		if tv, ok := info.Types[e]; ok && tv.Value != nil && tv.Value.Kind() == constant.Bool && !constant.BoolVal(tv.Value) {
			return true // constant false
		}
		if isX509Equal(e) {
			return true
		}
		if be, ok := e.(*ast.BinaryExpr); ok && be.Op == token.LAND {
			return impliesEqual(be.X) || impliesEqual(be.Y)
		}
		return false
	}
	n := 0
	for _, id := range g.Returns() {
		rs := g.Nodes[id].Ast.(*ast.ReturnStmt)
		if len(rs.Results) != 1 {
			continue
		}
		n++
		r.Check(impliesEqual(rs.Results[0]), ruleTrue, sprintf("Certificate.Equals|return#%d", n), c.P.Pos(rs.Pos()),
			"returns false or a value that implies x509Cert.Equal", "Certificate.Equals can return true without the two X.509 certificates being Equal: SetConfiguration then accepts a different certificate, so the advertised fingerprint and the certificate the DTLS transport presents diverge")
	}
	if n == 0 {
		r.Undecided(ruleTrue, "Certificate.Equals|returns", c.P.Pos(fi.Decl.Pos()), "no return statements found")
	}
	// identity comparisons
	m := 0
	ast.Inspect(fi.Decl.Body, func(x ast.Node) bool {
		be, ok := x.(*ast.BinaryExpr)
		if !ok || (be.Op != token.EQL && be.Op != token.NEQ) {
			return true
		}
		if core.IsNilIdent(info, be.X) || core.IsNilIdent(info, be.Y) {
			return true
		}
		t := info.TypeOf(be.X)
		if t == nil {
			return true
		}
		switch t.Underlying().(type) {
		case *types.Pointer, *types.Interface:
			m++
			r.Fail(ruleIdent, sprintf("Certificate.Equals|identity-comparison#%d", m), c.P.Pos(be.Pos()),
				"`"+exprStr(be)+"` compares "+t.String()+" values by identity: two certificates holding equal keys in different allocations (e.g. after PEM export and re-import) are reported unequal")
		}
		return true
	})
	if m == 0 {
		r.OK(ruleIdent, "Certificate.Equals|no-identity-comparison", c.P.Pos(fi.Decl.Pos()), "key material is compared by value")
	}
}
