package props

import (
	"go/types"
	"sort"

	"verif/checker/absint"
	"verif/checker/core"
)

// intervalDim is an integer dimension that the code may only compare with
// constants. Its domain is the partition induced by those constants (plus the
// oracle's own boundaries): representatives c-1, c, c+1 for every constant c,
// clamped to [Min, Max], plus Min and Max. Because behaviour is constant on
// every interval between consecutive constants, the representatives decide
// every value.
type intervalDim struct {
	Key      string
	Min, Max int64
	Type     types.Type
	Seeds    []int64 // oracle boundaries
}

// tabulateIntervals iterates Tabulate until the discovered comparison
// constants of each interval dimension are stable. extra are ordinary dimensions.
// It returns the final table, the representative sets, and a list of reasons the
// partition argument does not apply (dimension values escaping into arithmetic etc.).
func tabulateIntervals(p *core.Program, base absint.Config, root *core.FuncInfo, ivs []intervalDim, extra []absint.Dim) (*absint.Table, map[string][]int64, []string) {
	consts := map[string]map[int64]bool{}
	for _, iv := range ivs {
		consts[iv.Key] = map[int64]bool{}
		for _, s := range iv.Seeds {
			consts[iv.Key][s] = true
		}
	}
	reps := func(iv intervalDim) []int64 {
		set := map[int64]bool{iv.Min: true, iv.Max: true}
		for c := range consts[iv.Key] {
			for _, v := range []int64{c - 1, c, c + 1} {
				if v >= iv.Min && v <= iv.Max {
					set[v] = true
				}
			}
		}
		var out []int64
		for v := range set {
			out = append(out, v)
		}
		sort.Slice(out, func(i, j int) bool { return out[i] < out[j] })
		return out
	}
	var t *absint.Table
	final := map[string][]int64{}
	for round := 0; round < 8; round++ {
		cfg := base
		cfg.Dims = append([]absint.Dim{}, extra...)
		for _, iv := range ivs {
			var dom []absint.Val
			rs := reps(iv)
			final[iv.Key] = rs
			for _, v := range rs {
				dom = append(dom, absint.IntVal(v, iv.Type))
			}
			cfg.Dims = append(cfg.Dims, absint.Dim{Key: iv.Key, Domain: dom})
		}
		t = absint.Tabulate(cfg, root)
		grew := false
		for _, iv := range ivs {
			for _, c := range t.DimConsts[iv.Key] {
				if !consts[iv.Key][c] {
					consts[iv.Key][c] = true
					grew = true
				}
			}
		}
		if !grew {
			break
		}
	}
	var escapes []string
	for _, iv := range ivs {
		for _, e := range t.DimEscape[iv.Key] {
			escapes = append(escapes, iv.Key+": "+e)
		}
	}
	return t, final, escapes
}
