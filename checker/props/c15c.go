package props

import (
	"go/ast"
	"go/types"

	"verif/checker/absint"
)

// c15R6: meaning of the H.264 profile comparison used by exact codec matching.
//
// RFC 6184 §8.1 / §8.2.2: two H.264 configurations are the same codec
// configuration only when profile_idc and profile-iop (the first two bytes of
// profile-level-id) agree; the level (third byte) may differ. pion's
// profileLevelIDMatches is tabulated over (decodable?, length, byte values) of
// both operands with hex.DecodeString stubbed, and must be true exactly when
// both ids decode to at least two bytes whose first two bytes are equal.
// (Added after seed C23-m1: comparing only profile_idc lets a Constrained
// Baseline track bind to the plain Baseline payload type.)
func c15R6(c *Ctx, rule string) {
	r := c.R
	fi := c.mustFunc(rule, "internal/fmtp", "profileLevelIDMatches")
	if fi == nil {
		return
	}
	pos := c.P.Pos(fi.Decl.Pos())
	u8 := types.Typ[types.Uint8]
	kinds := []absint.Val{absint.StrVal("err"), absint.StrVal("len1"), absint.StrVal("len2"), absint.StrVal("len3")}
	bytesDom := []absint.Val{absint.IntVal(0x42, u8), absint.IntVal(0x64, u8)}
	dims := []absint.Dim{}
	for _, side := range []string{"a", "b"} {
		dims = append(dims, absint.Dim{Key: side + ".kind", Domain: kinds})
		for _, k := range []string{"0", "1", "2"} {
			dims = append(dims, absint.Dim{Key: side + "." + k, Domain: bytesDom})
		}
	}
	t := absint.Tabulate(absint.Config{P: c.P, Dims: dims,
		OnCall: func(in *absint.Interp, st *absint.State, call *ast.CallExpr, fn *types.Func, recv absint.Val, args []absint.Val) (absint.Val, bool) {
			if fn.Pkg() == nil || fn.Pkg().Path() != "encoding/hex" || fn.Name() != "DecodeString" || len(args) != 1 {
				return nil, false
			}
			ref, ok := args[0].(absint.Ref)
			if !ok {
				return nil, false
			}
			side := map[string]string{"$p0": "a", "$p1": "b"}[ref.Path]
			if side == "" {
				return nil, false
			}
			kind, _ := st.Dim(side + ".kind")
			elem := func(k string) absint.Val { v, _ := st.Dim(side + "." + k); return v }
			switch kind.String() {
			case `"err"`:
				return absint.Tuple{absint.SliceVal{}, absint.NonNil{Desc: "hex error"}}, true
			case `"len1"`:
				return absint.Tuple{absint.SliceVal{Elems: []absint.Val{elem("0")}}, absint.Nil{}}, true
			case `"len2"`:
				return absint.Tuple{absint.SliceVal{Elems: []absint.Val{elem("0"), elem("1")}}, absint.Nil{}}, true
			default:
				return absint.Tuple{absint.SliceVal{Elems: []absint.Val{elem("0"), elem("1"), elem("2")}}, absint.Nil{}}, true
			}
		}}, fi)
	if tableProblems(c, rule, "profileLevelIDMatches|table", pos, t) {
		return
	}
	r.Cells += len(t.Rows)
	type cell struct{ bad string }
	byKinds := map[string]*cell{}
	var order []string
	for _, row := range t.Rows {
		ka, kb := row.Get("a.kind"), row.Get("b.kind")
		k := ka + "," + kb
		if byKinds[k] == nil {
			byKinds[k] = &cell{}
			order = append(order, k)
		}
		okA := ka == `"len2"` || ka == `"len3"`
		okB := kb == `"len2"` || kb == `"len3"`
		want := okA && okB && row.Get("a.0") == row.Get("b.0") && row.Get("a.1") == row.Get("b.1")
		if len(row.Outcomes) != 1 || len(row.Outcomes[0].Results) != 1 || row.Outcomes[0].Panic != "" {
			byKinds[k].bad = "no single definite result for " + absint.Describe(dims, row.Valuation) + ": " + outcomesStr(row.Outcomes)
			continue
		}
		got := row.Outcomes[0].Results[0]
		if (want && !absint.IsTrue(got)) || (!want && !absint.IsFalse(got)) {
			byKinds[k].bad = sprintf("for %s the result is %s, but profile_idc/profile-iop (bytes 0 and 1) are %s", absint.Describe(dims, row.Valuation), got,
				map[bool]string{true: "equal and both ids are well formed: must match", false: "not both equal (or an id is malformed): must not match"}[want])
		}
	}
	for _, k := range order {
		r.Check(byKinds[k].bad == "", rule, "profileLevelIDMatches|operands="+k, pos, "true exactly when both ids are well formed and agree on their first two bytes", byKinds[k].bad)
	}
}
