package props

import (
	"go/ast"
	"go/token"
	"go/types"

	"verif/checker/core"
)

// c19R3: per-channel storage of in-band parameters.
//
// The accept loop hands `&val` / `&sid` to the DataChannelParameters of every
// remotely created channel, and the channel keeps those pointers for its
// lifetime (MaxRetransmits(), MaxPacketLifeTime(), ID()). The pointed-to
// variables must therefore be fresh per accepted channel, i.e. declared inside
// the loop body: a variable declared outside the loop is shared by all
// channels, and each later accept rewrites what the earlier channels report.
// (Added after seed C19-m2: the loop locals were hoisted in front of the loop.)
func c19R3(c *Ctx) {
	r := c.R
	accept := c.mustFunc("C19.R3", "", "SCTPTransport.acceptDataChannels")
	newDC := c.mustFunc("C19.R3", "", "API.newDataChannel")
	params := c.P.Named("", "DataChannelParameters")
	if accept == nil || newDC == nil || params == nil {
		if params == nil {
			r.Fail("C19.R3", "anchor:DataChannelParameters", "-", "type no longer resolves")
		}
		return
	}
	info := accept.Pkg.TypesInfo
	pos := c.P.Pos(accept.Decl.Pos())
	// the loop that constructs the channels: innermost for/range containing the newDataChannel call
	var loop ast.Stmt
	var call *ast.CallExpr
	var stack []ast.Node
	ast.Inspect(accept.Decl.Body, func(n ast.Node) bool {
		if n == nil {
			stack = stack[:len(stack)-1]
			return false
		}
		stack = append(stack, n)
		if ce, ok := n.(*ast.CallExpr); ok && core.Callee(info, ce) == newDC.Obj {
			call = ce
			for i := len(stack) - 1; i >= 0; i-- {
				switch s := stack[i].(type) {
				case *ast.ForStmt:
					if loop == nil {
						loop = s
					}
				case *ast.RangeStmt:
					if loop == nil {
						loop = s
					}
				}
			}
		}
		return true
	})
	if call == nil || loop == nil {
		r.Undecided("C19.R3", "acceptDataChannels|construction-loop", pos, "no loop calling newDataChannel found")
		return
	}
	var body *ast.BlockStmt
	switch s := loop.(type) {
	case *ast.ForStmt:
		body = s.Body
	case *ast.RangeStmt:
		body = s.Body
	}
	// the parameters literal
	var lit *ast.CompositeLit
	for _, a := range call.Args {
		ast.Inspect(a, func(n ast.Node) bool {
			if cl, ok := n.(*ast.CompositeLit); ok && types.Identical(info.TypeOf(cl), params) {
				lit = cl
			}
			return true
		})
	}
	if lit == nil {
		r.Undecided("C19.R3", "acceptDataChannels|parameters-literal", c.P.Pos(call.Pos()), "newDataChannel is not called with a DataChannelParameters literal")
		return
	}
	// address-of expressions that reach a field of the literal: directly, or through a local pointer variable
	addrOf := func(e ast.Expr) *types.Var {
		u, ok := ast.Unparen(e).(*ast.UnaryExpr)
		if !ok || u.Op != token.AND {
			return nil
		}
		return core.VarOf(info, u.X)
	}
	n := 0
	judge := func(field string, v *types.Var, at token.Pos) {
		n++
		inside := v.Pos() >= body.Lbrace && v.Pos() <= body.Rbrace
		r.Check(inside, "C19.R3", "acceptDataChannels|"+field+"|points-to-per-channel-variable", c.P.Pos(at),
			"&"+v.Name()+" is a variable of the loop body (fresh for every accepted channel)",
			"the channel keeps a pointer to `"+v.Name()+"`, which is declared outside the accept loop: every channel created in-band shares it, so a later accept rewrites the "+field+" that earlier channels report")
	}
	for _, el := range lit.Elts {
		kv, ok := el.(*ast.KeyValueExpr)
		if !ok {
			continue
		}
		field := exprStr(kv.Key)
		if v := addrOf(kv.Value); v != nil {
			judge(field, v, kv.Value.Pos())
			continue
		}
		pv := core.VarOf(info, kv.Value)
		if pv == nil {
			continue
		}
		if _, isPtr := pv.Type().Underlying().(*types.Pointer); !isPtr {
			continue
		}
		// every assignment `pv = &x` in the function
		ast.Inspect(accept.Decl.Body, func(x ast.Node) bool {
			as, ok := x.(*ast.AssignStmt)
			if !ok {
				return true
			}
			for i, l := range as.Lhs {
				if core.VarOf(info, l) == pv && i < len(as.Rhs) {
					if v := addrOf(as.Rhs[i]); v != nil {
						judge(field, v, as.Rhs[i].Pos())
					}
				}
			}
			return true
		})
		// the pointer variable itself must be per-iteration too (else a stale pointer of the previous channel survives)
		n++
		inside := pv.Pos() >= body.Lbrace && pv.Pos() <= body.Rbrace
		r.Check(inside, "C19.R3", "acceptDataChannels|"+field+"|pointer-variable-per-channel", c.P.Pos(kv.Value.Pos()),
			pv.Name()+" is declared in the loop body (starts nil for every channel)",
			"`"+pv.Name()+"` is declared outside the accept loop: a channel type that does not set it inherits the previous channel's pointer")
	}
	if n == 0 {
		r.Undecided("C19.R3", "acceptDataChannels|pointer-parameters", c.P.Pos(lit.Pos()), "no pointer-valued parameter found in the literal")
	}
}
