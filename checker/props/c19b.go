package props

import (
	"go/ast"
	"go/token"
	"go/types"

	"verif/checker/core"
)

// c19R3: per-channel storage of in-band parameters.
//
// The accept loop hands `&val` / `&sid` to the DataChannelParameters of every
// remotely created channel, and the channel keeps those pointers for its
// lifetime (MaxRetransmits(), MaxPacketLifeTime(), ID()). The pointed-to
// variables must therefore be fresh per accepted channel, i.e. declared inside
// the loop body: a variable declared outside the loop is shared by all
// channels, and each later accept rewrites what the earlier channels report.
// (Added after seed C19-m2: the loop locals were hoisted in front of the loop.)
func c19R3(c *Ctx, rule string, onlyField string) {
	r := c.R
	accept := c.mustFunc(rule, "", "SCTPTransport.acceptDataChannels")
	newDC := c.mustFunc(rule, "", "API.newDataChannel")
	params := c.P.Named("", "DataChannelParameters")
	if accept == nil || newDC == nil || params == nil {
		if params == nil {
			r.Fail(rule, "anchor:DataChannelParameters", "-", "type no longer resolves")
		}
		return
	}
	info := accept.Pkg.TypesInfo
	pos := c.P.Pos(accept.Decl.Pos())
	// the loop that constructs the channels: innermost for/range containing the newDataChannel call
	var loop ast.Stmt
	var call *ast.CallExpr
	var stack []ast.Node
	ast.Inspect(accept.Decl.Body, func(n ast.Node) bool {
		if n == nil {
			stack = stack[:len(stack)-1]
			return false
		}
		stack = append(stack, n)
		if ce, ok := n.(*ast.CallExpr); ok && core.Callee(info, ce) == newDC.Obj {
			call = ce
			for i := len(stack) - 1; i >= 0; i-- {
				switch s := stack[i].(type) {
				case *ast.ForStmt:
					if loop == nil {
						loop = s
					}
				case *ast.RangeStmt:
					if loop == nil {
						loop = s
					}
				}
			}
		}
		return true
	})
	if call == nil || loop == nil {
		r.Undecided(rule, "acceptDataChannels|construction-loop", pos, "no loop calling newDataChannel found")
		return
	}
	var body *ast.BlockStmt
	switch s := loop.(type) {
	case *ast.ForStmt:
		body = s.Body
	case *ast.RangeStmt:
		body = s.Body
	}
	// the parameters literal
	var lit *ast.CompositeLit
	for _, a := range call.Args {
		ast.Inspect(a, func(n ast.Node) bool {
			if cl, ok := n.(*ast.CompositeLit); ok && types.Identical(info.TypeOf(cl), params) {
				lit = cl
			}
			return true
		})
	}
	if lit == nil {
		r.Undecided(rule, "acceptDataChannels|parameters-literal", c.P.Pos(call.Pos()), "newDataChannel is not called with a DataChannelParameters literal")
		return
	}
	// Where does a pointer stored in the literal come from? Directly `&x`, through a local pointer variable
	// assigned `&x`, or from a same-package helper (directly or via `a, b := helper(...)`), which is followed
	// into its return statements (two levels). The pointed-to variable must be fresh per accepted channel:
	// declared inside the loop body, or a local / parameter / named result of the helper (fresh per call).
	type scope struct {
		fd     *ast.FuncDecl
		info   *types.Info
		lo, hi token.Pos // where a variable must be declared to be fresh
		what   string
	}
	n := 0
	type seenKey struct {
		fd *ast.FuncDecl
		v  *types.Var
	}
	seen := map[seenKey]bool{}
	var origin func(sc scope, field string, e ast.Expr, depth int)
	var followCall func(sc scope, field string, call *ast.CallExpr, idx int, depth int)
	judgeVar := func(sc scope, field string, v *types.Var, at token.Pos) {
		n++
		inside := v.Pos() >= sc.lo && v.Pos() <= sc.hi
		r.Check(inside, rule, "acceptDataChannels|"+field+"|points-to-per-channel-variable", c.P.Pos(at),
			"&"+v.Name()+" is a variable of "+sc.what+" (fresh for every accepted channel)",
			"the channel keeps a pointer to `"+v.Name()+"`, which is declared outside "+sc.what+": every channel created in-band shares it, so a later accept rewrites the "+field+" that earlier channels report")
	}
	origin = func(sc scope, field string, e ast.Expr, depth int) {
		e = ast.Unparen(e)
		if core.IsNilIdent(sc.info, e) {
			return
		}
		if u, ok := e.(*ast.UnaryExpr); ok && u.Op == token.AND {
			if v := core.VarOf(sc.info, u.X); v != nil {
				judgeVar(sc, field, v, e.Pos())
				return
			}
			if _, isLit := ast.Unparen(u.X).(*ast.CompositeLit); isLit {
				return // &T{...}: a fresh allocation
			}
			n++
			r.Undecided(rule, "acceptDataChannels|"+field+"|points-to-per-channel-variable", c.P.Pos(e.Pos()), "the address of "+exprStr(u.X)+" is stored in the channel; cannot decide whether it is per-channel storage")
			return
		}
		if call, ok := e.(*ast.CallExpr); ok {
			followCall(sc, field, call, 0, depth)
			return
		}
		pv := core.VarOf(sc.info, e)
		if pv == nil {
			return
		}
		if _, isPtr := pv.Type().Underlying().(*types.Pointer); !isPtr {
			return
		}
		if seen[seenKey{sc.fd, pv}] {
			return
		}
		seen[seenKey{sc.fd, pv}] = true
		if sc.fd != accept.Decl && sc.fd.Type.Params != nil && pv.Pos() >= sc.fd.Type.Params.Pos() && pv.Pos() <= sc.fd.Type.Params.End() {
			// a helper handing back a pointer it was given: the caller's argument decides, and it is not tracked
			n++
			r.Undecided(rule, "acceptDataChannels|"+field+"|points-to-per-channel-variable", c.P.Pos(e.Pos()), "the helper returns its pointer parameter `"+pv.Name()+"`; whether that is per-channel storage depends on the caller's argument")
			return
		}
		// every assignment to pv in the function
		ast.Inspect(sc.fd.Body, func(x ast.Node) bool {
			as, ok := x.(*ast.AssignStmt)
			if !ok {
				return true
			}
			for i, l := range as.Lhs {
				if core.VarOf(sc.info, l) != pv {
					continue
				}
				switch {
				case len(as.Rhs) == len(as.Lhs):
					origin(sc, field, as.Rhs[i], depth)
				case len(as.Rhs) == 1:
					if call, ok := ast.Unparen(as.Rhs[0]).(*ast.CallExpr); ok {
						followCall(sc, field, call, i, depth)
					}
				}
			}
			return true
		})
		// the pointer variable itself must be per-channel too (else a stale pointer of the previous channel survives)
		n++
		inside := pv.Pos() >= sc.lo && pv.Pos() <= sc.hi
		r.Check(inside, rule, "acceptDataChannels|"+field+"|pointer-variable-per-channel", c.P.Pos(e.Pos()),
			pv.Name()+" is declared in "+sc.what+" (starts nil for every channel)",
			"`"+pv.Name()+"` is declared outside "+sc.what+": a channel type that does not set it inherits the previous channel's pointer")
	}
	followCall = func(sc scope, field string, call *ast.CallExpr, idx int, depth int) {
		fn := core.Callee(sc.info, call)
		fi := c.P.DeclOf(fn)
		if fn == nil || fi == nil || fi.Decl.Body == nil || depth >= 2 {
			// conversions, builtins (new), external or too deep: an unknown provenance only matters for pointers
			if t := sc.info.TypeOf(call); t != nil {
				if tup, ok := t.(*types.Tuple); ok && idx < tup.Len() {
					t = tup.At(idx).Type()
				}
				if _, isPtr := t.Underlying().(*types.Pointer); isPtr && fn != nil {
					n++
					r.Undecided(rule, "acceptDataChannels|"+field+"|points-to-per-channel-variable", c.P.Pos(call.Pos()), "the pointer comes from "+core.FuncName(fn)+", which is not followed (outside the module or nested too deep)")
				}
			}
			return
		}
		hs := scope{fd: fi.Decl, info: fi.Pkg.TypesInfo, lo: fi.Decl.Pos(), hi: fi.Decl.End(), what: "the helper " + fi.Name() + " (local to each call)"}
		sig := fn.Type().(*types.Signature)
		ast.Inspect(fi.Decl.Body, func(x ast.Node) bool {
			if _, isLit := x.(*ast.FuncLit); isLit {
				return false
			}
			ret, ok := x.(*ast.ReturnStmt)
			if !ok {
				return true
			}
			switch {
			case len(ret.Results) == sig.Results().Len():
				origin(hs, field, ret.Results[idx], depth+1)
			case len(ret.Results) == 0 && idx < sig.Results().Len() && sig.Results().At(idx).Name() != "":
				// naked return: the named result
				for _, fl := range fi.Decl.Type.Results.List {
					for _, nm := range fl.Names {
						if fi.Pkg.TypesInfo.Defs[nm] == types.Object(sig.Results().At(idx)) {
							origin(hs, field, nm, depth+1)
						}
					}
				}
			case len(ret.Results) == 1:
				if inner, ok := ast.Unparen(ret.Results[0]).(*ast.CallExpr); ok {
					followCall(hs, field, inner, idx, depth+1)
				}
			}
			return true
		})
	}
	loopScope := scope{fd: accept.Decl, info: info, lo: body.Lbrace, hi: body.Rbrace, what: "the accept loop body"}
	for _, el := range lit.Elts {
		kv, ok := el.(*ast.KeyValueExpr)
		if !ok {
			continue
		}
		if t := info.TypeOf(kv.Value); t != nil {
			if _, isPtr := t.Underlying().(*types.Pointer); !isPtr {
				continue
			}
		}
		if onlyField != "" && exprStr(kv.Key) != onlyField {
			continue
		}
		origin(loopScope, exprStr(kv.Key), kv.Value, 0)
	}
	if n == 0 {
		r.Undecided(rule, "acceptDataChannels|pointer-parameters", c.P.Pos(lit.Pos()), "no pointer-valued parameter found in the literal")
	}
}

// c19R4: "a channel created in-band appears on the remote peer" needs every locally opened channel to own its SCTP
// stream: two channels sharing a stream id collapse into one on the remote side (the second OPEN is discarded). The
// stream id allocator must therefore find a free id and reserve it in ONE write-locked critical section: in
// generateAndSetDataChannelID every read of dataChannelIDsUsed and the insert share a critical section of the
// transport's lock held for writing. (The full allocator argument - parity, bound, same key - is C18.R1/R2.)
func c19R4(c *Ctx) {
	r := c.R
	const rule = "C19.R4"
	gen := c.mustFunc(rule, "", "SCTPTransport.generateAndSetDataChannelID")
	used := c.mustField(rule, "", "SCTPTransport", "dataChannelIDsUsed")
	if gen == nil || used == nil {
		return
	}
	g := c.P.GraphOf(gen)
	info := g.Info
	var reads, writes []int
	for _, n := range g.Nodes {
		if n.Ast == nil {
			continue
		}
		isW := false
		if as, ok := n.Ast.(*ast.AssignStmt); ok {
			for _, l := range as.Lhs {
				if ix, ok := ast.Unparen(l).(*ast.IndexExpr); ok && core.FieldOf(info, ix.X) == used {
					isW = true
				}
			}
		}
		if isW {
			writes = append(writes, n.ID)
			continue
		}
		hit := false
		core.InspectShallow(n.Ast, func(x ast.Node) bool {
			if ix, ok := x.(*ast.IndexExpr); ok && core.FieldOf(info, ix.X) == used {
				hit = true
			}
			return true
		})
		if hit {
			reads = append(reads, n.ID)
		}
	}
	key := "generateAndSetDataChannelID|find-and-reserve-atomic"
	pos := c.P.Pos(gen.Decl.Pos())
	if len(reads) == 0 || len(writes) == 0 {
		r.Undecided(rule, key, pos, sprintf("expected a look-up and an insert of dataChannelIDsUsed in the allocator's own body, found %d / %d", len(reads), len(writes)))
		return
	}
	li := core.Locks(g)
	bad := ""
	for _, w := range writes {
		inst := ""
		for in, mode := range li.In[w] {
			if li.ClassOf[in] == "SCTPTransport.lock" && mode == "W" {
				inst = in
			}
		}
		if inst == "" {
			bad = "the insert does not hold the transport's lock for writing"
			continue
		}
		for _, rd := range reads {
			if ok, why := c24SameRegion(g, li, rd, w, inst); !ok {
				bad = "the free-id look-up at " + c.P.Pos(g.PosOf(rd)) + " and the reservation at " + c.P.Pos(g.PosOf(w)) + " are not in one critical section (" + why + ")"
			}
		}
	}
	r.Cells++
	r.Check(bad == "", rule, key, c.P.Pos(g.PosOf(writes[0])), "the free id is found and reserved in one write-locked critical section",
		bad+": two concurrent opens can pick the same stream id, the remote peer then sees one channel instead of two and the second in-band channel never appears")
}
