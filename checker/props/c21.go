package props

import (
	"fmt"
	"os"
	"time"
	"go/ast"
	"go/types"
	"strings"

	"verif/checker/absint"
	"verif/checker/core"
)

func init() {
	register(&Prop{
		ID:        "C21",
		Engine:    "e1tab+e3lock",
		Technique: "abstract interpretation of every negotiation-changing method with the closed flag set (must end in InvalidStateError with no effect), decision table of close() over (already closed, already graceful, graceful requested) with channel close/wait effects, lock-region rule for the closed/graceful flags",
		LevelText: "Structural clauses of Close: (1) each exported method that changes negotiation state, interpreted with isClosed=true, has only InvalidStateError outcomes and no store into the connection; (2) close() is tabulated over its three booleans and the channel closes/waits/state writes of every row are compared with the one-closer protocol (each done-channel closed by exactly one caller, waits outside pc.mu, Closed state and the closed connection-state update only on the first closer); (3) the two flags are read and updated in one critical section, which makes 'first closer' unique for every interleaving.",
		LevelNote: "Trusted: absint soundness on the supported fragment; sync/atomic Swap semantics. Does not decide that all calls return (liveness) nor the goroutine census after GracefulClose.",
		DesignRef: "DESIGN.md §5 C21",
		Run:       runC21,
	})
}

var c21Methods = []string{"CreateOffer", "CreateAnswer", "SetLocalDescription", "SetRemoteDescription", "AddTrack", "RemoveTrack",
	"AddTransceiverFromKind", "AddTransceiverFromTrack", "CreateDataChannel", "SetConfiguration"}

func runC21(c *Ctx) {
	r := c.R
	r.Rule("C21.R1", "every exported PeerConnection method that changes negotiation state, interpreted with the closed flag set, ends on every path in an *rtcerr.InvalidStateError without having stored into the connection", 10)
	r.Rule("C21.R2", "close() tabulated over (already closed, already graceful, graceful requested): isCloseDone is closed exactly by the first closer, isGracefulCloseDone exactly by the first graceful closer, later callers only wait (gracefulDone / closeDone) and never close; signaling state Closed and the final connection-state update happen on the first closer only", 8)
	r.Rule("C21.R3", "the closed flag swap and the graceful flag read+write happen in one critical section of pc.mu; every channel wait in close() is outside pc.mu", 3)
	r.Rule("C21.R5", "no connection goroutine outlives GracefulClose through the operations queue: the worker is only re-spawned while the queue is not closed, and nothing is accepted into a closed queue (the worker-lifecycle rules C05.R2 and C05.R4, re-evaluated here)", 8)
	r.Rule("C21.R6", "DataChannel.close(graceful): every return is preceded by a wait on the read loop's completion channel (a receive, or a defer of one) unless a branch established `!graceful` or `channel == nil`: GracefulClose does not return while the data-channel read loop goroutine is running", 1)
	r.Rule("C21.R7", "same rule as C05.R6: every return of a graceful PeerConnection.close is preceded by pc.ops.GracefulClose() (the queue is closed and its running operation waited for), also for a caller that lost the isClosed swap to a plain Close()", 1)
	r.Rule("C21.R4", "idpLoginURL is never assigned (so the identity-provider early returns cannot pre-empt the closed check)", 0)
	r.NotCovered = append(r.NotCovered, "liveness: that every Close/GracefulClose call returns", "goroutine census after GracefulClose", "a non-closed connection state reported by an updateConnectionState call that loaded isClosed before close() (C22 covers the table itself)")
	r.Trusted = append(r.Trusted, "absint soundness on the supported fragment", "sync/atomic Bool.Swap is atomic")

	// ---- R1
	for _, m := range c21Methods {
		if only := os.Getenv("VERIF_ONLY"); only != "" && only != m {
			continue
		}
		t0 := time.Now()
		defer func(m string) {
			if os.Getenv("VERIF_DEBUG") != "" {
				fmt.Fprintln(os.Stderr, "C21", m, time.Since(t0))
			}
		}(m)
		fi := c.mustFunc("C21.R1", "", "PeerConnection."+m)
		if fi == nil {
			continue
		}
		pos := c.P.Pos(fi.Decl.Pos())
		dims := []absint.Dim{
			{Key: "$recv.isClosed.Load()", Domain: []absint.Val{absint.BoolVal(true)}},
			{Key: "$recv.idpLoginURL", Domain: []absint.Val{absint.Nil{}}},
		}
		t := absint.Tabulate(absint.Config{P: c.P, Dims: dims, MaxPaths: 200000,
			WatchStore: func(p string) bool { return strings.HasPrefix(p, "$recv.") },
		}, fi)
		key := "closed-guard|" + fi.Name()
		if tableProblems(c, "C21.R1", key, pos, t) {
			continue
		}
		r.Cells += t.Paths
		bad := ""
		n := 0
		for _, row := range t.Rows {
			for _, o := range row.Outcomes {
				n++
				if o.Panic != "" || len(o.Results) == 0 {
					bad = "indefinite outcome " + o.String()
					continue
				}
				e, ok := o.Results[len(o.Results)-1].(absint.NonNil)
				if !ok || !strings.Contains(e.Desc, "InvalidStateError") {
					bad = "on a closed connection an outcome is not an InvalidStateError: " + o.String()
				}
				if len(o.Trace) > 0 {
					bad = "on a closed connection state is written before the closed check: " + strings.Join(o.Trace, "; ")
				}
			}
		}
		if n == 0 {
			bad = "no outcome computed"
		}
		r.Check(bad == "", "C21.R1", key, pos, sprintf("%d outcome(s), all InvalidStateError, no store", n), bad)
	}

	// ---- R4
	if f := c.mustField("C21.R4", "", "PeerConnection", "idpLoginURL"); f != nil {
		writes := 0
		for _, fi := range c.P.AllFuncs() {
			if fi.Decl.Body == nil {
				continue
			}
			info := fi.Pkg.TypesInfo
			ast.Inspect(fi.Decl.Body, func(n ast.Node) bool {
				switch s := n.(type) {
				case *ast.AssignStmt:
					for _, l := range s.Lhs {
						if core.FieldOf(info, l) == f {
							writes++
							r.Fail("C21.R4", "write:idpLoginURL|in:"+fi.Name(), c.P.Pos(l.Pos()), "idpLoginURL is assigned: CreateOffer/CreateAnswer can now return errIdentityProviderNotImplemented instead of InvalidStateError on a closed connection (re-model the dimension)")
						}
					}
				case *ast.KeyValueExpr:
					if id, ok := s.Key.(*ast.Ident); ok && info.Uses[id] == types.Object(f) {
						writes++
						r.Fail("C21.R4", "init:idpLoginURL|in:"+fi.Name(), c.P.Pos(s.Pos()), "idpLoginURL is initialised in a literal")
					}
				}
				return true
			})
		}
		if writes == 0 {
			r.OK("C21.R4", "idpLoginURL|never-assigned", "-", "no assignment in the module")
		}
	}

	c21Close(c)
	c05ForC21(c, "C21.R5")
	c21R6(c) // c21b.go
	c05R6(c, "C21.R7") // c05b.go
}

func c21Close(c *Ctx) {
	r := c.R
	fi := c.mustFunc("C21.R2", "", "PeerConnection.close")
	setFn := c.mustFunc("C21.R2", "", "SignalingState.Set")
	upd := c.mustFunc("C21.R2", "", "PeerConnection.updateConnectionState")
	if fi == nil || setFn == nil || upd == nil {
		return
	}
	pos := c.P.Pos(fi.Decl.Pos())
	tf := []absint.Val{absint.BoolVal(false), absint.BoolVal(true)}
	dims := []absint.Dim{
		{Key: "$recv.isClosed.Load()", Domain: tf},
		{Key: "$recv.isGracefullyClosingOrClosed", Domain: tf},
		{Key: "$p0", Domain: tf},
	}
	t := absint.Tabulate(absint.Config{P: c.P, Dims: dims, MaxPaths: 500000,
		WatchStore: func(p string) bool {
			return p == "$recv.isGracefullyClosingOrClosed" || p == "$recv.isClosed.Load()"
		},
		WatchBuiltin: func(name string, args []string) string {
			if name == "close" && len(args) == 1 {
				return "close(" + args[0] + ")"
			}
			return ""
		},
		WatchRecv: func(p string) string { return "wait(" + p + ")" },
		OnCall: func(in *absint.Interp, st *absint.State, call *ast.CallExpr, fn *types.Func, recv absint.Val, args []absint.Val) (absint.Val, bool) {
			switch fn {
			case setFn.Obj:
				st.Emit("signalingState.Set(" + args[0].String() + ")")
				return absint.Tuple{}, true
			case upd.Obj:
				st.Emit("updateConnectionState")
				return absint.Tuple{}, true
			}
			return nil, false
		}}, fi)
	if tableProblems(c, "C21.R2", "close|table", pos, t) {
		return
	}
	r.Cells += len(t.Rows)
	count := func(tr []string, ev string) int {
		n := 0
		for _, e := range tr {
			if e == ev {
				n++
			}
		}
		return n
	}
	const cd, gd = "$recv.isCloseDone", "$recv.isGracefulCloseDone"
	for _, row := range t.Rows {
		already, alreadyG, should := row.Get("$recv.isClosed.Load()") == "true", row.Get("$recv.isGracefullyClosingOrClosed") == "true", row.Get("$p0") == "true"
		key := sprintf("close|row|alreadyClosed=%v,alreadyGraceful=%v,graceful=%v", already, alreadyG, should)
		bad := ""
		if len(row.Outcomes) == 0 {
			bad = "no outcome"
		}
		for _, o := range row.Outcomes {
			tr := o.Trace
			nCD, nGD := count(tr, "close("+cd+")"), count(tr, "close("+gd+")")
			wCD, wGD := count(tr, "wait("+cd+")"), count(tr, "wait("+gd+")")
			setClosed := count(tr, "signalingState.Set(SignalingStateClosed)")
			upds := count(tr, "updateConnectionState")
			swap := count(tr, "$recv.isClosed.Store(true)")
			wantCD, wantGD, wantWCD, wantWGD, wantFirst := 0, 0, 0, 0, 0
			switch {
			case !already:
				wantCD, wantFirst = 1, 1
				if should {
					wantGD = 1
				}
			case already && !should:
			case already && should && alreadyG:
				wantWGD = 1
			case already && should && !alreadyG:
				wantWCD, wantGD = 1, 1
			}
			// a graceful request while the flag is already set can only happen together with already-closed
			if !already && alreadyG {
				continue // unreachable combination: the graceful flag is only ever set after the closed flag (same region)
			}
			switch {
			case swap != 1:
				bad = sprintf("closed flag must be swapped to true exactly once, trace %v", tr)
			case nCD != wantCD:
				bad = sprintf("isCloseDone closed %d time(s), want %d (each done-channel must be closed by exactly one caller)", nCD, wantCD)
			case nGD != wantGD:
				bad = sprintf("isGracefulCloseDone closed %d time(s), want %d", nGD, wantGD)
			case wCD != wantWCD || wGD != wantWGD:
				bad = sprintf("waits closeDone=%d gracefulDone=%d, want %d/%d", wCD, wGD, wantWCD, wantWGD)
			case setClosed != wantFirst:
				bad = sprintf("signalingState.Set(Closed) %d time(s), want %d", setClosed, wantFirst)
			case upds != wantFirst:
				bad = sprintf("final updateConnectionState %d time(s), want %d", upds, wantFirst)
			}
			if should && !alreadyG && count(tr, "$recv.isGracefullyClosingOrClosed = true") != 1 {
				bad = "first graceful closer must set the graceful flag"
			}
			if bad != "" {
				bad += "  [" + o.String() + "]"
				break
			}
		}
		r.Check(bad == "", "C21.R2", key, pos, sprintf("%d outcome(s) follow the one-closer protocol", len(row.Outcomes)), bad)
	}

	// ---- R3: lock regions
	g := c.P.GraphOf(fi)
	li := core.Locks(g)
	closedF := c.mustField("C21.R3", "", "PeerConnection", "isClosed")
	gracefulF := c.mustField("C21.R3", "", "PeerConnection", "isGracefullyClosingOrClosed")
	if closedF == nil || gracefulF == nil {
		return
	}
	muInst := ""
	for inst, cl := range li.ClassOf {
		if cl == "PeerConnection.mu" {
			muInst = inst
		}
	}
	swaps := g.FindNodes(func(n ast.Node) bool {
		call, ok := n.(*ast.CallExpr)
		if !ok {
			return false
		}
		sel, ok := ast.Unparen(call.Fun).(*ast.SelectorExpr)
		return ok && sel.Sel.Name == "Swap" && core.FieldOf(g.Info, sel.X) == closedF
	})
	gReads := g.FindNodes(func(n ast.Node) bool {
		e, ok := n.(ast.Expr)
		return ok && core.FieldOf(g.Info, e) == gracefulF
	})
	if len(swaps) != 1 || len(gReads) < 2 || muInst == "" {
		r.Undecided("C21.R3", "close|flags-one-region", pos, sprintf("expected one isClosed.Swap and a read+write of the graceful flag under pc.mu; found swaps=%d accesses=%d lock=%q", len(swaps), len(gReads), muInst))
	} else {
		ok, why := true, ""
		for _, gr := range gReads {
			a, b := swaps[0], gr
			if g.Reach([]int{b}, nil, nil)[a] && !g.Reach([]int{a}, nil, nil)[b] {
				a, b = b, a
			}
			if o, w := li.SameRegion(a, b, muInst); !o {
				ok, why = false, w
			}
		}
		r.Check(ok, "C21.R3", "close|flags-one-region", c.P.Pos(g.PosOf(swaps[0])), "closed-flag swap and graceful-flag read/write share one pc.mu region", "closed flag and graceful flag are not updated atomically: "+why+" (two closers can both / neither become the one that closes a done-channel)")
	}
	// waits outside pc.mu (in close and in the function literals it defines)
	waits := g.FindNodes(func(n ast.Node) bool {
		u, ok := n.(*ast.UnaryExpr)
		return ok && u.Op.String() == "<-"
	})
	okW := len(waits) >= 2
	why := sprintf("expected two channel waits, found %d", len(waits))
	for _, w := range waits {
		if li.MayIn[w].Has(muInst) {
			okW, why = false, "a channel wait in close() may execute while pc.mu is held (deadlock with every other closer)"
		}
	}
	r.Check(okW, "C21.R3", "close|waits-outside-mu", pos, "channel waits hold no pc.mu", why)
	// Set(Closed) is outside the first critical section but must not hold pc.mu while calling out (not required); recorded only
	r.OK("C21.R3", "close|lock-analysis", pos, sprintf("%d lock operations analysed", len(li.Ops)))
}
