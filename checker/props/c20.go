package props

import (
	"go/ast"
	"go/token"
	"go/types"
	"sort"
	"strings"
	"time"

	"verif/checker/absint"
	"verif/checker/core"
)

func init() {
	register(&Prop{
		ID:        "C20",
		Engine:    "e3lock+e2cfg+e1tab",
		Technique: "who-may-write sweep for DataChannel.readyState; atomicity/monotonicity rule for every store (compare-and-swap whose expected value is the loaded one and whose store is dominated, since that load, by 'current < new' or 'unset'; or check-and-store in one critical section); syntactic containment rule for handler invocations (inside sync.Once.Do of the matching Once) plus lock-region rule for Once resets; finite-domain abstract interpretation of Send/SendText/ReadyState over every state value",
		LevelText: "(R1) Every store into DataChannel.readyState must be monotone in the order connecting < open < closing < closed: it is either a CompareAndSwap whose expected value is the value loaded at the top of the retry loop and which is reachable from that load only through the edge 'loaded state < new state' (or 'no state stored yet'), or a Store in a critical section that also contains the load and that test; this excludes every interleaving in which a later store overwrites a larger state. (R2) The field is written only inside setReadyState, every caller passes a declared state constant, and ReadyState() returns exactly what was stored. (R3) The open/dial/close handlers are only ever invoked inside sync.Once.Do of their own Once field (directly or from the literal passed to Do), and a Once is reset only in a d.mu critical section that also installs the handler. (R4) Send and SendText, tabulated over every stored state, write to the transport iff the state is open and return an error otherwise.",
		LevelNote: "Does not decide liveness ('ends in closed once the transport is gone'). The unsynchronised read of the Once fields by the goroutines that call Do (a data race with a concurrent re-registration) is C40's subject, not judged here. Trusted: sync/atomic and sync.Once semantics; absint soundness on the supported fragment.",
		DesignRef: "DESIGN.md §5 C20",
		Run:       runC20,
	})
}

type c20Ctx struct {
	c          *Ctx
	info       *types.Info
	readyState *types.Var
	mu         *types.Var
	setRS, rs  *core.FuncInfo
	stateT     *types.Named
	bodies     []*core.Body
	gd         *core.Guard
}

func runC20(c *Ctx) {
	r := c.R
	c20T0 := time.Now()
	defer func() { r.Extra["analysis_seconds_excluding_load"] = time.Since(c20T0).Seconds() }()
	r.Rule("C20.R1", "every store into DataChannel.readyState is monotone: a CompareAndSwap(expected, new) whose expected value is the freshly loaded one and that is reachable from that load only through an edge establishing 'loaded state < new' (or 'nothing stored yet'); or a Store that shares a critical section with such a load and test, all stores taking that lock", 1)
	r.Rule("C20.R2", "readyState is written only inside setReadyState; every setReadyState call passes a declared DataChannelState constant; ReadyState() returns the stored value for every state", 7)
	r.Rule("C20.R3", "OnOpen/OnDial/OnClose handlers are invoked only inside sync.Once.Do of the matching Once field; a Once field is reset only in a d.mu critical section that also installs the matching handler, and handlers are installed under d.mu", 12)
	r.Rule("C20.R4", "Send and SendText tabulated over every stored state: the transport write happens (exactly once) iff the state is open; in every other state an error is returned and nothing is written", 14)
	r.Rule("C20.R5", "PeerConnection.close, first closer: every path to the exit passes a point that sets every registered data channel to closed (an unconditional range over sctpTransport.dataChannels calling setReadyState(DataChannelStateClosed) on its element, or a callee all of whose paths do): a channel whose transport never came up still ends in closed", 1)
	r.NotCovered = append(r.NotCovered,
		"liveness of the read loop: that a channel with a live stream ends in 'closed' once the stream is gone (C20.R5 decides only the W3C close step 5 sweep)",
		"the unsynchronised read of the Once fields by goroutines calling Do while OnOpen/OnClose re-register (data race, C40)",
		"handlers other than open/dial/close (message, error, buffered-amount-low)")
	r.Trusted = append(r.Trusted, "sync/atomic.Value Load/Store/CompareAndSwap are atomic", "sync.Once.Do runs its argument at most once per Once value", "absint soundness on the supported fragment")

	x := &c20Ctx{c: c}
	x.readyState = c.mustField("C20.R1", "", "DataChannel", "readyState")
	x.mu = c.mustField("C20.R3", "", "DataChannel", "mu")
	x.setRS = c.mustFunc("C20.R2", "", "DataChannel.setReadyState")
	x.rs = c.mustFunc("C20.R2", "", "DataChannel.ReadyState")
	x.stateT = c.P.Named("", "DataChannelState")
	if x.readyState == nil || x.mu == nil || x.setRS == nil || x.rs == nil {
		return
	}
	if x.stateT == nil {
		r.Fail("C20.R1", "anchor:/DataChannelState", "-", "type no longer resolves (fails closed)")
		return
	}
	x.info = c.P.Pkg("").TypesInfo
	x.bodies = c.P.AllBodies(nil)
	x.gd = core.NewGuard(c.P, x.bodies)

	x.r12()
	x.r3()
	x.r4()
	c20R5(c) // c20b.go

	if c.Thorough {
		c05Config386(c, func(c2 *Ctx) { runC20(c2) })
	}
}

// cellOp recognises <expr>.readyState.<Method>(...) calls.
func (x *c20Ctx) cellOp(n ast.Node) (name string, call *ast.CallExpr, ok bool) {
	call, isCall := n.(*ast.CallExpr)
	if !isCall {
		return "", nil, false
	}
	sel, isSel := ast.Unparen(call.Fun).(*ast.SelectorExpr)
	if !isSel || core.FieldOf(x.info, sel.X) != x.readyState {
		return "", nil, false
	}
	return sel.Sel.Name, call, true
}

// ---- R1 + R2 -----------------------------------------------------------------

func (x *c20Ctx) r12() {
	r, P := x.c.R, x.c.P
	nWrites := 0
	for _, b := range x.bodies {
		if b.G == nil {
			continue
		}
		g := b.G
		// any use of the field that is not a method call on it
		for _, a := range g.FieldAccesses(map[*types.Var]bool{x.readyState: true}) {
			isRecv := false
			core.InspectShallow(g.Nodes[a.Node].Ast, func(n ast.Node) bool {
				if _, call, ok := x.cellOp(n); ok && ast.Unparen(ast.Unparen(call.Fun).(*ast.SelectorExpr).X) == ast.Expr(a.Sel) {
					isRecv = true
				}
				return true
			})
			if !isRecv || a.Write {
				r.Undecided("C20.R2", "readyState-use|"+a.How+"|in:"+b.Label, P.Pos(a.Sel.Pos()), "readyState is used other than through a method of atomic.Value (copied, assigned or address taken): stores can no longer be enumerated")
			}
		}
		for _, id := range g.FindNodes(func(n ast.Node) bool { _, _, ok := x.cellOp(n); return ok }) {
			core.InspectShallow(g.Nodes[id].Ast, func(n ast.Node) bool {
				name, call, ok := x.cellOp(n)
				if !ok {
					return true
				}
				pos := P.Pos(call.Pos())
				switch name {
				case "Load":
					return true
				case "Store", "Swap", "CompareAndSwap":
				default:
					r.Undecided("C20.R2", "readyState-op|"+name+"|in:"+b.Label, pos, "unknown operation on the state cell")
					return true
				}
				nWrites++
				inSetter := b.Lit == nil && b.Owner == x.setRS
				r.Check(inSetter, "C20.R2", "readyState-write|"+name+"|in:"+b.Label, pos, "the state cell is written by setReadyState only", "readyState is stored outside setReadyState: the monotonicity check of the setter is bypassed")
				// R1
				key := "readyState-write|" + name + "|in:" + b.Label
				ok1, why := x.monotone(b, id, name, call)
				r.Check(ok1, "C20.R1", key, pos, "store is atomic with the test 'current < new'", why)
				return true
			})
		}
	}
	if nWrites == 0 {
		r.Fail("C20.R1", "readyState-write|missing", P.Pos(x.setRS.Decl.Pos()), "no store into readyState found")
	}

	// setReadyState call sites pass constants
	for _, s := range core.CallSitesOf(x.bodies, x.setRS.Obj) {
		pos := P.Pos(s.Body.G.PosOf(s.Node))
		if s.Kind == "value" || len(s.Call.Args) != 1 {
			r.Undecided("C20.R2", "setReadyState|"+s.Kind+"|in:"+s.Body.Label, pos, "setReadyState is used as a value")
			continue
		}
		tv, ok := x.info.Types[s.Call.Args[0]]
		name := exprStr(s.Call.Args[0])
		isConst := ok && tv.Value != nil && types.Identical(tv.Type, x.stateT)
		declared := false
		if isConst {
			for _, k := range P.ConstsOfType("", "DataChannelState") {
				if k.Val().ExactString() == tv.Value.ExactString() {
					declared = true
					name = k.Name()
					break
				}
			}
		}
		r.Check(isConst && declared, "C20.R2", "setReadyState("+name+")|in:"+s.Body.Label, pos, "target state is a declared constant", "setReadyState is called with a computed / undeclared state")
	}

	// ReadyState() is faithful
	dom, okD := enumDomain(x.c, "C20.R2", "", "DataChannelState", 77)
	if !okD {
		return
	}
	dims := []absint.Dim{{Key: "$recv.readyState.Load()", Domain: append([]absint.Val{absint.Nil{}}, dom...)}}
	t := absint.Tabulate(absint.Config{P: P, Dims: dims}, x.rs)
	if !tableProblems(x.c, "C20.R2", "ReadyState|table", P.Pos(x.rs.Decl.Pos()), t) {
		bad := ""
		for _, row := range t.Rows {
			in := row.Valuation["$recv.readyState.Load()"]
			want := in.String()
			if _, isNil := in.(absint.Nil); isNil {
				want = "DataChannelStateUnknown"
			}
			if len(row.Outcomes) != 1 || len(row.Outcomes[0].Results) != 1 || row.Outcomes[0].Results[0].String() != want {
				bad = "stored " + in.String() + " is reported as " + outcomesStr(row.Outcomes)
			}
		}
		r.Cells += len(t.Rows)
		r.Check(bad == "", "C20.R2", "ReadyState|returns-stored-state", P.Pos(x.rs.Decl.Pos()), sprintf("%d stored values each reported unchanged (unset -> Unknown)", len(t.Rows)), bad)
	}
}

// monotone decides R1 for one write operation.
func (x *c20Ctx) monotone(b *core.Body, node int, op string, call *ast.CallExpr) (bool, string) {
	g := b.G
	// loads of the cell in this body, and the variables holding them
	type load struct {
		node int
		v    *types.Var
	}
	var loads []load
	for _, n := range g.Nodes {
		as, ok := n.Ast.(*ast.AssignStmt)
		if !ok || len(as.Lhs) != 1 || len(as.Rhs) != 1 {
			continue
		}
		if name, _, ok := x.cellOp(ast.Unparen(as.Rhs[0])); ok && name == "Load" {
			if v := core.VarOf(x.info, as.Lhs[0]); v != nil {
				loads = append(loads, load{n.ID, v})
			}
		}
	}
	// the value being stored
	var newV *types.Var
	var expected ast.Expr
	switch op {
	case "Store", "Swap":
		if len(call.Args) != 1 {
			return false, "unsupported " + op + " form"
		}
		newV = core.VarOf(x.info, call.Args[0])
	case "CompareAndSwap":
		if len(call.Args) != 2 {
			return false, "unsupported CompareAndSwap form"
		}
		expected = call.Args[0]
		newV = core.VarOf(x.info, call.Args[1])
	}
	if newV == nil {
		return false, "blind " + op + " of a fixed value: the stored state is not compared with the current one"
	}
	// the new value must not be reassigned in the body
	for _, n := range g.Nodes {
		if as, ok := n.Ast.(*ast.AssignStmt); ok {
			for _, l := range as.Lhs {
				if core.VarOf(x.info, l) == newV {
					return false, "the stored value is reassigned inside the setter"
				}
			}
		}
	}
	blind := "blind " + op + ": the new state overwrites whatever is stored. Two regressing interleavings exist on this tree: (1) handleOpen releases d.mu, a concurrent PeerConnection.close / readLoop stores 'closed' (or DataChannel.close stores 'closing'), then handleOpen stores 'open'; (2) close() reads a non-closed state, readLoop stores 'closed', close() stores 'closing'"
	if len(loads) == 0 {
		return false, blind
	}
	// candidate current-state variables: the loaded value itself, or its type assertion
	establishes := func(ld load) map[core.EdgeRef]bool {
		cur := map[*types.Var]bool{}
		unsetOK := map[*types.Var]bool{} // comma-ok variables of the assertion
		for _, n := range g.Nodes {
			as, ok := n.Ast.(*ast.AssignStmt)
			if !ok || len(as.Rhs) != 1 {
				continue
			}
			ta, ok := ast.Unparen(as.Rhs[0]).(*ast.TypeAssertExpr)
			if !ok || core.VarOf(x.info, ta.X) != ld.v || ta.Type == nil || !types.Identical(x.info.TypeOf(ta.Type), x.stateT) {
				continue
			}
			if v := core.VarOf(x.info, as.Lhs[0]); v != nil {
				cur[v] = true
			}
			if len(as.Lhs) == 2 {
				if v := core.VarOf(x.info, as.Lhs[1]); v != nil {
					unsetOK[v] = true
				}
			}
		}
		return g.EdgesWhere(func(f core.Fact) bool {
			if f.R == nil {
				t, _ := f.IsBool()
				return !t && unsetOK[core.VarOf(x.info, f.L)] // assertion failed: nothing stored yet
			}
			if f.Op == token.EQL && core.VarOf(x.info, f.L) == ld.v && core.IsNilIdent(x.info, f.R) {
				return true // loaded nil: nothing stored yet
			}
			// current < new, or current <= new (re-storing the same state is harmless): never backwards
			return (f.Op == token.LSS || f.Op == token.LEQ) && cur[core.VarOf(x.info, f.L)] && core.VarOf(x.info, f.R) == newV
		})
	}
	switch op {
	case "CompareAndSwap":
		ev := core.VarOf(x.info, expected)
		for _, ld := range loads {
			if ld.v != ev {
				continue
			}
			edges := establishes(ld)
			// from the load, the CAS must only be reachable through an establishing edge (without passing the load again)
			reach := g.Reach(c18SuccsOf(g, ld.node), func(n int) bool { return n == ld.node }, func(from, idx int, e core.Edge) bool {
				return edges[core.EdgeRef{From: from, Idx: idx}]
			})
			if reach[node] {
				return false, "the CompareAndSwap is reachable from the load without passing the test 'loaded state < new state'"
			}
			if !g.Dominated(node, core.NodeSet([]int{ld.node})) {
				return false, "the CompareAndSwap is reachable without a fresh load"
			}
			// the expected variable is only assigned by that load
			for _, n := range g.Nodes {
				if as, ok := n.Ast.(*ast.AssignStmt); ok && n.ID != ld.node {
					for _, l := range as.Lhs {
						if core.VarOf(x.info, l) == ev {
							return false, "the expected value is reassigned after the load"
						}
					}
				}
			}
			return true, ""
		}
		return false, "the expected value of the CompareAndSwap is not the value loaded from readyState in this function"
	default:
		// Store/Swap: needs a lock region shared with a load and the test
		li := x.gd.LocksOf(b)
		for inst, class := range li.ClassOf {
			if class != "DataChannel."+x.mu.Name() || li.HeldInst(node, inst) != "W" {
				continue
			}
			for _, ld := range loads {
				if ok, _ := li.SameRegion(ld.node, node, inst); !ok {
					continue
				}
				edges := establishes(ld)
				reach := g.Reach(c18SuccsOf(g, ld.node), func(n int) bool { return n == ld.node }, func(from, idx int, e core.Edge) bool {
					return edges[core.EdgeRef{From: from, Idx: idx}]
				})
				if !reach[node] && g.Dominated(node, core.NodeSet([]int{ld.node})) {
					return true, ""
				}
			}
		}
		return false, blind
	}
}

// ---- R3 ------------------------------------------------------------------

func (x *c20Ctx) r3() {
	r, P := x.c.R, x.c.P
	pairs := [][2]string{{"onOpenHandler", "openHandlerOnce"}, {"onDialHandler", "dialHandlerOnce"}, {"onCloseHandler", "closeHandlerOnce"}}
	onceOf := map[*types.Var]*types.Var{}
	handlerOf := map[*types.Var]*types.Var{}
	for _, p := range pairs {
		h := x.c.mustField("C20.R3", "", "DataChannel", p[0])
		o := x.c.mustField("C20.R3", "", "DataChannel", p[1])
		if h == nil || o == nil {
			return
		}
		onceOf[h] = o
		handlerOf[o] = h
	}
	isDo := func(call *ast.CallExpr) *types.Var {
		fn := core.Callee(x.info, call)
		if fn == nil || fn.Pkg() == nil || fn.Pkg().Path() != "sync" || fn.Name() != "Do" {
			return nil
		}
		sel, ok := ast.Unparen(call.Fun).(*ast.SelectorExpr)
		if !ok {
			return nil
		}
		o := core.FieldOf(x.info, sel.X)
		if o == nil || handlerOf[o] == nil {
			return nil
		}
		return o
	}

	// (a) invocation containment, per declared function (walking into its literals)
	type verdict struct {
		pos  string
		n    int
		bad  []string
		seen bool
	}
	res := map[string]*verdict{}
	var keys []string
	note := func(h *types.Var, fi *core.FuncInfo, pos token.Pos, bad string, counts bool) {
		key := "handler-use|" + h.Name() + "|in:" + fi.Name()
		v := res[key]
		if v == nil {
			v = &verdict{pos: P.Pos(pos)}
			res[key] = v
			keys = append(keys, key)
		}
		if counts {
			v.n++
		}
		if bad != "" {
			v.bad = append(v.bad, P.Pos(pos)+": "+bad)
		}
	}
	for _, fi := range P.AllFuncs() {
		if fi.Decl.Body == nil || fi.Pkg != P.Pkg("") {
			continue
		}
		info := fi.Pkg.TypesInfo
		// handler-valued variables of this function: locals defined from a handler field, params stored into one
		hv := map[*types.Var]*types.Var{}
		mentions := false
		ast.Inspect(fi.Decl.Body, func(n ast.Node) bool {
			as, ok := n.(*ast.AssignStmt)
			if !ok || len(as.Lhs) != len(as.Rhs) {
				return true
			}
			for i := range as.Lhs {
				if h := core.FieldOf(info, as.Rhs[i]); h != nil && onceOf[h] != nil {
					if v := core.VarOf(info, as.Lhs[i]); v != nil {
						hv[v] = h
						mentions = true
					}
				}
				if h := core.FieldOf(info, as.Lhs[i]); h != nil && onceOf[h] != nil {
					mentions = true
					if v := core.VarOf(info, as.Rhs[i]); v != nil {
						hv[v] = h
					}
				}
			}
			return true
		})
		if !mentions {
			// direct uses of the field without assignment (d.onOpenHandler())
			ast.Inspect(fi.Decl.Body, func(n ast.Node) bool {
				if se, ok := n.(*ast.SelectorExpr); ok {
					if h := core.FieldOf(info, se); h != nil && onceOf[h] != nil {
						mentions = true
					}
				}
				return true
			})
			if !mentions {
				continue
			}
		}
		var stack []ast.Node
		ast.Inspect(fi.Decl.Body, func(n ast.Node) bool {
			if n == nil {
				stack = stack[:len(stack)-1]
				return false
			}
			stack = append(stack, n)
			var h *types.Var
			switch e := n.(type) {
			case *ast.Ident:
				if v, ok := info.Uses[e].(*types.Var); ok && hv[v] != nil {
					h = hv[v]
				}
			case *ast.SelectorExpr:
				if f := core.FieldOf(info, e); f != nil && onceOf[f] != nil {
					h = f
				}
			}
			if h == nil {
				return true
			}
			// classify the use through its parents
			self := n.(ast.Expr)
			k := len(stack) - 2
			for k >= 0 {
				if p, ok := stack[k].(*ast.ParenExpr); ok {
					self = p
					k--
					continue
				}
				break
			}
			if k < 0 {
				return true
			}
			switch p := stack[k].(type) {
			case *ast.AssignStmt:
				return true // definition / installation, judged by (b)
			case *ast.BinaryExpr:
				if (p.Op == token.EQL || p.Op == token.NEQ) && (core.IsNilIdent(info, p.X) || core.IsNilIdent(info, p.Y)) {
					return true
				}
			case *ast.CallExpr:
				if ast.Unparen(p.Fun) == ast.Unparen(self) {
					// invoked: must be inside a literal passed to the matching Once.Do
					okIn := false
					for j := k - 1; j >= 0; j-- {
						fl, isLit := stack[j].(*ast.FuncLit)
						if !isLit || j == 0 {
							continue
						}
						if outer, isCall := stack[j-1].(*ast.CallExpr); isCall && len(outer.Args) == 1 && ast.Unparen(outer.Args[0]) == ast.Expr(fl) {
							if o := isDo(outer); o != nil && o == onceOf[h] {
								okIn = true
							}
						}
						break // only the innermost enclosing literal counts
					}
					if okIn {
						note(h, fi, n.Pos(), "", true)
					} else {
						note(h, fi, n.Pos(), h.Name()+" is invoked outside "+onceOf[h].Name()+".Do: it can run more than once per registration", true)
					}
					return true
				}
				for _, a := range p.Args {
					if ast.Unparen(a) == ast.Unparen(self) {
						if o := isDo(p); o != nil && o == onceOf[h] {
							note(h, fi, n.Pos(), "", true)
						} else if o != nil {
							note(h, fi, n.Pos(), h.Name()+" is run through "+o.Name()+", not its own Once", true)
						} else {
							note(h, fi, n.Pos(), h.Name()+" is passed to "+calleeName(info, p)+": it escapes its Once", true)
						}
						return true
					}
				}
			}
			note(h, fi, n.Pos(), h.Name()+" is used in an unsupported way ("+sprintf("%T", stack[k])+"): it may escape its Once", true)
			return true
		})
	}
	sort.Strings(keys)
	for _, k := range keys {
		v := res[k]
		r.Check(len(v.bad) == 0, "C20.R3", k, v.pos, sprintf("%d invocation(s), all inside the matching Once.Do", v.n), strings.Join(v.bad, "; "))
	}
	if len(keys) < 6 {
		r.Fail("C20.R3", "handler-use|missing", "-", sprintf("expected handler invocation sites in the six On*/on* functions, found %d", len(keys)))
	}

	// (b) Once resets and handler installations
	all := map[*types.Var]bool{}
	for h, o := range onceOf {
		all[h], all[o] = true, true
	}
	for _, b := range x.bodies {
		if b.G == nil {
			continue
		}
		g := b.G
		var ws []core.FieldAccess
		for _, a := range g.FieldAccesses(all) {
			if a.Write {
				ws = append(ws, a)
			}
		}
		if len(ws) == 0 {
			continue
		}
		li := x.gd.LocksOf(b)
		for _, a := range ws {
			inst := core.CanonExpr(a.Base) + "." + x.mu.Name()
			held := li.HeldInst(a.Node, inst) == "W"
			if h := handlerOf[a.Field]; h != nil {
				// a Once reset
				key := "once-reset|" + a.Field.Name() + "|in:" + b.Label
				var bad []string
				if !held {
					bad = append(bad, "Once replaced without "+inst)
				}
				paired := false
				for _, w := range ws {
					if w.Field == h && core.CanonExpr(w.Base) == core.CanonExpr(a.Base) {
						if ok, _ := c05SameRegionEither(g, li, a.Node, w.Node, inst); ok {
							paired = true
						}
					}
				}
				if !paired {
					bad = append(bad, "the Once is replaced without installing a handler in the same critical section: the handler already registered can fire again")
				}
				r.Check(len(bad) == 0, "C20.R3", key, P.Pos(a.Sel.Pos()), "reset together with "+h.Name()+" under "+inst, strings.Join(bad, "; "))
			} else {
				key := "handler-set|" + a.Field.Name() + "|in:" + b.Label
				r.Check(held, "C20.R3", key, P.Pos(a.Sel.Pos()), "installed under "+inst, "handler installed without "+inst)
			}
		}
	}
}

// ---- R4 ------------------------------------------------------------------

func (x *c20Ctx) r4() {
	r, P := x.c.R, x.c.P
	dom, ok := enumDomain(x.c, "C20.R4", "", "DataChannelState", 77)
	if !ok {
		return
	}
	openC := x.c.mustConst("C20.R4", "", "DataChannelStateOpen")
	if openC == nil {
		return
	}
	dcType := P.Named("", "DataChannel")
	for _, name := range []string{"DataChannel.Send", "DataChannel.SendText"} {
		fi := x.c.mustFunc("C20.R4", "", name)
		if fi == nil {
			continue
		}
		pos := P.Pos(fi.Decl.Pos())
		dims := []absint.Dim{{Key: "$recv.readyState.Load()", Domain: append([]absint.Val{absint.Nil{}}, dom...)}}
		t := absint.Tabulate(absint.Config{P: P, Dims: dims,
			Inline: func(fn *types.Func) bool {
				sig, _ := fn.Type().(*types.Signature)
				if sig == nil || sig.Recv() == nil {
					return false
				}
				rt := sig.Recv().Type()
				if p, ok := rt.(*types.Pointer); ok {
					rt = p.Elem()
				}
				return types.Identical(rt, dcType)
			},
			WatchCall: func(fn *types.Func, call *ast.CallExpr) string {
				if fn.Pkg() != nil && !strings.HasPrefix(fn.Pkg().Path(), core.ModPath) && strings.HasPrefix(fn.Name(), "Write") {
					return "write:" + fn.Name()
				}
				return ""
			}}, fi)
		if tableProblems(x.c, "C20.R4", fi.Name()+"|table", pos, t) {
			continue
		}
		r.Cells += len(t.Rows)
		for _, row := range t.Rows {
			st := row.Valuation["$recv.readyState.Load()"]
			key := fi.Name() + "|state=" + st.String()
			isOpen := false
			if k, ok := st.(absint.Const); ok && k.V.ExactString() == openC.Val().ExactString() {
				isOpen = true
			}
			bad := ""
			if len(row.Outcomes) == 0 {
				bad = "no outcome"
			}
			for _, o := range row.Outcomes {
				writes := 0
				for _, ev := range o.Trace {
					if strings.HasPrefix(ev, "write:") {
						writes++
					}
				}
				switch {
				case o.Panic != "":
					bad = "may panic: " + o.String()
				case isOpen && writes != 1:
					bad = sprintf("on an open channel the message is written %d time(s): %s", writes, o.String())
				case !isOpen && writes != 0:
					bad = "the message is written although the channel is not open: " + o.String()
				case !isOpen:
					if len(o.Results) != 1 {
						bad = "no error result"
					} else if _, isErr := o.Results[0].(absint.NonNil); !isErr {
						bad = "Send on a channel that is not open does not return a definite error: " + o.String()
					}
				}
			}
			okDetail := "not open: error, nothing written"
			if isOpen {
				okDetail = "open: written exactly once"
			}
			r.Check(bad == "", "C20.R4", key, pos, okDetail, bad)
		}
	}
}
