package props

import (
	"go/ast"
	"path/filepath"

	"verif/checker/core"
	"verif/checker/e4"
)

func init() {
	register(&Prop{
		ID:        "C30",
		Engine:    "e4range",
		Technique: "bounds/assertion/division obligations of the remote-input parsing layer: the index/slice checks the Go compiler's prove pass could not eliminate (re-derived on every run by compiling the root package and internal/fmtp with -d=ssa/check_bce), explicit panics, single-value type assertions, integer divisions and computed make sizes; discharged by a linear-arithmetic prover over dominating guards (go/cfg), definitions, range loops, caller-side guards, callee post-conditions and field invariants; the rest is a frozen, justified ledger",
		LevelText: "Bounds/assertion clause of 'no remote input can crash the process', scoped to the parsing layer reached from SetRemoteDescription, AddICECandidate, handleIncomingSSRC/handleUndeclaredSSRC, startRTPReceivers and the RTX repair goroutine: every index, slice, make, division, single-value assertion and explicit panic in those functions is compiler-proved, rule-proved or accepted in a written ledger; anything else is a violation.",
		LevelNote: "Ledger entries are reading, not proof (counted separately). Trusted: the compiler's prove pass; the library contracts listed in the evidence; 64-bit sums of lengths and <=32-bit quantities do not wrap. Does not decide panics inside pion/sdp, pion/ice, pion/rtp, pion/srtp or the interceptors, nil dereferences, data races between guard and use, or resource exhaustion.",
		DesignRef: "DESIGN.md §5 C30, §4 E4",
		Run:       runC30,
		Own386:    true,
	})
}

// c30Files: every function declared in these root-package files is in scope.
var c30Files = []string{"sdp.go", "icecandidate.go", "rtpcodec.go"}

// c30Pkgs: every function of these packages is in scope.
var c30Pkgs = []string{"internal/fmtp"}

// c30Funcs: root-package functions in scope (the remote path of the media engine, codec matching,
// receiver start-up incl. the Plan-B branch, undeclared-SSRC handling, packet inspection, the RTX goroutine).
var c30Funcs = []string{
	"PeerConnection.SetRemoteDescription", "PeerConnection.AddICECandidate",
	"PeerConnection.configureReceiver", "PeerConnection.startReceiver", "PeerConnection.configureRTPReceivers",
	"PeerConnection.startRTPReceivers", "runIfNewReceiver", "setRTPTransceiverCurrentDirection",
	"PeerConnection.handleUndeclaredSSRC", "PeerConnection.findMediaSectionByPayloadType",
	"PeerConnection.handleNonMediaBandwidthProbe", "PeerConnection.handleIncomingSSRC",
	"PeerConnection.undeclaredRTPMediaProcessor", "PeerConnection.undeclaredRTCPMediaProcessor",
	"MediaEngine.matchRemoteCodec", "MediaEngine.updateHeaderExtensionFromMediaSection", "MediaEngine.updateHeaderExtension",
	"MediaEngine.pushCodecs", "MediaEngine.addCodec", "MediaEngine.updateFromRemoteDescription", "MediaEngine.getCodecsByKind",
	"MediaEngine.getCodecByPayload", "findCodecByPayload", "MediaEngine.getRTPParametersByPayloadType", "MediaEngine.getRTPParametersByKind",
	"RTPTransceiver.setCodecPreferencesFromRemoteDescription", "RTPTransceiver.getCodecs", "findByMid", "satisfyTypeAndDirection", "handleUnknownRTPPacket",
	"TrackRemote.checkAndUpdateTrack", "TrackRemote.read", "TrackRemote.Read", "TrackRemote.peek", "TrackRemote.ReadRTP",
	"RTPReceiver.configureReceive", "RTPReceiver.startReceive", "RTPReceiver.receiveForRid", "RTPReceiver.receiveForRtx",
	"RTPReceiver.receiveForRtxInternal", "RTPReceiver.maybeStartRepairStreamReader", "RTPReceiver.readRTX", "RTPReceiver.readRTP",
}

func runC30(c *Ctx) {
	r := c.R
	r.Rule("C30.R0", "engine sanity: the compiler's residual list is obtained from a fresh compile of the root package and internal/fmtp, the prove-pass canary behaves, every diagnostic maps to an expression of a function, every scope anchor resolves, and the ledger has no stale entry", 2)
	r.Rule("C30.R1", "every index/slice expression of the remote-input parsing layer whose bounds check the prove pass kept (Found), refuted (Disproved) or never saw (folded away before it: marked *) is implied by dominating guards, definitions, range loops, earlier accesses, caller-side guards, callee post-conditions or a field invariant (linear arithmetic), or is justified in the ledger; checks the prove pass proved count as discharged by the compiler", 140)
	r.Rule("C30.R2", "every explicit panic and single-value type assertion in the parsing layer is justified in the ledger", 1)
	r.Rule("C30.R3", "every integer division by a non-constant and every make with a computed size in the parsing layer is proved safe or justified in the ledger (narrowing conversions are listed, not judged: they cannot panic, and the bounds proofs treat their result as unknown)", 8)
	r.Rule("C30.R4", "every goroutine started by a function of the parsing layer runs a function literal of that function (analysed in place) or another function of the scope table", 4)
	r.Rule("C30.R5", "nil discipline on the remote-input path: a value obtained from RTPTransceiver.Receiver()/Sender() (nil for a transceiver without that half) is used as a method receiver or handed to a callback only where a dominating test established it is not nil", 3)
	r.NotCovered = append(r.NotCovered,
		"panics inside pion/sdp, pion/ice, pion/rtp, pion/srtp, pion/interceptor (also when inlined into this package: listed, not judged)",
		"nil dereferences (nilaway was run once as cross-reference only)",
		"functions outside the scope table (user-facing API that does not parse remote input)",
		"a concurrent writer changing a slice between its guard and its use (data races are C40's subject)",
		"resource exhaustion")
	r.Trusted = append(r.Trusted, "the Go compiler's prove pass (bounds-check elimination) is sound")
	r.Trusted = append(r.Trusted, e4.ExternalContracts...)
	r.Trusted = append(r.Trusted, "sums of 64-bit ints built from lengths, constants and values of at most 32 bits do not wrap around")

	scoped := map[*core.FuncInfo]bool{}
	for _, name := range c30Funcs {
		if fi := c.mustFunc("C30.R0", "", name); fi != nil {
			scoped[fi] = true
		}
	}
	fileSeen := map[string]int{}
	inFiles := map[string]bool{}
	for _, f := range c30Files {
		inFiles[f] = true
	}
	inPkgs := map[string]bool{}
	for _, rel := range c30Pkgs {
		inPkgs[core.ModPath+"/"+rel] = true
	}
	for _, fi := range c.P.AllFuncs() {
		if fi.Decl.Body == nil {
			continue
		}
		if inPkgs[fi.Pkg.PkgPath] {
			scoped[fi] = true
			fileSeen[fi.Pkg.PkgPath]++
			continue
		}
		if fi.Pkg.PkgPath == core.ModPath {
			base := filepath.Base(c.P.Fset.Position(fi.Decl.Pos()).Filename)
			if inFiles[base] {
				scoped[fi] = true
				fileSeen[base]++
			}
		}
	}
	for _, f := range c30Files {
		if fileSeen[f] == 0 {
			r.Fail("C30.R0", "anchor:file "+f, "-", "scoped file no longer declares any function (renamed/moved?): fails closed")
		}
	}
	for p := range inPkgs {
		if fileSeen[p] == 0 {
			r.Fail("C30.R0", "anchor:package "+p, "-", "scoped package no longer declares any function: fails closed")
		}
	}
	r.OK("C30.R0", "scope", "-", sprintf("%d functions in scope (%d named, files %v, packages %v)", len(scoped), len(c30Funcs), c30Files, c30Pkgs))
	names := map[string]bool{}
	for fi := range scoped {
		names[fi.Pkg.PkgPath+"\x00"+fi.Name()] = true
	}
	// R4: goroutines started on the path stay inside the analysed scope
	for fi := range scoped {
		info := fi.Pkg.TypesInfo
		n := 0
		ast.Inspect(fi.Decl.Body, func(x ast.Node) bool {
			gs, ok := x.(*ast.GoStmt)
			if !ok {
				return true
			}
			n++
			key := sprintf("%s | go#%d", fi.Name(), n)
			pos := c.P.Pos(gs.Pos())
			if _, isLit := ast.Unparen(gs.Call.Fun).(*ast.FuncLit); isLit {
				r.OK("C30.R4", key+" | literal", pos, "the goroutine body is a literal of a scoped function: its obligations are judged with the function")
				return true
			}
			fn := core.Callee(info, gs.Call)
			if fn == nil {
				r.Undecided("C30.R4", key+" | dynamic", pos, "goroutine started through a function value: its body cannot be resolved statically")
				return true
			}
			callee := c.P.DeclOf(fn)
			switch {
			case callee == nil:
				r.Info("C30.R4", key+" | "+core.FuncName(fn), pos, "goroutine runs a function of another module (not judged)")
			case names[callee.Pkg.PkgPath+"\x00"+callee.Name()]:
				r.OK("C30.R4", key+" | "+callee.Name(), pos, "the goroutine runs a scoped function")
			default:
				r.Fail("C30.R4", key+" | "+callee.Name(), pos, "a scoped function starts a goroutine running "+callee.Name()+", which is outside the scope table: its bounds/assertion obligations are not judged (add it to c30Funcs)")
			}
			return true
		})
	}
	sc := &e4Scope{Prop: "C30", Pkgs: append([]string{""}, c30Pkgs...), Ledger: c30Ledger,
		InScope: func(fi *core.FuncInfo) bool { return names[fi.Pkg.PkgPath+"\x00"+fi.Name()] },
		RBounds: "C30.R1", RPanic: "C30.R2", RArith: "C30.R3", RInfra: "C30.R0"}
	st := e4Run(c, c.P, sc, "")
	e4Extra(r, "", st)
	if c.Thorough {
		p386, err := c.Load386()
		if err != nil {
			r.Fail("C30.R0", "load-386", "-", "cannot load the GOARCH=386 configuration: "+err.Error())
			return
		}
		st386 := e4Run(c, p386, sc, "@386")
		e4Extra(r, "_386", st386)
	}
	c30R5(c, "C30.R5")
}

// c30Ledger: residual obligations accepted after reading the code (function | operand | kind:goal).
// Each line was written after reading the function and convincing oneself that the access cannot fail
// for any remote input; the reasons are loop invariants or data-structure invariants the engine's
// dominance-based facts cannot express. Ledger entries are reading, not proof.
var c30Ledger = e4Ledger{
	// --- icecandidate.go: tokenizer over the extension string
	"(*ICECandidate).exportExtensions | extensions[start:i] | slice:lo<=hi": "loop invariant start <= i: start is 0 or (an earlier i)+1 and i only increases (i++ is the only update), so start never exceeds the current i",
	"(*ICECandidate).exportExtensions | extensions[start:] | slice:lo<=hi":  "same invariant start <= i, and this arm runs with i == len(extensions)-1, hence start <= len(extensions)",

	// --- rtpcodec.go / rtptransceiver.go: descending index over a slice that shrinks by one element at or above the index
	"filterUnattachedRTX | codecs[i] | index:idx<len":                                                                    "loop invariant i <= len(codecs)-1: i starts at len-1, each iteration decrements i and removes at most one element (the one at i), so len shrinks no faster than i",
	"(*RTPTransceiver).setCodecPreferencesFromRemoteDescription$lit1 | remoteCodecs[remoteCodecIdx] | index:idx<len":     "descending loop from len(remoteCodecs)-1; the only shrink of remoteCodecs inside the loop removes exactly the element at remoteCodecIdx, after which the index is decremented: remoteCodecIdx <= len-1 is invariant (the closure is called twice, each call re-reads len)",
	"(*RTPTransceiver).setCodecPreferencesFromRemoteDescription$lit1 | remoteCodecs[:remoteCodecIdx] | slice:hi<=cap":    "dominated by the successful read remoteCodecs[remoteCodecIdx] of the same iteration with no write to remoteCodecs in between (the variable is captured by the closure, which is why the engine does not track it)",
	"(*RTPTransceiver).setCodecPreferencesFromRemoteDescription$lit1 | remoteCodecs[remoteCodecIdx + 1:] | slice:lo<=hi": "remoteCodecIdx < len(remoteCodecs) from the read at the top of the iteration, so remoteCodecIdx+1 <= len",
	"(*RTPTransceiver).setCodecPreferencesFromRemoteDescription$lit1 | leftCodecs[leftCodecIdx] | index:idx<len":         "descending loop from len(leftCodecs)-1 that breaks right after its only removal, so leftCodecIdx <= len-1 throughout",
	"(*RTPTransceiver).setCodecPreferencesFromRemoteDescription$lit1 | leftCodecs[:leftCodecIdx] | slice:hi<=cap":        "dominated by the successful read leftCodecs[leftCodecIdx] of the same iteration; leftCodecs is not written in between",
	"(*RTPTransceiver).setCodecPreferencesFromRemoteDescription$lit1 | leftCodecs[leftCodecIdx + 1:] | slice:lo<=hi":     "leftCodecIdx < len(leftCodecs) from the read at the top of the iteration, so leftCodecIdx+1 <= len",

	// --- sdp.go
	"trackDetailsFromSDP | tracksInMediaSection[i].ssrcs[0] | index:idx<len":                 "inside the attribute loop every element of tracksInMediaSection was appended by the a=ssrc arm right after `trackDetails.ssrcs = []SSRC{SSRC(ssrc)}` (or is a copy made by filterTrackWithSSRC), so each has exactly one ssrc; the rid-only track (empty ssrcs) replaces the slice only after the loop",
	"getRids | range ridStates | range-func:iterator-internal":                               "bounds checks inside the standard library iterator strings.SplitSeq inlined here; it has no precondition on its string arguments",
	"populateSDP | descr.MediaDescriptions[len(descr.MediaDescriptions) - 1] | index:idx>=0": "reached only with shouldAddID == true: either addDataMediaSection returned nil (its last action is descr.WithMedia) or addTransceiverSDP returned (true, nil), whose only such return follows descr.WithMedia(media); so at least one media description exists (local SDP generation, no remote input)",

	// --- internal/fmtp
	"parseParameters | range strings.SplitSeq(line, \";\") | range-func:iterator-internal": "bounds checks inside the standard library iterator strings.SplitSeq inlined here; it has no precondition on its string arguments",

	// --- rtpreceiver.go: the RTX repair goroutine works on buffers from r.rtxPool
	"(*RTPReceiver).maybeStartRepairStreamReader$lit1 | r.rtxPool.Get().([]byte) | assert:dynamic-type":       "rtxPool.New returns make([]byte, receiveMTU) and every Put in the module passes a []byte (the same buffer or pkt[:cap(pkt)]), so Get never yields another dynamic type",
	"(*RTPReceiver).maybeStartRepairStreamReader$lit1 | b[0] | index:idx<len":                                 "b is an rtxPool buffer of the configured receive MTU (default 1500; a zero setting falls back to the default); an MTU below the fixed RTP header is an application misconfiguration, not remote input",
	"(*RTPReceiver).maybeStartRepairStreamReader$lit1 | b[headerLength + 2:headerLength + 4] | slice:hi<=cap": "headerLength = 12+4*CC <= 72 here (CC is 4 bits), so the bound is <= 76, far below the receive-MTU-sized pool buffer",
	"(*RTPReceiver).maybeStartRepairStreamReader$lit1 | b[i - 1] | index:idx>=0":                              "i is the length of a packet the SRTP session decrypted and the interceptor chain returned without error: at least the 12-byte RTP header, so i >= 1",
	"(*RTPReceiver).maybeStartRepairStreamReader$lit1 | b[2:4] | slice:hi<=cap":                               "pool buffer of receive-MTU size (>= 12 for any usable configuration)",
	"(*RTPReceiver).maybeStartRepairStreamReader$lit1 | b[8:12] | slice:hi<=cap":                              "pool buffer of receive-MTU size (>= 12 for any usable configuration)",
	"(*RTPReceiver).maybeStartRepairStreamReader$lit1 | b[2] | index:idx<len":                                 "pool buffer of receive-MTU size (>= 12 for any usable configuration)",
	"(*RTPReceiver).maybeStartRepairStreamReader$lit1 | b[3] | index:idx<len":                                 "pool buffer of receive-MTU size (>= 12 for any usable configuration)",
}
