package props

import (
	"go/ast"
	"go/token"
	"go/types"
	"sort"
	"strings"

	"verif/checker/core"
)

// c21R6: "once GracefulClose returns, no goroutine started by the connection is still running" - the data channel read
// loop. DataChannel.close(graceful) samples d.readLoopActive (closed by the read loop's own defer) and must wait on it on
// EVERY return when graceful is requested and a loop exists, including the early returns for a channel that
// PeerConnection.close has already marked closed. Path rule: from the entry, without passing a wait point (a receive
// from the sampled channel, or a defer of a literal containing one) and without taking a branch that establishes
// `!graceful` or `sampled channel == nil`, the exit is unreachable.
func c21R6(c *Ctx) {
	r := c.R
	const rule = "C21.R6"
	fi := c.mustFunc(rule, "", "DataChannel.close")
	activeF := c.mustField(rule, "", "DataChannel", "readLoopActive")
	if fi == nil || activeF == nil {
		return
	}
	g := c.P.GraphOf(fi)
	info := g.Info
	pos := c.P.Pos(fi.Decl.Pos())
	sig := fi.Obj.Type().(*types.Signature)
	var graceful *types.Var
	for i := 0; i < sig.Params().Len(); i++ {
		if types.Identical(sig.Params().At(i).Type(), types.Typ[types.Bool]) {
			graceful = sig.Params().At(i)
		}
	}
	if graceful == nil {
		r.Undecided(rule, "DataChannel.close|graceful-waits-for-read-loop-on-every-return", pos, "close no longer takes the graceful flag")
		return
	}
	samples := map[*types.Var]bool{}
	for _, n := range g.Nodes {
		as, ok := n.Ast.(*ast.AssignStmt)
		if !ok || len(as.Lhs) != len(as.Rhs) {
			continue
		}
		for i, rh := range as.Rhs {
			if core.FieldOf(info, rh) == activeF {
				if v := core.VarOf(info, as.Lhs[i]); v != nil {
					samples[v] = true
				}
			}
		}
	}
	isChan := func(e ast.Expr) bool { return samples[core.VarOf(info, e)] }
	hasRecv := func(n ast.Node) bool {
		found := false
		ast.Inspect(n, func(x ast.Node) bool {
			if u, ok := x.(*ast.UnaryExpr); ok && u.Op == token.ARROW && isChan(u.X) {
				found = true
			}
			return true
		})
		return found
	}
	waits := map[int]bool{}
	for _, n := range g.Nodes {
		if n.Ast == nil {
			continue
		}
		switch s := n.Ast.(type) {
		case *ast.DeferStmt:
			if fl, ok := s.Call.Fun.(*ast.FuncLit); ok && hasRecv(fl.Body) {
				waits[n.ID] = true
			}
		case *ast.GoStmt:
		default:
			if hasRecv(n.Ast) {
				waits[n.ID] = true
			}
		}
	}
	var notRequired func(e ast.Expr, truth bool) bool // the branch establishes !graceful or channel == nil
	notRequired = func(e ast.Expr, truth bool) bool {
		switch v := ast.Unparen(e).(type) {
		case *ast.UnaryExpr:
			if v.Op == token.NOT {
				return notRequired(v.X, !truth)
			}
		case *ast.BinaryExpr:
			switch {
			case v.Op == token.LAND && !truth:
				// !(a && b): some conjunct is false; sound only when EVERY conjunct's falsity is a reason not to wait
				return notRequired(v.X, false) && notRequired(v.Y, false)
			case v.Op == token.LOR && truth:
				return notRequired(v.X, true) && notRequired(v.Y, true)
			case v.Op == token.EQL || v.Op == token.NEQ:
				if isChan(v.X) && core.IsNilIdent(info, v.Y) || isChan(v.Y) && core.IsNilIdent(info, v.X) {
					return truth == (v.Op == token.EQL)
				}
			}
		case *ast.Ident:
			return core.VarOf(info, v) == graceful && !truth
		}
		return false
	}
	if len(waits) == 0 {
		r.Fail(rule, "DataChannel.close|graceful-waits-for-read-loop-on-every-return", pos, "close never waits on the read loop's completion channel: GracefulClose can return while the read loop goroutine (and the OnMessage handler it runs) is still active")
		return
	}
	reach := g.ReachFromEntry(func(x int) bool { return waits[x] }, func(from, idx int, e core.Edge) bool {
		return e.Cond != nil && e.Tag == nil && e.Branch != 0 && notRequired(e.Cond, e.Branch == 1)
	})
	var bad []string
	for x := range reach {
		if _, ok := g.Nodes[x].Ast.(*ast.ReturnStmt); ok {
			bad = append(bad, c.P.Pos(g.PosOf(x)))
		}
	}
	sort.Strings(bad)
	r.Cells++
	r.Check(!reach[g.Exit], rule, "DataChannel.close|graceful-waits-for-read-loop-on-every-return", pos, sprintf("every return of a graceful close with a live read loop is preceded by one of %d wait point(s)", len(waits)),
		"a graceful close with a running read loop can return (at "+strings.Join(bad, ", ")+") without waiting for the loop to finish: PeerConnection.GracefulClose marks every channel closed first, so it returns while the read loop goroutine is still inside the application's OnMessage handler")
}
