package props

import (
	"go/ast"
	"go/constant"
	"go/token"
	"sort"
	"strings"

	"verif/checker/core"
)

// c35R4: once the gate is open every packet reaches the depacketizer. In H264Writer.WriteRTP / H265Writer.WriteRTP a path
// from the entry to a return may bypass the depacketizer's Unmarshal only through a branch that establishes
// len(packet.Payload) == 0 (nothing to write) or that the keyframe gate is still closed (!hasKeyFrame). Any wider early
// return drops NAL units the payloader produced (a one-byte end-of-sequence NAL is a complete single-NAL packet).
func c35R4(c *Ctx) {
	r := c.R
	const rule = "C35.R4"
	for _, w := range []struct{ rel, typ string }{{"pkg/media/h264writer", "H264Writer"}, {"pkg/media/h265writer", "H265Writer"}} {
		fi := c.mustFunc(rule, w.rel, w.typ+".WriteRTP")
		gateF := c.mustField(rule, w.rel, w.typ, "hasKeyFrame")
		depF := c.mustField(rule, w.rel, w.typ, "cachedPacket")
		if fi == nil || gateF == nil || depF == nil {
			continue
		}
		g := c.P.GraphOf(fi)
		info := g.Info
		key := w.typ + ".WriteRTP|every-packet-reaches-the-depacketizer"
		pos := c.P.Pos(fi.Decl.Pos())
		dep := map[int]bool{}
		for _, n := range g.Nodes {
			if n.Ast == nil {
				continue
			}
			core.InspectShallow(n.Ast, func(x ast.Node) bool {
				if call, ok := x.(*ast.CallExpr); ok {
					if sel, ok := ast.Unparen(call.Fun).(*ast.SelectorExpr); ok && sel.Sel.Name == "Unmarshal" && core.FieldOf(info, sel.X) == depF {
						dep[n.ID] = true
					}
				}
				return true
			})
		}
		if len(dep) == 0 {
			r.Undecided(rule, key, pos, "no cachedPacket.Unmarshal call in WriteRTP's own body")
			continue
		}
		isPayloadLen := func(e ast.Expr) bool {
			call, ok := ast.Unparen(e).(*ast.CallExpr)
			if !ok || len(call.Args) != 1 {
				return false
			}
			if id, ok := call.Fun.(*ast.Ident); !ok || id.Name != "len" {
				return false
			}
			sel, ok := ast.Unparen(call.Args[0]).(*ast.SelectorExpr)
			return ok && sel.Sel.Name == "Payload"
		}
		var allowed func(e ast.Expr, truth bool) bool
		allowed = func(e ast.Expr, truth bool) bool {
			switch v := ast.Unparen(e).(type) {
			case *ast.UnaryExpr:
				if v.Op == token.NOT {
					return allowed(v.X, !truth)
				}
			case *ast.BinaryExpr:
				if v.Op == token.LAND && truth || v.Op == token.LOR && !truth {
					return allowed(v.X, truth) || allowed(v.Y, truth)
				}
				x, y, op := v.X, v.Y, v.Op
				if !isPayloadLen(x) && isPayloadLen(y) {
					x, y = y, x
					switch op {
					case token.LSS:
						op = token.GTR
					case token.LEQ:
						op = token.GEQ
					case token.GTR:
						op = token.LSS
					case token.GEQ:
						op = token.LEQ
					}
				}
				if !isPayloadLen(x) {
					return false
				}
				tv, ok := info.Types[y]
				if !ok || tv.Value == nil || tv.Value.Kind() != constant.Int {
					return false
				}
				k, _ := constant.Int64Val(tv.Value)
				// does (len OP k) == truth imply len == 0 ?  (len >= 0)
				holds := func(l int64) bool {
					var b bool
					switch op {
					case token.EQL:
						b = l == k
					case token.NEQ:
						b = l != k
					case token.LSS:
						b = l < k
					case token.LEQ:
						b = l <= k
					case token.GTR:
						b = l > k
					case token.GEQ:
						b = l >= k
					default:
						return true
					}
					return b == truth
				}
				for l := int64(1); l <= 4; l++ {
					if holds(l) {
						return false
					}
				}
				return holds(0) && !holds(1 << 40)
			default:
				return !truth && core.FieldOf(info, e) == gateF
			}
			return false
		}
		reach := g.ReachFromEntry(func(x int) bool { return dep[x] }, func(from, idx int, e core.Edge) bool {
			if e.Cond == nil || e.Tag != nil || e.Branch == 0 || !allowed(e.Cond, e.Branch == 1) {
				return false
			}
			// an allowed edge is a pure drop path: the depacketizer is not reachable from it any more
			for x := range g.Reach([]int{e.To}, nil, nil) {
				if dep[x] {
					return false
				}
			}
			return true
		})
		var bad []string
		for x := range reach {
			if _, ok := g.Nodes[x].Ast.(*ast.ReturnStmt); ok {
				bad = append(bad, c.P.Pos(g.PosOf(x)))
			}
		}
		sort.Strings(bad)
		r.Cells++
		r.Check(!reach[g.Exit], rule, key, pos, "WriteRTP bypasses the depacketizer only for an empty payload or a closed keyframe gate",
			"WriteRTP can return (at "+strings.Join(bad, ", ")+") without handing a non-empty packet to the depacketizer although the keyframe gate is open: NAL units the payloader produced (e.g. a one-byte end-of-sequence NAL) are missing from the output")
	}
}
