package props

import (
	"go/ast"
	"go/constant"
	"go/token"
	"go/types"
	"sort"
	"strings"

	"golang.org/x/tools/go/ssa"

	"verif/checker/core"
)

func init() {
	register(&Prop{
		ID:        "C28",
		Engine:    "e6flow+e2cfg",
		Technique: "data-dependence closure on go/ssa (which fields and calls each tick count / stored remainder is computed from) plus go/cfg must-pass-through and loop-shape rules in TrackLocalStaticSample.WriteSample and Bind",
		LevelText: "Structural necessary conditions of drift-free timestamping, decided on every path of WriteSample: the tick count handed to the packetizer is computed from the sample duration, the clock rate AND the carried fractional remainder; the remainder written back is computed from that very tick count and is stored on every path that packetizes; dropped packets skip exactly PrevDroppedPackets sequence numbers on the sequencer the packetizer was built with, and their ticks are skipped on the packetizer and deducted from the carried total; every packet the packetizer returns is written exactly once. The numeric claim itself (floor, within one tick, mod 2^32) is NOT decided.",
		LevelNote: "Trusted: go/ssa construction; pion/rtp's Packetizer/Sequencer behave as documented (same timestamp for all packets of one Packetize call; SkipSamples advances the timestamp; NextSequenceNumber advances by one). Floating-point rounding over long sequences is outside static reach (DESIGN.md §5 C28).",
		DesignRef: "DESIGN.md §5 C28",
		Run:       runC28,
	})
}

func c28FieldNames(m map[*types.Var]bool) string {
	var s []string
	for f := range m {
		s = append(s, f.Name())
	}
	sort.Strings(s)
	return strings.Join(s, ",")
}

func runC28(c *Ctx) {
	r := c.R
	r.Rule("C28.R1", "carry-in: the tick count passed to Packetizer.Packetize in WriteSample is computed from sample.Duration, the track clock rate and the stored fractional remainder", 1)
	r.Rule("C28.R2", "carry-out: every store to the remainder field is computed from the old remainder, the duration, the clock rate and the very tick count handed to Packetize; a store lies on every path that calls Packetize", 2)
	r.Rule("C28.R3", "dropped packets: SkipSamples is called only when PrevDroppedPackets is non-zero, with a tick count computed from PrevDroppedPackets, duration, clock rate and remainder, and those ticks are deducted from the total carried into the sample's own tick count", 3)
	r.Rule("C28.R4", "sequence skipping: NextSequenceNumber is called exactly PrevDroppedPackets times (counting loop bounded by that field, unconditional call, no early exit) on the sequencer stored in the track", 2)
	r.Rule("C28.R5", "every packet returned by Packetize is passed to WriteRTP exactly once (plain range over the result, unconditional call, no break/continue/return)", 1)
	r.Rule("C28.R6", "Bind wiring: the packetizer is constructed with the track's stored sequencer and the codec clock rate that is also stored as the track clock rate; WriteSample uses the stored packetizer/sequencer/clock rate", 4)
	r.Rule("C28.R7", "every sample is accounted for: WriteSample returns before the Packetize call only through the edge that establishes exactly `packetizer == nil` (track not bound)", 1)
	r.Rule("C28.R8", "Bind stores a sequencer only on a path that goes on to build the packetizer from it (every path from a store of the sequencer field to a successful return passes a store of the packetizer field)", 2)
	r.Rule("C28.R9", "the NextSequenceNumber skip for reported drops and the Packetize call of one WriteSample share one critical section of the sample mutex (the gap belongs to the sample that reported the loss)", 1)
	r.Rule("C28.R10", "TrackLocalStaticSample.packetizer is written only in Bind and never with nil (the timeline - timestamp and sequencer - is never restarted)", 1)
	r.NotCovered = append(r.NotCovered,
		"the numeric statement: timestamp = initial + floor(total duration x clock rate) within one tick, mod 2^32 (floating-point accumulation over unbounded sequences)",
		"that all packets of one sample share a timestamp and that sequence numbers increase by one per packet (pion/rtp Packetizer, outside the module)",
		"GeneratePadding")
	r.Trusted = append(r.Trusted, "go/ssa construction", "pion/rtp Packetizer and Sequencer contracts")

	ws := c.mustFunc("C28.R1", "", "TrackLocalStaticSample.WriteSample")
	bind := c.mustFunc("C28.R6", "", "TrackLocalStaticSample.Bind")
	fRem := c.mustField("C28.R1", "", "TrackLocalStaticSample", "remainder")
	fClock := c.mustField("C28.R1", "", "TrackLocalStaticSample", "clockRate")
	fSeq := c.mustField("C28.R4", "", "TrackLocalStaticSample", "sequencer")
	fPkt := c.mustField("C28.R6", "", "TrackLocalStaticSample", "packetizer")
	fDur := c.mustField("C28.R1", "pkg/media", "Sample", "Duration")
	fDrop := c.mustField("C28.R3", "pkg/media", "Sample", "PrevDroppedPackets")
	writeRTP := c.mustFunc("C28.R5", "", "TrackLocalStaticRTP.WriteRTP")
	if ws == nil || bind == nil || fRem == nil || fClock == nil || fSeq == nil || fPkt == nil || fDur == nil || fDrop == nil || writeRTP == nil {
		return
	}
	mPacketize := c.P.InterfaceMethod("github.com/pion/rtp", "Packetizer", "Packetize")
	mSkip := c.P.InterfaceMethod("github.com/pion/rtp", "Packetizer", "SkipSamples")
	mNext := c.P.InterfaceMethod("github.com/pion/rtp", "Sequencer", "NextSequenceNumber")
	if mPacketize == nil || mSkip == nil || mNext == nil {
		r.Fail("C28.R1", "anchor:github.com/pion/rtp.Packetizer/Sequencer", "-", "pion/rtp Packetizer.Packetize/SkipSamples or Sequencer.NextSequenceNumber no longer resolve (fails closed)")
		return
	}
	c28R78(c, ws, bind, fSeq, fPkt, mPacketize) // c28b.go
	c28R910(c, ws, bind, fPkt, mPacketize, mNext)
	fn := c.P.SSAFunc(ws)
	if fn == nil || len(fn.Blocks) == 0 {
		r.Fail("C28.R1", "anchor:ssa:WriteSample", "-", "no SSA body for WriteSample")
		return
	}
	pos := c.P.Pos(ws.Decl.Pos())
	g := c.P.GraphOf(ws)
	info := g.Info

	need := func(rule, key, p string, d *core.DepSet, what string, fields ...*types.Var) bool {
		var missing []string
		for _, f := range fields {
			if !d.HasField(f) {
				missing = append(missing, f.Name())
			}
		}
		r.Cells += len(d.Values)
		if len(missing) > 0 {
			r.Fail(rule, key, p, what+" does not depend on "+strings.Join(missing, ", ")+" (depends on fields: "+c28FieldNames(d.Fields)+")")
			return false
		}
		r.OK(rule, key, p, what+" depends on "+c28FieldNames(d.Fields))
		return true
	}

	// ---- R1
	pcalls := core.SSACallsTo(fn, mPacketize)
	if len(pcalls) != 1 {
		r.Undecided("C28.R1", "WriteSample|Packetize-call", pos, sprintf("expected exactly one Packetize call in WriteSample, found %d", len(pcalls)))
		return
	}
	pc := pcalls[0]
	if len(pc.Common().Args) != 2 {
		r.Undecided("C28.R1", "WriteSample|Packetize-call", pos, "Packetize no longer takes (payload, samples)")
		return
	}
	ticks := pc.Common().Args[1]
	ppos := c.P.Pos(pc.Pos())
	dT := core.ValueDeps(ticks)
	need("C28.R1", "WriteSample|Packetize.samples", ppos, dT, "tick count passed to Packetize", fDur, fClock, fRem)
	// the packetizer receiver is the stored one
	dRecv := core.ValueDeps(pc.Common().Value)
	r.Check(dRecv.HasField(fPkt), "C28.R6", "WriteSample|Packetize.receiver", ppos, "packetizes with the track's stored packetizer", "Packetize is not invoked on the packetizer stored in the track")

	// ---- R2
	stores := core.SSAFieldStores(fn, fRem)
	if len(stores) == 0 {
		r.Fail("C28.R2", "WriteSample|remainder-store", pos, "WriteSample never writes the fractional remainder back: fractional ticks are lost on every sample (drift)")
	}
	for i, st := range stores {
		d := core.ValueDeps(st.Val)
		key := sprintf("WriteSample|remainder-store#%d", i)
		if need("C28.R2", key, c.P.Pos(st.Pos()), d, "stored remainder", fDur, fClock, fRem) {
			r.Check(d.ContainsEquiv(ticks), "C28.R2", key+"|uses-packetized-ticks", c.P.Pos(st.Pos()),
				"remainder is what is left after the tick count handed to Packetize",
				"stored remainder is not computed from the tick count handed to Packetize: the fraction carried forward and the ticks consumed disagree")
		}
	}
	// a store on every path that packetizes (AST graph)
	isRemStore := func(n ast.Node) bool {
		as, ok := n.(*ast.AssignStmt)
		if !ok {
			return false
		}
		for _, l := range as.Lhs {
			if core.FieldOf(info, l) == fRem {
				return true
			}
		}
		return false
	}
	isCallTo := func(m *types.Func) func(ast.Node) bool {
		return func(n ast.Node) bool {
			call, ok := n.(*ast.CallExpr)
			return ok && core.Callee(info, call) == m.Origin()
		}
	}
	sNodes := core.NodeSet(g.FindNodes(isRemStore))
	pNodes := g.FindNodes(isCallTo(mPacketize))
	if len(pNodes) == 1 && len(sNodes) > 0 {
		before := g.Dominated(pNodes[0], sNodes)
		after := !g.Reach([]int{pNodes[0]}, func(n int) bool { return sNodes[n] }, nil)[g.Exit]
		r.Check(before || after, "C28.R2", "WriteSample|remainder-stored-on-every-packetizing-path", ppos,
			"every path through Packetize stores the remainder", "a path packetizes a sample without storing the new remainder (its fractional ticks are lost or double-counted)")
	} else if len(stores) > 0 {
		r.Undecided("C28.R2", "WriteSample|remainder-stored-on-every-packetizing-path", pos, "could not locate the Packetize call / remainder assignment in the syntax graph")
	}

	// ---- R3
	scalls := core.SSACallsTo(fn, mSkip)
	if len(scalls) == 0 {
		r.Fail("C28.R3", "WriteSample|SkipSamples-call", pos, "WriteSample never calls Packetizer.SkipSamples: dropped packets' duration is not skipped")
	}
	for i, sc := range scalls {
		key := sprintf("WriteSample|SkipSamples#%d", i)
		if len(sc.Common().Args) != 1 {
			r.Undecided("C28.R3", key, c.P.Pos(sc.Pos()), "SkipSamples no longer takes one argument")
			continue
		}
		arg := sc.Common().Args[0]
		need("C28.R3", key+".ticks", c.P.Pos(sc.Pos()), core.ValueDeps(arg), "tick count passed to SkipSamples", fDrop, fDur, fClock, fRem)
		r.Check(dT.ContainsEquiv(arg), "C28.R3", key+"|deducted-from-carry", c.P.Pos(sc.Pos()),
			"the skipped ticks are deducted from the total carried into the sample's tick count",
			"the ticks skipped for dropped packets do not feed the remainder carried into the sample's own tick count (skipped duration counted twice or not at all)")
	}
	// guard: only when PrevDroppedPackets != 0
	skipNodes := g.FindNodes(isCallTo(mSkip))
	if len(skipNodes) > 0 {
		edges := map[core.EdgeRef]bool{}
		for _, n := range g.Nodes {
			for i, e := range n.Succs {
				if e.Cond != nil && e.Tag == nil && c28NonZeroEdge(info, e.Cond, e.Branch == 1, fDrop) {
					edges[core.EdgeRef{From: n.ID, Idx: i}] = true
				}
			}
		}
		for _, sn := range skipNodes {
			r.Check(len(edges) > 0 && g.DominatedByEdges(sn, edges), "C28.R3", "WriteSample|SkipSamples-guarded-by-drop-count", c.P.Pos(g.PosOf(sn)),
				"SkipSamples only runs when PrevDroppedPackets is non-zero", "SkipSamples is reachable when no packet was dropped (or the guard no longer tests PrevDroppedPackets)")
		}
	}

	// ---- R4
	c28SeqLoop(c, ws, g, fn, mNext, fDrop, fSeq)

	// ---- R5
	c28WriteLoop(c, ws, g, mPacketize, writeRTP)

	// ---- R6
	c28Bind(c, bind, fSeq, fClock, fPkt)
}

// c28NonZeroEdge: taking this edge of cond implies field f (of some operand) is non-zero.
func c28NonZeroEdge(info *types.Info, cond ast.Expr, truth bool, f *types.Var) bool {
	cond = ast.Unparen(cond)
	switch x := cond.(type) {
	case *ast.UnaryExpr:
		if x.Op == token.NOT {
			return c28NonZeroEdge(info, x.X, !truth, f)
		}
	case *ast.BinaryExpr:
		switch x.Op {
		case token.LAND:
			if truth {
				return c28NonZeroEdge(info, x.X, true, f) || c28NonZeroEdge(info, x.Y, true, f)
			}
			return false
		case token.LOR:
			if !truth {
				return c28NonZeroEdge(info, x.X, false, f) || c28NonZeroEdge(info, x.Y, false, f)
			}
			return false
		}
		a, b, op := x.X, x.Y, x.Op
		isZero := func(e ast.Expr) bool {
			tv, ok := info.Types[e]
			return ok && tv.Value != nil && tv.Value.Kind() == constant.Int && constant.Sign(tv.Value) == 0
		}
		isF := func(e ast.Expr) bool {
			e = ast.Unparen(e)
			if call, ok := e.(*ast.CallExpr); ok && len(call.Args) == 1 { // conversion
				if tv, ok := info.Types[call.Fun]; ok && tv.IsType() {
					e = ast.Unparen(call.Args[0])
				}
			}
			return core.FieldOf(info, e) == f
		}
		if isZero(a) && isF(b) { // 0 op f  ==  f op' 0
			a, b = b, a
			switch op {
			case token.LSS:
				op = token.GTR
			case token.GTR:
				op = token.LSS
			case token.LEQ:
				op = token.GEQ
			case token.GEQ:
				op = token.LEQ
			}
		}
		if !isF(a) || !isZero(b) {
			return false
		}
		switch op {
		case token.GTR, token.NEQ:
			return truth
		case token.EQL, token.LEQ:
			return !truth
		}
	}
	return false
}

func c28SeqLoop(c *Ctx, ws *core.FuncInfo, g *core.Graph, fn *ssa.Function, mNext *types.Func, fDrop, fSeq *types.Var) {
	r := c.R
	info := g.Info
	pos := c.P.Pos(ws.Decl.Pos())
	// receiver provenance (SSA)
	ncalls := core.SSACallsTo(fn, mNext)
	if len(ncalls) == 0 {
		r.Fail("C28.R4", "WriteSample|NextSequenceNumber-call", pos, "WriteSample never advances the sequencer for dropped packets")
		return
	}
	for i, nc := range ncalls {
		d := core.ValueDeps(nc.Common().Value)
		r.Check(d.HasField(fSeq), "C28.R4", sprintf("WriteSample|NextSequenceNumber#%d.receiver", i), c.P.Pos(nc.Pos()),
			"advances the track's stored sequencer", "NextSequenceNumber is not invoked on the sequencer stored in the track (the packetizer's sequence numbers are not skipped)")
	}
	// loop shape (AST)
	var loops []ast.Stmt
	ast.Inspect(ws.Decl.Body, func(n ast.Node) bool {
		switch s := n.(type) {
		case *ast.FuncLit:
			return false
		case *ast.ForStmt, *ast.RangeStmt:
			found := false
			ast.Inspect(s, func(m ast.Node) bool {
				if call, ok := m.(*ast.CallExpr); ok && core.Callee(info, call) == mNext.Origin() {
					found = true
				}
				return true
			})
			if found {
				loops = append(loops, s.(ast.Stmt))
			}
		}
		return true
	})
	calls := 0
	ast.Inspect(ws.Decl.Body, func(n ast.Node) bool {
		if call, ok := n.(*ast.CallExpr); ok && core.Callee(info, call) == mNext.Origin() {
			calls++
		}
		return true
	})
	key := "WriteSample|skip-loop"
	if len(loops) == 0 || calls != 1 {
		r.Undecided("C28.R4", key, pos, sprintf("expected one NextSequenceNumber call inside one counting loop, found %d call(s) in %d loop(s)", calls, len(loops)))
		return
	}
	loop := loops[len(loops)-1] // innermost
	isDropField := func(e ast.Expr) bool {
		e = ast.Unparen(e)
		if call, ok := e.(*ast.CallExpr); ok && len(call.Args) == 1 {
			if tv, ok := info.Types[call.Fun]; ok && tv.IsType() {
				e = ast.Unparen(call.Args[0])
			}
		}
		return core.FieldOf(info, e) == fDrop
	}
	var body *ast.BlockStmt
	var counter *types.Var
	why := ""
	switch l := loop.(type) {
	case *ast.RangeStmt:
		body = l.Body
		if !isDropField(l.X) {
			why = "range operand is not sample.PrevDroppedPackets"
		}
		if l.Key != nil {
			counter = core.VarOf(info, l.Key)
		}
	case *ast.ForStmt:
		body = l.Body
		// init: v := 0
		as, ok := l.Init.(*ast.AssignStmt)
		if !ok || len(as.Lhs) != 1 || len(as.Rhs) != 1 {
			why = "loop init is not a single assignment"
			break
		}
		counter = core.VarOf(info, as.Lhs[0])
		if tv, ok := info.Types[as.Rhs[0]]; !ok || tv.Value == nil || constant.Sign(tv.Value) != 0 {
			why = "loop counter does not start at 0"
		}
		be, ok := l.Cond.(*ast.BinaryExpr)
		switch {
		case !ok:
			why = "loop condition is not a comparison"
		case be.Op == token.LSS && core.VarOf(info, be.X) == counter && counter != nil && isDropField(be.Y):
		case be.Op == token.GTR && core.VarOf(info, be.Y) == counter && counter != nil && isDropField(be.X):
		default:
			why = "loop condition is not `counter < sample.PrevDroppedPackets`"
		}
		inc, ok := l.Post.(*ast.IncDecStmt)
		if !ok || inc.Tok != token.INC || core.VarOf(info, inc.X) != counter {
			why = "loop post statement is not counter++"
		}
	}
	if why == "" && body != nil {
		// call unconditional at top level of the body; no exits; counter not reassigned
		top := false
		for _, s := range body.List {
			var e ast.Expr
			switch x := s.(type) {
			case *ast.ExprStmt:
				e = x.X
			case *ast.AssignStmt:
				if len(x.Rhs) == 1 {
					e = x.Rhs[0]
				}
			}
			if call, ok := e.(*ast.CallExpr); ok && core.Callee(info, call) == mNext.Origin() {
				top = true
			}
		}
		if !top {
			why = "the NextSequenceNumber call is conditional inside the loop body"
		}
		ast.Inspect(body, func(n ast.Node) bool {
			switch s := n.(type) {
			case *ast.BranchStmt, *ast.ReturnStmt:
				why = "the loop body can exit or skip an iteration early"
			case *ast.AssignStmt:
				for _, l := range s.Lhs {
					if counter != nil && core.VarOf(info, l) == counter {
						why = "the loop counter is reassigned in the body"
					}
				}
			case *ast.IncDecStmt:
				if counter != nil && core.VarOf(info, s.X) == counter {
					why = "the loop counter is modified in the body"
				}
			}
			return true
		})
	}
	r.Check(why == "", "C28.R4", key, c.P.Pos(loop.Pos()), "NextSequenceNumber runs exactly PrevDroppedPackets times", "sequence-number skipping loop: "+why)
}

func c28WriteLoop(c *Ctx, ws *core.FuncInfo, g *core.Graph, mPacketize *types.Func, writeRTP *core.FuncInfo) {
	r := c.R
	info := g.Info
	pos := c.P.Pos(ws.Decl.Pos())
	// variable holding Packetize's result
	var pktVar *types.Var
	ast.Inspect(ws.Decl.Body, func(n ast.Node) bool {
		if as, ok := n.(*ast.AssignStmt); ok && len(as.Lhs) == 1 && len(as.Rhs) == 1 {
			if call, ok := ast.Unparen(as.Rhs[0]).(*ast.CallExpr); ok && core.Callee(info, call) == mPacketize.Origin() {
				pktVar = core.VarOf(info, as.Lhs[0])
			}
		}
		return true
	})
	key := "WriteSample|write-loop"
	if pktVar == nil {
		r.Undecided("C28.R5", key, pos, "Packetize's result is not assigned to a variable")
		return
	}
	// the variable must not be reassigned elsewhere
	assigns := 0
	ast.Inspect(ws.Decl.Body, func(n ast.Node) bool {
		if as, ok := n.(*ast.AssignStmt); ok {
			for _, l := range as.Lhs {
				if core.VarOf(info, l) == pktVar {
					assigns++
				}
			}
		}
		return true
	})
	var loop *ast.RangeStmt
	ast.Inspect(ws.Decl.Body, func(n ast.Node) bool {
		if rs, ok := n.(*ast.RangeStmt); ok && core.VarOf(info, rs.X) == pktVar {
			loop = rs
		}
		return true
	})
	if loop == nil {
		r.Fail("C28.R5", key, pos, "no range loop over the packets returned by Packetize: packets of a sample are not all written")
		return
	}
	why := ""
	if assigns != 1 {
		why = "the packet slice is reassigned between Packetize and the write loop"
	}
	val := core.VarOf(info, loop.Value)
	if val == nil {
		why = "the loop does not bind the packet"
	}
	top := false
	for _, s := range loop.Body.List {
		var calls []*ast.CallExpr
		switch x := s.(type) {
		case *ast.ExprStmt:
			calls = core.CallsIn(x)
		case *ast.AssignStmt:
			calls = core.CallsIn(x)
		case *ast.IfStmt:
			if x.Init != nil {
				calls = core.CallsIn(x.Init)
			}
			calls = append(calls, core.CallsIn(x.Cond)...)
		}
		for _, call := range calls {
			if core.Callee(info, call) == writeRTP.Obj && len(call.Args) == 1 && core.VarOf(info, call.Args[0]) == val && val != nil {
				if top {
					why = "a packet is written more than once"
				}
				top = true
			}
		}
	}
	if !top && why == "" {
		why = "WriteRTP(packet) is not called unconditionally once per packet"
	}
	ast.Inspect(loop.Body, func(n ast.Node) bool {
		switch n.(type) {
		case *ast.BranchStmt, *ast.ReturnStmt:
			why = "the write loop can exit or skip a packet early (break/continue/return)"
		}
		return true
	})
	r.Check(why == "", "C28.R5", key, c.P.Pos(loop.Pos()), "every packet of the sample is written exactly once", why)
}

func c28Bind(c *Ctx, bind *core.FuncInfo, fSeq, fClock, fPkt *types.Var) {
	r := c.R
	fn := c.P.SSAFunc(bind)
	pos := c.P.Pos(bind.Decl.Pos())
	if fn == nil || len(fn.Blocks) == 0 {
		r.Fail("C28.R6", "anchor:ssa:Bind", "-", "no SSA body for TrackLocalStaticSample.Bind")
		return
	}
	fCodecClock := c.mustField("C28.R6", "", "RTPCodecCapability", "ClockRate")
	if fCodecClock == nil {
		return
	}
	// the value stored into s.packetizer
	pst := core.SSAFieldStores(fn, fPkt)
	if len(pst) == 0 {
		r.Fail("C28.R6", "Bind|packetizer-store", pos, "Bind never stores a packetizer")
		return
	}
	for i, st := range pst {
		key := sprintf("Bind|packetizer-store#%d", i)
		call, ok := st.Val.(*ssa.Call)
		if !ok || call.Common().StaticCallee() == nil || call.Common().StaticCallee().Pkg == nil || call.Common().StaticCallee().Pkg.Pkg.Path() != "github.com/pion/rtp" {
			r.Undecided("C28.R6", key, c.P.Pos(st.Pos()), "the stored packetizer is not the direct result of a pion/rtp constructor call")
			continue
		}
		var seqArg, clockArg ssa.Value
		sig := call.Common().StaticCallee().Signature
		for j, a := range call.Common().Args {
			if j >= sig.Params().Len() {
				break
			}
			pt := sig.Params().At(j).Type()
			if n, ok := pt.(*types.Named); ok && n.Obj().Name() == "Sequencer" {
				seqArg = a
			}
			if b, ok := pt.Underlying().(*types.Basic); ok && b.Kind() == types.Uint32 && sig.Params().At(j).Name() == "clockRate" {
				clockArg = a
			}
		}
		if seqArg == nil || clockArg == nil {
			r.Undecided("C28.R6", key, c.P.Pos(st.Pos()), "constructor "+call.Common().StaticCallee().Name()+" has no (Sequencer, clockRate uint32) parameters")
			continue
		}
		r.Check(core.ValueDeps(seqArg).HasField(fSeq), "C28.R6", key+"|sequencer", c.P.Pos(call.Pos()),
			"packetizer is built with the track's stored sequencer", "the packetizer is built with a sequencer other than the one stored in the track: WriteSample's sequence-number skipping acts on a different sequencer")
		r.Check(core.ValueDeps(clockArg).HasField(fCodecClock), "C28.R6", key+"|clock-rate", c.P.Pos(call.Pos()),
			"packetizer clock rate is the negotiated codec's", "the packetizer's clock rate is not the negotiated codec's ClockRate")
	}
	cst := core.SSAFieldStores(fn, fClock)
	if len(cst) == 0 {
		r.Fail("C28.R6", "Bind|clockRate-store", pos, "Bind never stores the track clock rate")
	}
	for i, st := range cst {
		r.Check(core.ValueDeps(st.Val).HasField(fCodecClock), "C28.R6", sprintf("Bind|clockRate-store#%d", i), c.P.Pos(st.Pos()),
			"track clock rate is the negotiated codec's", "the clock rate stored in the track is not the negotiated codec's ClockRate (tick computation and packetizer disagree)")
	}
}
