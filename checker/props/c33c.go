package props

import (
	"go/ast"
	"go/token"
	"go/types"
	"sort"
	"strings"

	"verif/checker/core"
)

// c33R7: a packet larger than one page is cut into consecutive tiles. In createPagesForSerial the page payload is
// payload[off : off+n]; joining the pages gives back the packet only if off advances by exactly that n after every page:
// every write of off (other than its initialisation to 0) is `off += n` / `off = off + n`, one such write lies on every
// path from one slicing to the next, and n is not written in between.
func c33R7(c *Ctx) {
	r := c.R
	const rule = "C33.R7"
	fi := c.mustFunc(rule, "pkg/media/oggwriter", "createPagesForSerial")
	if fi == nil {
		return
	}
	g := c.P.GraphOf(fi)
	info := g.Info
	pos := c.P.Pos(fi.Decl.Pos())
	sig := fi.Obj.Type().(*types.Signature)
	var payload *types.Var
	for i := 0; i < sig.Params().Len(); i++ {
		if sl, ok := sig.Params().At(i).Type().Underlying().(*types.Slice); ok && types.Identical(sl.Elem(), types.Typ[types.Byte]) {
			payload = sig.Params().At(i)
		}
	}
	key := "createPagesForSerial|pages-tile-the-packet"
	if payload == nil {
		r.Undecided(rule, key, pos, "no []byte payload parameter")
		return
	}
	type site struct {
		node   int
		off, n *types.Var
	}
	var sites []site
	for _, nd := range g.Nodes {
		if nd.Ast == nil {
			continue
		}
		core.InspectShallow(nd.Ast, func(x ast.Node) bool {
			se, ok := x.(*ast.SliceExpr)
			if !ok || core.VarOf(info, se.X) != payload || se.Low == nil || se.High == nil {
				return true
			}
			off := core.VarOf(info, se.Low)
			b, ok := ast.Unparen(se.High).(*ast.BinaryExpr)
			if off == nil || !ok || b.Op != token.ADD {
				return true
			}
			var n *types.Var
			if core.VarOf(info, b.X) == off {
				n = core.VarOf(info, b.Y)
			} else if core.VarOf(info, b.Y) == off {
				n = core.VarOf(info, b.X)
			}
			if n != nil {
				sites = append(sites, site{nd.ID, off, n})
			}
			return true
		})
	}
	if len(sites) != 1 {
		r.Undecided(rule, key, pos, sprintf("expected one slicing payload[off:off+n] of the packet, found %d", len(sites)))
		return
	}
	s := sites[0]
	var incs, badWrites, nWrites []int
	for _, nd := range g.Nodes {
		if nd.Ast == nil {
			continue
		}
		switch st := nd.Ast.(type) {
		case *ast.AssignStmt:
			for i, l := range st.Lhs {
				v := core.VarOf(info, l)
				if v == s.n {
					nWrites = append(nWrites, nd.ID)
				}
				if v != s.off {
					continue
				}
				good := false
				switch {
				case st.Tok == token.DEFINE || st.Tok == token.ASSIGN && len(st.Rhs) == len(st.Lhs):
					if tv, ok := info.Types[st.Rhs[i]]; ok && tv.Value != nil && tv.Value.ExactString() == "0" {
						continue // initialisation
					}
					if b, ok := ast.Unparen(st.Rhs[i]).(*ast.BinaryExpr); ok && b.Op == token.ADD {
						if core.VarOf(info, b.X) == s.off && core.VarOf(info, b.Y) == s.n || core.VarOf(info, b.Y) == s.off && core.VarOf(info, b.X) == s.n {
							good = true
						}
					}
				case st.Tok == token.ADD_ASSIGN && len(st.Rhs) == 1:
					good = core.VarOf(info, st.Rhs[0]) == s.n
				}
				if good {
					incs = append(incs, nd.ID)
				} else {
					badWrites = append(badWrites, nd.ID)
				}
			}
		case *ast.IncDecStmt:
			if v := core.VarOf(info, st.X); v == s.off {
				badWrites = append(badWrites, nd.ID)
			} else if v == s.n {
				nWrites = append(nWrites, nd.ID)
			}
		}
	}
	var bad []string
	for _, b := range badWrites {
		bad = append(bad, "the offset is written other than by `"+s.off.Name()+" += "+s.n.Name()+"` at "+c.P.Pos(g.PosOf(b)))
	}
	isInc := core.NodeSet(incs)
	// from the slicing, the next slicing is reachable only through an increment
	r1 := g.Reach([]int{s.node}, func(x int) bool { return isInc[x] }, nil)
	{
		r2 := map[int]bool{}
		for _, sc := range g.Nodes[s.node].Succs {
			for k := range g.Reach([]int{sc.To}, func(x int) bool { return isInc[x] }, nil) {
				r2[k] = true
			}
		}
		if r2[s.node] {
			bad = append(bad, "the next page can be cut without the offset having advanced by the previous page's size")
		}
	}
	// n unchanged between the slicing and the increment
	isNW := core.NodeSet(nWrites)
	for k := range r1 {
		if isNW[k] && k != s.node {
			// a write of n reachable from the slicing before any increment
			bad = append(bad, "the page size "+s.n.Name()+" is rewritten at "+c.P.Pos(g.PosOf(k))+" between the slicing and the advance of the offset")
		}
	}
	if len(incs) == 0 {
		bad = append(bad, "the offset never advances by the page size")
	}
	sort.Strings(bad)
	r.Cells++
	r.Check(len(bad) == 0, rule, key, c.P.Pos(g.PosOf(s.node)), "page payloads are payload[off:off+n] with off += n after every page",
		strings.Join(bad, "; ")+": pages of a packet spanning three or more pages repeat or skip bytes, so joining the continued pages no longer yields the written packet (CRC, lacing and granules stay valid)")
}

// c33R8: per-stream OpusTags ownership. Track options append user comments IN PLACE to the config's tag list
// (applyUserComments: append(opusTags.UserComments, ...)), and each stream's OpusTags page is built from the tags its
// track state holds when the headers are finally written. So the comment list a track state holds must never share its
// backing array with the writer-level list (or with another track's): the value stored into oggTrack.opusTags is "fresh" -
// produced by a cloning/default constructor, or read from a private config object whose own tags are fresh, or a
// parameter every call site of which passes a fresh value.
func c33R8(c *Ctx) {
	r := c.R
	const rule = "C33.R8"
	const rel = "pkg/media/oggwriter"
	tagsF := c.mustField(rule, rel, "oggTrack", "opusTags")
	commentsF := c.mustField(rule, rel, "OpusTags", "UserComments")
	if tagsF == nil || commentsF == nil {
		return
	}
	pkg := c.P.Pkg(rel)
	info := pkg.TypesInfo
	var funcs []*core.FuncInfo
	for _, fi := range c.P.AllFuncs() {
		if fi.Pkg == pkg && fi.Decl != nil && fi.Decl.Body != nil {
			funcs = append(funcs, fi)
		}
	}
	tagsT := tagsF.Type()
	// constructors: functions returning OpusTags whose every return is a literal, or the parameter after its UserComments
	// were replaced by the result of a call (a copy) / nil
	isCtor := map[*types.Func]bool{}
	for _, fi := range funcs {
		sig := fi.Obj.Type().(*types.Signature)
		if sig.Results().Len() != 1 || !types.Identical(sig.Results().At(0).Type(), tagsT) {
			continue
		}
		ok, n := true, 0
		replaced := map[*types.Var]bool{}
		ast.Inspect(fi.Decl.Body, func(x ast.Node) bool {
			if as, isAs := x.(*ast.AssignStmt); isAs && len(as.Lhs) == len(as.Rhs) {
				for i, l := range as.Lhs {
					if sel, isSel := ast.Unparen(l).(*ast.SelectorExpr); isSel && core.FieldOf(info, sel) == commentsF {
						if v := core.VarOf(info, sel.X); v != nil {
							if _, isCall := ast.Unparen(as.Rhs[i]).(*ast.CallExpr); isCall || core.IsNilIdent(info, as.Rhs[i]) {
								replaced[v] = true
							}
						}
					}
				}
			}
			return true
		})
		ast.Inspect(fi.Decl.Body, func(x ast.Node) bool {
			if _, isLit := x.(*ast.FuncLit); isLit {
				return false
			}
			ret, isRet := x.(*ast.ReturnStmt)
			if !isRet || len(ret.Results) != 1 {
				return true
			}
			n++
			e := ast.Unparen(ret.Results[0])
			if _, isLit := e.(*ast.CompositeLit); isLit {
				return true
			}
			if v := core.VarOf(info, e); v != nil && replaced[v] {
				return true
			}
			ok = false
			return true
		})
		if ok && n > 0 {
			isCtor[fi.Obj] = true
		}
	}
	calls := c.P.BuildStaticCalls()
	var fresh func(fi *core.FuncInfo, e ast.Expr, depth int) (bool, string)
	// cfgFresh: local variable v of fi is a private config object whose tag field is fresh
	cfgFresh := func(fi *core.FuncInfo, v *types.Var, field *types.Var, depth int) (bool, string) {
		g := c.P.GraphOf(fi)
		rhs, _ := g.UniqueDef(v)
		if rhs == nil {
			// `cfg, err := newConfig(...)`: the tuple-returning call defines cfg as its first result
			nDefs := 0
			for _, nd := range g.Nodes {
				as, ok := nd.Ast.(*ast.AssignStmt)
				if !ok {
					continue
				}
				for i, l := range as.Lhs {
					if core.VarOf(info, l) == v {
						nDefs++
						if i == 0 && len(as.Rhs) == 1 {
							rhs = as.Rhs[0]
						}
					}
				}
			}
			if nDefs != 1 {
				rhs = nil
			}
		}
		if rhs == nil {
			return false, v.Name() + " has no single definition"
		}
		var litOK func(owner *core.FuncInfo, e ast.Expr, d int) (bool, string)
		litOK = func(owner *core.FuncInfo, e ast.Expr, d int) (bool, string) {
			e = ast.Unparen(e)
			if u, ok := e.(*ast.UnaryExpr); ok && u.Op == token.AND {
				e = ast.Unparen(u.X)
			}
			switch x := e.(type) {
			case *ast.CompositeLit:
				for _, el := range x.Elts {
					if kv, ok := el.(*ast.KeyValueExpr); ok {
						if id, ok := kv.Key.(*ast.Ident); ok && info.Uses[id] == types.Object(field) {
							return fresh(owner, kv.Value, d+1)
						}
					}
				}
				return true, "" // zero value
			case *ast.CallExpr:
				fn := core.Callee(info, x)
				cal := c.P.DeclOf(fn)
				if cal == nil || cal.Decl == nil || cal.Decl.Body == nil || d > 3 {
					return false, "config produced by " + exprStr(x.Fun)
				}
				cg := c.P.GraphOf(cal)
				all, any := true, false
				why := ""
				for _, rn := range cg.Returns() {
					ret := cg.Nodes[rn].Ast.(*ast.ReturnStmt)
					if len(ret.Results) == 0 || core.IsNilIdent(info, ret.Results[0]) {
						continue
					}
					any = true
					rv := core.VarOf(info, ret.Results[0])
					if rv == nil {
						if ok, w := litOK(cal, ret.Results[0], d+1); !ok {
							all, why = false, w
						}
						continue
					}
					rr, _ := cg.UniqueDef(rv)
					if rr == nil {
						all, why = false, "returned config has no single definition"
						continue
					}
					if ok, w := litOK(cal, rr, d+1); !ok {
						all, why = false, w
					}
				}
				return all && any, why
			}
			return false, "config defined by " + exprStr(e)
		}
		return litOK(fi, rhs, depth)
	}
	fresh = func(fi *core.FuncInfo, e ast.Expr, depth int) (bool, string) {
		if depth > 6 {
			return false, "too deep"
		}
		e = ast.Unparen(e)
		switch x := e.(type) {
		case *ast.CompositeLit:
			return true, ""
		case *ast.CallExpr:
			if fn := core.Callee(info, x); fn != nil && isCtor[fn] {
				return true, ""
			}
			return false, "result of " + exprStr(x.Fun) + " (not a cloning/default constructor)"
		case *ast.SelectorExpr:
			f := core.FieldOf(info, x)
			if f == nil || !types.Identical(f.Type(), tagsT) {
				return false, exprStr(x)
			}
			if v := core.VarOf(info, x.X); v != nil {
				sig := fi.Obj.Type().(*types.Signature)
				if sig.Recv() == v {
					return false, exprStr(x) + " is the shared list of the receiver"
				}
				for i := 0; i < sig.Params().Len(); i++ {
					if sig.Params().At(i) != v {
						continue
					}
					// the config object is the caller's: private iff every call site passes a private config
					callers := calls.Callers[fi.Obj]
					if len(callers) == 0 || len(calls.ValueRefs[fi.Obj]) > 0 {
						return false, exprStr(x) + " belongs to an object of callers that cannot be enumerated"
					}
					for cf := range callers {
						cfi := c.P.DeclOf(cf)
						if cfi == nil || cfi.Decl == nil || cfi.Decl.Body == nil {
							return false, "caller without body"
						}
						bad := ""
						ast.Inspect(cfi.Decl.Body, func(y ast.Node) bool {
							call, ok := y.(*ast.CallExpr)
							if !ok || core.Callee(info, call) != fi.Obj || i >= len(call.Args) {
								return true
							}
							av := core.VarOf(info, call.Args[i])
							if av == nil {
								bad = cfi.Name() + " passes " + exprStr(call.Args[i])
								return true
							}
							csig := cfi.Obj.Type().(*types.Signature)
							for k := 0; k < csig.Params().Len(); k++ {
								if csig.Params().At(k) == av {
									bad = cfi.Name() + " forwards its own parameter " + av.Name()
								}
							}
							if csig.Recv() == av {
								bad = cfi.Name() + " passes its receiver"
							}
							if bad == "" {
								if ok2, w := cfgFresh(cfi, av, f, depth+1); !ok2 {
									bad = cfi.Name() + ": " + w
								}
							}
							return true
						})
						if bad != "" {
							return false, bad
						}
					}
					return true, ""
				}
				return cfgFresh(fi, v, f, depth+1)
			}
			return false, exprStr(x) + " is a field of a shared object"
		case *ast.Ident:
			v := core.VarOf(info, x)
			if v == nil {
				return false, exprStr(x)
			}
			sig := fi.Obj.Type().(*types.Signature)
			for i := 0; i < sig.Params().Len(); i++ {
				if sig.Params().At(i) != v {
					continue
				}
				callers := calls.Callers[fi.Obj]
				if len(callers) == 0 || len(calls.ValueRefs[fi.Obj]) > 0 {
					return false, "parameter " + v.Name() + " of a function whose call sites cannot be enumerated"
				}
				for cf := range callers {
					cfi := c.P.DeclOf(cf)
					if cfi == nil || cfi.Decl == nil || cfi.Decl.Body == nil {
						return false, "caller without body"
					}
					bad := ""
					ast.Inspect(cfi.Decl.Body, func(y ast.Node) bool {
						call, ok := y.(*ast.CallExpr)
						if !ok || core.Callee(cfi.Pkg.TypesInfo, call) != fi.Obj || i >= len(call.Args) {
							return true
						}
						if ok2, w := fresh(cfi, call.Args[i], depth+1); !ok2 {
							bad = cfi.Name() + " passes " + w
						}
						return true
					})
					if bad != "" {
						return false, bad
					}
				}
				return true, ""
			}
			g := c.P.GraphOf(fi)
			if rhs, _ := g.UniqueDef(v); rhs != nil {
				return fresh(fi, rhs, depth+1)
			}
			return false, v.Name() + " has no single definition"
		}
		return false, exprStr(e)
	}
	n := 0
	for _, fi := range funcs {
		ast.Inspect(fi.Decl.Body, func(x ast.Node) bool {
			switch s := x.(type) {
			case *ast.CompositeLit:
				for _, el := range s.Elts {
					kv, ok := el.(*ast.KeyValueExpr)
					if !ok {
						continue
					}
					if id, ok := kv.Key.(*ast.Ident); ok && info.Uses[id] == types.Object(tagsF) {
						n++
						ok2, why := fresh(fi, kv.Value, 0)
						r.Cells++
						r.Check(ok2, rule, fi.Name()+"|oggTrack{opusTags}|private-comment-list", c.P.Pos(kv.Value.Pos()), "the track state's tags are fresh (cloned, default, or from a private config)",
							"the track state keeps OpusTags whose comment list can share its backing array with another holder ("+why+"): track options append in place, so one track's comments overwrite another's and the stream's OpusTags page does not carry the comments it was configured with")
					}
				}
			case *ast.AssignStmt:
				for i, l := range s.Lhs {
					if core.FieldOf(info, l) == tagsF && len(s.Rhs) == len(s.Lhs) {
						n++
						ok2, why := fresh(fi, s.Rhs[i], 0)
						r.Check(ok2, rule, fi.Name()+"|oggTrack.opusTags=|private-comment-list", c.P.Pos(s.Pos()), "fresh", "the track state is assigned OpusTags that may be shared ("+why+")")
					}
				}
			}
			return true
		})
	}
	if n == 0 {
		r.Undecided(rule, "oggTrack.opusTags|writes", "-", "no write of oggTrack.opusTags found")
	}
}
