package props

import (
	"go/ast"
	"go/constant"
	"go/token"
	"go/types"
	"sort"
	"strings"

	"verif/checker/core"
)

func init() {
	register(&Prop{
		ID:        "C12",
		Engine:    "e2cfg+e1tab+e6flow",
		Technique: "exactly-once-per-iteration path rules on the transceiver loops of both generators and on CreateOffer's mid-assignment loop; finite valuation x path count table for the application section (AlwaysNegotiateDataChannels, dataChannelsRequested, includeUnmatched, already-present) at all three sites; def-use provenance of msid / ssrc / ssrc-group values in addSenderSDP, of the encodings in GetParameters and of the SSRCs stored by Send; who-may-write sweep for the SSRC fields",
		LevelText: "Structural clauses of 'the offer describes exactly the local state': (R1) each generator appends exactly one section per local transceiver carrying that transceiver and its mid, and CreateOffer gives every transceiver a mid before generating; (R2) for every valuation of the deciding variables the number of application sections appended is 1 iff (AlwaysNegotiateDataChannels or dataChannelsRequested != 0) and none is already present, and dataChannelsRequested++ lies on every success path of CreateDataChannel; (R3) msid is '<streamID> <trackID>', ssrc / ssrc-group lines come from sender.GetParameters().Encodings, GetParameters reports the sender's stored SSRCs, and Send stores exactly the SSRCs it is given, its only caller passing sender.GetParameters(); (R4) direction and kind come from the section's transceiver.",
		LevelNote: "Trusted: go/types, go/cfg; pion/sdp WithMediaSource(ssrc, cname, streamLabel, label). Finite valuations treat an integer that is only tested with ==/!= against constants by the partition {those constants, one other value}. Does not decide that no transceiver is lost between the API call and the offer, nor simulcast rid details.",
		DesignRef: "DESIGN.md §5 C12",
		Run:       runC12,
	})
}

func runC12(c *Ctx) {
	r := c.R
	// Instance minima count the semantic facts a rule must establish (one per kind of section source, per
	// attribute, per table cell, per guarded write …), not the incidental number of sites: a refactor that merges
	// two sites (one error return instead of two, one literal shared by two arms, a block moved into a helper)
	// must not trip them, while losing an anchor still does.
	r.Rule("C12.R1", "one section per transceiver: every iteration of a generator's loop over local transceivers appends exactly one mediaSection{id: t.Mid(), transceivers: {t}} for the loop's own t; CreateOffer's loop gives every transceiver without a mid one (SetMid on the loop variable) and dominates both generator calls outside Plan-B, over the same slice", 6)
	r.Rule("C12.R2", "application section: for every valuation of (AlwaysNegotiateDataChannels, dataChannelsRequested, includeUnmatched, already-present, Plan-B) the number of data sections appended outside the remote loop is 1 iff (Always || requested != 0) && includeUnmatched && !alreadyPresent, else 0; the already-present flag is true exactly after a remote application section was appended; dataChannelsRequested is only ever incremented, in CreateDataChannel, once on every success path", 18)
	r.Rule("C12.R3", "addSenderSDP: msid = \"msid:\" + track.StreamID() + \" \" + track.ID(); every WithMediaSource ssrc and every ssrc-group member is a field of the loop variable over sender.GetParameters().Encodings (FID: SSRC, RTX.SSRC; FEC-FR: SSRC, FEC.SSRC), labels are (StreamID, ID) of the sender's track; GetParameters fills SSRC/RTX/FEC from trackEncoding.ssrc/ssrcRTX/ssrcFEC; Send stores parameters.Encodings[idx].{SSRC,RTX.SSRC,FEC.SSRC} into the same encoding's fields and stream; Send's only caller passes sender.GetParameters(); the SSRC fields are written only in addEncoding, Send and configureRTXAndFEC", 18)
	r.Rule("C12.R5", "CreateDataChannel: no possibly-failing return is reachable after dataChannelsRequested was incremented, except under `sctpTransport.State() == SCTPTransportStateConnected` (a rejected CreateDataChannel must not make the next offer carry an application section)", 1)
	r.Rule("C12.R6", "sibling agreement: each of trackEncoding.ssrcRTX / ssrcFEC is given a non-zero value in addEncoding under a MediaEngine predicate and cleared in configureRTXAndFEC under the negation of the SAME predicate; the two fields use different predicates", 3)
	r.Rule("C12.R7", "same rule as C09.R5 / C06.R4: CreateOffer's scans over the current remote description's sections and over the transceivers visit every element and raise greaterMid for every numeric mid (a fresh transceiver never gets the mid of another m-section, e.g. the application section)", 2)
	r.Rule("C12.R8", "ReplaceTrack records the track it bound: every path from the new track's successful Bind to a successful return passes a store of the new track into the encoding the generators read the msid from", 1)
	r.Rule("C12.R4", "the direction attribute and the media kind of an accepted section come from the section's first transceiver (Direction().String(), kind.String())", 2)
	r.NotCovered = append(r.NotCovered,
		"that no transceiver is lost between the API call (AddTrack/AddTransceiver…) and the offer",
		"simulcast rid lines",
		"applications that call RTPSender.Send themselves with other parameters")
	r.Trusted = append(r.Trusted, "sdp.MediaDescription.WithMediaSource(ssrc, cname, streamLabel, label) writes a=ssrc lines with msid '<streamLabel> <label>'")
	c06Tick(c, "loaded")

	c12Rules(c)
	c06Agree386(c, "C12.R1", c12Rules)
	c12R5(c) // c12b.go
	c12R6(c)
	c09R5(c, "C12.R7") // c09b.go
	c12R8(c)
	c06Dump(c)
}

// c12Rules runs every rule of the property on the program held by c.
func c12Rules(c *Ctx) {
	env := c06Anchors(c, "C12.R1")
	if !env.ok {
		return
	}
	c12R1(env)
	c12R2(env)
	c12R3(env)
	c12R4(env)
}

// ---------------------------------------------------------------------------
// R1

func c12R1(env *c06Env) {
	c, r := env.c, env.c.R
	const rule = "C12.R1"
	for _, fi := range []*core.FuncInfo{env.genUnmatched, env.genMatched} {
		g, _, appends, _, ok := c06SectionList(env, rule, fi)
		if !ok {
			continue
		}
		nLoops := 0
		for _, l := range c06RangeLoops(g) {
			if l.ValueVar == nil || !c06IsNamed(l.ValueVar.Type(), env.trType) {
				continue
			}
			var in []int
			for n := range appends {
				if l.Body[n] {
					in = append(in, n)
				}
			}
			if len(in) == 0 {
				continue
			}
			// only loops whose appends take the id from a transceiver (the remote loop takes it from the offer)
			sort.Ints(in)
			nLoops++
			base := fi.Name() + "|transceiver-loop|range:" + c06Canon(g, l.Head, l.Range.X)
			for _, n := range in {
				s := appends[n]
				pos := c.P.Pos(s.pos())
				idOK, trOK := false, false
				if src, has := s.idSrc(env); has {
					idOK = src.Class == "transceiver-mid" && src.Var == l.ValueVar
				}
				trOK = s.soleTransceiver() == l.ValueVar
				r.Check(idOK && trOK && !s.isData(), rule, base+"|append|mediaSection{"+s.fieldNames()+"}", pos, "the section carries the loop's transceiver and its mid",
					"the section appended for a local transceiver does not carry exactly that transceiver and its Mid() (the offer's m-section would describe another transceiver, or carry another mid)")
			}
			w := func(n int) c06Span {
				if _, ok := appends[n]; ok {
					return c06Span{1, 1}
				}
				return c06Span{}
			}
			for _, b := range l.backNodes() {
				sp, ok := c06PathCount(g, l.BodyEntry, b, func(n int) bool { return !l.Body[n] }, nil, w)
				if !ok && l.BodyEntry == b {
					ok = true
				}
				sp = sp.add(w(b))
				r.Cells++
				r.Check(ok && sp == c06Span{1, 1}, rule, base+"|next-iteration|"+c07GuardDesc(l, b), c.P.Pos(g.PosOf(b)), "exactly one section per transceiver on every path",
					"a local transceiver produces "+sp.String()+" sections on some path of the loop (exactly one m-section per transceiver required)")
			}
			// no early exit
			for _, e := range l.exits() {
				if g.Nodes[e.From].Succs[e.Idx].To == g.Panic {
					continue
				}
				r.Fail(rule, base+"|exit|"+c07GuardDesc(l, e.From), c.P.Pos(g.PosOf(e.From)), "the loop over the local transceivers can be left early (break/return): the remaining transceivers get no m-section")
			}
		}
		if nLoops == 0 {
			r.Fail(rule, fi.Name()+"|transceiver-loop", c.P.Pos(fi.Decl.Pos()), "no loop over local transceivers appends sections")
		}
	}
	c12OfferMids(env, "C12.R1")
}

// c12OfferMids: CreateOffer assigns a mid to every transceiver before generating.
func c12OfferMids(env *c06Env, rule string) {
	c, r := env.c, env.c.R
	fi := env.createOffer
	g := c.P.GraphOf(fi)
	info := g.Info
	fpos := c.P.Pos(fi.Decl.Pos())
	setMidNodes := map[int]bool{}
	for _, n := range g.FindNodes(func(x ast.Node) bool { return core.IsCallTo(info, x, env.setMid.Obj) }) {
		setMidNodes[n] = true
	}
	var loop *c06Loop
	for _, l := range c06RangeLoops(g) {
		if l.ValueVar == nil || !c06IsNamed(l.ValueVar.Type(), env.trType) {
			continue
		}
		for n := range setMidNodes {
			if l.Body[n] {
				if loop != nil && loop != l {
					r.Undecided(rule, fi.Name()+"|mid-assignment-loop", fpos, "more than one loop calls SetMid")
					return
				}
				loop = l
			}
		}
	}
	if loop == nil {
		r.Fail(rule, fi.Name()+"|mid-assignment-loop", fpos, "CreateOffer has no loop over the transceivers that calls SetMid: a new transceiver reaches the offer with an empty mid")
		return
	}
	l := loop
	// SetMid is applied to the loop variable
	for n := range setMidNodes {
		if !l.Body[n] {
			continue
		}
		okRecv := false
		core.InspectShallow(g.Nodes[n].Ast, func(x ast.Node) bool {
			if core.IsCallTo(info, x, env.setMid.Obj) && core.VarOf(info, c06Recv(info, x.(*ast.CallExpr))) == l.ValueVar {
				okRecv = true
			}
			return true
		})
		r.Check(okRecv, rule, fi.Name()+"|mid-assignment-loop|SetMid|receiver", c.P.Pos(g.PosOf(n)), "SetMid is called on the loop's transceiver", "SetMid is not called on the transceiver the loop is visiting")
	}
	// facts "t.Mid() is non-empty" for the loop variable
	isMidOf := func(at int, e ast.Expr) bool {
		e = ast.Unparen(e)
		if call, ok := e.(*ast.CallExpr); ok {
			return core.IsCallTo(info, call, env.midFn.Obj) && core.VarOf(info, c06Recv(info, call)) == l.ValueVar
		}
		v := core.VarOf(info, e)
		if v == nil {
			return false
		}
		defs := c06Defs(g, at, v)
		if len(defs) == 0 {
			return false
		}
		for _, d := range defs {
			call, ok := ast.Unparen(d.Rhs).(*ast.CallExpr)
			if d.Kind != "assign" || !ok || !core.IsCallTo(info, call, env.midFn.Obj) || core.VarOf(info, c06Recv(info, call)) != l.ValueVar {
				return false
			}
		}
		return true
	}
	nonEmpty := c06EdgesWhere(g, func(from int, f c06Fact) bool {
		be, ok := ast.Unparen(f.Expr).(*ast.BinaryExpr)
		if !ok || !l.Body[from] {
			return false
		}
		x, y := be.X, be.Y
		if tv, isC := info.Types[x]; isC && tv.Value != nil {
			x, y = y, x
		}
		if s, isStr := c06ConstString(info, y); isStr && s == "" && isMidOf(from, x) {
			return (be.Op == token.NEQ && f.Truth) || (be.Op == token.EQL && !f.Truth)
		}
		return false
	})
	inHeader := func(x int) bool { return x >= l.headBlock && x <= l.Head }
	free := g.Reach([]int{l.BodyEntry}, func(x int) bool { return inHeader(x) || setMidNodes[x] || !l.Body[x] },
		func(from, idx int, e core.Edge) bool { return nonEmpty[core.EdgeRef{From: from, Idx: idx}] })
	for _, b := range l.backNodes() {
		// free[b] means b is reached without a non-empty test and without SetMid; b itself may be the SetMid node
		bad := free[b] && !setMidNodes[b]
		r.Check(!bad, rule, fi.Name()+"|mid-assignment-loop|next-iteration|"+c07GuardDesc(l, b), c.P.Pos(g.PosOf(b)), "the next transceiver is reached only with a non-empty mid or after SetMid",
			"the loop moves on to the next transceiver although this one has neither a mid nor been given one: it enters the offer with an empty mid")
	}
	r.Cells += len(free)
	// both generator calls are dominated by the loop unless Plan-B, and take the slice the loop ranges over
	pb := c06PlanBVars(env, g)
	pbTrue := c06EdgesWhere(g, func(from int, f c06Fact) bool {
		for v := range pb {
			if c06BoolVarFact(info, f, v, true) {
				return true
			}
		}
		return false
	})
	noLoop := g.ReachFromEntry(inHeader, func(from, idx int, e core.Edge) bool { return pbTrue[core.EdgeRef{From: from, Idx: idx}] })
	sliceVar := core.VarOf(info, l.Range.X)
	for _, gen := range []*core.FuncInfo{env.genUnmatched, env.genMatched} {
		calls := g.FindNodes(func(x ast.Node) bool { return core.IsCallTo(info, x, gen.Obj) })
		key := fi.Name() + "|call:" + gen.Name() + "|after-mid-assignment"
		if len(calls) == 0 {
			r.Fail(rule, key, fpos, "CreateOffer no longer calls "+gen.Name())
			continue
		}
		for _, n := range calls {
			var call *ast.CallExpr
			core.InspectShallow(g.Nodes[n].Ast, func(x ast.Node) bool {
				if core.IsCallTo(info, x, gen.Obj) {
					call = x.(*ast.CallExpr)
				}
				return true
			})
			same := sliceVar != nil && len(call.Args) > 0 && core.VarOf(info, call.Args[0]) == sliceVar && c09SameDefs(c06Defs(g, n, sliceVar), c06Defs(g, l.Head, sliceVar))
			switch {
			case noLoop[n]:
				r.Fail(rule, key, c.P.Pos(call.Pos()), "the offer can be generated (outside Plan-B) without the mid-assignment loop having run: transceivers without a mid get sections with an empty mid")
			case !same:
				r.Fail(rule, key, c.P.Pos(call.Pos()), "the generator does not receive the transceiver slice the mid-assignment loop visited")
			default:
				r.OK(rule, key, c.P.Pos(call.Pos()), "generated from the slice whose transceivers all have mids")
			}
		}
	}
}

// ---------------------------------------------------------------------------
// R2

func c12R2(env *c06Env) {
	c, r := env.c, env.c.R
	const rule = "C12.R2"
	always := c.mustField(rule, "", "Configuration", "AlwaysNegotiateDataChannels")
	requested := c.mustField(rule, "", "SCTPTransport", "dataChannelsRequested")
	if always == nil || requested == nil {
		return
	}
	const kAlways = "recv.configuration.AlwaysNegotiateDataChannels"
	const kReq = "recv.sctpTransport.dataChannelsRequested"

	for _, fi := range []*core.FuncInfo{env.genUnmatched, env.genMatched} {
		g, _, appends, _, ok := c06SectionList(env, rule, fi)
		if !ok {
			continue
		}
		info := g.Info
		fpos := c.P.Pos(fi.Decl.Pos())
		populateN := g.FindNodes(func(x ast.Node) bool { return core.IsCallTo(info, x, env.populate.Obj) })
		if len(populateN) != 1 {
			continue // reported by c06SectionList
		}
		target := populateN[0]
		// remote loop (matched generator only)
		var remote *c06Loop
		for _, l := range c06RangeLoops(g) {
			if fv := core.FieldOf(info, l.Range.X); fv != nil && fv.Name() == "MediaDescriptions" && fv.Pkg() != nil && fv.Pkg().Path() == c06SDPPkg {
				for n := range appends {
					if l.Body[n] {
						remote = l
					}
				}
			}
		}
		start := g.Entry
		if remote != nil {
			start = remote.Done
		}
		dataW := func(n int) c06Span {
			if s, ok := appends[n]; ok && s.isData() && (remote == nil || !remote.Body[n]) {
				return c06Span{1, 1}
			}
			return c06Span{}
		}
		// scope: nodes between start and the populateSDP call
		fwd := g.Reach([]int{start}, nil, nil)
		scope := map[int]bool{}
		for n := range fwd {
			if n == target || g.Reach([]int{n}, nil, nil)[target] {
				scope[n] = true
			}
		}
		// the includeUnmatched parameter and the already-present flag (matched generator)
		var flagKey, haveKey string
		var haveVar *types.Var
		if remote != nil {
			sig := g.Sig()
			for i := 0; i < sig.Params().Len(); i++ {
				pv := sig.Params().At(i)
				if b, ok := pv.Type().Underlying().(*types.Basic); !ok || b.Info()&types.IsBoolean == 0 || c06AssignedAnywhere(g, pv) != 0 {
					continue
				}
				edges := c06EdgesWhere(g, func(from int, f c06Fact) bool { return c06BoolVarFact(info, f, pv, true) })
				all, any := true, false
				for n := range appends {
					if remote.Body[n] {
						continue
					}
					any = true
					if !g.DominatedByEdges(n, edges) {
						all = false
					}
				}
				if all && any && len(edges) > 0 {
					flagKey = sprintf("param#%d", i)
				}
			}
			haveVar = c12AlreadyFlag(env, rule, fi, g, remote, appends)
			if haveVar != nil {
				haveKey = sprintf("var:%s@%d", haveVar.Name(), haveVar.Pos())
			}
		}
		fin := c06NewFinite(c.P, g, scope)
		// A deciding variable that the function does not test at all is enumerated all the same (the
		// outcome then cannot depend on it and the cells that need it fail); one that is tested in a
		// way the finite partition cannot represent (ordered comparison) leaves the table undecided.
		if fin.atoms[kAlways] == nil && !fin.poison[kAlways] {
			fin.atoms[kAlways] = &c06Atom{Key: kAlways, Domain: []constant.Value{constant.MakeBool(false), constant.MakeBool(true)}, Names: []string{"false", "true"}}
		}
		if fin.atoms[kReq] == nil && !fin.poison[kReq] {
			fin.atoms[kReq] = &c06Atom{Key: kReq, Domain: []constant.Value{constant.MakeInt64(0), constant.MakeInt64(1)}, Names: []string{"0", "other(1)"}}
		}
		missing := ""
		for _, k := range []string{kAlways, kReq} {
			if fin.atoms[k] == nil {
				missing += " " + k
			}
		}
		if remote != nil && (flagKey == "" || fin.atoms[flagKey] == nil) {
			missing += " includeUnmatched-parameter"
		}
		if remote != nil && haveVar != nil && fin.atoms[haveKey] == nil {
			missing += " already-present-flag"
		}
		if missing != "" {
			r.Undecided(rule, fi.Name()+"|application-section|deciding-variables", fpos, "the data-section decision does not test (as loop-invariant ==/!=/boolean conditions):"+missing)
			continue
		}
		vals, descs := fin.valuations()
		type cell struct {
			span  c06Span
			seen  bool
			want  int
			worst string
		}
		cells := map[string]*cell{}
		var order []string
		zero := constant.MakeInt64(0)
		for vi, val := range vals {
			a := constant.BoolVal(val[kAlways])
			req := !constant.Compare(val[kReq], token.EQL, zero)
			inc, have := true, false
			if remote != nil {
				inc = constant.BoolVal(val[flagKey])
				if haveVar != nil {
					have = constant.BoolVal(val[haveKey])
				}
			}
			want := 0
			if (a || req) && inc && !have {
				want = 1
			}
			key := sprintf("%s|application-section|always=%v,requested=%v", fi.Name(), a, req)
			if remote != nil {
				key += sprintf(",includeUnmatched=%v,alreadyPresent=%v", inc, have)
			}
			sp, ok := c06PathCount(g, start, target, nil, func(from, idx int, e core.Edge) bool { return fin.infeasible(e, val) }, dataW)
			r.Cells++
			if !ok {
				continue
			}
			cl := cells[key]
			if cl == nil {
				cl = &cell{want: want}
				cells[key] = cl
				order = append(order, key)
			}
			if !cl.seen {
				cl.span, cl.seen = sp, true
			} else {
				cl.span = c06Span{min(cl.span.Min, sp.Min), max(cl.span.Max, sp.Max)}
			}
			if (sp != c06Span{want, want}) && cl.worst == "" {
				cl.worst = descs[vi]
			}
		}
		sort.Strings(order)
		for _, key := range order {
			cl := cells[key]
			okc := cl.span == c06Span{cl.want, cl.want}
			why := sprintf("%s application section(s) are appended on the paths to populateSDP, expected exactly %d", cl.span, cl.want)
			if cl.want == 1 {
				why += ": a requested data channel (or AlwaysNegotiateDataChannels) does not get its m=application section, or gets two"
			} else {
				why += ": an application section appears although none is due (no channel requested / already present / answer)"
			}
			r.Check(okc, rule, key, fpos, sprintf("%d application section(s) on every path", cl.want), why+c07Under(cl.worst))
		}
		if len(order) == 0 {
			r.Fail(rule, fi.Name()+"|application-section|table", fpos, "no valuation reaches populateSDP")
		}
		var names []string
		for k := range fin.atoms {
			names = append(names, k)
		}
		sort.Strings(names)
		r.Extra["c12_atoms_"+fi.Obj.Name()] = names
	}

	c12Requested(env, requested)
}

// c12AlreadyFlag identifies the boolean local that records "a remote application section was appended" and checks that it does.
func c12AlreadyFlag(env *c06Env, rule string, fi *core.FuncInfo, g *core.Graph, remote *c06Loop, appends map[int]*c06Section) *types.Var {
	c, r := env.c, env.c.R
	info := g.Info
	// candidates: boolean locals assigned the constant true inside the remote loop
	trueNodes := map[*types.Var][]int{}
	for n := range remote.Body {
		nd := g.Nodes[n]
		if nd.Ast == nil {
			continue
		}
		as, ok := nd.Ast.(*ast.AssignStmt)
		if !ok || len(as.Lhs) != len(as.Rhs) {
			continue
		}
		for i, l := range as.Lhs {
			if b, isC := c06ConstBool(info, as.Rhs[i]); isC && b {
				if v := core.VarOf(info, l); v != nil {
					trueNodes[v] = append(trueNodes[v], n)
				}
			}
		}
	}
	var remoteData []int
	for n, s := range appends {
		if remote.Body[n] && s.isData() {
			remoteData = append(remoteData, n)
		}
	}
	sort.Ints(remoteData)
	if len(remoteData) == 0 {
		return nil
	}
	pos := c.P.Pos(g.PosOf(remoteData[0]))
	key := fi.Name() + "|application-section|already-present-flag"
	if len(trueNodes) != 1 {
		r.Fail(rule, key, pos, sprintf("the loop over the remote m-sections appends an application section but %d boolean flags record it (expected one): an offer answering a remote description that has m=application gets a second application section", len(trueNodes)))
		return nil
	}
	var hv *types.Var
	for v := range trueNodes {
		hv = v
	}
	// every definition: false before the loop, true inside it
	okDefs := !c06WrittenInLiterals(g, hv)
	for _, nd := range g.Nodes {
		d, isDef := c06DefAt(g, nd, hv)
		if !isDef {
			continue
		}
		b, isC := false, false
		if d.Rhs != nil {
			b, isC = c06ConstBool(info, d.Rhs)
		}
		switch {
		case d.Kind == "zero":
		case d.Kind == "assign" && isC && !b && !remote.Body[nd.ID] && g.Reach([]int{nd.ID}, nil, nil)[remote.Head]:
		case d.Kind == "assign" && isC && b && remote.Body[nd.ID]:
		default:
			okDefs = false
		}
	}
	// per iteration: the flag is set on exactly the paths that append a remote application section
	// (order of the two statements does not matter): a path that avoids every such append sets nothing,
	// and a path that avoids every `flag = true` appends nothing
	setNodes := core.NodeSet(trueNodes[hv])
	dataSet := core.NodeSet(remoteData)
	setW := func(n int) c06Span {
		if setNodes[n] {
			return c06Span{1, 1}
		}
		return c06Span{}
	}
	dataW := func(n int) c06Span {
		if dataSet[n] {
			return c06Span{1, 1}
		}
		return c06Span{}
	}
	always, only := true, true
	for _, b := range remote.backNodes() {
		if sp, ok := c06PathCount(g, remote.BodyEntry, b, func(n int) bool { return !remote.Body[n] || setNodes[n] }, nil, dataW); ok && !setNodes[b] && sp.add(dataW(b)).Max > 0 {
			always = false // an append without the flag
		}
		if sp, ok := c06PathCount(g, remote.BodyEntry, b, func(n int) bool { return !remote.Body[n] || dataSet[n] }, nil, setW); ok && !dataSet[b] && sp.add(setW(b)).Max > 0 {
			only = false // the flag without an append
		}
	}
	r.Check(okDefs && always && only, rule, key, pos, "false before the loop; set true on exactly the iteration paths that append a remote application section",
		"the already-present flag does not exactly record that the remote description's application section was appended (initialised false before the loop, set true on every iteration path that appends it and on no other)")
	if !(okDefs && always && only) {
		return nil
	}
	return hv
}

// c12Requested: dataChannelsRequested is only incremented, in CreateDataChannel, once on every success path.
func c12Requested(env *c06Env, requested *types.Var) {
	c, r := env.c, env.c.R
	const rule = "C12.R2"
	cdc := c.mustFunc(rule, "", "PeerConnection.CreateDataChannel")
	if cdc == nil {
		return
	}
	// the increment may live in CreateDataChannel itself or in a helper that is only ever called
	// (synchronously, directly) from CreateDataChannel: what matters is that creating a channel is the
	// only way to change the counter and that it changes it exactly once (checked below through callees)
	for _, fi := range c.P.AllFuncs() {
		if fi.Decl.Body == nil {
			continue
		}
		info := fi.Pkg.TypesInfo
		ast.Inspect(fi.Decl.Body, func(x ast.Node) bool {
			switch s := x.(type) {
			case *ast.IncDecStmt:
				if core.FieldOf(info, s.X) == requested {
					key := "SCTPTransport.dataChannelsRequested|" + s.Tok.String() + "|in:" + fi.Name()
					switch {
					case s.Tok != token.INC:
						r.Fail(rule, key, c.P.Pos(s.Pos()), "the requested-channel counter is decremented: the application section can disappear from later offers")
					case fi == cdc:
						r.OK(rule, key, c.P.Pos(s.Pos()), "incremented in CreateDataChannel")
					case c06OnlyCalledFrom(c.P, fi.Obj, cdc.Obj, 0):
						r.OK(rule, key, c.P.Pos(s.Pos()), "incremented in a helper that is only called from CreateDataChannel")
					default:
						r.Fail(rule, key, c.P.Pos(s.Pos()), "the requested-channel counter is changed outside CreateDataChannel (in a function that is also reachable from elsewhere, used as a value, or started asynchronously): the application-section decision no longer reflects 'a data channel was created'")
					}
				}
			case *ast.AssignStmt:
				for _, l := range s.Lhs {
					if core.FieldOf(info, l) == requested {
						r.Fail(rule, "SCTPTransport.dataChannelsRequested|"+s.Tok.String()+"|in:"+fi.Name(), c.P.Pos(s.Pos()), "the requested-channel counter is assigned (it may be reset: the application section disappears from later offers)")
					}
				}
			case *ast.UnaryExpr:
				if s.Op == token.AND && core.FieldOf(info, s.X) == requested {
					r.Fail(rule, "SCTPTransport.dataChannelsRequested|address-taken|in:"+fi.Name(), c.P.Pos(s.Pos()), "the address of the requested-channel counter is taken")
				}
			}
			return true
		})
	}
	// exactly one increment on every path to a success return, counted through same-module callees
	ef := c06NewEffect(c.P, func(info *types.Info, a ast.Node) int {
		k := 0
		core.InspectShallow(a, func(x ast.Node) bool {
			if s, ok := x.(*ast.IncDecStmt); ok && s.Tok == token.INC && core.FieldOf(info, s.X) == requested {
				k++
			}
			return true
		})
		return k
	})
	g := c.P.GraphOf(cdc)
	w := ef.weight(g, 0)
	nOK := 0
	for _, rn := range g.Returns() {
		ret := g.Nodes[rn].Ast.(*ast.ReturnStmt)
		if mf, _ := g.ReturnMayFail(ret, nil); mf {
			continue
		}
		nOK++
		sp, ok := c06PathCount(g, g.Entry, rn, nil, nil, w)
		r.Cells++
		r.Check(ok && sp == c06Span{1, 1}, rule, "(*PeerConnection).CreateDataChannel|success-return|dataChannelsRequested++", c.P.Pos(ret.Pos()), "incremented exactly once (directly or in a callee) on every path to the success return",
			"a data channel can be created successfully with the requested-channel counter incremented "+sp.String()+" times: the next offer lacks the application section")
	}
	if nOK == 0 {
		r.Fail(rule, "(*PeerConnection).CreateDataChannel|success-return|dataChannelsRequested++", c.P.Pos(cdc.Decl.Pos()), "no success return found")
	}
}

// ---------------------------------------------------------------------------
// R3

// c12SoleDef returns the single reaching definition of v at node `at` when it is an ordinary assignment.
func c12SoleDef(g *core.Graph, at int, v *types.Var) (c06Def, bool) {
	if v == nil {
		return c06Def{}, false
	}
	defs := c06Defs(g, at, v)
	if len(defs) != 1 {
		return c06Def{}, false
	}
	return defs[0], true
}

func c12R3(env *c06Env) {
	c, r := env.c, env.c.R
	const rule = "C12.R3"
	addSender := c.mustFunc(rule, "", "addSenderSDP")
	getParams := c.mustFunc(rule, "", "RTPSender.GetParameters")
	send := c.mustFunc(rule, "", "RTPSender.Send")
	senderFn := c.mustFunc(rule, "", "RTPTransceiver.Sender")
	trackFn := c.mustFunc(rule, "", "RTPSender.Track")
	encField := c.mustField(rule, "", "RTPSendParameters", "Encodings")
	trackLocal := c.P.Named("", "TrackLocal")
	fSSRC := c.mustField(rule, "", "trackEncoding", "ssrc")
	fRTX := c.mustField(rule, "", "trackEncoding", "ssrcRTX")
	fFEC := c.mustField(rule, "", "trackEncoding", "ssrcFEC")
	if addSender == nil || getParams == nil || send == nil || senderFn == nil || trackFn == nil || encField == nil || fSSRC == nil || fRTX == nil || fFEC == nil {
		return
	}
	var streamID, trackID *types.Func
	if trackLocal != nil {
		if it, ok := trackLocal.Underlying().(*types.Interface); ok {
			for i := 0; i < it.NumMethods(); i++ {
				switch it.Method(i).Name() {
				case "StreamID":
					streamID = it.Method(i)
				case "ID":
					trackID = it.Method(i)
				}
			}
		}
	}
	if streamID == nil || trackID == nil {
		r.Fail(rule, "anchor:/TrackLocal.StreamID|ID", "-", "TrackLocal no longer declares StreamID() and ID() (fails closed)")
		return
	}

	// ---- (a) addSenderSDP
	g := c.P.GraphOf(addSender)
	info := g.Info
	fpos := c.P.Pos(addSender.Decl.Pos())
	sig := g.Sig()
	var mediaP, sectionP *types.Var
	for i := 0; i < sig.Params().Len(); i++ {
		pv := sig.Params().At(i)
		if c06IsExtNamed(pv.Type(), c06SDPPkg, "MediaDescription") {
			mediaP = pv
		}
		if c06IsNamed(pv.Type(), env.msType) {
			sectionP = pv
		}
	}
	if mediaP == nil || sectionP == nil {
		r.Undecided(rule, "addSenderSDP|parameters", fpos, "addSenderSDP no longer takes (mediaSection, …, *sdp.MediaDescription)")
		return
	}
	// track variable: track := sender.Track(); sender := mt.Sender(); mt ranges over section.transceivers
	isTrackOf := func(at int, e ast.Expr) bool {
		tv := core.VarOf(info, e)
		d, ok := c12SoleDef(g, at, tv)
		if !ok || d.Kind != "assign" {
			return false
		}
		call, isCall := ast.Unparen(d.Rhs).(*ast.CallExpr)
		if !isCall || !core.IsCallTo(info, call, trackFn.Obj) {
			return false
		}
		return c12IsSectionSender(env, g, d.Node, c06Recv(info, call), senderFn, sectionP)
	}
	isTrackCall := func(at int, e ast.Expr, m *types.Func) bool {
		call, ok := ast.Unparen(e).(*ast.CallExpr)
		return ok && core.Callee(info, call) == m && isTrackOf(at, c06Recv(info, call))
	}
	// encoding variable: ranges over X.Encodings with X := sender.GetParameters()
	encPath := func(at int, e ast.Expr) (string, bool) {
		e = ast.Unparen(e)
		if call, ok := e.(*ast.CallExpr); ok {
			if tv, isT := info.Types[call.Fun]; isT && tv.IsType() && len(call.Args) == 1 {
				e = ast.Unparen(call.Args[0]) // uint32(encoding.SSRC)
			}
		}
		root, path, ok := c06FieldPath(info, e)
		if !ok || root == nil {
			return "", false
		}
		d, ok := c12SoleDef(g, at, root)
		if !ok || d.Kind != "range-value" || core.FieldOf(info, d.Rhs) != encField {
			return "", false
		}
		se, _ := ast.Unparen(d.Rhs).(*ast.SelectorExpr)
		if se == nil {
			return "", false
		}
		pd, ok := c12SoleDef(g, d.Node, core.VarOf(info, se.X))
		if !ok || pd.Kind != "assign" {
			return "", false
		}
		pc, isCall := ast.Unparen(pd.Rhs).(*ast.CallExpr)
		if !isCall || !core.IsCallTo(info, pc, getParams.Obj) || !c12IsSectionSender(env, g, pd.Node, c06Recv(info, pc), senderFn, sectionP) {
			return "", false
		}
		return path, true
	}
	nonZeroEdges := func(path string) map[core.EdgeRef]bool {
		return c06EdgesWhere(g, func(from int, f c06Fact) bool {
			be, ok := ast.Unparen(f.Expr).(*ast.BinaryExpr)
			if !ok {
				return false
			}
			k, isC := c06ConstInt(info, be.Y)
			if !isC || k != 0 {
				return false
			}
			p, ok := encPath(from, be.X)
			if !ok || p != path {
				return false
			}
			return (be.Op == token.NEQ && f.Truth) || (be.Op == token.EQL && !f.Truth)
		})
	}
	// edges that imply `path == 0`
	zeroEdges := func(path string) map[core.EdgeRef]bool {
		return c06EdgesWhere(g, func(from int, f c06Fact) bool {
			be, ok := ast.Unparen(f.Expr).(*ast.BinaryExpr)
			if !ok {
				return false
			}
			k, isC := c06ConstInt(info, be.Y)
			if !isC || k != 0 {
				return false
			}
			p, ok := encPath(from, be.X)
			if !ok || p != path {
				return false
			}
			return (be.Op == token.EQL && f.Truth) || (be.Op == token.NEQ && !f.Truth)
		})
	}
	// an announcement that depends on field `path` must not additionally depend on another SSRC field of the
	// encoding (e.g. the FEC-FR group chained as `else if` behind the RTX test is dropped when both are enabled)
	foreignGuard := func(node int, path string) string {
		for _, q := range []string{"SSRC", "RTX.SSRC", "FEC.SSRC"} {
			if q == path {
				continue
			}
			if ze := zeroEdges(q); len(ze) > 0 && g.DominatedByEdges(node, ze) {
				return "only emitted when " + q + " == 0"
			}
			if ne := nonZeroEdges(q); len(ne) > 0 && g.DominatedByEdges(node, ne) {
				return "only emitted when " + q + " != 0"
			}
		}
		return ""
	}
	seenSrc := map[string]int{}
	seenGrp := map[string]int{}
	nMsid := 0
	for _, nd := range g.Nodes {
		if nd.Ast == nil {
			continue
		}
		for _, call := range core.CallsIn(nd.Ast) {
			if !c06ExtMethod(info, call, c06SDPPkg, "MediaDescription", "") {
				continue
			}
			fn := core.Callee(info, call)
			_, rootE := c06ChainCalls(info, call)
			onMedia := core.VarOf(info, rootE) == mediaP
			pos := c.P.Pos(call.Pos())
			switch fn.Name() {
			case "WithMediaSource":
				if len(call.Args) != 4 {
					continue
				}
				path, ok := encPath(nd.ID, call.Args[0])
				key := "addSenderSDP|a=ssrc|" + path
				if !ok {
					key = "addSenderSDP|a=ssrc|" + c06Canon(g, nd.ID, call.Args[0])
				}
				seenSrc[path]++
				if seenSrc[path] > 1 {
					key += sprintf("#%d", seenSrc[path])
				}
				switch {
				case !ok || (path != "SSRC" && path != "RTX.SSRC" && path != "FEC.SSRC"):
					r.Fail(rule, key, pos, "an a=ssrc line announces a value that is not an SSRC of sender.GetParameters().Encodings: the offer announces an SSRC the sender will not use")
				case !onMedia:
					r.Fail(rule, key, pos, "the a=ssrc line is not added to the section being built")
				case !isTrackCall(nd.ID, call.Args[2], streamID) || !isTrackCall(nd.ID, call.Args[3], trackID):
					r.Fail(rule, key, pos, "the source's msid labels are not (track.StreamID(), track.ID()) of the sender's track, in that order")
				case path != "SSRC" && !g.DominatedByEdges(nd.ID, nonZeroEdges(path)):
					r.Fail(rule, key, pos, "the "+path+" source is announced without a `"+path+" != 0` test (a disabled RTX/FEC stream is announced with SSRC 0)")
				case foreignGuard(nd.ID, path) != "":
					r.Fail(rule, key, pos, "the "+path+" source is "+foreignGuard(nd.ID, path)+": an enabled stream of the sender is not announced")
				default:
					r.OK(rule, key, pos, "ssrc from the sender's encoding, labels from its track")
				}
			case "WithValueAttribute":
				if len(call.Args) != 2 {
					continue
				}
				if k, ok := c06ConstString(info, call.Args[0]); ok && k == "msid" {
					// key/value spelling of the msid attribute: value "<streamID> <trackID>"
					nMsid++
					key := "addSenderSDP|a=msid"
					if nMsid > 1 {
						key += sprintf("#%d", nMsid)
					}
					parts, okParts := c06StringParts(info, call.Args[1])
					good := okParts && len(parts) == 3 && !parts[0].IsConst && isTrackCall(nd.ID, parts[0].Expr, streamID) &&
						parts[1].IsConst && parts[1].Const == " " && !parts[2].IsConst && isTrackCall(nd.ID, parts[2].Expr, trackID)
					r.Check(good && onMedia, rule, key, pos, "msid:<streamID> <trackID>", "the msid attribute of the section being built is not \"<track.StreamID()> <track.ID()>\" of the sender's track (stream id first, then track id)")
					continue
				}
				if k, ok := c06ConstString(info, call.Args[0]); !ok || k != "ssrc-group" {
					continue
				}
				// the value, normalised: "<semantics> " + primary + " " + secondary, whether written as
				// fmt.Sprintf("%s %d %d", sem, a, b) (any constant spelling of format and semantics) or by concatenation
				parts, okShape := c06StringParts(info, call.Args[1])
				okShape = okShape && len(parts) == 4 && parts[0].IsConst && !parts[1].IsConst && parts[2].IsConst && parts[2].Const == " " && !parts[3].IsConst &&
					strings.HasSuffix(parts[0].Const, " ") && !strings.Contains(strings.TrimSuffix(parts[0].Const, " "), " ")
				sem := ""
				if okShape {
					sem = strings.TrimSuffix(parts[0].Const, " ")
				}
				key := "addSenderSDP|a=ssrc-group|" + sem
				seenGrp[sem]++
				if seenGrp[sem] > 1 {
					key += sprintf("#%d", seenGrp[sem])
				}
				if !okShape {
					r.Undecided(rule, key, pos, "ssrc-group value is not of the form \"<semantics> <primary> <secondary>\" (Sprintf with %s/%d verbs or concatenation)")
					continue
				}
				argPrimary, argSecondary := parts[1].Expr, parts[3].Expr
				want := map[string]string{"FID": "RTX.SSRC", "FEC-FR": "FEC.SSRC"}[sem]
				p1, ok1 := encPath(nd.ID, argPrimary)
				p2, ok2 := encPath(nd.ID, argSecondary)
				switch {
				case want == "":
					r.Undecided(rule, key, pos, "unknown ssrc-group semantics "+sem)
				case !ok1 || !ok2 || p1 != "SSRC" || p2 != want:
					r.Fail(rule, key, pos, "the "+sem+" group does not list (encoding.SSRC, encoding."+want+") of sender.GetParameters().Encodings")
				case !onMedia:
					r.Fail(rule, key, pos, "the ssrc-group is not added to the section being built")
				case !g.DominatedByEdges(nd.ID, nonZeroEdges(want)):
					r.Fail(rule, key, pos, "the "+sem+" group is emitted without a `"+want+" != 0` test")
				case foreignGuard(nd.ID, want) != "":
					r.Fail(rule, key, pos, "the "+sem+" group is "+foreignGuard(nd.ID, want)+": with RTX and FEC both enabled the group is dropped although its SSRC is still announced as a source")
				default:
					r.OK(rule, key, pos, "group members from the sender's encoding")
				}
			case "WithPropertyAttribute":
				if len(call.Args) != 1 {
					continue
				}
				parts, okParts := c06StringParts(info, call.Args[0])
				if !okParts || len(parts) == 0 || !parts[0].IsConst || !strings.HasPrefix(parts[0].Const, "msid:") {
					continue
				}
				nMsid++
				key := "addSenderSDP|a=msid"
				if nMsid > 1 {
					key += sprintf("#%d", nMsid)
				}
				good := len(parts) == 4 && parts[0].Const == "msid:" && !parts[1].IsConst && isTrackCall(nd.ID, parts[1].Expr, streamID) &&
					parts[2].IsConst && parts[2].Const == " " && !parts[3].IsConst && isTrackCall(nd.ID, parts[3].Expr, trackID)
				switch {
				case !good:
					r.Fail(rule, key, pos, "the msid attribute is not \"msid:\" + track.StreamID() + \" \" + track.ID() of the sender's track (stream id first, then track id)")
				case !onMedia:
					r.Fail(rule, key, pos, "the msid attribute is not added to the section being built")
				default:
					r.OK(rule, key, pos, "msid:<streamID> <trackID>")
				}
			}
		}
	}
	for _, p := range []string{"SSRC", "RTX.SSRC", "FEC.SSRC"} {
		if seenSrc[p] == 0 {
			r.Fail(rule, "addSenderSDP|a=ssrc|"+p, fpos, "no a=ssrc line announces the sender's "+p)
		}
	}
	for _, s := range []string{"FID", "FEC-FR"} {
		if seenGrp[s] == 0 {
			r.Fail(rule, "addSenderSDP|a=ssrc-group|"+s, fpos, "no "+s+" ssrc-group is emitted")
		}
	}
	if nMsid == 0 {
		r.Fail(rule, "addSenderSDP|a=msid", fpos, "no msid attribute is emitted for a sending track")
	}
	// addTransceiverSDP calls addSenderSDP exactly once on the way to the emission, with its own section and media
	{
		em := c06Emissions(env, env.addTr)
		tg := em.g
		key := "addTransceiverSDP|call:addSenderSDP"
		if len(em.normal) != 1 {
			r.Undecided(rule, key, c.P.Pos(env.addTr.Decl.Pos()), "emission point not found")
		} else {
			target := em.normal[0]
			m := em.media[target]
			calls := map[int]bool{}
			argsOK := true
			for _, n := range tg.FindNodes(func(x ast.Node) bool { return core.IsCallTo(tg.Info, x, addSender.Obj) }) {
				calls[n] = true
				core.InspectShallow(tg.Nodes[n].Ast, func(x ast.Node) bool {
					if core.IsCallTo(tg.Info, x, addSender.Obj) {
						call := x.(*ast.CallExpr)
						ssig := addSender.Obj.Type().(*types.Signature)
						for i, a := range call.Args {
							if i >= ssig.Params().Len() {
								continue
							}
							switch ssig.Params().At(i) {
							case mediaP:
								if core.VarOf(tg.Info, a) != m {
									argsOK = false
								}
							case sectionP:
								if v := core.VarOf(tg.Info, a); v == nil || c06IsParam(tg, v) < 0 || c06AssignedAnywhere(tg, v) != 0 {
									argsOK = false
								}
							}
						}
					}
					return true
				})
			}
			sp, ok := c06PathCount(tg, tg.Entry, target, nil, nil, func(n int) c06Span {
				if calls[n] {
					return c06Span{1, 1}
				}
				return c06Span{}
			})
			r.Check(ok && sp == c06Span{1, 1} && argsOK, rule, key, c.P.Pos(tg.PosOf(target)), "called exactly once per accepted section with the section and its media description",
				sprintf("addSenderSDP runs %s times on the way to the emission (or not on the section's own media description): the sending track is not announced", sp))
		}
	}

	// ---- (b) GetParameters reports the stored SSRCs
	c12GetParameters(env, rule, getParams, fSSRC, fRTX, fFEC, encField)

	// ---- (c) Send stores what it is given; sole caller passes GetParameters(); who may write
	c12Send(env, rule, send, getParams, fSSRC, fRTX, fFEC, encField)
}

// c12IsSectionSender: e is a variable whose only definition is <mt>.Sender() with mt ranging over section.transceivers.
func c12IsSectionSender(env *c06Env, g *core.Graph, at int, e ast.Expr, senderFn *core.FuncInfo, sectionP *types.Var) bool {
	info := g.Info
	d, ok := c12SoleDef(g, at, core.VarOf(info, e))
	if !ok || d.Kind != "assign" {
		return false
	}
	call, isCall := ast.Unparen(d.Rhs).(*ast.CallExpr)
	if !isCall || !core.IsCallTo(info, call, senderFn.Obj) {
		return false
	}
	md, ok := c12SoleDef(g, d.Node, core.VarOf(info, c06Recv(info, call)))
	if !ok || md.Kind != "range-value" || core.FieldOf(info, md.Rhs) != env.fTransceivers {
		return false
	}
	se, _ := ast.Unparen(md.Rhs).(*ast.SelectorExpr)
	return se != nil && core.VarOf(info, se.X) == sectionP && c06AssignedAnywhere(g, sectionP) == 0
}

func c12GetParameters(env *c06Env, rule string, getParams *core.FuncInfo, fSSRC, fRTX, fFEC, encField *types.Var) {
	c, r := env.c, env.c.R
	g := c.P.GraphOf(getParams)
	info := g.Info
	fpos := c.P.Pos(getParams.Decl.Pos())
	teField := c.mustField(rule, "", "RTPSender", "trackEncodings")
	if teField == nil {
		return
	}
	recv := g.Sig().Recv()
	// loop over r.trackEncodings
	var loop *c06Loop
	for _, l := range c06RangeLoops(g) {
		if core.FieldOf(info, l.Range.X) == teField {
			if root, _, ok := c06FieldPath(info, l.Range.X); ok && root == recv {
				loop = l
			}
		}
	}
	if loop == nil || loop.ValueVar == nil {
		r.Undecided(rule, "(*RTPSender).GetParameters|encodings-loop", fpos, "no `for _, e := range r.trackEncodings` loop")
		return
	}
	want := map[string]*types.Var{"SSRC": fSSRC, "RTX.SSRC": fRTX, "FEC.SSRC": fFEC}
	got := map[string]bool{}
	var walk func(prefix string, cl *ast.CompositeLit)
	walk = func(prefix string, cl *ast.CompositeLit) {
		for _, el := range cl.Elts {
			kv, ok := el.(*ast.KeyValueExpr)
			if !ok {
				continue
			}
			id, ok := kv.Key.(*ast.Ident)
			if !ok {
				continue
			}
			name := id.Name
			if sub, isLit := ast.Unparen(kv.Value).(*ast.CompositeLit); isLit {
				p := prefix
				// embedded RTPCodingParameters does not add a path element
				if fo, ok := info.Uses[id].(*types.Var); ok && !fo.Embedded() {
					p = prefix + name + "."
				}
				walk(p, sub)
				continue
			}
			path := prefix + name
			if wf, isWanted := want[path]; isWanted {
				ok := core.FieldOf(info, kv.Value) == wf
				if se, isSel := ast.Unparen(kv.Value).(*ast.SelectorExpr); !isSel || core.VarOf(info, se.X) != loop.ValueVar {
					ok = false
				}
				got[path] = true
				r.Check(ok, rule, "(*RTPSender).GetParameters|encoding."+path, c.P.Pos(kv.Pos()), "reports the encoding's stored "+wf.Name(),
					"GetParameters does not report trackEncoding."+wf.Name()+" as "+path+": the offer announces an SSRC other than the one the sender uses")
			}
		}
	}
	var encVar *types.Var
	for n := range loop.Body {
		nd := g.Nodes[n]
		if nd.Ast == nil {
			continue
		}
		if l, elems, ok := c06TailAppend(info, nd.Ast); ok && len(elems) == 1 {
			if cl, isLit := ast.Unparen(elems[0]).(*ast.CompositeLit); isLit {
				walk("", cl)
				encVar = l
			}
		}
	}
	for p := range want {
		if !got[p] {
			r.Fail(rule, "(*RTPSender).GetParameters|encoding."+p, fpos, "GetParameters does not fill "+p+" from the track encoding inside a tail append in the loop over r.trackEncodings")
		}
	}
	// the appended list is what is returned as Encodings
	flows := false
	ast.Inspect(g.Body, func(x ast.Node) bool {
		if kv, ok := x.(*ast.KeyValueExpr); ok {
			if id, ok := kv.Key.(*ast.Ident); ok && info.Uses[id] == types.Object(encField) && encVar != nil && core.VarOf(info, kv.Value) == encVar {
				flows = true
			}
		}
		return true
	})
	r.Check(flows, rule, "(*RTPSender).GetParameters|Encodings<-loop", fpos, "the list built in the loop is returned as Encodings", "the encodings built from the track encodings are not what GetParameters returns as Encodings")
}

func c12Send(env *c06Env, rule string, send, getParams *core.FuncInfo, fSSRC, fRTX, fFEC, encField *types.Var) {
	c, r := env.c, env.c.R
	g := c.P.GraphOf(send)
	info := g.Info
	sig := g.Sig()
	if sig.Params().Len() != 1 {
		r.Undecided(rule, "(*RTPSender).Send|parameters", c.P.Pos(send.Decl.Pos()), "Send no longer takes exactly the send parameters")
		return
	}
	param := sig.Params().At(0)
	teField := c.P.Field("", "RTPSender", "trackEncodings")
	futSSRC := c.mustField(rule, "", "srtpWriterFuture", "ssrc")
	// parameters.Encodings[idx].<path> -> (idx var, path)
	// rootWritten: a field of local v (or v through its address) is written somewhere in Send
	rootWritten := func(v *types.Var) bool {
		hit := false
		ast.Inspect(g.Body, func(x ast.Node) bool {
			switch s := x.(type) {
			case *ast.AssignStmt:
				for _, l := range s.Lhs {
					if _, isID := ast.Unparen(l).(*ast.Ident); isID {
						continue // plain assignments are counted by c06AssignedAnywhere
					}
					if rv, _, ok := c06FieldPath(info, l); ok && rv == v {
						hit = true
					}
				}
			case *ast.IncDecStmt:
				if rv, _, ok := c06FieldPath(info, s.X); ok && rv == v {
					hit = true
				}
			}
			return true
		})
		return hit
	}
	// fromParam resolves e, read at node `at`, to parameters.Encodings[idx].<path>. The encoding may be named by a
	// local that is a copy of parameters.Encodings[idx]: a single definition, never reassigned, no field of it
	// written, address not taken, and the index variable not reassigned either.
	fromParam := func(at int, e ast.Expr) (idx *types.Var, path string, ok bool) {
		// peel the field path down to the index expression
		var parts []string
		cur := ast.Unparen(e)
		for {
			se, isSel := cur.(*ast.SelectorExpr)
			if !isSel {
				break
			}
			if s := info.Selections[se]; s == nil || s.Kind() != types.FieldVal {
				return nil, "", false
			}
			parts = append([]string{se.Sel.Name}, parts...)
			cur = ast.Unparen(se.X)
		}
		viaLocal := false
		if id, isID := cur.(*ast.Ident); isID {
			v := core.VarOf(info, id)
			d, okd := c12SoleDef(g, at, v)
			if !okd || d.Kind != "assign" || c06AssignedAnywhere(g, v) != 1 || c06WrittenInLiterals(g, v) || rootWritten(v) {
				return nil, "", false
			}
			cur = ast.Unparen(d.Rhs)
			viaLocal = true
		}
		ix, isIx := cur.(*ast.IndexExpr)
		if !isIx || core.FieldOf(info, ix.X) != encField {
			return nil, "", false
		}
		se, _ := ast.Unparen(ix.X).(*ast.SelectorExpr)
		if se == nil || core.VarOf(info, se.X) != param || c06AssignedAnywhere(g, param) != 0 || rootWritten(param) {
			return nil, "", false
		}
		iv := core.VarOf(info, ix.Index)
		if viaLocal && (iv == nil || c06AssignedAnywhere(g, iv) != 1 || c06WrittenInLiterals(g, iv)) {
			return nil, "", false // the copy must still denote Encodings[idx] where it is read
		}
		return iv, strings.Join(parts, "."), true
	}
	// the encoding a local denotes: trackEncoding := r.trackEncodings[idx]
	encIndexOf := func(at int, e ast.Expr) *types.Var {
		d, ok := c12SoleDef(g, at, core.VarOf(info, e))
		if !ok || d.Kind != "assign" {
			return nil
		}
		ix, isIx := ast.Unparen(d.Rhs).(*ast.IndexExpr)
		if !isIx || core.FieldOf(info, ix.X) != teField {
			return nil
		}
		return core.VarOf(info, ix.Index)
	}
	wantPath := map[*types.Var]string{fSSRC: "SSRC", fRTX: "RTX.SSRC", fFEC: "FEC.SSRC"}
	stored := map[*types.Var]bool{}
	for _, nd := range g.Nodes {
		if nd.Ast == nil {
			continue
		}
		core.InspectShallow(nd.Ast, func(x ast.Node) bool {
			switch s := x.(type) {
			case *ast.AssignStmt:
				if len(s.Lhs) != len(s.Rhs) {
					return true
				}
				for i, l := range s.Lhs {
					fv := core.FieldOf(info, l)
					wp, isS := wantPath[fv]
					if !isS {
						continue
					}
					stored[fv] = true
					se := ast.Unparen(l).(*ast.SelectorExpr)
					ei := encIndexOf(nd.ID, se.X)
					idx, path, ok := fromParam(nd.ID, s.Rhs[i])
					r.Check(ok && path == wp && idx != nil && idx == ei, rule, "(*RTPSender).Send|store:trackEncoding."+fv.Name(), c.P.Pos(s.Pos()), "stores parameters.Encodings[idx]."+wp+" into the idx-th encoding",
						"Send stores into trackEncoding."+fv.Name()+" something other than parameters.Encodings[idx]."+wp+" of the same encoding: the sender uses an SSRC that differs from the announced one")
				}
			case *ast.CompositeLit:
				if futSSRC == nil || !c06IsNamed(info.TypeOf(s), c.P.Named("", "srtpWriterFuture")) {
					return true
				}
				for _, el := range s.Elts {
					kv, ok := el.(*ast.KeyValueExpr)
					if !ok {
						continue
					}
					if id, ok := kv.Key.(*ast.Ident); ok && info.Uses[id] == types.Object(futSSRC) {
						stored[futSSRC] = true
						idx, path, ok := fromParam(nd.ID, kv.Value)
						// the index must be the position in the loop over r.trackEncodings
						okIdx := false
						if idx != nil {
							if d, isSole := c12SoleDef(g, nd.ID, idx); isSole && d.Kind == "range-key" && core.FieldOf(info, d.Rhs) == teField {
								okIdx = true
							}
						}
						r.Check(ok && okIdx && path == "SSRC", rule, "(*RTPSender).Send|store:srtpWriterFuture.ssrc", c.P.Pos(kv.Pos()), "the SRTP stream is opened for parameters.Encodings[idx].SSRC",
							"the SRTP writer is created with an SSRC other than parameters.Encodings[idx].SSRC")
					}
				}
			}
			return true
		})
	}
	for fv, p := range wantPath {
		if !stored[fv] {
			r.Fail(rule, "(*RTPSender).Send|store:trackEncoding."+fv.Name(), c.P.Pos(send.Decl.Pos()), "Send does not store parameters.Encodings[idx]."+p)
		}
	}
	if futSSRC != nil && !stored[futSSRC] {
		r.Fail(rule, "(*RTPSender).Send|store:srtpWriterFuture.ssrc", c.P.Pos(send.Decl.Pos()), "Send does not create the SRTP writer from the parameters' SSRC")
	}

	// callers of Send, and writers of the SSRC fields
	allowed := map[string]string{
		"(*RTPSender).addEncoding":                  "allocation",
		"(*RTPSender).Send":                         "from the parameters",
		"(*RTPSender).configureRTXAndFEC":           "zeroing of a disabled RTX/FEC stream",
		"(*PeerConnection).newTransceiverFromTrack": "creation-time override from RTPTransceiverInit on a sender created in the same function (not yet published, no offer generated from it)",
	}
	rootPkg := c.P.Pkg("")
	nCalls := 0
	for _, fi := range c.P.AllFuncs() {
		if fi.Decl.Body == nil {
			continue
		}
		finfo := fi.Pkg.TypesInfo
		ast.Inspect(fi.Decl.Body, func(x ast.Node) bool {
			switch s := x.(type) {
			case *ast.CallExpr:
				if !core.IsCallTo(finfo, s, send.Obj) {
					return true
				}
				if fi.Pkg != rootPkg {
					r.Info(rule, "call:(*RTPSender).Send|in:"+c06PkgLabelOf(c, fi)+fi.Name(), c.P.Pos(s.Pos()), "caller outside the library package (ORTC-style use, no offer involved)")
					return true
				}
				nCalls++
				ok := false
				if len(s.Args) == 1 {
					if pc, isCall := ast.Unparen(s.Args[0]).(*ast.CallExpr); isCall && core.IsCallTo(finfo, pc, getParams.Obj) {
						a, b := core.VarOf(finfo, c06Recv(finfo, s)), core.VarOf(finfo, c06Recv(finfo, pc))
						ok = a != nil && a == b
					}
				}
				r.Check(ok, rule, "call:(*RTPSender).Send|in:"+fi.Name(), c.P.Pos(s.Pos()), "Send(sender.GetParameters()) on the same sender",
					"Send is not called with the same sender's GetParameters(): the SSRCs used differ from the ones the offer announced")
			case *ast.AssignStmt:
				for _, l := range s.Lhs {
					if fv := core.FieldOf(finfo, l); fv == fSSRC || fv == fRTX || fv == fFEC {
						why, ok := allowed[fi.Name()]
						key := "write:trackEncoding." + fv.Name() + "|in:" + fi.Name()
						if fi.Name() == "(*RTPSender).configureRTXAndFEC" {
							// only zeroing
							i := 0
							for j := range s.Lhs {
								if s.Lhs[j] == l {
									i = j
								}
							}
							z := false
							if len(s.Rhs) == len(s.Lhs) {
								if k, isC := c06ConstInt(finfo, s.Rhs[i]); isC && k == 0 {
									z = true
								}
							}
							ok = ok && z
						}
						r.Check(ok, rule, key, c.P.Pos(l.Pos()), why, "an SSRC of a track encoding is rewritten outside addEncoding/Send/configureRTXAndFEC (or to a non-zero value there): it can change between the offer and the first packet")
					}
				}
			case *ast.KeyValueExpr:
				if id, ok := s.Key.(*ast.Ident); ok {
					if fv, _ := finfo.Uses[id].(*types.Var); fv != nil && (fv == fSSRC || fv == fRTX || fv == fFEC) {
						_, ok := allowed[fi.Name()]
						r.Check(ok, rule, "init:trackEncoding."+fv.Name()+"|in:"+fi.Name(), c.P.Pos(s.Pos()), "initial allocation", "a track encoding is created with a preset SSRC outside addEncoding")
					}
				}
			}
			return true
		})
	}
	if nCalls == 0 {
		r.Fail(rule, "call:(*RTPSender).Send", "-", "no call of RTPSender.Send in the module")
	}
}

// ---------------------------------------------------------------------------
// R4

func c12R4(env *c06Env) {
	c, r := env.c, env.c.R
	const rule = "C12.R4"
	fi := env.addTr
	em := c06Emissions(env, fi)
	g := em.g
	info := g.Info
	fpos := c.P.Pos(fi.Decl.Pos())
	dirString := c.mustFunc(rule, "", "RTPTransceiverDirection.String")
	dirFn := c.mustFunc(rule, "", "RTPTransceiver.Direction")
	kindField := c.mustField(rule, "", "RTPTransceiver", "kind")
	kindString := c.mustFunc(rule, "", "RTPCodecType.String")
	if dirString == nil || dirFn == nil || kindField == nil || kindString == nil {
		return
	}
	if len(em.normal) != 1 {
		r.Undecided(rule, "addTransceiverSDP|accepted-section|emission", fpos, "emission point not found")
		return
	}
	m := em.media[em.normal[0]]
	nDir, nKind := 0, 0
	for _, nd := range g.Nodes {
		if nd.Ast == nil {
			continue
		}
		for _, call := range c06CallsOnVar(info, nd.Ast, m) {
			if c06ExtMethod(info, call, c06SDPPkg, "MediaDescription", "WithPropertyAttribute") && len(call.Args) == 1 {
				isDir := false
				if s, ok := c06ConstString(info, call.Args[0]); ok && c06DirNames[s] {
					isDir = true
				}
				sc, isCall := ast.Unparen(call.Args[0]).(*ast.CallExpr)
				if isCall && core.IsCallTo(info, sc, dirString.Obj) {
					isDir = true
				}
				if !isDir {
					continue
				}
				nDir++
				ok := false
				if isCall && core.IsCallTo(info, sc, dirString.Obj) {
					if dc, isD := ast.Unparen(c06Recv(info, sc)).(*ast.CallExpr); isD && core.IsCallTo(info, dc, dirFn.Obj) {
						ok = c06IsSectionTransceiver(env, g, nd.ID, c06Recv(info, dc))
					}
				}
				r.Check(ok, rule, "addTransceiverSDP|accepted-section|direction-source", c.P.Pos(call.Pos()), "transceiver.Direction().String() of the section's first transceiver",
					"the direction attribute is not the current Direction() of the section's transceiver")
			}
		}
		// the creation of the media description: NewJSEPMediaDescription(kind, …) at the root of the chain assigned to m
		core.InspectShallow(nd.Ast, func(x ast.Node) bool {
			as, ok := x.(*ast.AssignStmt)
			if !ok || len(as.Lhs) != len(as.Rhs) {
				return true
			}
			for i, l := range as.Lhs {
				if core.VarOf(info, l) != m {
					continue
				}
				_, root := c06ChainCalls(info, as.Rhs[i])
				rc, isCall := ast.Unparen(root).(*ast.CallExpr)
				if !isCall || !c06ExtFunc(info, rc, c06SDPPkg, "NewJSEPMediaDescription") || len(rc.Args) < 1 {
					continue
				}
				nKind++
				ok := false
				if kc, isK := ast.Unparen(rc.Args[0]).(*ast.CallExpr); isK && core.IsCallTo(info, kc, kindString.Obj) {
					if rv := c06Recv(info, kc); rv != nil && core.FieldOf(info, rv) == kindField {
						if se, isSel := ast.Unparen(rv).(*ast.SelectorExpr); isSel {
							ok = c06IsSectionTransceiver(env, g, nd.ID, se.X)
						}
					}
				}
				r.Check(ok, rule, "addTransceiverSDP|accepted-section|kind-source", c.P.Pos(rc.Pos()), "the m-line's media type is the kind of the section's first transceiver",
					"the m-line's media type is not the kind of the section's transceiver")
			}
			return true
		})
	}
	if nDir == 0 {
		// the attribute may be emitted by a helper that receives the media description: follow one call level
		isDirArg := func(ginfo *types.Info, e ast.Expr) (*ast.CallExpr, bool) {
			sc, isCall := ast.Unparen(e).(*ast.CallExpr)
			if isCall && core.IsCallTo(ginfo, sc, dirString.Obj) {
				return sc, true
			}
			return nil, false
		}
		for _, nd := range g.Nodes {
			if nd.Ast == nil {
				continue
			}
			for _, call := range core.CallsIn(nd.Ast) {
				hfi := c.P.DeclOf(core.Callee(info, call))
				if hfi == nil || hfi.Decl.Body == nil {
					continue
				}
				hsig := hfi.Obj.Type().(*types.Signature)
				mIdx := -1
				for i, a := range call.Args {
					if core.VarOf(info, a) == m && i < hsig.Params().Len() {
						mIdx = i
					}
				}
				if mIdx < 0 {
					continue
				}
				hg := c.P.GraphOf(hfi)
				hm := hsig.Params().At(mIdx)
				for _, hn := range hg.Nodes {
					if hn.Ast == nil {
						continue
					}
					for _, hc := range c06CallsOnVar(hg.Info, hn.Ast, hm) {
						if !c06ExtMethod(hg.Info, hc, c06SDPPkg, "MediaDescription", "WithPropertyAttribute") || len(hc.Args) != 1 {
							continue
						}
						sc, isDir := isDirArg(hg.Info, hc.Args[0])
						if !isDir {
							continue
						}
						nDir++
						key := "addTransceiverSDP|accepted-section|direction-source"
						// the receiver of String() inside the helper: a parameter bound to transceiver.Direction(), or
						// Direction() of a parameter bound to the section's transceiver
						rv := c06Recv(hg.Info, sc)
						bound := func(pv *types.Var) ast.Expr {
							for i := 0; i < hsig.Params().Len() && i < len(call.Args); i++ {
								if hsig.Params().At(i) == pv && c06AssignedAnywhere(hg, pv) == 0 {
									return call.Args[i]
								}
							}
							return nil
						}
						ok := false
						if pv := core.VarOf(hg.Info, rv); pv != nil {
							if a := bound(pv); a != nil {
								if dc, isD := ast.Unparen(a).(*ast.CallExpr); isD && core.IsCallTo(info, dc, dirFn.Obj) {
									ok = c06IsSectionTransceiver(env, g, nd.ID, c06Recv(info, dc))
								}
							}
						} else if dc, isD := ast.Unparen(rv).(*ast.CallExpr); isD && core.IsCallTo(hg.Info, dc, dirFn.Obj) {
							if pv := core.VarOf(hg.Info, c06Recv(hg.Info, dc)); pv != nil {
								if a := bound(pv); a != nil {
									ok = c06IsSectionTransceiver(env, g, nd.ID, a)
								}
							}
						}
						r.Check(ok, rule, key, c.P.Pos(hc.Pos()), "Direction().String() of the section's first transceiver, emitted by helper "+hfi.Name(),
							"the direction attribute emitted by helper "+hfi.Name()+" is not the current Direction() of the section's transceiver")
					}
				}
			}
		}
	}
	if nDir == 0 {
		r.Fail(rule, "addTransceiverSDP|accepted-section|direction-source", fpos, "no direction attribute is set on the accepted section")
	}
	if nKind == 0 {
		r.Undecided(rule, "addTransceiverSDP|accepted-section|kind-source", fpos, "the media description is not created by sdp.NewJSEPMediaDescription(kind, …)")
	}
}
