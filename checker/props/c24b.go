package props

import (
	"go/ast"
	"go/token"
	"go/types"
	"sort"
	"strings"

	"verif/checker/core"
)

// r4Flush (C24.R4): exactly one end-of-gathering marker per gathering, whatever number of flushes follow. The callback
// emits the marker itself unless the pool is active when gathering completes (C24.R1/R3); a flush therefore owes the
// marker only if IT found the pool still active. So flushCandidates' marker must be decided, besides the gatherer state,
// by a sample of the pool predicate taken before the pool is emptied, in the emptying critical section: a flush that
// finds the pool already inactive (a second SetLocalDescription, or pool size 0) emits no marker.
func (x *c24ctx) r4Flush(flush *core.FuncInfo, nilBody *core.Graph) {
	c, r := x.c, x.c.R
	const rule = "C24.R4"
	g := c.P.GraphOf(flush)
	info := g.Info
	key := flush.Name() + "|nil-marker-only-if-this-flush-found-the-pool-active"
	pos := c.P.Pos(flush.Decl.Pos())
	nilEm := x.nilEmissions(g)
	if len(nilEm) == 0 {
		r.Undecided(rule, key, pos, "flushCandidates no longer invokes the handler with nil")
		return
	}
	var empties []int
	for _, n := range g.Nodes {
		if n.Ast == nil {
			continue
		}
		if len(x.poolWrites(info, n.Ast)) > 0 {
			empties = append(empties, n.ID)
		}
	}
	empties = c24Filter(empties, g.Live())
	if len(empties) == 0 {
		r.Undecided(rule, key, pos, "flushCandidates never writes the pool fields")
		return
	}
	afterEmpty := g.Reach(empties, nil, nil)
	li := core.Locks(g)
	inst := c24LockInst(li)
	// pool samples: v := <expression reading the pool fields>, evaluated before the pool is emptied, in its critical section
	samples := map[*types.Var]bool{}
	for _, n := range g.Nodes {
		as, ok := n.Ast.(*ast.AssignStmt)
		if !ok || len(as.Lhs) != 1 || len(as.Rhs) != 1 || !x.poolReads(info, as.Rhs[0]) {
			continue
		}
		if tv, ok := info.Types[as.Rhs[0]]; !ok || !types.Identical(tv.Type.Underlying(), types.Typ[types.Bool]) {
			continue
		}
		v := core.VarOf(info, as.Lhs[0])
		if v == nil {
			continue
		}
		if rhs, _ := g.UniqueDef(v); rhs == nil {
			continue
		}
		if afterEmpty[n.ID] {
			continue
		}
		same := true
		for _, e := range empties {
			if ok, _ := c24SameRegion(g, li, n.ID, e, inst); !ok {
				same = false
			}
		}
		if same {
			samples[v] = true
		}
	}
	// does taking branch `truth` of e require a sample to be true?
	var needs func(e ast.Expr, truth bool) bool
	needs = func(e ast.Expr, truth bool) bool {
		switch v := ast.Unparen(e).(type) {
		case *ast.UnaryExpr:
			if v.Op == token.NOT {
				return needs(v.X, !truth)
			}
		case *ast.BinaryExpr:
			if v.Op == token.LAND && truth || v.Op == token.LOR && !truth {
				return needs(v.X, truth) || needs(v.Y, truth)
			}
		case *ast.Ident:
			return truth && samples[core.VarOf(info, v)]
		}
		return false
	}
	ok := true
	for _, em := range nilEm {
		reach := g.ReachFromEntry(nil, func(from, idx int, e core.Edge) bool {
			return e.Cond != nil && e.Tag == nil && e.Branch != 0 && needs(e.Cond, e.Branch == 1)
		})
		if reach[em] {
			ok = false
		}
	}
	// the sample tests the SAME pool predicate as the callback's marker decision (same pool fields read): the two sides
	// decide who owes the marker by complementary answers to one question
	fieldsOf := func(inf *types.Info, e ast.Node) string {
		set := map[string]bool{}
		ast.Inspect(e, func(y ast.Node) bool {
			if sel, isSel := y.(*ast.SelectorExpr); isSel {
				if f := core.FieldOf(inf, sel); f == x.poolF || f == x.sizeF {
					set[f.Name()] = true
				}
			}
			return true
		})
		var names []string
		for n := range set {
			names = append(names, n)
		}
		sort.Strings(names)
		return strings.Join(names, "+")
	}
	if nilBody != nil && len(samples) > 0 {
		cbFields := ""
		for _, n := range nilBody.Nodes {
			as, isAs := n.Ast.(*ast.AssignStmt)
			if !isAs || len(as.Rhs) != 1 || !x.poolReads(nilBody.Info, as.Rhs[0]) {
				continue
			}
			if tv, has := nilBody.Info.Types[as.Rhs[0]]; has && types.Identical(tv.Type.Underlying(), types.Typ[types.Bool]) {
				cbFields = fieldsOf(nilBody.Info, as.Rhs[0])
			}
		}
		for v := range samples {
			rhs, _ := g.UniqueDef(v)
			if rhs == nil || cbFields == "" {
				continue
			}
			fl := fieldsOf(info, rhs)
			r.Check(fl == cbFields, rule, flush.Name()+"|pool-sample|same-predicate-as-callback", c.P.Pos(rhs.Pos()), "the flush samples the pool predicate the callback tests ("+cbFields+")",
				"the flush's pool sample reads {"+fl+"} while the callback's marker decision reads {"+cbFields+"}: the two sides answer different questions (NewICEGatherer allocates a non-nil empty pool even for pool size 0), so for some configuration both - or neither - report the end-of-gathering marker")
		}
	}
	r.Cells++
	r.Check(ok, rule, key, c.P.Pos(g.PosOf(nilEm[0])), sprintf("the flush's marker is reached only through a branch that requires a pool sample taken before the pool was emptied (%d sample variable(s))", len(samples)),
		"flushCandidates emits the nil marker whenever the gatherer state is Complete, whether or not this flush found the pool active: the gatherer callback already reported the marker when the pool was inactive at completion (pool size 0, or an earlier flush), so every later SetLocalDescription reports end-of-gathering again")
}

// r5Callback (C24.R5): the handler the agent callback reports to is the one registered WHEN THE CANDIDATE ARRIVES. With a
// candidate pool NewPeerConnection starts gathering before the application can call OnICECandidate, so a handler value
// captured by the callback's closure when Gather() ran is the no-op: everything the gatherer reports itself after the flush
// (late candidates, the nil marker) would be lost. Every handler variable invoked in the callback must be declared inside
// the callback literal (or be a parameter of the helper that emits).
func (x *c24ctx) r5Callback(cb *core.Graph, cbName string, bodies []c24Body) {
	c, r := x.c, x.c.R
	const rule = "C24.R5"
	lit, isLit := cb.Fn.(*ast.FuncLit)
	n := 0
	for _, b := range bodies {
		g := b.g
		info := g.Info
		for _, want := range []bool{false, true} {
			for _, em := range x.emissions(g, want) {
				var call *ast.CallExpr
				core.InspectShallow(g.Nodes[em].Ast, func(y ast.Node) bool {
					if cl, ok := y.(*ast.CallExpr); ok {
						if is, _ := x.handlerCall(info, cl); is {
							call = cl
						}
					}
					return true
				})
				if call == nil {
					continue
				}
				v := core.VarOf(info, call.Fun)
				if v == nil {
					continue // a declared forwarding wrapper or a direct Load().(func)(...) expression
				}
				n++
				key := sprintf("%s|emission#%d|handler-resolved-at-emission-time", b.name, n)
				captured := false
				if g == cb && isLit {
					captured = !(v.Pos() >= lit.Pos() && v.Pos() < lit.End())
				}
				r.Check(!captured, rule, key, c.P.Pos(call.Pos()), "the handler variable is local to the callback (loaded when the candidate arrives)",
					"the callback reports to a handler variable captured from Gather(): it was loaded when gathering started (with a candidate pool: before the application could register OnICECandidate), so candidates and the nil marker reported after the flush go to the no-op handler and are lost")
			}
		}
	}
	if n == 0 {
		r.Info(rule, cbName+"|no-handler-variable", c.P.Pos(cb.Fn.Pos()), "the callback invokes no handler variable directly")
	}
}

// r6Order (C24.R6): "reports no candidate after it". The flush hands the pooled candidates to the handler after it has
// released candidatePoolLock; if gathering completes meanwhile, the callback finds the pool inactive and reports the nil
// marker at once - in front of the pooled candidates the flush is still delivering. The deliveries are ordered before
// the marker only if (a) they happen inside the critical section in which the pool is taken, or (b) that critical section
// raises a "flush in progress" field which the callback's marker decision reads (and which is lowered after the last
// delivery). Neither holds on the pinned tree: recorded as a known finding (reproducer
// findings/C24-candidate-after-nil/finding_c24_order_test.go).
func (x *c24ctx) r6Order(flush *core.FuncInfo, nilBody *core.Graph) {
	c, r := x.c, x.c.R
	const rule = "C24.R6"
	g := c.P.GraphOf(flush)
	info := g.Info
	key := flush.Name() + "|pooled-candidates-delivered-before-the-callback-may-report-the-marker"
	pos := c.P.Pos(flush.Decl.Pos())
	cands := x.emissions(g, false)
	if len(cands) == 0 {
		r.Info(rule, key, pos, "flushCandidates emits no candidate")
		return
	}
	var empties []int
	for _, n := range g.Nodes {
		if n.Ast != nil && len(x.poolWrites(info, n.Ast)) > 0 {
			empties = append(empties, n.ID)
		}
	}
	empties = c24Filter(empties, g.Live())
	if len(empties) == 0 {
		r.Undecided(rule, key, pos, "flushCandidates never writes the pool fields")
		return
	}
	li := core.Locks(g)
	inst := c24LockInst(li)
	inRegion := true
	for _, e := range cands {
		for _, w := range empties {
			if ok, _ := c24SameRegion(g, li, e, w, inst); !ok {
				inRegion = false
			}
		}
	}
	// (b) a field raised in the emptying critical section and read where the callback decides about the marker
	flag := false
	if !inRegion && nilBody != nil {
		raised := map[*types.Var]bool{}
		for _, n := range g.Nodes {
			as, ok := n.Ast.(*ast.AssignStmt)
			if !ok {
				continue
			}
			same := true
			for _, w := range empties {
				if ok, _ := c24SameRegion(g, li, n.ID, w, inst); !ok {
					same = false
				}
			}
			if !same {
				continue
			}
			for _, l := range as.Lhs {
				if f := core.FieldOf(info, l); f != nil && f != x.poolF && f != x.sizeF && f != x.stateF {
					raised[f] = true
				}
			}
		}
		for _, n := range nilBody.Nodes {
			if n.Ast == nil {
				continue
			}
			core.InspectShallow(n.Ast, func(y ast.Node) bool {
				if sel, ok := y.(*ast.SelectorExpr); ok && raised[core.FieldOf(nilBody.Info, sel)] {
					flag = true
				}
				return true
			})
		}
	}
	r.Cells++
	r.Check(inRegion || flag, rule, key, c.P.Pos(g.PosOf(cands[0])), "the pooled candidates are delivered before the callback can decide to report the marker",
		"flushCandidates delivers the pooled candidates after releasing candidatePoolLock and leaves no in-progress mark the callback's marker decision could see: if gathering completes during the delivery the callback reports nil at once and the remaining pooled candidates are reported after the end-of-gathering marker")
}
