package props

import (
	"go/ast"
	"go/token"
	"go/types"
	"strings"

	"verif/checker/core"
)

// c14R8: C14.R5 ties "advertised = presented" to one index k of pc.configuration.Certificates (generators) and of the
// copy the DTLS transport took at construction. That only holds while every later write of pc.configuration.Certificates
// keeps each POSITION: outside the constructor path a write `pc.configuration.Certificates = X` must be dominated by
// len(X) == len(old) and by a range loop over X that leaves through a failing return whenever old[i].Equals(X[i]) is false
// for the loop's own index i (a membership test accepts a permutation, after which Certificates[0] is no longer the
// certificate the transport presents).
func c14R8(c *Ctx) {
	r := c.R
	const rule = "C14.R8"
	certF := c.mustField(rule, "", "Configuration", "Certificates")
	equals := c.mustFunc(rule, "", "Certificate.Equals")
	ctor := c.mustFunc(rule, "", "API.NewPeerConnection")
	initCfg := c.mustFunc(rule, "", "PeerConnection.initConfiguration")
	pcCfgF := c.mustField(rule, "", "PeerConnection", "configuration")
	if certF == nil || equals == nil || ctor == nil || initCfg == nil || pcCfgF == nil {
		return
	}
	isPCCerts := func(info *types.Info, e ast.Expr) bool { // <pc>.configuration.Certificates
		sel, ok := ast.Unparen(e).(*ast.SelectorExpr)
		return ok && core.FieldOf(info, sel) == certF && core.FieldOf(info, sel.X) == pcCfgF
	}
	nWrites := 0
	for _, fi := range c.P.AllFuncs() {
		if fi.Decl == nil || fi.Decl.Body == nil || fi.Pkg != c.P.Pkg("") || fi == ctor || fi == initCfg {
			continue
		}
		info := fi.Pkg.TypesInfo
		has := false
		ast.Inspect(fi.Decl.Body, func(x ast.Node) bool {
			if as, ok := x.(*ast.AssignStmt); ok {
				for _, l := range as.Lhs {
					if isPCCerts(info, l) {
						has = true
					}
					if ix, ok := ast.Unparen(l).(*ast.IndexExpr); ok && isPCCerts(info, ix.X) {
						has = true
					}
				}
			}
			return true
		})
		if !has {
			continue
		}
		g := c.P.GraphOf(fi)
		for _, n := range g.Nodes {
			as, ok := n.Ast.(*ast.AssignStmt)
			if !ok {
				continue
			}
			for i, l := range as.Lhs {
				if ix, ok := ast.Unparen(l).(*ast.IndexExpr); ok && isPCCerts(info, ix.X) {
					nWrites++
					r.Fail(rule, fi.Name()+"|write:configuration.Certificates[i]", c.P.Pos(as.Pos()), "an element of pc.configuration.Certificates is overwritten after construction: the advertised fingerprint can differ from the certificate the DTLS transport presents")
					continue
				}
				if !isPCCerts(info, l) {
					continue
				}
				nWrites++
				key := fi.Name() + "|write:configuration.Certificates|position-preserving"
				pos := c.P.Pos(as.Pos())
				if len(as.Rhs) != len(as.Lhs) || as.Tok != token.ASSIGN {
					r.Fail(rule, key, pos, "pc.configuration.Certificates is rewritten by something other than a plain assignment of a checked list")
					continue
				}
				newList := as.Rhs[i]
				sameList := func(e ast.Expr) bool { return exprStr(ast.Unparen(e)) == exprStr(ast.Unparen(newList)) }
				isOld := func(e ast.Expr) bool { return isPCCerts(info, e) }
				mayFailRet := func(ret *ast.ReturnStmt) bool { mf, _ := g.ReturnMayFail(ret, nil); return mf }
				lenOK, posOK := c14PairwiseGuard(g, n.ID, isOld, sameList, mayFailRet, equals.Obj)
				if !lenOK || !posOK {
					// a boolean helper `eq(old, new)` whose every accepting return is guarded the same way
					edges := map[core.EdgeRef]bool{}
					for _, m := range g.Nodes {
						for k, e := range m.Succs {
							if e.Cond == nil || e.Tag != nil || e.Branch == 0 {
								continue
							}
							cond, pol := ast.Unparen(e.Cond), e.Branch == 1
							for {
								u, ok := cond.(*ast.UnaryExpr)
								if !ok || u.Op != token.NOT {
									break
								}
								cond, pol = ast.Unparen(u.X), !pol
							}
							call, ok := cond.(*ast.CallExpr)
							if !ok || !pol || len(call.Args) != 2 {
								continue
							}
							var oi, ni int
							switch {
							case isOld(call.Args[0]) && sameList(call.Args[1]):
								oi, ni = 0, 1
							case isOld(call.Args[1]) && sameList(call.Args[0]):
								oi, ni = 1, 0
							default:
								continue
							}
							fn := core.Callee(info, call)
							if fn == nil {
								continue
							}
							h := c.P.DeclOf(fn)
							if h == nil || h.Decl == nil || h.Decl.Body == nil || h.Decl.Recv != nil {
								continue
							}
							if c14PairwisePredicate(c, h, oi, ni, equals.Obj) {
								edges[core.EdgeRef{From: m.ID, Idx: k}] = true
							}
						}
					}
					if len(edges) > 0 && g.DominatedByEdges(n.ID, edges) {
						lenOK, posOK = true, true
					}
				}
				var bad []string
				if !lenOK {
					bad = append(bad, "no dominating test that the new list has the old list's length")
				}
				if !posOK {
					bad = append(bad, "no dominating loop `for i, v := range <new list>` that fails unless pc.configuration.Certificates[i].Equals(v) for its own index i (a set-membership test accepts a permutation)")
				}
				r.Cells++
				r.Check(len(bad) == 0, rule, key, pos, "the new list has the old length and equals the old list position by position",
					"pc.configuration.Certificates is replaced without a position-wise equality check ("+strings.Join(bad, "; ")+"): Certificates[0], which the SDP generators fingerprint, can stop being the certificate the DTLS transport presents")
			}
		}
	}
	if nWrites == 0 {
		r.OK(rule, "writes:configuration.Certificates|none-after-construction", "-", "pc.configuration.Certificates is never written after construction")
	}
}

// c14PairwiseGuard: is target dominated (lenOK) by an edge establishing len(new) == len(old) and (posOK) by a range loop
// over the new list every iteration of which leaves through a rejecting return unless old[i].Equals(new[i]) for the
// loop's own index?
func c14PairwiseGuard(g *core.Graph, target int, isOld, isNew func(ast.Expr) bool, rejects func(*ast.ReturnStmt) bool, equals *types.Func) (lenOK, posOK bool) {
	info := g.Info
	lenEdges := map[core.EdgeRef]bool{}
	for _, m := range g.Nodes {
		for k, e := range m.Succs {
			if e.Cond == nil || e.Tag != nil || e.Branch == 0 {
				continue
			}
			b, ok := ast.Unparen(e.Cond).(*ast.BinaryExpr)
			if !ok || (b.Op != token.EQL && b.Op != token.NEQ) || (e.Branch == 1) != (b.Op == token.EQL) {
				continue
			}
			lenOf := func(x ast.Expr) ast.Expr {
				call, ok := ast.Unparen(x).(*ast.CallExpr)
				if !ok || len(call.Args) != 1 {
					return nil
				}
				if id, ok := call.Fun.(*ast.Ident); !ok || id.Name != "len" || info.Uses[id] != types.Universe.Lookup("len") {
					return nil
				}
				return call.Args[0]
			}
			a, bb := lenOf(b.X), lenOf(b.Y)
			if a == nil || bb == nil {
				continue
			}
			if isNew(a) && isOld(bb) || isNew(bb) && isOld(a) {
				lenEdges[core.EdgeRef{From: m.ID, Idx: k}] = true
			}
		}
	}
	lenOK = len(lenEdges) > 0 && g.DominatedByEdges(target, lenEdges)
	for _, l := range c06RangeLoops(g) {
		if !(isNew(l.Range.X) || isOld(l.Range.X)) || l.KeyVar == nil {
			continue
		}
		overNew := isNew(l.Range.X)
		if !g.Dominated(target, map[int]bool{l.Head: true}) || l.Body[target] {
			continue
		}
		for m := range l.Body {
			for _, e := range g.Nodes[m].Succs {
				if e.Cond == nil || e.Tag != nil || e.Branch == 0 {
					continue
				}
				cond, pol := ast.Unparen(e.Cond), e.Branch == 1
				for {
					u, ok := cond.(*ast.UnaryExpr)
					if !ok || u.Op != token.NOT {
						break
					}
					cond, pol = ast.Unparen(u.X), !pol
				}
				call, ok := cond.(*ast.CallExpr)
				if !ok || pol || !core.IsCallTo(info, call, equals) || len(call.Args) != 1 {
					continue
				}
				sel, _ := ast.Unparen(call.Fun).(*ast.SelectorExpr)
				if sel == nil {
					continue
				}
				at := func(x ast.Expr, list func(ast.Expr) bool, ranged bool) bool {
					if ranged && l.ValueVar != nil && core.VarOf(info, x) == l.ValueVar {
						return true
					}
					ix, ok := ast.Unparen(x).(*ast.IndexExpr)
					return ok && list(ix.X) && core.VarOf(info, ix.Index) == l.KeyVar
				}
				isOldAtI := func(x ast.Expr) bool { return at(x, isOld, !overNew) }
				isNewAtI := func(x ast.Expr) bool { return at(x, isNew, overNew) }
				if !(isOldAtI(sel.X) && isNewAtI(call.Args[0]) || isNewAtI(sel.X) && isOldAtI(call.Args[0])) {
					continue
				}
				reach := g.Reach([]int{e.To}, nil, nil)
				ok2 := !reach[target] && !reach[l.Head]
				for x := range reach {
					if ret, isRet := g.Nodes[x].Ast.(*ast.ReturnStmt); isRet && !rejects(ret) {
						ok2 = false
					}
				}
				if ok2 {
					cmpNode := m
					r2 := g.Reach([]int{l.BodyEntry}, func(x int) bool { return x == cmpNode || !l.Body[x] }, nil)
					through := true
					for _, b := range l.backNodes() {
						if r2[b] && b != cmpNode {
							through = false
						}
					}
					if through {
						posOK = true
					}
				}
			}
		}
	}
	return lenOK, posOK
}

// c14PairwisePredicate: h(a, b []Certificate) bool returns something other than the constant false only when
// len(a) == len(b) and a[i].Equals(b[i]) at every position.
func c14PairwisePredicate(c *Ctx, h *core.FuncInfo, oi, ni int, equals *types.Func) bool {
	sig := h.Obj.Type().(*types.Signature)
	if sig.Params().Len() != 2 || sig.Results().Len() != 1 || !types.Identical(sig.Results().At(0).Type(), types.Typ[types.Bool]) {
		return false
	}
	g := c.P.GraphOf(h)
	info := g.Info
	po, pn := sig.Params().At(oi), sig.Params().At(ni)
	isOld := func(e ast.Expr) bool { return core.VarOf(info, e) == po }
	isNew := func(e ast.Expr) bool { return core.VarOf(info, e) == pn }
	for _, lhs := range g.Nodes {
		for _, t := range core.AssignTargets(lhs.Ast) {
			if v := core.VarOf(info, t); v == po || v == pn {
				return false // a parameter is reassigned
			}
		}
	}
	isFalse := func(ret *ast.ReturnStmt) bool {
		if len(ret.Results) != 1 {
			return false
		}
		tv, ok := info.Types[ret.Results[0]]
		return ok && tv.Value != nil && tv.Value.ExactString() == "false"
	}
	n := 0
	for _, rn := range g.Returns() {
		ret := g.Nodes[rn].Ast.(*ast.ReturnStmt)
		if isFalse(ret) {
			continue
		}
		n++
		lenOK, posOK := c14PairwiseGuard(g, rn, isOld, isNew, isFalse, equals)
		if !lenOK || !posOK {
			return false
		}
	}
	return n > 0
}

// c14R9: the fingerprints a handshake is verified against are those of the ACCEPTED Start: in prepareStart the store of
// DTLSTransport.remoteParameters is reachable only after the state guard passed - no return with a possibly non-nil error
// is reachable after the store. (A second Start, rejected with InvalidStateError, must not replace the fingerprints a
// handshake already in flight is checked against.)
func c14R9(c *Ctx) {
	r := c.R
	const rule = "C14.R9"
	fi := c.mustFunc(rule, "", "DTLSTransport.prepareStart")
	rpF := c.mustField(rule, "", "DTLSTransport", "remoteParameters")
	if fi == nil || rpF == nil {
		return
	}
	g := c.P.GraphOf(fi)
	info := g.Info
	var stores []int
	for _, n := range g.Nodes {
		if as, ok := n.Ast.(*ast.AssignStmt); ok {
			for _, l := range as.Lhs {
				if core.FieldOf(info, l) == rpF {
					stores = append(stores, n.ID)
				}
			}
		}
	}
	if len(stores) == 0 {
		r.Undecided(rule, "prepareStart|remoteParameters-stored-only-by-an-accepted-start", c.P.Pos(fi.Decl.Pos()), "prepareStart no longer stores remoteParameters directly")
		return
	}
	reach := g.Reach(stores, nil, nil)
	var bad []string
	for x := range reach {
		if ret, ok := g.Nodes[x].Ast.(*ast.ReturnStmt); ok {
			if mf, _ := g.ReturnMayFail(ret, nil); mf {
				bad = append(bad, c.P.Pos(ret.Pos()))
			}
		}
	}
	r.Cells++
	r.Check(len(bad) == 0, rule, "prepareStart|remoteParameters-stored-only-by-an-accepted-start", c.P.Pos(g.PosOf(stores[0])), "no failing return is reachable after the remote parameters were stored",
		"prepareStart can fail (at "+strings.Join(bad, ", ")+") after it has already replaced t.remoteParameters: a Start that is rejected (transport not new) still swaps the fingerprints the running handshake's certificate check reads")
}
