package props

import (
	"go/ast"
	"go/token"
	"go/types"
	"strings"

	"verif/checker/core"
)

// c14R8: C14.R5 ties "advertised = presented" to one index k of pc.configuration.Certificates (generators) and of the
// copy the DTLS transport took at construction. That only holds while every later write of pc.configuration.Certificates
// keeps each POSITION: outside the constructor path a write `pc.configuration.Certificates = X` must be dominated by
// len(X) == len(old) and by a range loop over X that leaves through a failing return whenever old[i].Equals(X[i]) is false
// for the loop's own index i (a membership test accepts a permutation, after which Certificates[0] is no longer the
// certificate the transport presents).
func c14R8(c *Ctx) {
	r := c.R
	const rule = "C14.R8"
	certF := c.mustField(rule, "", "Configuration", "Certificates")
	equals := c.mustFunc(rule, "", "Certificate.Equals")
	ctor := c.mustFunc(rule, "", "API.NewPeerConnection")
	initCfg := c.mustFunc(rule, "", "PeerConnection.initConfiguration")
	pcCfgF := c.mustField(rule, "", "PeerConnection", "configuration")
	if certF == nil || equals == nil || ctor == nil || initCfg == nil || pcCfgF == nil {
		return
	}
	isPCCerts := func(info *types.Info, e ast.Expr) bool { // <pc>.configuration.Certificates
		sel, ok := ast.Unparen(e).(*ast.SelectorExpr)
		return ok && core.FieldOf(info, sel) == certF && core.FieldOf(info, sel.X) == pcCfgF
	}
	nWrites := 0
	for _, fi := range c.P.AllFuncs() {
		if fi.Decl == nil || fi.Decl.Body == nil || fi.Pkg != c.P.Pkg("") || fi == ctor || fi == initCfg {
			continue
		}
		info := fi.Pkg.TypesInfo
		has := false
		ast.Inspect(fi.Decl.Body, func(x ast.Node) bool {
			if as, ok := x.(*ast.AssignStmt); ok {
				for _, l := range as.Lhs {
					if isPCCerts(info, l) {
						has = true
					}
					if ix, ok := ast.Unparen(l).(*ast.IndexExpr); ok && isPCCerts(info, ix.X) {
						has = true
					}
				}
			}
			return true
		})
		if !has {
			continue
		}
		g := c.P.GraphOf(fi)
		for _, n := range g.Nodes {
			as, ok := n.Ast.(*ast.AssignStmt)
			if !ok {
				continue
			}
			for i, l := range as.Lhs {
				if ix, ok := ast.Unparen(l).(*ast.IndexExpr); ok && isPCCerts(info, ix.X) {
					nWrites++
					r.Fail(rule, fi.Name()+"|write:configuration.Certificates[i]", c.P.Pos(as.Pos()), "an element of pc.configuration.Certificates is overwritten after construction: the advertised fingerprint can differ from the certificate the DTLS transport presents")
					continue
				}
				if !isPCCerts(info, l) {
					continue
				}
				nWrites++
				key := fi.Name() + "|write:configuration.Certificates|position-preserving"
				pos := c.P.Pos(as.Pos())
				if len(as.Rhs) != len(as.Lhs) || as.Tok != token.ASSIGN {
					r.Fail(rule, key, pos, "pc.configuration.Certificates is rewritten by something other than a plain assignment of a checked list")
					continue
				}
				newList := as.Rhs[i]
				sameList := func(e ast.Expr) bool { return exprStr(ast.Unparen(e)) == exprStr(ast.Unparen(newList)) }
				var bad []string
				// (1) length equality dominates
				lenOK := false
				lenEdges := map[core.EdgeRef]bool{}
				for _, m := range g.Nodes {
					for k, e := range m.Succs {
						if e.Cond == nil || e.Tag != nil || e.Branch == 0 {
							continue
						}
						b, ok := ast.Unparen(e.Cond).(*ast.BinaryExpr)
						if !ok || (b.Op != token.EQL && b.Op != token.NEQ) || (e.Branch == 1) != (b.Op == token.EQL) {
							continue
						}
						lenOf := func(x ast.Expr) ast.Expr {
							call, ok := ast.Unparen(x).(*ast.CallExpr)
							if !ok || len(call.Args) != 1 {
								return nil
							}
							if id, ok := call.Fun.(*ast.Ident); !ok || id.Name != "len" || info.Uses[id] != types.Universe.Lookup("len") {
								return nil
							}
							return call.Args[0]
						}
						a, bb := lenOf(b.X), lenOf(b.Y)
						if a == nil || bb == nil {
							continue
						}
						if sameList(a) && isPCCerts(info, bb) || sameList(bb) && isPCCerts(info, a) {
							lenEdges[core.EdgeRef{From: m.ID, Idx: k}] = true
						}
					}
				}
				if len(lenEdges) > 0 && g.DominatedByEdges(n.ID, lenEdges) {
					lenOK = true
				}
				if !lenOK {
					bad = append(bad, "no dominating test that the new list has the old list's length")
				}
				// (2) position-wise Equals loop dominates
				posOK := false
				for _, l := range c06RangeLoops(g) {
					if !sameList(l.Range.X) || l.KeyVar == nil || l.ValueVar == nil {
						continue
					}
					if !g.Dominated(n.ID, map[int]bool{l.Head: true}) || l.Body[n.ID] {
						continue
					}
					// edges of the body on which old[i].Equals(v) is false
					for m := range l.Body {
						for _, e := range g.Nodes[m].Succs {
							if e.Cond == nil || e.Tag != nil || e.Branch == 0 {
								continue
							}
							cond, pol := ast.Unparen(e.Cond), e.Branch == 1
							for {
								u, ok := cond.(*ast.UnaryExpr)
								if !ok || u.Op != token.NOT {
									break
								}
								cond, pol = ast.Unparen(u.X), !pol
							}
							call, ok := cond.(*ast.CallExpr)
							if !ok || pol || !core.IsCallTo(info, call, equals.Obj) || len(call.Args) != 1 {
								continue
							}
							sel, _ := ast.Unparen(call.Fun).(*ast.SelectorExpr)
							if sel == nil {
								continue
							}
							isOldAtI := func(x ast.Expr) bool {
								ix, ok := ast.Unparen(x).(*ast.IndexExpr)
								return ok && isPCCerts(info, ix.X) && core.VarOf(info, ix.Index) == l.KeyVar
							}
							isNewElem := func(x ast.Expr) bool {
								if core.VarOf(info, x) == l.ValueVar {
									return true
								}
								ix, ok := ast.Unparen(x).(*ast.IndexExpr)
								return ok && sameList(ix.X) && core.VarOf(info, ix.Index) == l.KeyVar
							}
							if !(isOldAtI(sel.X) && isNewElem(call.Args[0]) || isNewElem(sel.X) && isOldAtI(call.Args[0])) {
								continue
							}
							// from the "not equal" edge the write must be unreachable and every return must fail
							reach := g.Reach([]int{e.To}, nil, nil)
							ok2 := !reach[n.ID] && !reach[l.Head]
							for x := range reach {
								if ret, isRet := g.Nodes[x].Ast.(*ast.ReturnStmt); isRet {
									if mf, _ := g.ReturnMayFail(ret, nil); !mf {
										ok2 = false
									}
								}
							}
							// and every iteration passes the comparison: the back edge is not reachable from the body entry without it
							if ok2 {
								cmpNode := m
								r2 := g.Reach([]int{l.BodyEntry}, func(x int) bool { return x == cmpNode || !l.Body[x] }, nil)
								through := true
								for _, b := range l.backNodes() {
									if r2[b] && b != cmpNode {
										through = false
									}
								}
								if through {
									posOK = true
								}
							}
						}
					}
				}
				if !posOK {
					bad = append(bad, "no dominating loop `for i, v := range <new list>` that fails unless pc.configuration.Certificates[i].Equals(v) for its own index i (a set-membership test accepts a permutation)")
				}
				r.Cells++
				r.Check(len(bad) == 0, rule, key, pos, "the new list has the old length and equals the old list position by position",
					"pc.configuration.Certificates is replaced without a position-wise equality check ("+strings.Join(bad, "; ")+"): Certificates[0], which the SDP generators fingerprint, can stop being the certificate the DTLS transport presents")
			}
		}
	}
	if nWrites == 0 {
		r.OK(rule, "writes:configuration.Certificates|none-after-construction", "-", "pc.configuration.Certificates is never written after construction")
	}
}
