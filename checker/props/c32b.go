package props

import (
	"go/ast"
	"go/token"
	"go/types"
	"sort"
	"strings"

	"verif/checker/core"
)

// c32R5: the keyframe gate latches as soon as the first keyframe packet is accepted. Every continuation packet of that
// frame must pass the gate too, so in each ivfwriter depacketizing function every append to the frame buffer is
// dominated by the store seenKeyFrame = true or by a branch that establishes seenKeyFrame (alone): a packet is never
// accepted into the frame while the gate is still closed for the next packet.
//
// c32R6: the frames IVFReader hands out are the caller's: the []byte ParseNextFrame returns is allocated in that call
// (make / append to nil), never a slice of storage the reader keeps, so reading the next frame cannot overwrite a frame
// already returned.
func c32R56(c *Ctx) {
	r := c.R
	{
		const rule = "C32.R5"
		const rel = "pkg/media/ivfwriter"
		seenF := c.mustField(rule, rel, "IVFWriter", "seenKeyFrame")
		frameF := c.mustField(rule, rel, "IVFWriter", "currentFrame")
		if seenF != nil && frameF != nil {
			pkg := c.P.Pkg(rel)
			n := 0
			for _, fi := range c.P.AllFuncs() {
				if fi.Pkg != pkg || fi.Decl == nil || fi.Decl.Body == nil {
					continue
				}
				g := c.P.GraphOf(fi)
				info := g.Info
				var stores, appends []int
				for _, nd := range g.Nodes {
					as, ok := nd.Ast.(*ast.AssignStmt)
					if !ok || len(as.Lhs) != len(as.Rhs) {
						continue
					}
					for i, l := range as.Lhs {
						switch core.FieldOf(info, l) {
						case seenF:
							if tv, ok := info.Types[as.Rhs[i]]; ok && tv.Value != nil && tv.Value.ExactString() == "true" {
								stores = append(stores, nd.ID)
							}
						case frameF:
							if call, ok := ast.Unparen(as.Rhs[i]).(*ast.CallExpr); ok {
								if id, ok := call.Fun.(*ast.Ident); ok && id.Name == "append" && len(call.Args) >= 1 && core.FieldOf(info, call.Args[0]) == frameF {
									appends = append(appends, nd.ID)
								}
							}
						}
					}
				}
				if len(appends) == 0 {
					continue
				}
				isStore := core.NodeSet(stores)
				var established func(e ast.Expr, truth bool) bool
				established = func(e ast.Expr, truth bool) bool {
					switch v := ast.Unparen(e).(type) {
					case *ast.UnaryExpr:
						if v.Op == token.NOT {
							return established(v.X, !truth)
						}
					case *ast.BinaryExpr:
						if v.Op == token.LAND && truth || v.Op == token.LOR && !truth {
							return established(v.X, truth) || established(v.Y, truth)
						}
					default:
						return truth && core.FieldOf(info, e) == seenF
					}
					return false
				}
				reach := g.ReachFromEntry(func(x int) bool { return isStore[x] }, func(from, idx int, e core.Edge) bool {
					return e.Cond != nil && e.Tag == nil && e.Branch != 0 && established(e.Cond, e.Branch == 1)
				})
				for k, a := range appends {
					n++
					r.Cells++
					r.Check(!reach[a], rule, sprintf("%s|frame-append#%d|gate-latched-first", fi.Name(), k+1), c.P.Pos(g.PosOf(a)), "a packet is accepted into the frame only after seenKeyFrame is (set) true",
						"a packet can be appended to the frame while seenKeyFrame is still false (the latch is set later): the next packet of the same keyframe is tested against the closed gate, so a continuation fragment of the first keyframe can be dropped and the frame is cut or glued to the next one")
				}
			}
			if n == 0 {
				r.Undecided(rule, "ivfwriter|frame-appends", "-", "no append to IVFWriter.currentFrame found")
			}
		}
	}
	{
		const rule = "C32.R6"
		fi := c.mustFunc(rule, "pkg/media/ivfreader", "IVFReader.ParseNextFrame")
		if fi != nil {
			g := c.P.GraphOf(fi)
			info := g.Info
			var bad []string
			nRet := 0
			var freshExpr func(e ast.Expr, depth int) (bool, string)
			freshExpr = func(e ast.Expr, depth int) (bool, string) {
				e = ast.Unparen(e)
				if core.IsNilIdent(info, e) {
					return true, ""
				}
				switch x := e.(type) {
				case *ast.CallExpr:
					if id, ok := x.Fun.(*ast.Ident); ok {
						if b, isB := info.Uses[id].(*types.Builtin); isB {
							switch b.Name() {
							case "make":
								return true, ""
							case "append":
								if len(x.Args) > 0 {
									return freshExpr(x.Args[0], depth+1)
								}
							}
						}
					}
					if fn := core.Callee(info, x); fn != nil && fn.Pkg() != nil && (fn.Pkg().Path() == "bytes" || fn.Pkg().Path() == "slices") && fn.Name() == "Clone" {
						return true, ""
					}
					return false, "result of " + exprStr(x.Fun)
				case *ast.SliceExpr:
					return freshExpr(x.X, depth)
				case *ast.CompositeLit:
					return true, ""
				case *ast.Ident:
					v := core.VarOf(info, x)
					if v == nil || depth > 4 {
						return false, exprStr(x)
					}
					defs := g.AllDefs(v)
					if len(defs) == 0 {
						return false, exprStr(x) + " (parameter or undefined)"
					}
					for _, d := range defs {
						if d.Rhs == nil {
							continue
						}
						if ok, why := freshExpr(d.Rhs, depth+1); !ok {
							return false, why
						}
					}
					return true, ""
				case *ast.SelectorExpr:
					return false, exprStr(x) + " (storage kept by the reader)"
				}
				return false, exprStr(e)
			}
			for _, rn := range g.Returns() {
				ret := g.Nodes[rn].Ast.(*ast.ReturnStmt)
				if len(ret.Results) == 0 {
					continue
				}
				nRet++
				if ok, why := freshExpr(ret.Results[0], 0); !ok {
					bad = append(bad, c.P.Pos(ret.Pos())+": "+why)
				}
			}
			sort.Strings(bad)
			r.Cells++
			r.Check(len(bad) == 0 && nRet > 0, rule, "ParseNextFrame|returned-frame-is-freshly-allocated", c.P.Pos(fi.Decl.Pos()), sprintf("all %d returns hand out nil or a buffer allocated in this call", nRet),
				"ParseNextFrame returns a slice of storage the reader keeps ("+strings.Join(bad, "; ")+"): the next call overwrites a frame the caller still holds, so the frames read back are not the frames written")
		}
	}
}
