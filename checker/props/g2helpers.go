package props

import (
	"go/ast"
	"go/token"
	"go/types"
	"sort"
	"strings"

	"verif/checker/core"
)

// c13ValueType: booleans, numbers, strings, named types over them (enums), and slices/arrays of those.
func c13ValueType(t types.Type) bool {
	switch u := t.Underlying().(type) {
	case *types.Basic:
		return u.Kind() != types.UnsafePointer && u.Kind() != types.Invalid
	case *types.Slice:
		return c13ValueType(u.Elem())
	case *types.Array:
		return c13ValueType(u.Elem())
	}
	return false
}

// c13ValueHelper reports whether fn is a module function whose receiver, parameters and results are all
// scalars/enums or slices of them (a table or predicate extracted into a helper). Such helpers are always
// interpreted by the tables of C08/C13: interpreting is sound for any callee, and a helper of this shape
// cannot reach the tracked objects except through globals.
func c13ValueHelper(fn *types.Func) bool {
	if fn == nil || fn.Pkg() == nil || !strings.HasPrefix(fn.Pkg().Path(), core.ModPath) {
		return false
	}
	sig, ok := fn.Type().(*types.Signature)
	if !ok || sig.Results().Len() == 0 {
		return false
	}
	if r := sig.Recv(); r != nil && !c13ValueType(r.Type()) {
		return false
	}
	for i := 0; i < sig.Params().Len(); i++ {
		if !c13ValueType(sig.Params().At(i).Type()) {
			return false
		}
	}
	for i := 0; i < sig.Results().Len(); i++ {
		if !c13ValueType(sig.Results().At(i).Type()) {
			return false
		}
	}
	return true
}

// c13PureExpr: no calls (conversions and len/cap allowed), no function literals, no channel receives.
func c13PureExpr(info *types.Info, e ast.Expr) bool {
	pure := true
	ast.Inspect(e, func(n ast.Node) bool {
		switch x := n.(type) {
		case *ast.FuncLit:
			pure = false
		case *ast.UnaryExpr:
			if x.Op == token.ARROW {
				pure = false
			}
		case *ast.CallExpr:
			if tv, ok := info.Types[ast.Unparen(x.Fun)]; ok && tv.IsType() {
				return true
			}
			if id, ok := ast.Unparen(x.Fun).(*ast.Ident); ok {
				if b, ok := info.Uses[id].(*types.Builtin); ok && (b.Name() == "len" || b.Name() == "cap") {
					return true
				}
			}
			pure = false
		}
		return pure
	})
	return pure
}

// c13RegionPrelude returns, in source order, the pure single definitions (made before the region and dominating
// its start) of the locals the region reads - transitively - excluding the variables in bound. See absint.Region.Prelude.
func c13RegionPrelude(g *core.Graph, fn *ast.FuncDecl, start int, stops map[int]string, bound map[*types.Var]bool) []ast.Stmt {
	info := g.Info
	region := g.Reach([]int{start}, func(n int) bool { _, s := stops[n]; return s }, nil)
	isLocal := func(v *types.Var) bool {
		return v != nil && !v.IsField() && v.Pkg() != nil && v.Parent() != nil && v.Parent() != v.Pkg().Scope()
	}
	// every syntactic write of each local in the whole function (literals included)
	type def struct {
		stmt *ast.AssignStmt
		n    int
	}
	writes := map[*types.Var]*def{}
	note := func(v *types.Var, as *ast.AssignStmt) {
		if !isLocal(v) {
			return
		}
		d := writes[v]
		if d == nil {
			d = &def{}
			writes[v] = d
		}
		d.n++
		d.stmt = as
	}
	ast.Inspect(fn.Body, func(n ast.Node) bool {
		switch x := n.(type) {
		case *ast.AssignStmt:
			for _, l := range x.Lhs {
				note(core.VarOf(info, l), x)
			}
		case *ast.ValueSpec:
			for _, nm := range x.Names {
				if v, ok := info.Defs[nm].(*types.Var); ok {
					note(v, nil)
				}
			}
		case *ast.IncDecStmt:
			note(core.VarOf(info, x.X), nil)
		case *ast.UnaryExpr:
			if x.Op == token.AND {
				note(core.VarOf(info, x.X), nil)
				note(core.VarOf(info, x.X), nil) // address taken: never a single definition
			}
		case *ast.RangeStmt:
			if x.Key != nil {
				note(core.VarOf(info, x.Key), nil)
			}
			if x.Value != nil {
				note(core.VarOf(info, x.Value), nil)
			}
		}
		return true
	})
	usedIn := func(n ast.Node, into map[*types.Var]bool) {
		ast.Inspect(n, func(x ast.Node) bool {
			if id, ok := x.(*ast.Ident); ok {
				if v, ok := info.Uses[id].(*types.Var); ok && isLocal(v) {
					into[v] = true
				}
			}
			return true
		})
	}
	want := map[*types.Var]bool{}
	for id := range region {
		if a := g.Nodes[id].Ast; a != nil {
			usedIn(a, want)
		}
	}
	chosen := map[*ast.AssignStmt]bool{}
	done := map[*types.Var]bool{}
	for changed := true; changed; {
		changed = false
		for v := range want {
			if done[v] || bound[v] {
				continue
			}
			done[v] = true
			d := writes[v]
			if d == nil || d.n != 1 || d.stmt == nil || len(d.stmt.Lhs) != len(d.stmt.Rhs) {
				continue
			}
			pure := true
			for _, rhs := range d.stmt.Rhs {
				if !c13PureExpr(info, rhs) {
					pure = false
				}
			}
			// every target of the statement must itself be singly defined and unbound
			for _, l := range d.stmt.Lhs {
				if lv := core.VarOf(info, l); lv != nil && (bound[lv] || writes[lv] == nil || writes[lv].n != 1) {
					pure = false
				}
			}
			if !pure {
				continue
			}
			nodes := g.FindNodes(func(x ast.Node) bool { return x == ast.Node(d.stmt) })
			if len(nodes) != 1 || region[nodes[0]] || !g.Dominated(start, map[int]bool{nodes[0]: true}) {
				continue
			}
			// a definition that reads the heap may be hoisted to the region entry only if nothing between it and
			// the region can write the heap (no calls, no stores through selectors/indices/pointers)
			if c13ReadsHeap(info, d.stmt.Rhs) && !c13QuietBetween(g, nodes[0], start, region) {
				continue
			}
			chosen[d.stmt] = true
			before := len(want)
			for _, rhs := range d.stmt.Rhs {
				usedIn(rhs, want)
			}
			if len(want) != before {
				changed = true
			}
			changed = true
		}
	}
	var out []ast.Stmt
	for s := range chosen {
		out = append(out, s)
	}
	sort.Slice(out, func(i, j int) bool { return out[i].Pos() < out[j].Pos() })
	return out
}

func c13ReadsHeap(info *types.Info, es []ast.Expr) bool {
	heap := false
	for _, e := range es {
		ast.Inspect(e, func(n ast.Node) bool {
			switch x := n.(type) {
			case *ast.SelectorExpr:
				if sel := info.Selections[x]; sel != nil && sel.Kind() == types.FieldVal {
					heap = true
				}
			case *ast.IndexExpr, *ast.StarExpr, *ast.SliceExpr:
				heap = true
			}
			return true
		})
	}
	return heap
}

// c13QuietBetween: every node on a path from def to start (both excluded) is free of calls and of stores to non-locals.
func c13QuietBetween(g *core.Graph, def, start int, region map[int]bool) bool {
	fromDef := g.Reach([]int{def}, func(n int) bool { return n == start }, nil)
	for n := range fromDef {
		if n == def || n == start || region[n] {
			continue
		}
		a := g.Nodes[n].Ast
		if a == nil || !g.Reach([]int{n}, nil, nil)[start] {
			continue
		}
		quiet := true
		ast.Inspect(a, func(x ast.Node) bool {
			switch s := x.(type) {
			case *ast.CallExpr:
				if tv, ok := g.Info.Types[ast.Unparen(s.Fun)]; ok && tv.IsType() {
					return true
				}
				if id, ok := ast.Unparen(s.Fun).(*ast.Ident); ok {
					if _, isB := g.Info.Uses[id].(*types.Builtin); isB {
						return true
					}
				}
				quiet = false
			case *ast.AssignStmt:
				for _, l := range s.Lhs {
					if core.VarOf(g.Info, l) == nil {
						if id, ok := ast.Unparen(l).(*ast.Ident); ok && id.Name == "_" {
							continue
						}
						quiet = false
					}
				}
			case *ast.IncDecStmt:
				if core.VarOf(g.Info, s.X) == nil {
					quiet = false
				}
			case *ast.SendStmt, *ast.GoStmt, *ast.DeferStmt:
				quiet = false
			}
			return quiet
		})
		if !quiet {
			return false
		}
	}
	return true
}
