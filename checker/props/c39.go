package props

import (
	"go/ast"
	"go/types"
	"strings"

	"verif/checker/absint"
	"verif/checker/core"
)

func init() {
	register(&Prop{
		ID:        "C39",
		Engine:    "e1tab",
		Technique: "finite-domain abstract interpretation of SetConfiguration over (closed, per-field requested/current values, certificate equality, local-description presence); effect trace of stores to pc.configuration compared with the immutability rules",
		LevelText: "Exhaustive table over a data-independent abstraction of the inputs (each immutable field: unspecified / equal / different; certificates: count and equality; pool size with and without a local description; ICE-server validation succeeding or failing): every store into pc.configuration on every path is recorded and must leave immutable settings unchanged, every attempted change must end in InvalidModificationError, and a failing call must have no visible store.",
		LevelNote: "Trusted: absint soundness; values are only compared with ==/!= and zero tests, so two distinct non-zero representatives per field are exhaustive (checked: any other use makes the cell UNDECIDED). Deep equality of GetConfiguration() slices is not covered.",
		DesignRef: "DESIGN.md §5 C39",
		Run:       runC39,
	})
}

func runC39(c *Ctx) {
	r := c.R
	r.Exhaustive = true
	r.Rule("C39.R1", "on every path of SetConfiguration, a store into an immutable field of pc.configuration (PeerIdentity, Certificates, BundlePolicy, RTCPMuxPolicy, ICECandidatePoolSize with a local description) writes a value equal to the current one", 2000)
	r.Rule("C39.R2", "a requested change of an immutable setting makes every outcome an *rtcerr.InvalidModificationError; a closed connection yields InvalidStateError", 2000)
	r.Rule("C39.R4", "same rule as C14.R7 / C38.R4: Certificate.Equals, the test SetConfiguration uses to detect a changed certificate, answers true only via x509Cert.Equal and compares no key material by identity (a different certificate for the same key is a change)", 6)
	r.Rule("C39.R3", "a failing call leaves GetConfiguration unchanged: every store that precedes an error return writes the current value (no partial changes; ICE-server validation precedes the unguarded stores)", 2000)
	r.Rule("C39.R5", "every store into PeerConnection.configuration.Certificates writes a slice whose backing array only the connection holds (literal, append onto the stored list, copy), never the caller's own slice: otherwise the application's next write to its slice changes the certificate with no call and the guard compares the new certificate with itself (seed C39-m5; found SetConfiguration doing so on the tree, fixed)", 2)
	r.NotCovered = append(r.NotCovered, "deep equality / aliasing of the slices returned by GetConfiguration", "what ICEGatherer.updateServers does with the new servers")
	r.Trusted = append(r.Trusted, "absint soundness on the supported fragment", "data-independence: field values are only compared for equality")

	fi := c.mustFunc("C39.R1", "", "PeerConnection.SetConfiguration")
	certEq := c.mustFunc("C39.R1", "", "Certificate.Equals")
	if fi == nil || certEq == nil {
		return
	}
	c14CertEquals(c, "C39.R4", "C39.R4") // c14extra.go
	c39R5(c)                             // c39b.go
	pos := c.P.Pos(fi.Decl.Pos())
	bp, ok1 := enumDomain(c, "C39.R1", "", "BundlePolicy", 77)
	rm, ok2 := enumDomain(c, "C39.R1", "", "RTCPMuxPolicy", 77)
	if !ok1 || !ok2 || len(bp) < 4 || len(rm) < 4 {
		return
	}
	intT := types.Typ[types.Int]
	u8 := types.Typ[types.Uint8]
	b := func(v bool) absint.Val { return absint.BoolVal(v) }
	dims := []absint.Dim{
		{Key: "$recv.isClosed.Load()", Domain: []absint.Val{b(false), b(true)}},
		{Key: "$p0.PeerIdentity", Domain: []absint.Val{absint.StrVal(""), absint.StrVal("x")}},
		{Key: "$recv.configuration.PeerIdentity", Domain: []absint.Val{absint.StrVal("x"), absint.StrVal("y")}},
		{Key: "$p0.BundlePolicy", Domain: []absint.Val{bp[0], bp[1]}},
		{Key: "$recv.configuration.BundlePolicy", Domain: []absint.Val{bp[1], bp[2]}},
		{Key: "$p0.RTCPMuxPolicy", Domain: []absint.Val{rm[0], rm[1]}},
		{Key: "$recv.configuration.RTCPMuxPolicy", Domain: []absint.Val{rm[1], rm[2]}},
		{Key: "$p0.ICECandidatePoolSize", Domain: []absint.Val{absint.IntVal(0, u8), absint.IntVal(1, u8)}},
		{Key: "$recv.configuration.ICECandidatePoolSize", Domain: []absint.Val{absint.IntVal(1, u8), absint.IntVal(2, u8)}},
		{Key: "$recv.LocalDescription()", Domain: []absint.Val{absint.Nil{}, absint.NonNil{Desc: "localDescription"}}},
		{Key: "len($p0.Certificates)", Domain: []absint.Val{absint.IntVal(0, intT), absint.IntVal(1, intT)}},
		{Key: "len($recv.configuration.Certificates)", Domain: []absint.Val{absint.IntVal(1, intT), absint.IntVal(2, intT)}},
		{Key: "certEq", Domain: []absint.Val{b(true), b(false)}},
	}
	if c.Thorough {
		// wider representatives (three values per field, two certificates)
		dims[2].Domain = append(dims[2].Domain, absint.StrVal(""))
		dims[3].Domain = []absint.Val{bp[0], bp[1], bp[2]}
		dims[5].Domain = []absint.Val{rm[0], rm[1], rm[2]}
		dims[10].Domain = append(dims[10].Domain, absint.IntVal(2, intT))
	}
	watched := func(p string) bool { return strings.HasPrefix(p, "$recv.configuration.") }
	// unexported package-level predicates of the root package (e.g. an extracted certificatesEqual(current, updated) bool)
	// are interpreted in place with their parameters bound to the arguments
	helper := func(fn *types.Func) bool {
		if fn.Pkg() == nil || fn.Pkg().Path() != core.ModPath || fn.Exported() {
			return false
		}
		sig, ok := fn.Type().(*types.Signature)
		if !ok || sig.Recv() != nil || sig.Results().Len() != 1 {
			return false
		}
		b, ok := sig.Results().At(0).Type().Underlying().(*types.Basic)
		return ok && b.Info()&types.IsBoolean != 0
	}
	t := absint.Tabulate(absint.Config{P: c.P, Dims: dims, WatchStore: watched, Inline: helper, Pure: helper,
		OnCall: func(in *absint.Interp, st *absint.State, call *ast.CallExpr, fn *types.Func, recv absint.Val, args []absint.Val) (absint.Val, bool) {
			if fn == certEq.Obj {
				v, _ := st.Dim("certEq")
				return v, true
			}
			return nil, false
		}}, fi)
	if tableProblems(c, "C39.R1", "SetConfiguration|table", pos, t) {
		return
	}
	r.Cells += len(t.Rows)
	immutable := map[string]string{"PeerIdentity": "PeerIdentity", "BundlePolicy": "BundlePolicy", "RTCPMuxPolicy": "RTCPMuxPolicy", "Certificates": "Certificates", "ICECandidatePoolSize": "ICECandidatePoolSize"}
	for _, row := range t.Rows {
		g := func(k string) string { return row.Get(k) }
		closed := g("$recv.isClosed.Load()") == "true"
		changePI := g("$p0.PeerIdentity") != `""` && g("$p0.PeerIdentity") != g("$recv.configuration.PeerIdentity")
		changeBP := g("$p0.BundlePolicy") != "BundlePolicyUnknown" && g("$p0.BundlePolicy") != g("$recv.configuration.BundlePolicy")
		changeRM := g("$p0.RTCPMuxPolicy") != "RTCPMuxPolicyUnknown" && g("$p0.RTCPMuxPolicy") != g("$recv.configuration.RTCPMuxPolicy")
		hasLD := g("$recv.LocalDescription()") != "nil"
		changePool := g("$p0.ICECandidatePoolSize") != "0" && g("$p0.ICECandidatePoolSize") != g("$recv.configuration.ICECandidatePoolSize") && hasLD
		certSame := g("len($p0.Certificates)") == g("len($recv.configuration.Certificates)") && g("certEq") == "true"
		changeCert := g("len($p0.Certificates)") != "0" && !certSame
		mustReject := changePI || changeBP || changeRM || changePool || changeCert
		cellKey := absint.Describe(dims, row.Valuation)

		var bad1, bad2, bad3 string
		for _, o := range row.Outcomes {
			if len(o.Results) != 1 || o.Panic != "" {
				bad2 = "indefinite outcome " + o.String()
				continue
			}
			_, success := o.Results[0].(absint.Nil)
			nn, failed := o.Results[0].(absint.NonNil)
			if !success && !failed {
				bad2 = "error result undecided: " + o.String()
				continue
			}
			// stores
			for _, ev := range o.Trace {
				parts := strings.SplitN(ev, " = ", 2)
				if len(parts) != 2 || !strings.HasPrefix(parts[0], "$recv.configuration.") {
					continue
				}
				field := strings.TrimPrefix(parts[0], "$recv.configuration.")
				cur := g("$recv.configuration." + field)
				same := parts[1] == cur
				if field == "Certificates" {
					same = certSame && parts[1] == "ref($p0.Certificates)"
				}
				if field == "ICECandidatePoolSize" && !hasLD {
					same = true // may change while no local description exists
				}
				if _, imm := immutable[field]; imm && !same {
					bad1 = sprintf("store %s changes an immutable setting (current %s)", ev, cur)
				}
				if failed && !same {
					bad3 = sprintf("failing call (%s) has already stored %s", nn.Desc, ev)
				}
			}
			switch {
			case closed && (!failed || !strings.Contains(nn.Desc, "InvalidStateError")):
				bad2 = "closed connection must yield InvalidStateError, got " + o.String()
			case !closed && mustReject && success:
				bad2 = "a requested change of an immutable setting is accepted"
			case !closed && mustReject && !strings.Contains(nn.Desc, "InvalidModificationError"):
				// an earlier unrelated failure is impossible here: immutability checks come first
				bad2 = "a requested change of an immutable setting must be rejected with InvalidModificationError, got " + nn.Desc
			}
		}
		if len(row.Outcomes) == 0 {
			bad2 = "no outcome"
		}
		r.Check(bad1 == "", "C39.R1", "SetConfiguration|"+cellKey, pos, "no immutable setting changes", bad1)
		r.Check(bad2 == "", "C39.R2", "SetConfiguration|"+cellKey, pos, "verdict as required", bad2)
		r.Check(bad3 == "", "C39.R3", "SetConfiguration|"+cellKey, pos, "failing outcomes have no visible store", bad3)
	}
}
