package props

import (
	"encoding/hex"
	"go/ast"
	"go/constant"
	"go/token"
	"go/types"
	"sort"
	"strings"

	"verif/checker/core"
)

func init() {
	register(&Prop{
		ID:        "C17",
		Engine:    "e6flow+e5sync+e1tab",
		Technique: "interprocedural taint closure for mime-type strings (every use classified: EqualFold / after ToLower / raw); finite decision tables of every FMTP Match method and of every comparator they call, over a data-independent abstraction of what is read from each side, checked for T(x,y)=T(y,x); mirror comparison of paired loops; constant evaluation of the default codec table against the keys Match requires",
		LevelText: "Symmetry and case-insensitivity clauses of codec compatibility: (R1) inside internal/fmtp and codecParametersFuzzySearch a mime-type string reaches a comparison, switch or map lookup only through strings.EqualFold or after strings.ToLower, and fmtp parameter keys are lower-cased when parsed and looked up with lower-case constants; (R2) every Match method asserts its argument to its own type (else false) and its decision table over (keys present/absent, values equal/different, per side) is symmetric, using only comparators that are themselves tabulated symmetric (ClockRateEqual, ChannelsEqual, profileLevelIDMatches) or built from two mirrored loops (paramsEqual); (R3) every codec literal of RegisterDefaultCodecs maps through Parse to one FMTP type whose table is reflexive for it (H264 literals carry both keys Match requires and a profile-level-id of at least two hex bytes).",
		LevelNote: "Trusted: strings.EqualFold is symmetric; representatives argument (values are only compared). Does not decide symmetry under exotic Unicode folding (EqualFold vs ToLower), nor the generic matcher's use of the receiver's mime type for clock-rate/channel defaults beyond the EqualFold conjunct.",
		DesignRef: "DESIGN.md §5 C17",
		Run:       runC17,
	})
}

func runC17(c *Ctx) {
	r := c.R
	r.Rule("C17.R1", "in internal/fmtp and codecParametersFuzzySearch every use of a mime-type string (fields MimeType/mimeType, FMTP.MimeType() results, and every parameter they flow into) is an operand of strings.EqualFold or of strings.ToLower/ToUpper; fmtp parameter keys stored by parseParameters come from strings.ToLower, every parameters map comes from parseParameters, and every constant key used to look a parameter up is lower-case", 18)
	r.Rule("C17.R2", "every FMTP implementation's Match asserts the argument to its own concrete type and returns false otherwise; its decision table over what it reads from receiver and argument is symmetric; every comparator it applies to a receiver-derived and an argument-derived operand is strings.EqualFold, ==/!=, or a module function whose own table over its two operands is symmetric (or that consists of two mirrored loops)", 150)
	r.Rule("C17.R3", "every codec literal in RegisterDefaultCodecs selects exactly one FMTP type in Parse and matches itself: the type's table is true on the diagonal for the literal's parameters (H264: packetization-mode and profile-level-id present, profile-level-id decoding to at least two bytes)", 28)
	r.NotCovered = append(r.NotCovered,
		"exotic Unicode case folding (strings.EqualFold vs strings.ToLower disagree on a few code points)",
		"the generic matcher passes the receiver's mime type to ClockRateEqual/ChannelsEqual: symmetric only together with the EqualFold(mime) conjunct, which is checked to be a conjunct but not related to the defaults",
		"mime-type uses outside internal/fmtp and codecParametersFuzzySearch (listed, not judged, in the thorough tier)")
	r.Trusted = append(r.Trusted, "strings.EqualFold is symmetric and case-insensitive", "representatives: values read are only compared, so three distinct representatives per value (plus the constants compared against) are exhaustive; any other use makes the cell UNDECIDED")

	c17R1(c)
	tables := c17R2(c)
	c17R3(c, tables)
}

// ---- R1: mime-type strings only through EqualFold / ToLower

type c17Taint struct {
	c       *Ctx
	fields  map[*types.Var]bool
	params  map[*types.Var]bool
	results map[*types.Func]bool
	locals  map[*types.Var]bool
	inScope map[*core.FuncInfo]bool
	changed bool
}

func (t *c17Taint) tainted(info *types.Info, e ast.Expr) bool {
	e = ast.Unparen(e)
	if tv, ok := info.Types[e]; ok && tv.Value != nil {
		return false
	}
	switch x := e.(type) {
	case *ast.Ident:
		v := core.VarOf(info, x)
		return v != nil && (t.params[v] || t.locals[v])
	case *ast.SelectorExpr:
		if f := core.FieldOf(info, x); f != nil {
			return t.fields[f]
		}
	case *ast.CallExpr:
		if tv, ok := info.Types[x.Fun]; ok && tv.IsType() && len(x.Args) == 1 {
			return t.tainted(info, x.Args[0])
		}
		fn := core.Callee(info, x)
		if fn == nil {
			return false
		}
		if t.results[fn] {
			return true
		}
		// interface method: tainted if any implementation in scope is
		if sig, ok := fn.Type().(*types.Signature); ok && sig.Recv() != nil {
			if _, isIface := sig.Recv().Type().Underlying().(*types.Interface); isIface {
				for f := range t.results {
					if f.Name() == fn.Name() && f.Pkg() == fn.Pkg() {
						return true
					}
				}
			}
		}
		if fn.Pkg() != nil && fn.Pkg().Path() == "strings" {
			switch fn.Name() {
			case "TrimSpace", "TrimPrefix", "TrimSuffix", "Trim", "TrimLeft", "TrimRight", "Clone":
				return len(x.Args) > 0 && t.tainted(info, x.Args[0])
			}
		}
	case *ast.BinaryExpr:
		if x.Op == token.ADD {
			return t.tainted(info, x.X) || t.tainted(info, x.Y)
		}
	case *ast.IndexExpr:
		return t.tainted(info, x.X)
	case *ast.SliceExpr:
		return t.tainted(info, x.X)
	}
	return false
}

func (t *c17Taint) mark(m map[*types.Var]bool, v *types.Var) {
	if v != nil && !m[v] {
		m[v] = true
		t.changed = true
	}
}

func c17R1(c *Ctx) {
	r := c.R
	const rule = "C17.R1"
	mimeRoot := c.mustField(rule, "", "RTPCodecCapability", "MimeType")
	mimeGen := c.mustField(rule, "internal/fmtp", "genericFMTP", "mimeType")
	fuzzy := c.mustFunc(rule, "", "codecParametersFuzzySearch")
	parse := c.mustFunc(rule, "internal/fmtp", "Parse")
	fpkg := c.P.Pkg("internal/fmtp")
	if mimeRoot == nil || mimeGen == nil || fuzzy == nil || parse == nil || fpkg == nil {
		return
	}
	t := &c17Taint{c: c, fields: map[*types.Var]bool{mimeRoot: true, mimeGen: true}, params: map[*types.Var]bool{}, results: map[*types.Func]bool{},
		locals: map[*types.Var]bool{}, inScope: map[*core.FuncInfo]bool{}}
	t.params[parse.Obj.Type().(*types.Signature).Params().At(0)] = true
	// the judged scope: internal/fmtp, codecParametersFuzzySearch and the same-package helpers it calls (transitively, depth 3)
	fuzzyScope := map[*core.FuncInfo]bool{fuzzy: true}
	frontier := []*core.FuncInfo{fuzzy}
	for depth := 0; depth < 3 && len(frontier) > 0; depth++ {
		var next []*core.FuncInfo
		for _, fi := range frontier {
			info := fi.Pkg.TypesInfo
			ast.Inspect(fi.Decl.Body, func(n ast.Node) bool {
				if call, ok := n.(*ast.CallExpr); ok {
					if callee := c.P.DeclOf(core.Callee(info, call)); callee != nil && callee.Decl.Body != nil && callee.Pkg == fuzzy.Pkg && !fuzzyScope[callee] {
						fuzzyScope[callee] = true
						next = append(next, callee)
					}
				}
				return true
			})
		}
		frontier = next
	}
	var scope []*core.FuncInfo
	for _, fi := range c.P.AllFuncs() {
		if fi.Decl.Body == nil {
			continue
		}
		if fi.Pkg == fpkg || fuzzyScope[fi] || (c.Thorough && fi.Pkg == c.P.Pkg("")) {
			scope = append(scope, fi)
			t.inScope[fi] = true
		}
	}
	judged := func(fi *core.FuncInfo) bool { return fi.Pkg == fpkg || fuzzyScope[fi] }
	// propagation to a fixpoint
	for round := 0; round < 10; round++ {
		t.changed = false
		for _, fi := range scope {
			info := fi.Pkg.TypesInfo
			ast.Inspect(fi.Decl.Body, func(n ast.Node) bool {
				switch s := n.(type) {
				case *ast.AssignStmt:
					if len(s.Lhs) == len(s.Rhs) {
						for i, l := range s.Lhs {
							if t.tainted(info, s.Rhs[i]) {
								if v := core.VarOf(info, l); v != nil && !v.IsField() {
									t.mark(t.locals, v)
								}
							}
						}
					}
				case *ast.ValueSpec:
					if len(s.Values) == len(s.Names) {
						for i, nm := range s.Names {
							if t.tainted(info, s.Values[i]) {
								if v, ok := info.Defs[nm].(*types.Var); ok {
									t.mark(t.locals, v)
								}
							}
						}
					}
				case *ast.RangeStmt:
					// elements of a tainted collection are not mime strings by themselves
				case *ast.ReturnStmt:
					for _, e := range s.Results {
						if t.tainted(info, e) && !t.results[fi.Obj] {
							// only single-string results matter
							if fi.Obj.Type().(*types.Signature).Results().Len() == 1 {
								t.results[fi.Obj] = true
								t.changed = true
							}
						}
					}
				case *ast.CallExpr:
					fn := core.Callee(info, s)
					if fn == nil {
						return true
					}
					callee := c.P.DeclOf(fn)
					if callee == nil || !t.inScope[callee] {
						return true
					}
					sig := callee.Obj.Type().(*types.Signature)
					for i, a := range s.Args {
						if i < sig.Params().Len() && t.tainted(info, a) {
							t.mark(t.params, sig.Params().At(i))
						}
					}
				}
				return true
			})
		}
		if !t.changed {
			break
		}
	}
	// classification of every use
	counts := map[string]int{}
	var listed []string
	emit := func(fi *core.FuncInfo, kind string, pos token.Pos, ok bool, detail string) {
		base := fi.Name() + "|" + kind
		counts[base]++
		key := sprintf("%s#%d", base, counts[base])
		if !judged(fi) {
			if !ok {
				r.Info(rule, key, c.P.Pos(pos), "outside the codec-compatibility scope (listed, not judged): "+detail)
				listed = append(listed, key+" @ "+c.P.Pos(pos))
				r.Extra["mime_uses_outside_scope_not_judged"] = listed
			}
			return
		}
		r.Check(ok, rule, key, c.P.Pos(pos), detail, detail)
	}
	for _, fi := range scope {
		info := fi.Pkg.TypesInfo
		ast.Inspect(fi.Decl.Body, func(n ast.Node) bool {
			switch s := n.(type) {
			case *ast.BinaryExpr:
				switch s.Op {
				case token.EQL, token.NEQ, token.LSS, token.LEQ, token.GTR, token.GEQ:
					if t.tainted(info, s.X) || t.tainted(info, s.Y) {
						emit(fi, "raw-compare:"+s.Op.String(), s.Pos(), false, "a mime-type string is compared with "+s.Op.String()+" ("+exprStr(s)+"): the result changes with the letter case of the mime type")
					}
				}
			case *ast.SwitchStmt:
				if s.Tag != nil {
					if t.tainted(info, s.Tag) {
						emit(fi, "raw-switch", s.Pos(), false, "a mime-type string is a switch tag ("+exprStr(s.Tag)+"): case-sensitive")
					}
					for _, cl := range s.Body.List {
						for _, e := range cl.(*ast.CaseClause).List {
							if t.tainted(info, e) {
								emit(fi, "raw-case", e.Pos(), false, "a mime-type string is a case expression ("+exprStr(e)+"): case-sensitive")
							}
						}
					}
				}
			case *ast.IndexExpr:
				if _, isMap := info.TypeOf(s.X).Underlying().(*types.Map); isMap && t.tainted(info, s.Index) {
					emit(fi, "raw-map-key", s.Pos(), false, "a mime-type string is used as a map key without lower-casing ("+exprStr(s)+")")
				}
			case *ast.CallExpr:
				fn := core.Callee(info, s)
				if fn == nil || fn.Pkg() == nil {
					return true
				}
				anyT := false
				for _, a := range s.Args {
					if t.tainted(info, a) {
						anyT = true
					}
				}
				if !anyT {
					return true
				}
				path := fn.Pkg().Path()
				switch {
				case path == "strings" && fn.Name() == "EqualFold":
					emit(fi, "EqualFold", s.Pos(), true, "compared with strings.EqualFold")
				case path == "strings" && (fn.Name() == "ToLower" || fn.Name() == "ToUpper"):
					emit(fi, fn.Name(), s.Pos(), true, "normalised with strings."+fn.Name()+" before use")
				case path == "strings" && (fn.Name() == "TrimSpace" || fn.Name() == "TrimPrefix" || fn.Name() == "TrimSuffix" || fn.Name() == "Clone"):
					// still a mime string; its uses are classified where they occur
				case path == "fmt" || path == "log" || path == "errors":
					// formatting only
				case strings.HasPrefix(path, core.ModPath):
					if callee := c.P.DeclOf(fn); callee == nil || !t.inScope[callee] {
						emit(fi, "escapes:"+core.FuncName(fn), s.Pos(), false, "a mime-type string is handed to "+core.FuncName(fn)+", whose use of it is outside the analysed scope")
					}
				case path == "strings":
					emit(fi, "raw-strings."+fn.Name(), s.Pos(), false, "a mime-type string is given to strings."+fn.Name()+" ("+exprStr(s)+"): case-sensitive")
				default:
					emit(fi, "use:"+path+"."+fn.Name(), s.Pos(), false, "a mime-type string is given to "+path+"."+fn.Name()+": unclassified use")
				}
			}
			return true
		})
	}

	// ---- parameter keys
	parseParams := c.mustFunc(rule, "internal/fmtp", "parseParameters")
	if parseParams == nil {
		return
	}
	{
		pv := core.NewProv(c.P, parseParams)
		info := parseParams.Pkg.TypesInfo
		n := 0
		retVars := map[*types.Var]bool{}
		for _, lf := range pv.ReturnLeaves(0) {
			_ = lf
		}
		ast.Inspect(parseParams.Decl.Body, func(x ast.Node) bool {
			if ret, ok := x.(*ast.ReturnStmt); ok && len(ret.Results) == 1 {
				if v := core.VarOf(info, ret.Results[0]); v != nil {
					retVars[v] = true
				}
			}
			return true
		})
		ast.Inspect(parseParams.Decl.Body, func(x ast.Node) bool {
			as, ok := x.(*ast.AssignStmt)
			if !ok {
				return true
			}
			for _, l := range as.Lhs {
				ix, ok := ast.Unparen(l).(*ast.IndexExpr)
				if !ok || !retVars[core.VarOf(info, ix.X)] {
					continue
				}
				n++
				lv := pv.Leaves(ix.Index)
				okKey := len(lv) > 0
				for _, lf := range lv {
					if !(lf.Kind == "call" && lf.Fn != nil && lf.Fn.Pkg() != nil && lf.Fn.Pkg().Path() == "strings" && lf.Fn.Name() == "ToLower") {
						okKey = false
					}
				}
				r.Check(okKey, rule, sprintf("%s|key-store#%d|lower-cased", parseParams.Name(), n), c.P.Pos(as.Pos()), "the key stored is a result of strings.ToLower", "a parameter key is stored without lower-casing ("+core.LeafKeys(lv)+"): `Profile-ID=1` and `profile-id=1` would be different parameters")
			}
			return true
		})
		if n == 0 {
			r.Fail(rule, parseParams.Name()+"|key-store", c.P.Pos(parseParams.Decl.Pos()), "no store into the returned map found")
		}
	}
	// every `parameters` field of an FMTP implementation is filled from parseParameters; constant lookup keys are lower-case
	paramFields := map[*types.Var]bool{}
	for _, nm := range fpkg.Types.Scope().Names() {
		tn, ok := fpkg.Types.Scope().Lookup(nm).(*types.TypeName)
		if !ok {
			continue
		}
		st, ok := tn.Type().Underlying().(*types.Struct)
		if !ok {
			continue
		}
		for i := 0; i < st.NumFields(); i++ {
			if mt, ok := st.Field(i).Type().Underlying().(*types.Map); ok {
				if b, ok := mt.Key().Underlying().(*types.Basic); ok && b.Info()&types.IsString != 0 {
					paramFields[st.Field(i)] = true
				}
			}
		}
	}
	if len(paramFields) < 4 {
		r.Fail(rule, "anchor:internal/fmtp parameter maps", "-", sprintf("expected at least four FMTP structs with a string-keyed parameter map, found %d", len(paramFields)))
	}
	for _, fi := range c.P.AllFuncs() {
		if fi.Decl.Body == nil || fi.Pkg != fpkg {
			continue
		}
		info := fi.Pkg.TypesInfo
		var pv *core.Prov
		cnt := map[string]int{}
		ast.Inspect(fi.Decl.Body, func(x ast.Node) bool {
			switch s := x.(type) {
			case *ast.KeyValueExpr:
				id, ok := s.Key.(*ast.Ident)
				if !ok {
					return true
				}
				f, _ := info.Uses[id].(*types.Var)
				if f == nil || !paramFields[f] {
					return true
				}
				if pv == nil {
					pv = core.NewProv(c.P, fi)
				}
				lv := pv.Leaves(s.Value)
				okSrc := len(lv) > 0
				for _, lf := range lv {
					if !(lf.Kind == "call" && lf.Fn == parseParams.Obj) {
						okSrc = false
					}
				}
				base := sprintf("%s|init:%s.%s", fi.Name(), ownerOfField(fpkg.Types, f), f.Name())
				cnt[base]++
				r.Check(okSrc, rule, sprintf("%s#%d", base, cnt[base]), c.P.Pos(s.Pos()), "filled from parseParameters (lower-case keys)", "a parameter map is filled from "+core.LeafKeys(lv)+", not from parseParameters: its keys are not lower-cased")
			case *ast.AssignStmt:
				for _, l := range s.Lhs {
					if f := core.FieldOf(info, l); f != nil && paramFields[f] {
						r.Fail(rule, sprintf("%s|write:%s", fi.Name(), f.Name()), c.P.Pos(l.Pos()), "a parameter map is assigned outside the constructor literal")
					}
					if ix, ok := ast.Unparen(l).(*ast.IndexExpr); ok {
						if f := core.FieldOf(info, ix.X); f != nil && paramFields[f] {
							r.Fail(rule, sprintf("%s|store:%s", fi.Name(), f.Name()), c.P.Pos(l.Pos()), "a parameter is stored outside parseParameters")
						}
					}
				}
			case *ast.IndexExpr:
				f := core.FieldOf(info, s.X)
				if f == nil || !paramFields[f] {
					return true
				}
				tv := info.Types[s.Index]
				if tv.Value == nil || tv.Value.Kind() != constant.String {
					return true // Parameter(key): judged at the call sites
				}
				k := constant.StringVal(tv.Value)
				r.Check(k == strings.ToLower(k), rule, sprintf("%s|lookup:%s[%q]", fi.Name(), f.Name(), k), c.P.Pos(s.Pos()), "lower-case constant key", "a parameter is looked up with a key that is not lower-case: it can never be found (keys are lower-cased when parsed)")
			}
			return true
		})
	}
	// Parameter("...") call sites in the module
	for _, fi := range c.P.AllFuncs() {
		if fi.Decl.Body == nil {
			continue
		}
		info := fi.Pkg.TypesInfo
		n := 0
		ast.Inspect(fi.Decl.Body, func(x ast.Node) bool {
			call, ok := x.(*ast.CallExpr)
			if !ok || len(call.Args) != 1 {
				return true
			}
			fn := core.Callee(info, call)
			if fn == nil || fn.Name() != "Parameter" || fn.Pkg() != fpkg.Types {
				return true
			}
			n++
			tv := info.Types[call.Args[0]]
			key := sprintf("%s|Parameter-call#%d", fi.Name(), n)
			if tv.Value == nil || tv.Value.Kind() != constant.String {
				r.Info(rule, key, c.P.Pos(call.Pos()), "non-constant key: not judged")
				return true
			}
			k := constant.StringVal(tv.Value)
			r.Check(k == strings.ToLower(k), rule, key, c.P.Pos(call.Pos()), "lower-case constant key "+k, "Parameter is asked for a key that is not lower-case ("+k+"): never found")
			return true
		})
	}
}

func ownerOfField(pkg *types.Package, f *types.Var) string {
	for _, nm := range pkg.Scope().Names() {
		if tn, ok := pkg.Scope().Lookup(nm).(*types.TypeName); ok {
			if st, ok := tn.Type().Underlying().(*types.Struct); ok {
				for i := 0; i < st.NumFields(); i++ {
					if st.Field(i) == f {
						return tn.Name()
					}
				}
			}
		}
	}
	return "?"
}

// ---- R2: symmetry tables

type c17MatchTable struct {
	typ   *types.Named
	fi    *core.FuncInfo
	h     *c17Harness
	table *c17Table
	keys  []string // constant parameter keys the method reads
}

func c17R2(c *Ctx) map[*types.Named]*c17MatchTable {
	r := c.R
	const rule = "C17.R2"
	out := map[*types.Named]*c17MatchTable{}
	fpkg := c.P.Pkg("internal/fmtp")
	iface := c.P.Named("internal/fmtp", "FMTP")
	if fpkg == nil || iface == nil {
		r.Fail(rule, "anchor:internal/fmtp.FMTP", "-", "interface no longer resolves")
		return out
	}
	it, _ := iface.Underlying().(*types.Interface)
	var impls []*types.Named
	for _, nm := range fpkg.Types.Scope().Names() {
		tn, ok := fpkg.Types.Scope().Lookup(nm).(*types.TypeName)
		if !ok || tn.IsAlias() {
			continue
		}
		named, ok := tn.Type().(*types.Named)
		if !ok || named == iface {
			continue
		}
		if _, isStruct := named.Underlying().(*types.Struct); !isStruct {
			continue
		}
		if types.Implements(types.NewPointer(named), it) || types.Implements(named, it) {
			impls = append(impls, named)
		}
	}
	if len(impls) < 4 {
		r.Fail(rule, "anchor:FMTP implementations", "-", sprintf("expected at least four FMTP implementations, found %d", len(impls)))
	}
	verified := map[*types.Func]string{} // comparator -> "" (symmetric) or reason
	for _, named := range impls {
		fi := c.P.Func("internal/fmtp", named.Obj().Name()+".Match")
		if fi == nil || fi.Decl.Body == nil {
			r.Fail(rule, named.Obj().Name()+".Match|anchor", "-", "Match method not found")
			continue
		}
		c.R.Saw("internal/fmtp." + fi.Name())
		name := fi.Name()
		pos := c.P.Pos(fi.Decl.Pos())
		h := c17NewHarness(c, fi)
		info := h.info
		sig := fi.Obj.Type().(*types.Signature)
		recv, arg := sig.Recv(), sig.Params().At(0)
		h.roots[recv] = 0
		// the type assertion
		var asserted *types.Var
		argUses := 0
		for _, n := range h.g.Nodes {
			as, ok := n.Ast.(*ast.AssignStmt)
			if !ok || len(as.Lhs) != 2 || len(as.Rhs) != 1 {
				continue
			}
			ta, ok := ast.Unparen(as.Rhs[0]).(*ast.TypeAssertExpr)
			if !ok || core.VarOf(info, ta.X) != arg || ta.Type == nil {
				continue
			}
			if types.Identical(info.TypeOf(ta.Type), recv.Type()) {
				asserted = core.VarOf(info, as.Lhs[0])
				h.assertNode, h.assertOK = n.ID, core.VarOf(info, as.Lhs[1])
			}
		}
		ast.Inspect(fi.Decl.Body, func(x ast.Node) bool {
			if id, ok := x.(*ast.Ident); ok && info.Uses[id] == types.Object(arg) {
				argUses++
			}
			return true
		})
		if asserted == nil || h.assertOK == nil {
			r.Fail(rule, name+"|asserts-own-type", pos, "Match does not begin by asserting its argument to its own concrete type ("+recv.Type().String()+"): a.Match(b) and b.Match(a) are then decided by different code for different types")
			continue
		}
		r.OK(rule, name+"|asserts-own-type", pos, sprintf("argument asserted to the receiver's type (%d further use(s) of the interface value, read as the asserted value)", argUses-1))
		h.roots[arg], h.rootType[arg] = 1, recv.Type()
		h.roots[asserted] = 1

		// comparators: module functions applied to side-derived operands
		ast.Inspect(fi.Decl.Body, func(x ast.Node) bool {
			call, ok := x.(*ast.CallExpr)
			if !ok {
				return true
			}
			fn := core.Callee(info, call)
			if fn == nil || fn.Pkg() == nil || !strings.HasPrefix(fn.Pkg().Path(), core.ModPath) {
				return true
			}
			if sel, ok := ast.Unparen(call.Fun).(*ast.SelectorExpr); ok {
				if _, isRoot := h.roots[core.VarOf(info, sel.X)]; isRoot {
					return true // accessor on a side
				}
			}
			if _, isRead := h.classify(call); isRead {
				return false // a helper applied to one side only: an uninterpreted read of that side
			}
			fsig := fn.Type().(*types.Signature)
			np := fsig.Params().Len()
			if np < 2 || fsig.Results().Len() != 1 || !types.Identical(fsig.Params().At(np-1).Type(), fsig.Params().At(np-2).Type()) {
				r.Undecided(rule, name+"|comparator:"+core.FuncName(fn), c.P.Pos(call.Pos()), "a module function that is not a two-operand predicate is applied inside Match")
				return true
			}
			if _, done := verified[fn]; !done {
				verified[fn] = c17VerifyComparator(c, rule, fn)
			}
			if verified[fn] == "" {
				h.comparators[fn] = [2]int{np - 2, np - 1}
			}
			return true
		})
		h.discover()
		t := h.tabulate(400000)
		mt := &c17MatchTable{typ: named, fi: fi, h: h, table: t}
		for k := range h.sideKeys {
			if i := strings.Index(k, "["); i >= 0 && !strings.HasSuffix(k, "?") {
				mt.keys = append(mt.keys, strings.Trim(k[i+1:len(k)-1], `"`))
			}
		}
		sort.Strings(mt.keys)
		out[named] = mt
		if len(h.problems) > 0 {
			var ps []string
			for p := range h.problems {
				ps = append(ps, p)
			}
			sort.Strings(ps)
			r.Undecided(rule, name+"|table", pos, strings.Join(ps, "; "))
			continue
		}
		// one obligation per receiver-side valuation
		byX := map[string][]string{}
		for _, a := range t.asymm {
			x := a[strings.Index(a, "(")+1 : strings.Index(a, " ;")]
			byX[x] = append(byX[x], a)
		}
		undecX := map[string][]string{}
		for _, u := range t.undec {
			x := u[1:strings.Index(u, ") vs")]
			undecX[x] = append(undecX[x], u)
		}
		for _, x := range t.sides {
			dx := c17Describe(x)
			key := name + "|symmetric|" + dx
			switch {
			case len(undecX[dx]) > 0:
				r.Undecided(rule, key, pos, "the outcome is not determined by what Match reads through ==, !=, EqualFold and symmetric comparators: "+undecX[dx][0])
			case len(byX[dx]) > 0:
				r.Fail(rule, key, pos, "Match is not symmetric: "+byX[dx][0])
			default:
				r.OK(rule, key, pos, sprintf("%d cell(s) equal to their transposes", len(t.sides)*len(t.commons)))
			}
		}
		// asymmetries whose smaller side was not listed above are attributed to it already (dx < dy); foreign type
		sc := &c17Scenario{side: [2]map[string]constant.Value{t.sides[0], t.sides[0]}, common: map[string]constant.Value{}, sameTy: false}
		res := h.run(sc)
		r.Check(len(res) == 1 && res["F"], rule, name+"|foreign-type-is-false", pos, "an argument of another FMTP type yields false", "with an argument of another FMTP type Match does not return false (the other type's Match returns false for this one: asymmetric)")
	}
	return out
}

// c17VerifyComparator proves a module predicate symmetric in its last two operands: "" or the reason it is not.
func c17VerifyComparator(c *Ctx, rule string, fn *types.Func) string {
	r := c.R
	fi := c.P.DeclOf(fn)
	name := core.FuncName(fn)
	if fi == nil || fi.Decl.Body == nil {
		r.Undecided(rule, "comparator:"+name, "-", "no body")
		return "no body"
	}
	c.R.Saw("internal/fmtp." + fi.Name())
	pos := c.P.Pos(fi.Decl.Pos())
	sig := fn.Type().(*types.Signature)
	np := sig.Params().Len()
	pa, pb := sig.Params().At(np-2), sig.Params().At(np-1)
	// loops over the operands: mirrored-loop form
	hasLoop := false
	ast.Inspect(fi.Decl.Body, func(n ast.Node) bool {
		if _, ok := n.(*ast.RangeStmt); ok {
			hasLoop = true
		}
		if _, ok := n.(*ast.ForStmt); ok {
			hasLoop = true
		}
		return true
	})
	if hasLoop {
		why := c17MirrorLoops(fi.Pkg.TypesInfo, fi, pa, pb)
		r.Check(why == "", rule, "comparator:"+name+"|mirrored-loops", pos, "f(A,B) = L(A,B) and L(B,A): symmetric by construction", "the comparator "+name+" is not built from two mirrored loops: "+why)
		if why == "" {
			// the inner comparison must itself be symmetric: only EqualFold / == / != may combine the two sides
			bad := ""
			info := fi.Pkg.TypesInfo
			ast.Inspect(fi.Decl.Body, func(n ast.Node) bool {
				if call, ok := n.(*ast.CallExpr); ok {
					if f := core.Callee(info, call); f != nil && f.Pkg() != nil && !(f.Pkg().Path() == "strings" && f.Name() == "EqualFold") {
						bad = "calls " + f.Pkg().Name() + "." + f.Name()
					}
				}
				return true
			})
			r.Check(bad == "", rule, "comparator:"+name+"|inner-comparisons", pos, "the loops combine the sides only through strings.EqualFold / == / !=", "inside the mirrored loops "+name+" "+bad+", which is not known to be symmetric")
			if bad != "" {
				return bad
			}
		}
		return why
	}
	h := c17NewHarness(c, fi)
	h.roots[pa], h.roots[pb] = 0, 1
	h.discover()
	t := h.tabulate(400000)
	if len(h.problems) > 0 {
		var ps []string
		for p := range h.problems {
			ps = append(ps, p)
		}
		r.Undecided(rule, "comparator:"+name+"|table", pos, strings.Join(ps, "; "))
		return "undecided"
	}
	for _, x := range t.sides {
		dx := c17Describe(x)
		key := "comparator:" + name + "|symmetric|" + dx
		var asym, und string
		for _, a := range t.asymm {
			if strings.HasPrefix(a, "f("+dx+" ;") {
				asym = a
			}
		}
		for _, u := range t.undec {
			if strings.HasPrefix(u, "("+dx+") vs") {
				und = u
			}
		}
		switch {
		case und != "":
			r.Undecided(rule, key, pos, "outcome not determined by comparisons of the operands: "+und)
		case asym != "":
			r.Fail(rule, key, pos, name+" is not symmetric in its two operands: "+asym)
		default:
			r.OK(rule, key, pos, sprintf("%d cell(s) equal to their transposes", len(t.sides)*len(t.commons)))
		}
	}
	if len(t.asymm) > 0 {
		return "asymmetric"
	}
	if len(t.undec) > 0 {
		return "undecided"
	}
	return ""
}

// ---- R3: the default codec table

func c17R3(c *Ctx, tables map[*types.Named]*c17MatchTable) {
	r := c.R
	const rule = "C17.R3"
	reg := c.mustFunc(rule, "", "MediaEngine.RegisterDefaultCodecs")
	parse := c.mustFunc(rule, "internal/fmtp", "Parse")
	capT := c.P.Named("", "RTPCodecCapability")
	if reg == nil || parse == nil || capT == nil {
		if capT == nil {
			r.Fail(rule, "anchor:RTPCodecCapability", "-", "type no longer resolves")
		}
		return
	}
	// Parse's dispatch is read by exploring Parse with the mime type fixed to the literal's constant: every
	// strings.EqualFold(mimeType, K) / strings.ToLower(mimeType) is evaluated on the constants by the checker, and the
	// FMTP struct literals on the reachable paths are collected (independent of switch / if-chain / early returns).
	pinfo := parse.Pkg.TypesInfo
	pg := c.P.GraphOf(parse)
	mimeParam := parse.Obj.Type().(*types.Signature).Params().At(0)
	fmtpIface := c.P.Named("internal/fmtp", "FMTP")
	if fmtpIface == nil {
		r.Fail(rule, "anchor:internal/fmtp.FMTP", "-", "interface no longer resolves")
		return
	}
	iface := fmtpIface.Underlying().(*types.Interface)
	isMimeExpr := func(e ast.Expr) bool {
		v := core.VarOf(pinfo, e)
		return v != nil && v == mimeParam
	}
	mimeAssigned := false
	ast.Inspect(parse.Decl.Body, func(n ast.Node) bool {
		if as, ok := n.(*ast.AssignStmt); ok {
			for _, l := range as.Lhs {
				if core.VarOf(pinfo, l) == mimeParam {
					mimeAssigned = true
				}
			}
		}
		return true
	})
	if mimeAssigned {
		r.Undecided(rule, "Parse|dispatch", c.P.Pos(parse.Decl.Pos()), "Parse reassigns its mime type parameter: the mime type -> FMTP type map cannot be read off")
		return
	}
	dispatch := func(mime string) ([]*types.Named, string) {
		cf := &core.ConstFlow{G: pg, Assume: func(e ast.Expr, env core.CFEnv) (constant.Value, bool) {
			if isMimeExpr(e) {
				return constant.MakeString(mime), true
			}
			call, ok := ast.Unparen(e).(*ast.CallExpr)
			if !ok {
				return nil, false
			}
			f := core.Callee(pinfo, call)
			if f == nil || f.Pkg() == nil || f.Pkg().Path() != "strings" {
				return nil, false
			}
			switch {
			case f.Name() == "EqualFold" && len(call.Args) == 2:
				for _, pr := range [][2]ast.Expr{{call.Args[0], call.Args[1]}, {call.Args[1], call.Args[0]}} {
					if tv := pinfo.Types[pr[1]]; isMimeExpr(pr[0]) && tv.Value != nil && tv.Value.Kind() == constant.String {
						return constant.MakeBool(strings.EqualFold(mime, constant.StringVal(tv.Value))), true
					}
				}
			case (f.Name() == "ToLower" || f.Name() == "ToUpper") && len(call.Args) == 1 && isMimeExpr(call.Args[0]):
				if f.Name() == "ToLower" {
					return constant.MakeString(strings.ToLower(mime)), true
				}
				return constant.MakeString(strings.ToUpper(mime)), true
			}
			return nil, false
		}}
		res := cf.Run(pg.Entry, core.CFEnv{})
		r.Cells += res.States
		if len(res.Problems) > 0 {
			return nil, strings.Join(res.Problems, "; ")
		}
		seen := map[*types.Named]bool{}
		var out []*types.Named
		for id := range res.Reached {
			n := pg.Nodes[id]
			if n.Ast == nil {
				continue
			}
			core.InspectShallow(n.Ast, func(x ast.Node) bool {
				if cl, ok := x.(*ast.CompositeLit); ok {
					if nt, ok := pinfo.TypeOf(cl).(*types.Named); ok {
						if _, isStruct := nt.Underlying().(*types.Struct); isStruct && (types.Implements(types.NewPointer(nt), iface) || types.Implements(nt, iface)) && !seen[nt] {
							seen[nt] = true
							out = append(out, nt)
						}
					}
				}
				return true
			})
		}
		return out, ""
	}
	// literals
	info := reg.Pkg.TypesInfo
	st := capT.Underlying().(*types.Struct)
	fieldIdx := map[string]int{}
	for i := 0; i < st.NumFields(); i++ {
		fieldIdx[st.Field(i).Name()] = i
	}
	n := 0
	ast.Inspect(reg.Decl.Body, func(x ast.Node) bool {
		cl, ok := x.(*ast.CompositeLit)
		if !ok {
			return true
		}
		if nt, ok := info.TypeOf(cl).(*types.Named); !ok || nt != capT {
			return true
		}
		n++
		vals := map[string]ast.Expr{}
		for i, el := range cl.Elts {
			if kv, ok := el.(*ast.KeyValueExpr); ok {
				if id, ok := kv.Key.(*ast.Ident); ok {
					vals[id.Name] = kv.Value
				}
			} else if i < st.NumFields() {
				vals[st.Field(i).Name()] = el
			}
		}
		cstr := func(e ast.Expr) (string, bool) {
			if e == nil {
				return "", true
			}
			tv := info.Types[e]
			if tv.Value == nil || tv.Value.Kind() != constant.String {
				return "", false
			}
			return constant.StringVal(tv.Value), true
		}
		mime, ok1 := cstr(vals["MimeType"])
		line, ok2 := cstr(vals["SDPFmtpLine"])
		key := sprintf("RegisterDefaultCodecs|codec#%d|%s|%s", n, mime, line)
		p := c.P.Pos(cl.Pos())
		if !ok1 || !ok2 || mime == "" {
			r.Undecided(rule, sprintf("RegisterDefaultCodecs|codec#%d", n), p, "mime type or fmtp line of a default codec is not a constant")
			return true
		}
		// dispatch
		types1, prob := dispatch(mime)
		if prob != "" {
			r.Undecided(rule, key, p, "Parse cannot be explored for this mime type: "+prob)
			return true
		}
		if len(types1) != 1 {
			var names []string
			for _, t := range types1 {
				names = append(names, t.Obj().Name())
			}
			sort.Strings(names)
			r.Fail(rule, key, p, sprintf("Parse does not select exactly one FMTP type for this mime type: %v", names))
			return true
		}
		typ := types1[0]
		mt := tables[typ]
		if mt == nil || mt.table == nil {
			r.Undecided(rule, key, p, "no decision table for FMTP type "+typ.Obj().Name()+" (see R2)")
			return true
		}
		// the literal's parameters as parseParameters would produce them (keys lower-cased, split on ';' and first '=')
		params := map[string]string{}
		for _, part := range strings.Split(line, ";") {
			pp := strings.SplitN(strings.TrimSpace(part), "=", 2)
			v := ""
			if len(pp) > 1 {
				v = pp[1]
			}
			params[strings.ToLower(pp[0])] = v
		}
		// project onto the keys Match reads; a diagonal cell with these presence flags must be true
		bad := ""
		present := map[string]bool{}
		for _, k := range mt.keys {
			_, present[k] = params[k]
		}
		anyTrue, anyFalse := false, false
		for _, x := range mt.table.sides {
			okRow := true
			for k, v := range x {
				if strings.HasSuffix(k, "?") {
					pk := strings.Trim(k[strings.Index(k, "[")+1:len(k)-2], `"`)
					if constant.BoolVal(v) != present[pk] {
						okRow = false
					}
				}
			}
			if !okRow {
				continue
			}
			// the non-reflexive representative stands for values the comparator rejects (invalid hex): excluded here, checked below
			skip := false
			for k, v := range x {
				if !strings.HasSuffix(k, "?") && v.Kind() == constant.String && constant.StringVal(v) == "x3" {
					skip = true
				}
			}
			if skip {
				continue
			}
			switch mt.table.diagonal[c17Describe(x)] {
			case "T":
				anyTrue = true
			default:
				anyFalse = true
			}
		}
		switch {
		case !anyTrue:
			var missing []string
			for _, k := range mt.keys {
				if !present[k] {
					missing = append(missing, k)
				}
			}
			bad = sprintf("%s.Match is false on the diagonal for a codec with these parameters (missing keys: %v): the default codec does not match itself", typ.Obj().Name(), missing)
		case anyFalse:
			bad = sprintf("%s.Match is not true for every value choice with these keys present", typ.Obj().Name())
		}
		// values handed to a hex-decoding comparator must decode to >= 2 bytes
		if bad == "" {
			for _, k := range mt.keys {
				if strings.Contains(k, "profile-level-id") {
					b, err := hex.DecodeString(params[k])
					if err != nil || len(b) < 2 {
						bad = sprintf("profile-level-id %q does not decode to at least two hex bytes: profileLevelIDMatches rejects it even against itself", params[k])
					}
				}
			}
		}
		r.Check(bad == "", rule, key, p, sprintf("parsed as %s; reflexive for keys %v", typ.Obj().Name(), mt.keys), bad)
		return true
	})
	if n == 0 {
		r.Fail(rule, "RegisterDefaultCodecs|literals", c.P.Pos(reg.Decl.Pos()), "no RTPCodecCapability literal found")
	}
}
