package props

import (
	"go/ast"
	"go/token"
	"go/types"

	"verif/checker/core"
)

// c10R8: "every RTX payload's apt names a payload type listed in the same section" and "each payload type once" both
// lean on findRTXPayloadType pairing a primary with THE RTX codec whose apt is that primary. The pairing test must be an
// equality of the whole apt value: every return of a haystack element's payload type is dominated by the true edge of
// `<string built from the needle> == <element>.SDPFmtpLine` (or an == on values derived from both). A prefix / substring
// test pairs primary 10 with the RTX of primary 100, and the same RTX is then listed twice.
func c10R8(c *Ctx) {
	r := c.R
	const rule = "C10.R8"
	fi := c.mustFunc(rule, "", "findRTXPayloadType")
	fmtpF := c.mustField(rule, "", "RTPCodecCapability", "SDPFmtpLine")
	ptF := c.mustField(rule, "", "RTPCodecParameters", "PayloadType")
	if fi == nil || fmtpF == nil || ptF == nil {
		return
	}
	g := c.P.GraphOf(fi)
	info := g.Info
	sig := fi.Obj.Type().(*types.Signature)
	if sig.Params().Len() < 2 {
		r.Undecided(rule, "findRTXPayloadType|signature", c.P.Pos(fi.Decl.Pos()), "expected (needle, haystack)")
		return
	}
	needle := sig.Params().At(0)
	mentions := func(e ast.Expr, pred func(ast.Node) bool) bool {
		found := false
		ast.Inspect(e, func(x ast.Node) bool {
			if x != nil && pred(x) {
				found = true
			}
			return true
		})
		return found
	}
	// values derived from the needle: the needle itself and locals whose single definition mentions it
	fromNeedle := map[*types.Var]bool{needle: true}
	for changed := true; changed; {
		changed = false
		for _, n := range g.Nodes {
			as, ok := n.Ast.(*ast.AssignStmt)
			if !ok || len(as.Lhs) != len(as.Rhs) {
				continue
			}
			for i, l := range as.Lhs {
				v := core.VarOf(info, l)
				if v == nil || fromNeedle[v] {
					continue
				}
				if mentions(as.Rhs[i], func(x ast.Node) bool {
					id, ok := x.(*ast.Ident)
					return ok && fromNeedle[core.VarOf(info, id)]
				}) {
					fromNeedle[v] = true
					changed = true
				}
			}
		}
	}
	isNeedleSide := func(e ast.Expr) bool {
		return mentions(e, func(x ast.Node) bool {
			id, ok := x.(*ast.Ident)
			return ok && fromNeedle[core.VarOf(info, id)]
		})
	}
	isElemFmtp := func(e ast.Expr) bool {
		return mentions(e, func(x ast.Node) bool {
			sel, ok := x.(*ast.SelectorExpr)
			return ok && core.FieldOf(info, sel) == fmtpF
		})
	}
	eqEdges := map[core.EdgeRef]bool{}
	for _, n := range g.Nodes {
		for k, e := range n.Succs {
			if e.Cond == nil || e.Tag != nil || e.Branch == 0 {
				continue
			}
			b, ok := ast.Unparen(e.Cond).(*ast.BinaryExpr)
			if !ok || (b.Op != token.EQL && b.Op != token.NEQ) || (e.Branch == 1) != (b.Op == token.EQL) {
				continue
			}
			if isNeedleSide(b.X) && isElemFmtp(b.Y) || isNeedleSide(b.Y) && isElemFmtp(b.X) {
				eqEdges[core.EdgeRef{From: n.ID, Idx: k}] = true
			}
		}
	}
	nRet := 0
	for _, rn := range g.Returns() {
		ret := g.Nodes[rn].Ast.(*ast.ReturnStmt)
		if len(ret.Results) != 1 {
			continue
		}
		sel, ok := ast.Unparen(ret.Results[0]).(*ast.SelectorExpr)
		if !ok || core.FieldOf(info, sel) != ptF {
			continue // the "not found" return
		}
		nRet++
		r.Cells++
		r.Check(len(eqEdges) > 0 && g.DominatedByEdges(rn, eqEdges), rule, sprintf("findRTXPayloadType|return#%d|paired-under-equality", nRet), c.P.Pos(ret.Pos()),
			"an element is returned only when its fmtp line equals the apt string built from the needle",
			"findRTXPayloadType returns a codec's payload type without an equality between that codec's fmtp line and the apt value built from the primary's payload type (prefix/substring match?): primary 10 is paired with the RTX of primary 100 and that RTX is listed twice in the section")
	}
	if nRet == 0 {
		r.Undecided(rule, "findRTXPayloadType|returns", c.P.Pos(fi.Decl.Pos()), "no return of an element's PayloadType found")
	}
}
