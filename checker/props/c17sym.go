package props

import (
	"go/ast"
	"go/constant"
	"go/token"
	"go/types"
	"sort"
	"strings"

	"verif/checker/core"
)

// c17Harness tabulates a two-sided predicate (a Match method, or a comparator
// with two like-typed operands) over a finite, data-independent abstraction of
// what it reads from each side, and checks T(x, y) == T(y, x) for every pair.
//
// A "read" is an expression whose value is determined by one side alone:
// root.f, root.f["const"] (with presence), root.M() for a field accessor, a
// scalar root itself, the results of a library call on a root
// (hex.DecodeString(a): error-ness, len, elements). Reads of the remaining
// ("common") parameters are enumerated too. Values are representatives:
// the code may only compare them (==, != , <, EqualFold, or a comparator
// that is itself proved symmetric), anything else makes the outcome unknown
// and the cell UNDECIDED.
type c17Harness struct {
	c     *Ctx
	fi    *core.FuncInfo
	g     *core.Graph
	info  *types.Info
	roots map[*types.Var]int // side 0 / 1
	// rootType: static type to resolve methods on (the interface argument of Match is known to hold the receiver's type after the assertion)
	rootType map[*types.Var]types.Type
	// derived[v] = library-call result rooted in a side (aa := hex.DecodeString(a))
	derived map[*types.Var]c17Derived
	// assert: the type assertion binding side 1 in a Match method
	assertNode int
	assertOK   *types.Var
	// keys discovered: side-independent key -> domain
	sideKeys   map[string][]constant.Value
	commonKeys map[string][]constant.Value
	// comparators accepted as symmetric uninterpreted predicates: callee -> the two operand positions
	comparators map[*types.Func][2]int
	strConsts   []constant.Value
	intConsts   []constant.Value
	problems    map[string]bool
	assigned    map[*types.Var]bool
}

type c17Derived struct {
	side int
	base string
}

type c17Read struct {
	side int // 0, 1, 2 = common
	key  string
}

func c17NewHarness(c *Ctx, fi *core.FuncInfo) *c17Harness {
	h := &c17Harness{c: c, fi: fi, g: c.P.GraphOf(fi), roots: map[*types.Var]int{}, derived: map[*types.Var]c17Derived{},
		rootType: map[*types.Var]types.Type{}, assertNode: -1, sideKeys: map[string][]constant.Value{}, commonKeys: map[string][]constant.Value{},
		comparators: map[*types.Func][2]int{}, problems: map[string]bool{}}
	h.info = h.g.Info
	return h
}

// accessorField: m is a module method whose body is `return recv.f`; returns f's name.
func (h *c17Harness) accessorField(fn *types.Func) string {
	fi := h.c.P.DeclOf(fn)
	if fi == nil || fi.Decl.Body == nil || len(fi.Decl.Body.List) != 1 {
		return ""
	}
	ret, ok := fi.Decl.Body.List[0].(*ast.ReturnStmt)
	if !ok || len(ret.Results) != 1 {
		return ""
	}
	info := fi.Pkg.TypesInfo
	sel, ok := ast.Unparen(ret.Results[0]).(*ast.SelectorExpr)
	if !ok || core.FieldOf(info, sel) == nil {
		return ""
	}
	sig := fn.Type().(*types.Signature)
	if core.VarOf(info, sel.X) != sig.Recv() {
		return ""
	}
	return sel.Sel.Name
}

// sameTypeAccessor: an interface method call on a side root is resolved to the concrete method of the root's asserted type.
func (h *c17Harness) concreteMethod(recv ast.Expr, fn *types.Func) *types.Func {
	t := h.info.TypeOf(recv)
	if ot, ok := h.rootType[core.VarOf(h.info, recv)]; ok {
		t = ot
	}
	if t == nil {
		return fn
	}
	obj, _, _ := types.LookupFieldOrMethod(t, true, h.fi.Pkg.Types, fn.Name())
	if m, ok := obj.(*types.Func); ok {
		return m.Origin()
	}
	return fn
}

// rootAssigned: side roots that are assigned somewhere in the body (their current value is then not a pure read).
func (h *c17Harness) rootAssigned() map[*types.Var]bool {
	if h.assigned != nil {
		return h.assigned
	}
	h.assigned = map[*types.Var]bool{}
	ast.Inspect(h.fi.Decl.Body, func(n ast.Node) bool {
		switch s := n.(type) {
		case *ast.AssignStmt:
			for _, l := range s.Lhs {
				if v := core.VarOf(h.info, l); v != nil {
					if _, ok := h.roots[v]; ok {
						h.assigned[v] = true
					}
				}
			}
		case *ast.IncDecStmt:
			if v := core.VarOf(h.info, s.X); v != nil {
				if _, ok := h.roots[v]; ok {
					h.assigned[v] = true
				}
			}
		case *ast.UnaryExpr:
			if s.Op == token.AND {
				if v := core.VarOf(h.info, s.X); v != nil {
					if _, ok := h.roots[v]; ok {
						h.assigned[v] = true
					}
				}
			}
		}
		return true
	})
	return h.assigned
}

func (h *c17Harness) isCommon(e ast.Expr) bool {
	// built only from constants and variables that are not side roots / derived
	ok := true
	ast.Inspect(e, func(n ast.Node) bool {
		if id, isId := n.(*ast.Ident); isId {
			if v, isVar := h.info.Uses[id].(*types.Var); isVar {
				if _, isRoot := h.roots[v]; isRoot {
					ok = false
				}
				if _, isDer := h.derived[v]; isDer {
					ok = false
				}
				if !v.IsField() && v.Pkg() != nil && v.Parent() != v.Pkg().Scope() {
					// a local: common only if it is a parameter
					sig := h.fi.Obj.Type().(*types.Signature)
					isParam := false
					for i := 0; i < sig.Params().Len(); i++ {
						if sig.Params().At(i) == v {
							isParam = true
						}
					}
					if !isParam {
						ok = false
					}
				}
			}
		}
		return ok
	})
	return ok
}

// classify recognises a read expression.
func (h *c17Harness) classify(e ast.Expr) (c17Read, bool) {
	e = ast.Unparen(e)
	switch x := e.(type) {
	case *ast.SelectorExpr:
		if core.FieldOf(h.info, x) != nil {
			if s, ok := h.roots[core.VarOf(h.info, x.X)]; ok {
				return c17Read{s, x.Sel.Name}, true
			}
		}
	case *ast.IndexExpr:
		tv := h.info.Types[x.Index]
		if tv.Value == nil {
			return c17Read{}, false
		}
		if sel, ok := ast.Unparen(x.X).(*ast.SelectorExpr); ok && core.FieldOf(h.info, sel) != nil {
			if s, ok := h.roots[core.VarOf(h.info, sel.X)]; ok {
				if _, isMap := h.info.TypeOf(sel).Underlying().(*types.Map); isMap {
					return c17Read{s, sel.Sel.Name + "[" + tv.Value.ExactString() + "]"}, true
				}
			}
		}
		if d, ok := h.derived[core.VarOf(h.info, x.X)]; ok {
			return c17Read{d.side, d.base + "[" + tv.Value.ExactString() + "]"}, true
		}
	case *ast.CallExpr:
		if id, ok := ast.Unparen(x.Fun).(*ast.Ident); ok {
			if b, ok := h.info.Uses[id].(*types.Builtin); ok {
				if b.Name() == "len" && len(x.Args) == 1 {
					if d, ok := h.derived[core.VarOf(h.info, x.Args[0])]; ok {
						return c17Read{d.side, "len(" + d.base + ")"}, true
					}
				}
				return c17Read{}, false
			}
		}
		fn := core.Callee(h.info, x)
		if fn == nil {
			return c17Read{}, false
		}
		if sel, ok := ast.Unparen(x.Fun).(*ast.SelectorExpr); ok && len(x.Args) == 0 {
			if s, ok := h.roots[core.VarOf(h.info, sel.X)]; ok {
				m := h.concreteMethod(sel.X, fn)
				if f := h.accessorField(m); f != "" {
					return c17Read{s, f}, true
				}
				return c17Read{s, fn.Name() + "()"}, true
			}
		}
		if _, isCmp := h.comparators[fn]; isCmp {
			return c17Read{}, false
		}
		// a module helper applied to reads of one side only is itself a read of that side (an uninterpreted function of the side)
		if fn.Pkg() != nil && strings.HasPrefix(fn.Pkg().Path(), core.ModPath) && len(x.Args) > 0 {
			if sig, ok := fn.Type().(*types.Signature); ok && sig.Results().Len() == 1 {
				side, keys, okAll := -1, []string{}, true
				for _, a := range x.Args {
					if tv := h.info.Types[a]; tv.Value != nil {
						keys = append(keys, tv.Value.ExactString())
						continue
					}
					// a scalar operand root that is never reassigned is a read of its side
					if s, isRoot := h.roots[core.VarOf(h.info, a)]; isRoot && !h.rootAssigned()[core.VarOf(h.info, a)] {
						if _, basic := h.info.TypeOf(a).Underlying().(*types.Basic); basic {
							if side >= 0 && s != side {
								okAll = false
								break
							}
							side = s
							keys = append(keys, ".")
							continue
						}
					}
					// operands built from the common parameters only: the same on both sides when spelled the same (part of the key)
					if h.isCommon(a) {
						keys = append(keys, "c:"+types.ExprString(a))
						continue
					}
					rd, ok := h.classify(a)
					if !ok || rd.side == 2 || (side >= 0 && rd.side != side) {
						okAll = false
						break
					}
					side = rd.side
					keys = append(keys, rd.key)
				}
				if okAll && side >= 0 {
					return c17Read{side, core.FuncName(fn) + "(" + strings.Join(keys, ",") + ")"}, true
				}
			}
		}
		if len(x.Args) > 0 && h.isCommon(x) {
			if sig, ok := fn.Type().(*types.Signature); ok && sig.Results().Len() == 1 {
				return c17Read{2, "common:" + core.FuncName(fn)}, true
			}
		}
	}
	return c17Read{}, false
}

func (h *c17Harness) domainFor(t types.Type, key string) []constant.Value {
	if strings.HasPrefix(key, "len(") {
		out := []constant.Value{constant.MakeInt64(0), constant.MakeInt64(1), constant.MakeInt64(2), constant.MakeInt64(3)}
		return out
	}
	switch u := t.Underlying().(type) {
	case *types.Basic:
		switch {
		case u.Info()&types.IsBoolean != 0:
			return []constant.Value{constant.MakeBool(false), constant.MakeBool(true)}
		case u.Kind() == types.Uint8:
			return []constant.Value{constant.MakeInt64(0), constant.MakeInt64(1)}
		case u.Info()&types.IsInteger != 0:
			out := []constant.Value{constant.MakeInt64(0), constant.MakeInt64(1), constant.MakeInt64(2)}
			for _, k := range h.intConsts {
				dup := false
				for _, o := range out {
					if constant.Compare(o, token.EQL, k) {
						dup = true
					}
				}
				if !dup && len(out) < 5 {
					out = append(out, k)
				}
			}
			return out
		case u.Info()&types.IsString != 0:
			out := []constant.Value{constant.MakeString("x1"), constant.MakeString("x2"), constant.MakeString("x3")}
			for _, k := range h.strConsts {
				if len(out) < 6 {
					out = append(out, k)
				}
			}
			return out
		}
	}
	// opaque values (maps, slices, ...): identity tokens
	return []constant.Value{constant.MakeString("tok1"), constant.MakeString("tok2")}
}

// discover scans the body for reads, library-derived roots, constants.
func (h *c17Harness) discover() {
	body := h.fi.Decl.Body
	// constants compared in the function
	seenS, seenI := map[string]bool{}, map[string]bool{}
	ast.Inspect(body, func(n ast.Node) bool {
		e, ok := n.(ast.Expr)
		if !ok {
			return true
		}
		tv := h.info.Types[e]
		if tv.Value == nil {
			return true
		}
		switch tv.Value.Kind() {
		case constant.String:
			if s := tv.Value.ExactString(); !seenS[s] {
				seenS[s] = true
				h.strConsts = append(h.strConsts, tv.Value)
			}
		case constant.Int:
			if s := tv.Value.ExactString(); !seenI[s] {
				seenI[s] = true
				h.intConsts = append(h.intConsts, tv.Value)
			}
		}
		return false
	})
	// constant strings used only as map keys are not value representatives
	keyOnly := map[string]bool{}
	ast.Inspect(body, func(n ast.Node) bool {
		if ix, ok := n.(*ast.IndexExpr); ok {
			if tv := h.info.Types[ix.Index]; tv.Value != nil && tv.Value.Kind() == constant.String {
				keyOnly[tv.Value.ExactString()] = true
			}
		}
		return true
	})
	var sc []constant.Value
	for _, k := range h.strConsts {
		if !keyOnly[k.ExactString()] {
			sc = append(sc, k)
		}
	}
	h.strConsts = sc
	// library calls on roots: x, err := pkg.F(root)
	ast.Inspect(body, func(n ast.Node) bool {
		as, ok := n.(*ast.AssignStmt)
		if !ok || len(as.Rhs) != 1 || len(as.Lhs) != 2 {
			return true
		}
		call, ok := ast.Unparen(as.Rhs[0]).(*ast.CallExpr)
		if !ok || len(call.Args) != 1 {
			return true
		}
		fn := core.Callee(h.info, call)
		if fn == nil || fn.Pkg() == nil || strings.HasPrefix(fn.Pkg().Path(), core.ModPath) {
			return true
		}
		if s, ok := h.roots[core.VarOf(h.info, call.Args[0])]; ok {
			if v := core.VarOf(h.info, as.Lhs[0]); v != nil {
				h.derived[v] = c17Derived{s, fn.Pkg().Name() + "." + fn.Name()}
			}
		}
		return true
	})
	add := func(rd c17Read, t types.Type) {
		m := h.sideKeys
		if rd.side == 2 {
			m = h.commonKeys
		}
		if _, ok := m[rd.key]; !ok {
			m[rd.key] = h.domainFor(t, rd.key)
		}
	}
	for v, side := range h.roots {
		if _, basic := v.Type().Underlying().(*types.Basic); basic {
			add(c17Read{side, "."}, v.Type())
		}
	}
	ast.Inspect(body, func(n ast.Node) bool {
		switch s := n.(type) {
		case *ast.AssignStmt:
			if len(s.Rhs) == 1 && len(s.Lhs) == 2 {
				rhs := ast.Unparen(s.Rhs[0])
				if rd, ok := h.classify(rhs); ok {
					if _, isIx := rhs.(*ast.IndexExpr); isIx {
						add(rd, h.info.TypeOf(s.Lhs[0]))
						add(c17Read{rd.side, rd.key + "?"}, types.Typ[types.Bool])
						return false
					}
				}
				if call, ok := rhs.(*ast.CallExpr); ok {
					if d, ok := h.derived[core.VarOf(h.info, s.Lhs[0])]; ok && len(call.Args) == 1 {
						add(c17Read{d.side, d.base + "#err"}, types.Typ[types.Bool])
						return false
					}
				}
			}
		case ast.Expr:
			if rd, ok := h.classify(s); ok {
				add(rd, h.info.TypeOf(s))
				return false
			}
		}
		return true
	})
}

type c17Scenario struct {
	side   [2]map[string]constant.Value
	common map[string]constant.Value
	sameTy bool
}

func (h *c17Harness) value(sc *c17Scenario, rd c17Read) (constant.Value, bool) {
	if rd.side == 2 {
		v, ok := sc.common[rd.key]
		return v, ok
	}
	v, ok := sc.side[rd.side][rd.key]
	return v, ok
}

// run evaluates the predicate under one scenario: the set of boolean results ("T","F","?").
func (h *c17Harness) run(sc *c17Scenario) map[string]bool {
	var cf *core.ConstFlow
	cf = &core.ConstFlow{G: h.g,
		Inject: func(node int, v *types.Var, rhs ast.Expr, idx int, env core.CFEnv) (constant.Value, bool) {
			if node == h.assertNode && v == h.assertOK {
				return constant.MakeBool(sc.sameTy), true
			}
			if rhs == nil {
				return nil, false
			}
			rhs = ast.Unparen(rhs)
			if rd, ok := h.classify(rhs); ok {
				if _, isIx := rhs.(*ast.IndexExpr); isIx && idx >= 0 {
					present, _ := h.value(sc, c17Read{rd.side, rd.key + "?"})
					if idx == 1 {
						return present, present != nil
					}
					if present != nil && !constant.BoolVal(present) {
						if z, ok := c17Zero(v.Type()); ok {
							return z, true
						}
						return nil, false
					}
				}
				if idx <= 0 {
					return h.value(sc, rd)
				}
			}
			if call, ok := rhs.(*ast.CallExpr); ok && idx == 1 && len(call.Args) == 1 {
				// err of a library call on a root
				if fn := core.Callee(h.info, call); fn != nil && fn.Pkg() != nil && !strings.HasPrefix(fn.Pkg().Path(), core.ModPath) {
					if s, ok := h.roots[core.VarOf(h.info, call.Args[0])]; ok {
						return h.value(sc, c17Read{s, fn.Pkg().Name() + "." + fn.Name() + "#err"})
					}
				}
			}
			return nil, false
		},
		Assume: func(e ast.Expr, env core.CFEnv) (constant.Value, bool) {
			e = ast.Unparen(e)
			if rd, ok := h.classify(e); ok {
				if ix, isIx := e.(*ast.IndexExpr); isIx {
					if _, isMap := h.info.TypeOf(ix.X).Underlying().(*types.Map); isMap {
						if p, ok := h.value(sc, c17Read{rd.side, rd.key + "?"}); ok && !constant.BoolVal(p) {
							return c17Zero(h.info.TypeOf(e))
						}
					}
				}
				return h.value(sc, rd)
			}
			if call, ok := e.(*ast.CallExpr); ok {
				fn := core.Callee(h.info, call)
				if fn == nil {
					return nil, false
				}
				var pos [2]int
				isCmp := false
				if fn.Pkg() != nil && fn.Pkg().Path() == "strings" && fn.Name() == "EqualFold" {
					pos, isCmp = [2]int{0, 1}, true
				} else if p, ok := h.comparators[fn]; ok {
					pos, isCmp = p, true
				}
				if isCmp && pos[1] < len(call.Args) {
					a, aok := cf.Eval(call.Args[pos[0]], env)
					b, bok := cf.Eval(call.Args[pos[1]], env)
					if aok && bok && a.Kind() == b.Kind() {
						// a symmetric uninterpreted predicate: equal representatives relate, except the designated non-reflexive one
						eq := constant.Compare(a, token.EQL, b)
						if eq && a.Kind() == constant.String && constant.StringVal(a) == "x3" && fn.Name() != "EqualFold" {
							eq = false
						}
						return constant.MakeBool(eq), true
					}
				}
			}
			return nil, false
		},
	}
	init := core.CFEnv{}
	for v, side := range h.roots {
		if _, basic := v.Type().Underlying().(*types.Basic); basic {
			if val, ok := sc.side[side]["."]; ok {
				init = init.With(v, val)
			}
		}
	}
	res := cf.Run(h.g.Entry, init)
	h.c.R.Cells += res.States
	for _, p := range res.Problems {
		h.problems[p] = true
	}
	out := map[string]bool{}
	for _, rn := range h.g.Returns() {
		ret := h.g.Nodes[rn].Ast.(*ast.ReturnStmt)
		for _, env := range res.Reached[rn] {
			if len(ret.Results) != 1 {
				out["?"] = true
				continue
			}
			v, ok := cf.Eval(ret.Results[0], env)
			switch {
			case !ok || v.Kind() != constant.Bool:
				out["?"] = true
			case constant.BoolVal(v):
				out["T"] = true
			default:
				out["F"] = true
			}
		}
	}
	if len(out) == 0 {
		out["?"] = true
	}
	return out
}

func c17Zero(t types.Type) (constant.Value, bool) {
	if b, ok := t.Underlying().(*types.Basic); ok {
		switch {
		case b.Info()&types.IsString != 0:
			return constant.MakeString(""), true
		case b.Info()&types.IsInteger != 0:
			return constant.MakeInt64(0), true
		case b.Info()&types.IsBoolean != 0:
			return constant.MakeBool(false), true
		}
	}
	return nil, false
}

// enumerate lists all valuations of a key->domain map (presence-false collapses the value).
func c17Enumerate(keys map[string][]constant.Value) []map[string]constant.Value {
	var names []string
	for k := range keys {
		names = append(names, k)
	}
	sort.Strings(names)
	out := []map[string]constant.Value{{}}
	for _, k := range names {
		var next []map[string]constant.Value
		for _, m := range out {
			for _, v := range keys[k] {
				n := make(map[string]constant.Value, len(m)+1)
				for a, b := range m {
					n[a] = b
				}
				n[k] = v
				next = append(next, n)
			}
		}
		out = next
	}
	// collapse: an absent key has no value
	seen := map[string]bool{}
	var uniq []map[string]constant.Value
	for _, m := range out {
		for k, v := range m {
			if strings.HasSuffix(k, "?") && !constant.BoolVal(v) {
				if _, has := m[strings.TrimSuffix(k, "?")]; has {
					m[strings.TrimSuffix(k, "?")] = constant.MakeString("")
				}
			}
		}
		d := c17Describe(m)
		if !seen[d] {
			seen[d] = true
			uniq = append(uniq, m)
		}
	}
	return uniq
}

func c17Describe(m map[string]constant.Value) string {
	var names []string
	for k := range m {
		names = append(names, k)
	}
	sort.Strings(names)
	var parts []string
	for _, k := range names {
		if strings.HasSuffix(k, "?") {
			continue
		}
		if p, ok := m[k+"?"]; ok && !constant.BoolVal(p) {
			parts = append(parts, k+"=absent")
			continue
		}
		parts = append(parts, k+"="+m[k].ExactString())
	}
	return strings.Join(parts, ",")
}

// c17Table is the result of a tabulation.
type c17Table struct {
	cells    map[string]string // "x|y|common" -> "T"/"F"/"?"/"TF"
	sides    []map[string]constant.Value
	commons  []map[string]constant.Value
	asymm    []string
	undec    []string
	diagonal map[string]string // side description -> result of T(x, x) (first common valuation: all must agree)
}

func (h *c17Harness) tabulate(maxCells int) *c17Table {
	t := &c17Table{cells: map[string]string{}, diagonal: map[string]string{}}
	t.sides = c17Enumerate(h.sideKeys)
	t.commons = c17Enumerate(h.commonKeys)
	if len(t.sides)*len(t.sides)*len(t.commons) > maxCells {
		h.problems[sprintf("table too large: %d x %d x %d cells", len(t.sides), len(t.sides), len(t.commons))] = true
		return t
	}
	res := func(m map[string]bool) string {
		switch {
		case m["?"]:
			return "?"
		case m["T"] && m["F"]:
			return "TF"
		case m["T"]:
			return "T"
		}
		return "F"
	}
	for _, cm := range t.commons {
		cd := c17Describe(cm)
		for _, x := range t.sides {
			for _, y := range t.sides {
				sc := &c17Scenario{side: [2]map[string]constant.Value{x, y}, common: cm, sameTy: true}
				t.cells[c17Describe(x)+"|"+c17Describe(y)+"|"+cd] = res(h.run(sc))
			}
		}
		for _, x := range t.sides {
			dx := c17Describe(x)
			for _, y := range t.sides {
				dy := c17Describe(y)
				a, b := t.cells[dx+"|"+dy+"|"+cd], t.cells[dy+"|"+dx+"|"+cd]
				if a == "?" || a == "TF" {
					t.undec = append(t.undec, sprintf("(%s) vs (%s) [%s]: %s", dx, dy, cd, a))
					continue
				}
				if dx < dy && a != b && b != "?" && b != "TF" {
					t.asymm = append(t.asymm, sprintf("f(%s ; %s)=%s but f(%s ; %s)=%s [%s]", dx, dy, a, dy, dx, b, cd))
				}
			}
			d := t.cells[dx+"|"+dx+"|"+cd]
			if prev, ok := t.diagonal[dx]; ok && prev != d {
				d = "TF"
			}
			t.diagonal[dx] = d
		}
	}
	return t
}

// ---- structural mirror comparison (for predicates that loop over maps, e.g. paramsEqual)

// c17Mirror reports whether b is a with the variable bijection m applied (m is extended for locals met in corresponding positions).
func c17Mirror(info *types.Info, a, b ast.Node, m, inv map[*types.Var]*types.Var) bool {
	if a == nil || b == nil {
		return a == nil && b == nil
	}
	isNilNode := func(n ast.Node) bool {
		switch x := n.(type) {
		case ast.Expr:
			return x == nil
		case ast.Stmt:
			return x == nil
		}
		return false
	}
	if isNilNode(a) || isNilNode(b) {
		return isNilNode(a) && isNilNode(b)
	}
	exprs := func(x, y []ast.Expr) bool {
		if len(x) != len(y) {
			return false
		}
		for i := range x {
			if !c17Mirror(info, x[i], y[i], m, inv) {
				return false
			}
		}
		return true
	}
	opt := func(x, y ast.Expr) bool {
		if x == nil || y == nil {
			return x == nil && y == nil
		}
		return c17Mirror(info, x, y, m, inv)
	}
	switch x := a.(type) {
	case *ast.Ident:
		y, ok := b.(*ast.Ident)
		if !ok {
			return false
		}
		ox, oy := info.ObjectOf(x), info.ObjectOf(y)
		vx, isVx := ox.(*types.Var)
		vy, isVy := oy.(*types.Var)
		if isVx != isVy {
			return false
		}
		if !isVx {
			return ox == oy && x.Name == y.Name
		}
		if vx.IsField() || (vx.Pkg() != nil && vx.Parent() == vx.Pkg().Scope()) {
			return vx == vy
		}
		if w, ok := m[vx]; ok {
			return w == vy
		}
		if _, taken := inv[vy]; taken {
			return false
		}
		if !types.Identical(vx.Type(), vy.Type()) {
			return false
		}
		m[vx], inv[vy] = vy, vx
		return true
	case *ast.BasicLit:
		y, ok := b.(*ast.BasicLit)
		return ok && x.Kind == y.Kind && x.Value == y.Value
	case *ast.ParenExpr:
		y, ok := b.(*ast.ParenExpr)
		return ok && c17Mirror(info, x.X, y.X, m, inv)
	case *ast.SelectorExpr:
		y, ok := b.(*ast.SelectorExpr)
		return ok && info.ObjectOf(x.Sel) == info.ObjectOf(y.Sel) && c17Mirror(info, x.X, y.X, m, inv)
	case *ast.IndexExpr:
		y, ok := b.(*ast.IndexExpr)
		return ok && c17Mirror(info, x.X, y.X, m, inv) && c17Mirror(info, x.Index, y.Index, m, inv)
	case *ast.CallExpr:
		y, ok := b.(*ast.CallExpr)
		return ok && x.Ellipsis.IsValid() == y.Ellipsis.IsValid() && c17Mirror(info, x.Fun, y.Fun, m, inv) && exprs(x.Args, y.Args)
	case *ast.UnaryExpr:
		y, ok := b.(*ast.UnaryExpr)
		return ok && x.Op == y.Op && c17Mirror(info, x.X, y.X, m, inv)
	case *ast.BinaryExpr:
		y, ok := b.(*ast.BinaryExpr)
		return ok && x.Op == y.Op && c17Mirror(info, x.X, y.X, m, inv) && c17Mirror(info, x.Y, y.Y, m, inv)
	case *ast.BlockStmt:
		y, ok := b.(*ast.BlockStmt)
		if !ok || len(x.List) != len(y.List) {
			return false
		}
		for i := range x.List {
			if !c17Mirror(info, x.List[i], y.List[i], m, inv) {
				return false
			}
		}
		return true
	case *ast.ExprStmt:
		y, ok := b.(*ast.ExprStmt)
		return ok && c17Mirror(info, x.X, y.X, m, inv)
	case *ast.AssignStmt:
		y, ok := b.(*ast.AssignStmt)
		return ok && x.Tok == y.Tok && exprs(x.Rhs, y.Rhs) && exprs(x.Lhs, y.Lhs)
	case *ast.ReturnStmt:
		y, ok := b.(*ast.ReturnStmt)
		return ok && exprs(x.Results, y.Results)
	case *ast.IfStmt:
		y, ok := b.(*ast.IfStmt)
		if !ok {
			return false
		}
		if (x.Init == nil) != (y.Init == nil) || (x.Else == nil) != (y.Else == nil) {
			return false
		}
		if x.Init != nil && !c17Mirror(info, x.Init, y.Init, m, inv) {
			return false
		}
		if !c17Mirror(info, x.Cond, y.Cond, m, inv) || !c17Mirror(info, x.Body, y.Body, m, inv) {
			return false
		}
		return x.Else == nil || c17Mirror(info, x.Else, y.Else, m, inv)
	case *ast.RangeStmt:
		y, ok := b.(*ast.RangeStmt)
		return ok && x.Tok == y.Tok && c17Mirror(info, x.X, y.X, m, inv) && opt(x.Key, y.Key) && opt(x.Value, y.Value) && c17Mirror(info, x.Body, y.Body, m, inv)
	case *ast.BranchStmt:
		y, ok := b.(*ast.BranchStmt)
		return ok && x.Tok == y.Tok && x.Label == nil && y.Label == nil
	}
	return false
}

// c17MirrorLoops: the body is  L(A,B); L(B,A); return true  with L returning only false: symmetric by construction.
func c17MirrorLoops(info *types.Info, fi *core.FuncInfo, pa, pb *types.Var) string {
	var loops []*ast.RangeStmt
	var tail []ast.Stmt
	for _, s := range fi.Decl.Body.List {
		if rs, ok := s.(*ast.RangeStmt); ok && len(tail) == 0 {
			loops = append(loops, rs)
			continue
		}
		tail = append(tail, s)
	}
	if len(loops) != 2 || len(tail) != 1 {
		return sprintf("expected two mirrored loops followed by one return, found %d loop(s) and %d other statement(s)", len(loops), len(tail))
	}
	ret, ok := tail[0].(*ast.ReturnStmt)
	if !ok || len(ret.Results) != 1 || info.Types[ret.Results[0]].Value == nil || !constant.BoolVal(info.Types[ret.Results[0]].Value) {
		return "the final statement is not `return true`"
	}
	bad := ""
	for _, l := range loops {
		ast.Inspect(l, func(n ast.Node) bool {
			if r, ok := n.(*ast.ReturnStmt); ok {
				if len(r.Results) != 1 || info.Types[r.Results[0]].Value == nil || constant.BoolVal(info.Types[r.Results[0]].Value) {
					bad = "a loop returns something other than the constant false"
				}
			}
			return true
		})
	}
	if bad != "" {
		return bad
	}
	m := map[*types.Var]*types.Var{pa: pb, pb: pa}
	inv := map[*types.Var]*types.Var{pb: pa, pa: pb}
	if !c17Mirror(info, loops[0], loops[1], m, inv) {
		return "the second loop is not the first loop with the two operands exchanged"
	}
	return ""
}
