package props

import (
	"go/ast"
	"go/constant"
	"go/token"
	"go/types"
	"math/big"
	"strings"
	"time"

	"verif/checker/core"
)

func init() {
	register(&Prop{
		ID:        "C33",
		Engine:    "e5layout+e2cfg+e1eval+e4range",
		Technique: "writer/reader byte-layout extraction of the Ogg page header, OpusHead and OpusTags (fixed part by offset, variable part as a program-order sequence of field kinds) against the Ogg / RFC 7845 tables; CRC structure rules on the control-flow graphs (polynomial, table construction, update step, compute-over-zeroed-field-then-store, reader substitutes zero for exactly the stored range); guard-dominance range rule for the segment count and lacing values; exhaustive tabulation of the page header-type function",
		LevelText: "Every field of the 27-byte Ogg page header and of OpusHead is extracted from oggwriter and oggreader (offset, width, byte order, provenance, destination) and compared with the format tables; OpusTags' cursor-based layout is compared as a sequence of field kinds. The CRC is shown to use the same polynomial, table construction and update step on both sides, to be computed in the writer over the finished page while bytes 22..25 are still zero and stored afterwards, and to be recomputed in the reader with zero substituted for exactly the bytes the stored checksum occupies. The header-type function is tabulated for all 1024 inputs against the Ogg framing rules (BOS only on a first page, continuation flag on later pages, EOS only on the page that completes the packet).",
		LevelNote: "Trusted: Ogg page layout (RFC 3533 §6) and OpusHead/OpusTags layout (RFC 7845 §5) as transcribed; evaluator semantics. Does not decide page sequencing across packets, multi-track interleaving or packet reassembly.",
		DesignRef: "DESIGN.md §5 C33",
		Run:       runC33,
	})
}

const c33W, c33R = "pkg/media/oggwriter", "pkg/media/oggreader"

func runC33(c *Ctx) {
	r := c.R
	t0 := time.Now()
	defer func() { r.Extra["rules_wall_s"] = time.Since(t0).Seconds() }()
	r.Rule("C33.R1", "layout: Ogg page header (OggS@0, version@4, type@5, granule@6/64, serial@14/32, sequence@18/32, crc@22/32, segment count@26, table@27, little-endian), OpusHead (magic@0/8, version@8, channels@9, pre-skip@10/16, rate@12/32, gain@16/16, family@18, streams@19, coupled@20, mapping@21) and OpusTags (magic@0/8, vendor length@8/32, then vendor, comment count, per comment length + name=value) are stored by oggwriter and decoded by oggreader at the same offset/width/byte order from/to the matching fields; header lengths (27, 19, 21+channels) agree", 25)
	r.Rule("C33.R2", "CRC structure: same polynomial and table construction on both sides; same update step; the writer computes the checksum over the whole page after all other bytes are written and while the checksum field is still zero, and stores it afterwards; the reader substitutes zero for exactly the bytes of the checksum field and compares with the field decoded at the same offset", 7)
	r.Rule("C33.R3", "the segment count byte and every lacing value fit a byte: the segment table is only grown inside a loop guarded by len(table) < 255 and every lacing value is 255 or a remainder below 255", 3)
	r.Rule("C33.R5", "granule arithmetic: opusSamplesPerFrame equals RFC 6716 Table 2 for all 256 TOC bytes; opusPacketFrameCount equals RFC 6716 section 3.2 for every (TOC, length, count byte); the per-packet count is their product on the packet's own TOC byte and is the only thing the granule position advances by", 38)
	r.Rule("C33.R6", "last-page bookkeeping: every track field from which markTrackEndOfStream rebuilds the last page is recorded, in writePage's page loop, from fields of the page value that was just written", 4)
	r.Rule("C33.R7", "createPagesForSerial tiles the packet: the page payload is payload[off:off+n], every write of off after its initialisation is off += n, one lies on every path from one slicing to the next, and n is not rewritten in between (joining continued pages yields the written packet)", 1)
	r.Rule("C33.R8", "ownership of per-stream OpusTags: the value stored into oggTrack.opusTags is fresh (cloning/default constructor, a private config object whose own tags are fresh, or a parameter every call site of which passes a fresh value): in-place comment appends by track options never reach another stream's header", 1)
	r.Rule("C33.R4", "header-type flags, tabulated over (requested type, first page, packet complete): first complete page keeps the requested flags, a first incomplete page drops EOS, later pages carry the continuation flag and EOS only when they complete the packet, BOS never appears on a later page; the BOS constant is passed exactly with the OpusHead payload; every Close path of a started writer emits EOS through markTrackEndOfStream / writeNilEndOfStreamPage", 5)
	r.NotCovered = append(r.NotCovered, "page sequence numbering across packets and tracks", "packet reassembly from continued pages in the reader")
	r.Trusted = append(r.Trusted, "RFC 3533 §6 page header, RFC 7845 §5.1/§5.2 OpusHead/OpusTags as transcribed in props/c33.go", "core/eval semantics; guard-dominance argument of core/guards.go")
	l := core.NewLayout(c.P)
	c33Page(c, l)
	c33OpusHead(c, l)
	c33OpusTags(c, l)
	c33CRC(c, l)
	c33Segments(c, l)
	c33Flags(c, l)
	if c.Thorough {
		c32Sweep(c, l, "C33.R1", c33W, map[string]bool{"createPageForSerialWithSegments": true, "buildIDHeader": true, "buildCommentHeader": true})
		c32Sweep(c, l, "C33.R1", c33R, map[string]bool{"(*OggReader).ParseNextPage": true, "parseBasicHeaderFields": true, "parseExtendedChannelMapping": true,
			"parseVendorString": true, "parseUserComments": true, "parseSingleUserComment": true, "validateOpusTagsHeader": true, "opusPayloadSignature": true})
	}
	c33R5(c)
	c33R6(c)
	c33R7(c) // c33c.go
	c33R8(c)
}

// ---------- R1: page header ----------

func c33Page(c *Ctx, l *core.Layout) {
	w := c.mustFunc("C33.R1", c33W, "createPageForSerialWithSegments")
	rd := c.mustFunc("C33.R1", c33R, "OggReader.ParseNextPage")
	if w == nil || rd == nil {
		return
	}
	rows := []c32Row{
		{Name: "capture-pattern", Off: 0, Width: 4, WOrigins: []string{`const:"OggS"`}, RSink: "field:OggPageHeader.sig via [%d]"},
		{Name: "version", Off: 4, Width: 1, WOrigins: []string{"const:0"}, RSink: "field:OggPageHeader.version"},
		{Name: "header-type", Off: 5, Width: 1, WOrigins: []string{"*"}, RSink: "field:OggPageHeader.headerType"},
		{Name: "granule-position", Off: 6, Width: 8, Endian: "LE", WOrigins: []string{"*"}, RSink: "field:OggPageHeader.GranulePosition"},
		{Name: "serial", Off: 14, Width: 4, Endian: "LE", WOrigins: []string{"field:oggTrack.serial"}, RSink: "field:OggPageHeader.Serial"},
		{Name: "page-sequence", Off: 18, Width: 4, Endian: "LE", WOrigins: []string{"~field:oggTrack.pageIndex", "~field:oggTrack.lastPageIndex", "~op++"}, RSink: "field:OggPageHeader.index"},
		{Name: "checksum", Off: 22, Width: 4, Endian: "LE", WOrigins: []string{"*"}, RSink: "cond"},
		{Name: "segment-count", Off: 26, Width: 1, WOrigins: []string{"~len("}, RSink: "field:OggPageHeader.segmentsCount"},
	}
	wE, wBuf, ok1 := c32Buffer(c, l, "C33.R1", "page-header|writer", w, true)
	rE, rBuf, ok2 := c32Buffer(c, l, "C33.R1", "page-header|reader", rd, false)
	if !ok1 || !ok2 {
		return
	}
	c32CheckRows(c, l, "C33.R1", "page-header", rows, wE, rE)
	// the reader checks the capture pattern against the constant the writer stores
	if sig := c.mustField("C33.R1", c33R, "OggPageHeader", "sig"); sig != nil {
		acc := c32FieldCompared(c, c33R, sig)
		var written constant.Value
		for _, e := range wE {
			if e.OffKnown && e.Off == 0 {
				written = e.Const
			}
		}
		ok := written != nil && len(acc) > 0
		for _, a := range acc {
			if written == nil || a.Kind() != written.Kind() || !constant.Compare(a, token.EQL, written) {
				ok = false
			}
		}
		c.R.Check(ok, "C33.R1", "page-header|reader-accepts-written-capture-pattern", c.P.Pos(w.Decl.Pos()), "capture pattern constant equal on both sides", sprintf("writer stores %v, the reader compares the signature with %v", written, acc))
	}
	// lengths: fixed header 27 on both sides; segment table directly after it; payload after the table
	pos := c.P.Pos(w.Decl.Pos())
	hs := c.mustConst("C33.R1", c33W, "pageHeaderSize")
	hl := c.mustConst("C33.R1", c33R, "pageHeaderLen")
	if hs == nil || hl == nil {
		return
	}
	hsv, _ := constant.Int64Val(hs.Val())
	hlv, _ := constant.Int64Val(hl.Val())
	var rid *ast.Ident
	ast.Inspect(rd.Decl.Body, func(n ast.Node) bool {
		if x, ok := n.(*ast.Ident); ok && rid == nil && rd.Pkg.TypesInfo.ObjectOf(x) == rBuf {
			rid = x
		}
		return rid == nil
	})
	rl, okr := int64(-1), false
	if rid != nil {
		rl, okr = l.KnownLen(rd, rid)
	}
	var segOff, payMin int64 = -1, -1
	var payEntry *core.LayoutEntry
	for _, e := range wE {
		if e.Kind != "bytes" || e.Width >= 0 {
			continue
		}
		if e.OffKnown {
			segOff = e.Off
		} else {
			payMin, payEntry = e.OffMin, e
		}
	}
	bad := ""
	switch {
	case hsv != 27 || hlv != 27 || !okr || rl != 27:
		bad = sprintf("fixed page header: writer constant %d, reader constant %d, reader buffer %d (known=%v); the format has 27", hsv, hlv, rl, okr)
	case segOff != 27:
		bad = sprintf("the segment table is stored at offset %d, the reader expects it right after the 27-byte header", segOff)
	case payEntry == nil || payMin != 27:
		bad = "the payload is not stored after header + segment table"
	default:
		// payload offset = 27 + len(segment table): the offset expression mentions the table that is copied at 27
		var tbl *core.LayoutEntry
		for _, e := range wE {
			if e.OffKnown && e.Off == 27 && e.Kind == "bytes" {
				tbl = e
			}
		}
		found := false
		if tbl != nil {
			tv := core.RootVar(w.Pkg.TypesInfo, tbl.Val)
			ast.Inspect(payEntry.OffExpr, func(n ast.Node) bool {
				if call, ok := n.(*ast.CallExpr); ok && len(call.Args) == 1 {
					if id, ok := ast.Unparen(call.Fun).(*ast.Ident); ok && id.Name == "len" && core.RootVar(w.Pkg.TypesInfo, call.Args[0]) == tv && tv != nil {
						found = true
					}
				}
				return true
			})
		}
		if !found {
			bad = "the payload offset is not 27 + len(segment table)"
		}
	}
	_ = wBuf
	c.R.Check(bad == "", "C33.R1", "page-header|lengths", pos, "27-byte header, table at 27, payload at 27+len(table), reader buffer 27", bad)
}

// ---------- R1: OpusHead ----------

func c33OpusHead(c *Ctx, l *core.Layout) {
	w := c.mustFunc("C33.R1", c33W, "buildIDHeader")
	rd := c.mustFunc("C33.R1", c33R, "ParseOpusHead")
	sigFn := c.mustFunc("C33.R1", c33R, "opusPayloadSignature")
	pcm := c.mustFunc("C33.R1", c33R, "parseChannelMapping")
	if w == nil || rd == nil || sigFn == nil || pcm == nil {
		return
	}
	rows := []c32Row{
		{Name: "magic", Off: 0, Width: 8, WOrigins: []string{`const:"OpusHead"`}, RSink: `cmp==:"OpusHead"`},
		{Name: "version", Off: 8, Width: 1, WOrigins: []string{"const:1"}, RSink: "field:OggHeader.Version"},
		{Name: "channel-count", Off: 9, Width: 1, WOrigins: []string{"field:channelMapping.channelCount"}, RSink: "field:OggHeader.Channels"},
		{Name: "pre-skip", Off: 10, Width: 2, Endian: "LE", WOrigins: []string{"field:oggTrack.preSkip"}, RSink: "field:OggHeader.PreSkip"},
		{Name: "sample-rate", Off: 12, Width: 4, Endian: "LE", WOrigins: []string{"field:oggTrack.sampleRate"}, RSink: "field:OggHeader.SampleRate"},
		{Name: "output-gain", Off: 16, Width: 2, Endian: "LE", WOrigins: []string{"const:0"}, RSink: "field:OggHeader.OutputGain"},
		{Name: "mapping-family", Off: 18, Width: 1, WOrigins: []string{"field:channelMapping.family"}, RSink: "field:OggHeader.ChannelMap"},
		{Name: "stream-count", Off: 19, Width: 1, WOrigins: []string{"field:channelMapping.streamCount"}, RSink: "field:OggHeader.StreamCount"},
		{Name: "coupled-count", Off: 20, Width: 1, WOrigins: []string{"field:channelMapping.coupledCount"}, RSink: "field:OggHeader.CoupledCount"},
		{Name: "channel-mapping", Off: 21, Width: -1, WOrigins: []string{"field:channelMapping.mapping"}, RSink: "field:OggHeader.ChannelMapping"},
	}
	wE, _, ok1 := c32Buffer(c, l, "C33.R1", "opus-head|writer", w, true)
	rE, _, ok2 := c32Buffer(c, l, "C33.R1", "opus-head|reader", rd, false)
	if !ok1 || !ok2 {
		return
	}
	sE, _, ok3 := c32Buffer(c, l, "C33.R1", "opus-head|reader-signature", sigFn, false)
	if ok3 {
		rE = append(rE, sE...)
	}
	c32CheckRows(c, l, "C33.R1", "opus-head", rows, wE, rE)

	// header length as a function of (family, channels): what the writer allocates is what the reader accepts
	g := c.P.GraphOf(w)
	var mk *ast.CallExpr
	ast.Inspect(w.Decl.Body, func(n ast.Node) bool {
		if call, ok := n.(*ast.CallExpr); ok && len(call.Args) == 2 {
			if id, ok := ast.Unparen(call.Fun).(*ast.Ident); ok && id.Name == "make" {
				if _, isB := w.Pkg.TypesInfo.Uses[id].(*types.Builtin); isB {
					mk = call
				}
			}
		}
		return true
	})
	key := "opus-head|length-by-family"
	pos := c.P.Pos(w.Decl.Pos())
	if mk == nil {
		c.R.Undecided("C33.R1", key, pos, "the allocation of the OpusHead buffer was not found")
		return
	}
	mkNode := c32NodeOf(g, mk)
	bad, undec := "", ""
	for _, fam := range []int64{0, 1, 2, 255} {
		for _, ch := range []int64{1, 2, 8, 255} {
			ev := &core.Evaluator{P: c.P, Fuel: 400}
			ev.Path = func(p string) (core.EVal, bool) {
				switch {
				case strings.HasSuffix(p, ".family"):
					return core.EInt(fam, types.Typ[types.Uint8]), true
				case strings.HasSuffix(p, ".channelCount"):
					return core.EInt(ch, types.Typ[types.Uint8]), true
				}
				return core.EVal{}, false
			}
			fr := ev.NewFrame(g)
			fr.Locals[w.Obj.Type().(*types.Signature).Params().At(0)] = core.EVal{K: core.ERef, Path: "track"}
			if o := fr.Run(g.Entry, func(n int) bool { return n == mkNode }); o.Kind != "stopped" {
				undec = "buildIDHeader: " + o.Kind + " " + o.Why
				continue
			}
			wl, ok := fr.Eval(mk.Args[1]).Int64()
			if !ok {
				undec = "buffer length: " + fr.Eval(mk.Args[1]).String()
				continue
			}
			c.R.Cells++
			for _, d := range []int64{-1, 0, 1} {
				rev := &core.Evaluator{P: c.P, Fuel: 400}
				rev.Path = func(p string) (core.EVal, bool) {
					switch p {
					case "hdr.ChannelMap":
						return core.EInt(fam, types.Typ[types.Uint8]), true
					case "hdr.Channels":
						return core.EInt(ch, types.Typ[types.Uint8]), true
					}
					return core.EVal{}, false
				}
				out := rev.Call(pcm, core.EVal{}, []core.EVal{{K: core.ERef, Path: "hdr"}, core.EBytes("payload", wl+d)})
				if out.Kind != "return" || len(out.Results) != 1 || (out.Results[0].K != core.ENil && out.Results[0].K != core.ENonNil) {
					undec = sprintf("parseChannelMapping(family %d, %d channels, %d bytes): %s %s", fam, ch, wl+d, out.Kind, out.Why)
					continue
				}
				accepted := out.Results[0].K == core.ENil
				if accepted != (d == 0) {
					bad = sprintf("family %d with %d channels: the writer emits %d bytes, the reader %s a %d-byte OpusHead", fam, ch, wl, map[bool]string{true: "accepts", false: "rejects"}[accepted], wl+d)
				}
			}
		}
	}
	if undec != "" {
		c.R.Undecided("C33.R1", key, pos, undec)
		return
	}
	c.R.Check(bad == "", "C33.R1", key, pos, "19 bytes for family 0, 21+channels otherwise: exactly the length the reader accepts (16 combinations, ±1 rejected)", bad)
}

// ---------- R1: OpusTags (cursor-based) ----------

type c33Kind struct {
	kind string // magic, u32, bytes, byte, kv
	what string
	loop int
	pos  token.Pos
}

func c33OpusTags(c *Ctx, l *core.Layout) {
	r := c.R
	w := c.mustFunc("C33.R1", c33W, "buildCommentHeader")
	rd := c.mustFunc("C33.R1", c33R, "ParseOpusTags")
	if w == nil || rd == nil {
		return
	}
	key := "opus-tags|field-sequence"
	pos := c.P.Pos(w.Decl.Pos())
	// writer buffer: the local that is returned
	var wbuf types.Object
	es, _ := l.Entries(w)
	for obj, g := range core.GroupByBuffer(es) {
		if obj != nil && len(g) >= 4 {
			wbuf = obj
		}
	}
	rsig := rd.Obj.Type().(*types.Signature)
	if wbuf == nil || rsig.Params().Len() != 1 {
		r.Undecided("C33.R1", key, pos, "cannot identify the OpusTags buffers")
		return
	}
	wseq := l.SequenceDeep(w, wbuf)
	rseq := l.SequenceDeep(rd, rsig.Params().At(0))
	r.Cells += len(wseq) + len(rseq)
	short := func(o []string) string {
		var keep []string
		for _, s := range o {
			if !strings.HasPrefix(s, "op") && !strings.HasPrefix(s, "const:") {
				keep = append(keep, s)
			}
		}
		return strings.Join(keep, ",")
	}
	var wk []c33Kind
	for _, it := range wseq {
		e := it.E
		if !e.Write {
			continue
		}
		k := c33Kind{loop: it.Loop, pos: e.Pos}
		switch {
		case e.Kind == "bytes" && e.Const != nil && e.OffKnown && e.Off == 0:
			k.kind, k.what = "magic", e.Const.ExactString()
		case e.Kind == "uint" && e.Width == 4 && e.Endian == "LE":
			k.kind, k.what = "u32", short(l.EntryOrigins(e))
		case e.Kind == "uint":
			k.kind, k.what = sprintf("uint%d%s", e.Width*8, e.Endian), ""
		case e.Kind == "bytes":
			k.kind, k.what = "bytes", short(l.EntryOrigins(e))
		case e.Kind == "byte" && e.Const != nil:
			k.kind, k.what = "byte", e.Const.ExactString()
		default:
			k.kind = "other:" + e.String()
		}
		wk = append(wk, k)
	}
	// fold bytes,'=',bytes into kv
	var wn []c33Kind
	for i := 0; i < len(wk); i++ {
		if i+2 < len(wk) && wk[i].kind == "bytes" && wk[i+1].kind == "byte" && wk[i+2].kind == "bytes" && wk[i].loop == wk[i+2].loop {
			wn = append(wn, c33Kind{kind: "kv", what: wk[i+1].what + "|" + wk[i].what + "|" + wk[i+2].what, loop: wk[i].loop, pos: wk[i].pos})
			i += 2
			continue
		}
		wn = append(wn, wk[i])
	}
	var rn []c33Kind
	for _, it := range rseq {
		e := it.E
		if e.Write {
			continue
		}
		k := c33Kind{loop: it.Loop, pos: e.Pos}
		sinks := l.EntrySinks(e)
		switch {
		case e.Kind == "string" && e.OffKnown && e.Off == 0:
			k.kind = "magic"
			for _, s := range sinks {
				if strings.HasPrefix(s, "cmp!=:") || strings.HasPrefix(s, "cmp==:") {
					k.what = strings.SplitN(s, ":", 2)[1]
				}
			}
		case e.Kind == "uint" && e.Width == 4 && e.Endian == "LE":
			k.kind = "u32"
		case e.Kind == "uint":
			k.kind = sprintf("uint%d%s", e.Width*8, e.Endian)
		case e.Kind == "string":
			k.kind = "bytes"
			var fields []string
			split := false
			for _, s := range sinks {
				if strings.HasPrefix(s, "field:") {
					fields = append(fields, strings.SplitN(s, " ", 2)[0])
					if strings.Contains(s, "strings.SplitN#0") {
						split = true
					}
				}
			}
			k.what = strings.Join(fields, ",")
			if split {
				k.kind = "kv"
				k.what = c33SplitSeparator(c, e) + "|" + k.what
			}
		default:
			k.kind = "other:" + e.String()
		}
		rn = append(rn, k)
	}
	render := func(ks []c33Kind) string {
		var s []string
		for _, k := range ks {
			s = append(s, strings.Repeat("*", k.loop)+k.kind)
		}
		return strings.Join(s, " ")
	}
	want := "magic u32 bytes u32 *u32 *kv"
	bad := ""
	switch {
	case render(wn) != want:
		bad = "writer field sequence is `" + render(wn) + "`, RFC 7845 §5.2 is `" + want + "`"
	case render(rn) != want:
		bad = "reader field sequence is `" + render(rn) + "`, RFC 7845 §5.2 is `" + want + "`"
	}
	if bad == "" {
		// semantic association
		switch {
		case wn[0].what != `"OpusTags"` || rn[0].what != `"OpusTags"`:
			bad = sprintf("magic: writer %s, reader compares with %s", wn[0].what, rn[0].what)
		case wn[1].what != "len(field:OpusTags.Vendor)":
			bad = "the first length is " + wn[1].what + ", not the vendor string length"
		case wn[2].what != "field:OpusTags.Vendor" || rn[2].what != "field:OpusTags.Vendor":
			bad = sprintf("vendor bytes: writer %s, reader %s", wn[2].what, rn[2].what)
		case wn[3].what != "len(field:OpusTags.UserComments)":
			bad = "the second length is " + wn[3].what + ", not the comment count"
		case wn[4].what != "len(field:UserComment.Comment),len(field:UserComment.Value)":
			bad = "the per-comment length is made of " + wn[4].what + " (expected name length + 1 + value length)"
		case wn[5].what != "61|field:UserComment.Comment|field:UserComment.Value":
			bad = "the comment is written as " + wn[5].what + " (expected name, '=', value)"
		case rn[5].what != `"="|field:UserComment.Comment,field:UserComment.Value`:
			bad = "the reader splits the comment as " + rn[5].what + ` (expected separator "=" into name and value)`
		}
	}
	if bad == "" {
		// the per-comment length counts name, separator and value: evaluate it with len(name)=3, len(value)=5
		var lenEntry *core.LayoutEntry
		for _, it := range wseq {
			if it.E.Write && it.E.Kind == "uint" && it.Loop > 0 {
				lenEntry = it.E
			}
		}
		if lenEntry != nil {
			winfo := w.Pkg.TypesInfo
			ev := &core.Evaluator{P: c.P, Fuel: 300}
			ev.LocalDef = func(v *types.Var) ast.Expr { return l.UniqueDef(w, v) }
			ev.Expr = func(e ast.Expr) (core.EVal, bool) {
				call, ok := e.(*ast.CallExpr)
				if !ok || len(call.Args) != 1 {
					return core.EVal{}, false
				}
				if id, ok := ast.Unparen(call.Fun).(*ast.Ident); !ok || id.Name != "len" {
					return core.EVal{}, false
				}
				if f := core.FieldOf(winfo, call.Args[0]); f != nil {
					switch f.Name() {
					case "Comment":
						return core.EInt(3, types.Typ[types.Int]), true
					case "Value":
						return core.EInt(5, types.Typ[types.Int]), true
					}
				}
				return core.EVal{}, false
			}
			v := ev.NewFrame(c.P.GraphOf(w)).Eval(lenEntry.Val)
			if n, ok := v.Int64(); !ok {
				r.Undecided("C33.R1", "opus-tags|comment-length-counts-separator", c.P.Pos(lenEntry.Pos), "the per-comment length could not be evaluated: "+v.String())
			} else {
				r.Check(n == 9, "C33.R1", "opus-tags|comment-length-counts-separator", c.P.Pos(lenEntry.Pos), "length = len(name) + 1 + len(value)", sprintf("for a 3-byte name and a 5-byte value the stored comment length is %d; name=value occupies 9 bytes, which is what the reader slices", n))
			}
		}
	}
	r.Check(bad == "", "C33.R1", key, pos, "magic, u32 vendor length, vendor, u32 count, per comment u32 length + name=value on both sides", bad)

	// fixed offset of the first length: writer cursor starts at len(magic), reader reads at the same constant
	var rOff int64 = -1
	for _, it := range rseq {
		if it.E.Kind == "uint" && it.E.OffKnown && rOff < 0 {
			rOff = it.E.Off
		}
	}
	wOff := int64(-1)
	if len(wseq) > 1 {
		if v := core.RootVar(w.Pkg.TypesInfo, wseq[1].E.OffExpr); v != nil {
			for _, d := range l.DefExprs(w, v) {
				if n, ok := l.ConstInt(w, d); ok {
					wOff = n
					break
				}
			}
		}
	}
	r.Check(rOff == 8 && wOff == 8, "C33.R1", "opus-tags|vendor-length-offset", pos, "vendor length at offset 8 on both sides", sprintf("vendor length: writer cursor starts at %d, reader decodes at %d, RFC 7845 has 8", wOff, rOff))

	// cursor discipline in the writer: after each store at the cursor the cursor advances by the stored width
	c33Cursor(c, l, w, wseq)
}

// c33SplitSeparator returns the constant separator of the strings.SplitN call the read string flows into.
func c33SplitSeparator(c *Ctx, e *core.LayoutEntry) string {
	sep := "?"
	info := e.Fn.Pkg.TypesInfo
	ast.Inspect(e.Fn.Decl.Body, func(n ast.Node) bool {
		if call, ok := n.(*ast.CallExpr); ok && len(call.Args) >= 2 {
			if fn := core.Callee(info, call); fn != nil && fn.Pkg() != nil && fn.Pkg().Path() == "strings" && strings.HasPrefix(fn.Name(), "Split") {
				if tv := info.Types[call.Args[1]]; tv.Value != nil {
					sep = tv.Value.ExactString()
				}
			}
		}
		return true
	})
	return sep
}

// c33Cursor: in the writer, every store at the cursor variable is followed (next modification of the cursor) by
// an advance of exactly the stored width: += 4 after a u32, += len(x) after copy(.., x), ++ after a byte.
func c33Cursor(c *Ctx, l *core.Layout, w *core.FuncInfo, seq []core.SeqItem) {
	r := c.R
	g := c.P.GraphOf(w)
	info := g.Info
	bad := ""
	n := 0
	for _, it := range seq {
		e := it.E
		if !e.Write || e.OffKnown || e.Fn != w {
			continue
		}
		cur := core.VarOf(info, e.OffExpr)
		if cur == nil {
			bad = "a store at a computed offset that is not a plain cursor variable: " + exprStr(e.OffExpr)
			break
		}
		node := c32NodeOf(g, e.Node)
		if node < 0 {
			continue
		}
		n++
		// next modification of the cursor on every path
		var nexts []int
		seen := map[int]bool{}
		var walk func(x int)
		walk = func(x int) {
			for _, ed := range g.Nodes[x].Succs {
				if seen[ed.To] {
					continue
				}
				seen[ed.To] = true
				if a := g.Nodes[ed.To].Ast; a != nil && core.MayModify(info, a, cur) {
					nexts = append(nexts, ed.To)
					continue
				}
				if g.Nodes[ed.To].Kind == core.NExit {
					continue
				}
				walk(ed.To)
			}
		}
		walk(node)
		if len(nexts) == 0 {
			bad = sprintf("the cursor is not advanced after the store at %s", c.P.Pos(e.Pos))
			break
		}
		for _, nx := range nexts {
			ok := false
			switch s := g.Nodes[nx].Ast.(type) {
			case *ast.IncDecStmt:
				ok = s.Tok == token.INC && e.Width == 1
			case *ast.AssignStmt:
				if s.Tok == token.ADD_ASSIGN && len(s.Rhs) == 1 {
					if k, isC := l.ConstInt(w, s.Rhs[0]); isC {
						ok = k == e.Width
					} else if call, isCall := ast.Unparen(s.Rhs[0]).(*ast.CallExpr); isCall && len(call.Args) == 1 && e.Kind == "bytes" {
						if id, isId := ast.Unparen(call.Fun).(*ast.Ident); isId && id.Name == "len" {
							ok = core.SameExpr(info, call.Args[0], e.Val)
						}
					}
				}
			}
			if !ok {
				bad = sprintf("after the %d-byte %s store at %s the cursor is advanced by `%s`", e.Width, e.Kind, c.P.Pos(e.Pos), exprStr2(g.Nodes[nx].Ast))
			}
		}
	}
	r.Check(bad == "" && n >= 6, "C33.R1", "opus-tags|writer-cursor-advances-by-stored-width", c.P.Pos(w.Decl.Pos()), sprintf("%d cursor stores, each followed by an advance of its width", n), bad+sprintf(" (%d cursor stores found)", n))
}

func exprStr2(n ast.Node) string {
	switch s := n.(type) {
	case *ast.AssignStmt:
		return exprStr(s.Lhs[0]) + " " + s.Tok.String() + " " + exprStr(s.Rhs[0])
	case *ast.IncDecStmt:
		return exprStr(s.X) + s.Tok.String()
	case ast.Expr:
		return exprStr(s)
	}
	return "?"
}

// ---------- R2: CRC ----------

func c33CRC(c *Ctx, l *core.Layout) {
	r := c.R
	wt := c.mustFunc("C33.R2", c33W, "generateChecksumTable")
	rt := c.mustFunc("C33.R2", c33R, "generateChecksumTable")
	w := c.mustFunc("C33.R2", c33W, "createPageForSerialWithSegments")
	rd := c.mustFunc("C33.R2", c33R, "OggReader.ParseNextPage")
	if wt == nil || rt == nil || w == nil || rd == nil {
		return
	}
	// (a) polynomial + table construction
	polyOf := func(fi *core.FuncInfo) (vals []string) {
		info := fi.Pkg.TypesInfo
		ast.Inspect(fi.Decl.Body, func(n ast.Node) bool {
			be, ok := n.(*ast.BinaryExpr)
			if !ok || be.Op != token.XOR {
				return true
			}
			for _, op := range []ast.Expr{be.X, be.Y} {
				if tv := info.Types[op]; tv.Value != nil {
					vals = append(vals, tv.Value.ExactString())
				}
			}
			return true
		})
		return vals
	}
	pw, pr := polyOf(wt), polyOf(rt)
	const oggPoly = "79764919" // 0x04c11db7
	okPoly := len(pw) == 1 && len(pr) == 1 && pw[0] == oggPoly && pr[0] == oggPoly
	r.Check(okPoly, "C33.R2", "crc|polynomial", c.P.Pos(wt.Decl.Pos()), "both tables use 0x04c11db7", sprintf("generator polynomial: writer %v, reader %v, Ogg uses 0x04c11db7 (%s)", pw, pr, oggPoly))
	sa, sb := c34Canon(wt), c34Canon(rt)
	if sa == sb {
		r.OK("C33.R2", "crc|table-construction", c.P.Pos(wt.Decl.Pos()), "the two generateChecksumTable functions are structurally identical")
	} else {
		ta, tb := strings.Fields(sa), strings.Fields(sb)
		i := 0
		for i < len(ta) && i < len(tb) && ta[i] == tb[i] {
			i++
		}
		ctx := func(t []string) string { return strings.Join(t[max(0, i-6):min(len(t), i+6)], " ") }
		r.Fail("C33.R2", "crc|table-construction", c.P.Pos(rt.Decl.Pos()), sprintf("the checksum tables are built differently: writer `… %s …` vs reader `… %s …`", ctx(ta), ctx(tb)))
	}

	// (b) update step on both sides: c = (c << 8) ^ T[byte(c >> 24) ^ b]
	type step struct {
		fi   *core.FuncInfo
		node ast.Node
		acc  *types.Var
		ok   bool
		why  string
	}
	findStep := func(fi *core.FuncInfo) step {
		info := fi.Pkg.TypesInfo
		st := step{fi: fi, why: "no checksum update statement found"}
		ast.Inspect(fi.Decl.Body, func(n ast.Node) bool {
			as, ok := n.(*ast.AssignStmt)
			if !ok || len(as.Lhs) != 1 || len(as.Rhs) != 1 || as.Tok != token.ASSIGN {
				return true
			}
			acc := core.VarOf(info, as.Lhs[0])
			be, ok := ast.Unparen(as.Rhs[0]).(*ast.BinaryExpr)
			if acc == nil || !ok || be.Op != token.XOR {
				return true
			}
			// one operand acc << K1, the other an index into a [256]uint32 table with byte(acc >> K2) ^ b
			var shl *ast.BinaryExpr
			var idx *ast.IndexExpr
			for _, op := range []ast.Expr{be.X, be.Y} {
				switch o := ast.Unparen(op).(type) {
				case *ast.BinaryExpr:
					if o.Op == token.SHL && core.VarOf(info, o.X) == acc {
						shl = o
					}
				case *ast.IndexExpr:
					idx = o
				}
			}
			if shl == nil || idx == nil {
				return true
			}
			st.node, st.acc = as, acc
			k1, ok1 := l.ConstInt(fi, shl.Y)
			ib, okb := ast.Unparen(idx.Index).(*ast.BinaryExpr)
			k2, ok2 := int64(-1), false
			if okb && ib.Op == token.XOR {
				for _, op := range []ast.Expr{ib.X, ib.Y} {
					e := ast.Unparen(op)
					if call, isCall := e.(*ast.CallExpr); isCall && len(call.Args) == 1 {
						if tv, isT := info.Types[call.Fun]; isT && tv.IsType() {
							if bt, isB := tv.Type.Underlying().(*types.Basic); isB && bt.Kind() == types.Uint8 {
								if sh, isSh := ast.Unparen(call.Args[0]).(*ast.BinaryExpr); isSh && sh.Op == token.SHR && core.VarOf(info, sh.X) == acc {
									k2, ok2 = l.ConstInt(fi, sh.Y)
								}
							}
						}
					}
				}
			}
			tblLen := int64(-1)
			tt := info.TypeOf(idx.X)
			if p, isP := tt.Underlying().(*types.Pointer); isP {
				tt = p.Elem()
			}
			if a, isA := tt.Underlying().(*types.Array); isA {
				tblLen = a.Len()
			}
			switch {
			case !ok1 || k1 != 8:
				st.why = sprintf("accumulator shifted left by %d, expected 8", k1)
			case !ok2 || k2 != 24:
				st.why = sprintf("table index uses accumulator >> %d, expected byte(acc >> 24) ^ input", k2)
			case tblLen != 256:
				st.why = "the lookup table is not a [256]uint32"
			default:
				st.ok, st.why = true, ""
			}
			return true
		})
		return st
	}
	sw, sr := findStep(w), findStep(rd)
	for _, s := range []step{sw, sr} {
		side := "writer"
		if s.fi == rd {
			side = "reader"
		}
		p := c.P.Pos(s.fi.Decl.Pos())
		if s.node != nil {
			p = c.P.Pos(s.node.Pos())
		}
		r.Check(s.ok, "C33.R2", "crc|update-step|"+side, p, "acc = (acc << 8) ^ table[byte(acc >> 24) ^ b]", side+" checksum update: "+s.why)
	}

	// (c) writer: compute over the finished page with the field still zero, store afterwards
	c33WriterOrder(c, l, w, sw.node)
	// (d) reader: zero substituted for exactly the checksum field
	c33ReaderZeroing(c, l, rd, sr.node, sr.acc)
}

func c33WriterOrder(c *Ctx, l *core.Layout, w *core.FuncInfo, update ast.Node) {
	r := c.R
	key := "crc|writer-computes-then-stores"
	pos := c.P.Pos(w.Decl.Pos())
	if update == nil {
		r.Undecided("C33.R2", key, pos, "writer checksum update not found")
		return
	}
	g := c.P.GraphOf(w)
	info := g.Info
	es, buf, ok := c32Buffer(c, l, "C33.R2", "crc|writer-buffer", w, true)
	if !ok {
		return
	}
	un := c32NodeOf(g, update)
	var store *core.LayoutEntry
	for _, e := range es {
		if e.OffKnown && e.Off == 22 && e.Kind == "uint" {
			store = e
		}
	}
	if store == nil || un < 0 {
		r.Fail("C33.R2", key, pos, "the writer does not store a 32-bit checksum at offset 22")
		return
	}
	sn := c32NodeOf(g, store.Node)
	bad := ""
	fromU := g.Reach([]int{un}, nil, nil)
	fromS := g.Reach([]int{sn}, nil, nil)
	// the update loop ranges over the whole page buffer
	whole := false
	ast.Inspect(w.Decl.Body, func(n ast.Node) bool {
		rs, ok := n.(*ast.RangeStmt)
		if !ok || update.Pos() < rs.Body.Pos() || update.End() > rs.Body.End() {
			return true
		}
		if info.ObjectOf(identOf(rs.X)) == buf {
			whole = true
		}
		return true
	})
	switch {
	case !fromU[sn]:
		bad = "the checksum store is not reached after the checksum computation"
	case fromS[un]:
		bad = "the checksum is stored into the page before (or while) it is computed over the page: the stored value enters its own computation"
	case !whole:
		bad = "the checksum loop does not range over the whole page buffer"
	}
	// the stored value is the accumulator
	if bad == "" {
		acc := core.VarOf(info, update.(*ast.AssignStmt).Lhs[0])
		if core.VarOf(info, store.Val) != acc {
			bad = "the value stored at offset 22 is not the computed checksum accumulator"
		}
	}
	// every other write to the page happens before the computation and does not touch [22,26)
	if bad == "" {
		for _, e := range es {
			if e == store {
				continue
			}
			n := c32NodeOf(g, e.Node)
			if n >= 0 && fromU[n] && n != un {
				bad = sprintf("the page is modified at %s after its checksum was computed (%s)", c.P.Pos(e.Pos), e)
			}
			lo := e.OffMin
			if e.OffKnown {
				lo = e.Off
			}
			hi := int64(1 << 40)
			if e.Width >= 0 && e.OffKnown {
				hi = e.Off + e.Width
			}
			if e.OffKnown && e.Width < 0 {
				// variable tail starting at a constant: overlaps only if it starts before the end of the field
				hi = 1 << 40
			}
			if lo < 26 && hi > 22 {
				bad = sprintf("%s at %s overlaps the checksum field [22,26): the checksum is not computed over zeros there", e, c.P.Pos(e.Pos))
			}
		}
	}
	// the buffer starts zeroed: it is a fresh make
	if bad == "" {
		fresh := false
		ast.Inspect(w.Decl.Body, func(n ast.Node) bool {
			as, ok := n.(*ast.AssignStmt)
			if ok && len(as.Lhs) == 1 && info.ObjectOf(identOf(as.Lhs[0])) == buf {
				if call, ok := ast.Unparen(as.Rhs[0]).(*ast.CallExpr); ok {
					if id, ok := ast.Unparen(call.Fun).(*ast.Ident); ok && id.Name == "make" {
						fresh = true
					}
				}
			}
			return true
		})
		if !fresh {
			bad = "the page buffer is not freshly allocated (bytes 22..25 may be non-zero while the checksum is computed)"
		}
	}
	r.Check(bad == "", "C33.R2", key, c.P.Pos(store.Pos), "fresh buffer, all fields written, checksum over the whole page with bytes 22..25 zero, then stored at 22", bad)
}

func c33ReaderZeroing(c *Ctx, l *core.Layout, rd *core.FuncInfo, update ast.Node, acc *types.Var) {
	r := c.R
	key := "crc|reader-zeroes-exactly-the-checksum-field"
	pos := c.P.Pos(rd.Decl.Pos())
	g := c.P.GraphOf(rd)
	info := g.Info
	// the stored checksum the reader compares with
	es, hdrBuf, ok := c32Buffer(c, l, "C33.R2", "crc|reader-buffer", rd, false)
	if !ok {
		return
	}
	var field *core.LayoutEntry
	for _, e := range es {
		if e.Kind == "uint" && e.OffKnown && c32HasSink(l.EntrySinks(e), "cond") {
			field = e
		}
	}
	if field == nil || update == nil {
		r.Undecided("C33.R2", key, pos, "the reader's checksum comparison or update step was not found")
		return
	}
	// the comparison is with the accumulator
	cmpOK := false
	if be, ok := l.Parent(rd, field.Node).(*ast.BinaryExpr); ok && (be.Op == token.NEQ || be.Op == token.EQL) {
		for _, op := range []ast.Expr{be.X, be.Y} {
			if core.VarOf(info, op) == acc && acc != nil {
				cmpOK = true
			}
		}
	}
	// the update closure (if the step lives in a function literal) and how it is invoked
	var upd *types.Var // variable holding the closure
	var lit *ast.FuncLit
	ast.Inspect(rd.Decl.Body, func(n ast.Node) bool {
		if as, ok := n.(*ast.AssignStmt); ok && len(as.Lhs) == 1 && len(as.Rhs) == 1 {
			if fl, ok := as.Rhs[0].(*ast.FuncLit); ok && update.Pos() >= fl.Pos() && update.End() <= fl.End() {
				upd, lit = core.VarOf(info, as.Lhs[0]), fl
			}
		}
		return true
	})
	// the range loop over the header buffer
	var loop *ast.RangeStmt
	ast.Inspect(rd.Decl.Body, func(n ast.Node) bool {
		if rs, ok := n.(*ast.RangeStmt); ok && info.ObjectOf(identOf(rs.X)) == hdrBuf && rs.Key != nil {
			loop = rs
		}
		return true
	})
	if loop == nil || upd == nil || lit == nil || lit.Type.Params.NumFields() != 1 {
		r.Undecided("C33.R2", key, pos, "expected an update closure with one byte parameter invoked from a range loop over the header buffer")
		return
	}
	idxVar := core.VarOf(info, loop.Key)
	// walk one iteration for every index value, recording the update calls
	var head, body int = -1, -1
	for _, nd := range g.Nodes {
		for _, e := range nd.Succs {
			if e.Range == loop && e.Branch == 1 {
				head, body = nd.ID, e.To
			}
		}
	}
	hl, okl := l.KnownLen(rd, loop.X)
	if head < 0 || !okl {
		r.Undecided("C33.R2", key, pos, "cannot locate the header loop in the control-flow graph or the header length")
		return
	}
	bad, undec := "", ""
	lo, hi := field.Off, field.Off+field.Width
	for i := int64(0); i < hl; i++ {
		var calls []string
		ev := &core.Evaluator{P: c.P, Fuel: 300}
		ev.Intercept = func(fr *core.Frame, n ast.Node) bool {
			es, ok := n.(*ast.ExprStmt)
			if !ok {
				return false
			}
			call, ok := es.X.(*ast.CallExpr)
			if !ok || core.VarOf(info, call.Fun) != upd || len(call.Args) != 1 {
				return false
			}
			arg := ast.Unparen(call.Args[0])
			switch {
			case info.Types[arg].Value != nil:
				calls = append(calls, "const:"+info.Types[arg].Value.ExactString())
			default:
				if ix, ok := arg.(*ast.IndexExpr); ok && info.ObjectOf(identOf(ix.X)) == hdrBuf && core.VarOf(info, ix.Index) == idxVar {
					calls = append(calls, "byte")
				} else if v := core.VarOf(info, arg); v != nil && loop.Value != nil && v == core.VarOf(info, loop.Value) {
					// `for index, b := range header`: the loop's value variable is header[index]
					calls = append(calls, "byte")
				} else {
					calls = append(calls, "other:"+exprStr(arg))
				}
			}
			return true
		}
		fr := ev.NewFrame(g)
		fr.Locals[idxVar] = core.EInt(i, types.Typ[types.Int])
		out := fr.Run(body, func(n int) bool { return n == head })
		r.Cells++
		if out.Kind != "stopped" {
			undec = sprintf("index %d: %s %s", i, out.Kind, out.Why)
			break
		}
		want := "byte"
		if i >= lo && i < hi {
			want = "const:0"
		}
		if len(calls) != 1 || calls[0] != want {
			bad = sprintf("header byte %d enters the checksum as %v, expected [%s] (the stored checksum occupies bytes %d..%d)", i, calls, want, lo, hi-1)
			break
		}
	}
	switch {
	case undec != "":
		r.Undecided("C33.R2", key, c.P.Pos(loop.Pos()), "the header loop could not be evaluated: "+undec)
	case !cmpOK:
		r.Fail("C33.R2", key, c.P.Pos(field.Pos), "the decoded checksum field is not compared with the computed accumulator")
	default:
		r.Check(bad == "", "C33.R2", key, c.P.Pos(loop.Pos()), sprintf("%d header bytes: zero for exactly [%d,%d), the byte itself elsewhere; compared with the field decoded @%d/%d %s", hl, lo, hi, field.Off, field.Width, field.Endian), bad)
	}
	// the segment table and the payload enter the checksum completely: range loops over them calling the closure with the element
	n := 0
	ast.Inspect(rd.Decl.Body, func(x ast.Node) bool {
		rs, ok := x.(*ast.RangeStmt)
		if !ok || rs == loop {
			return true
		}
		calls := false
		ast.Inspect(rs.Body, func(y ast.Node) bool {
			if call, ok := y.(*ast.CallExpr); ok && core.VarOf(info, call.Fun) == upd {
				calls = true
			}
			return true
		})
		if calls {
			n++
		}
		return true
	})
	r.Check(n == 2, "C33.R2", "crc|reader-covers-table-and-payload", pos, "segment table and payload both enter the checksum", sprintf("%d loops besides the header loop feed the checksum, expected 2 (segment table, payload)", n))
}

// ---------- R3 ----------

func c33Segments(c *Ctx, l *core.Layout) {
	r := c.R
	prod := c.mustFunc("C33.R3", c33W, "createPagesForSerial")
	sink := c.mustFunc("C33.R3", c33W, "createPageForSerialWithSegments")
	maxSeg := c.mustConst("C33.R3", c33W, "maxOggPageSegments")
	if prod == nil || sink == nil || maxSeg == nil {
		return
	}
	mv, _ := constant.Int64Val(maxSeg.Val())
	r.Check(mv == 255, "C33.R3", "maxOggPageSegments=255", c.P.Pos(maxSeg.Pos()), "255", sprintf("maxOggPageSegments is %d; a page holds at most 255 segments (one count byte)", mv))
	// every call site of the page builder passes nil or the producer's table
	segParam := 2
	for _, s := range l.CallSites(sink.Obj) {
		key := "segment-table-source|in:" + s.Caller.Name()
		pos := c.P.Pos(s.Call.Pos())
		arg := s.Call.Args[segParam]
		info := s.Caller.Pkg.TypesInfo
		switch {
		case core.IsNilIdent(info, arg):
			r.OK("C33.R3", key, pos, "nil table (0 segments)")
		case s.Caller == prod:
			c33ProducerLoop(c, l, prod, core.VarOf(info, arg), mv, key, pos)
		default:
			r.Fail("C33.R3", key, pos, "a segment table from an unchecked source is passed to the page builder; its length is narrowed to a byte without a cap")
		}
	}
}

// c33ProducerLoop: the table variable is only grown by single-element appends inside a loop whose condition is len(table) < K (K <= 255),
// and each appended lacing value is the constant 255 or byte(x) dominated by !(x >= 255).
func c33ProducerLoop(c *Ctx, l *core.Layout, prod *core.FuncInfo, tbl *types.Var, maxSeg int64, key, pos string) {
	r := c.R
	if tbl == nil {
		r.Undecided("C33.R3", key, pos, "the segment table argument is not a variable")
		return
	}
	g := c.P.GraphOf(prod)
	info := g.Info
	rg := core.NewRanges(g, l)
	bad := ""
	appends := 0
	for _, nd := range g.Nodes {
		as, ok := nd.Ast.(*ast.AssignStmt)
		if !ok {
			continue
		}
		for i, lh := range as.Lhs {
			if core.VarOf(info, lh) != tbl {
				continue
			}
			call, isCall := ast.Unparen(as.Rhs[min(i, len(as.Rhs)-1)]).(*ast.CallExpr)
			if !isCall {
				bad = "the segment table is assigned from " + exprStr(as.Rhs[0])
				continue
			}
			id, _ := ast.Unparen(call.Fun).(*ast.Ident)
			switch {
			case id != nil && id.Name == "make":
				if len(call.Args) >= 2 {
					if n, ok := l.ConstInt(prod, call.Args[1]); !ok || n != 0 {
						bad = "the segment table does not start empty"
					}
				}
			case id != nil && id.Name == "append" && len(call.Args) == 2 && core.VarOf(info, call.Args[0]) == tbl:
				appends++
				// len(tbl) < K holds here
				lenIv := rg.At(nd.ID, &ast.CallExpr{Fun: ast.NewIdent("len"), Args: []ast.Expr{call.Args[0]}})
				okLen := false
				for _, a := range g.AtomsAt(nd.ID) {
					lc, isL := ast.Unparen(a.X).(*ast.CallExpr)
					if !isL || len(lc.Args) != 1 || core.VarOf(info, lc.Args[0]) != tbl || a.K == nil {
						continue
					}
					if lid, _ := ast.Unparen(lc.Fun).(*ast.Ident); lid == nil || lid.Name != "len" {
						continue
					}
					k, _ := constant.Int64Val(a.K)
					if (a.Op == token.LSS && k <= maxSeg) || (a.Op == token.LEQ && k < maxSeg) {
						okLen = true
					}
				}
				_ = lenIv
				if !okLen {
					// StableSince rejects the guard when the table itself is appended between the guard and here: allow the loop condition directly
					okLen = c33LoopGuard(g, nd.ID, tbl, maxSeg)
				}
				if !okLen {
					bad = sprintf("the append at %s is not guarded by len(table) < %d", c.P.Pos(as.Pos()), maxSeg)
				}
				// lacing value
				v := ast.Unparen(call.Args[1])
				if tv := info.Types[v]; tv.Value != nil {
					// a constant lacing value is the "segment continues" marker
					if n, _ := constant.Int64Val(tv.Value); n != 255 {
						bad = sprintf("constant lacing value %d (a full segment is marked by 255)", n)
					}
				} else if conv, ok := v.(*ast.CallExpr); ok && len(conv.Args) == 1 {
					iv := rg.At(nd.ID, conv.Args[0])
					// the terminating lacing value must be below 255 (255 means "continued"); non-negativity of the
					// remainder is an invariant of the loop (only decremented when >= 255), not a guard
					if iv.Hi == nil || iv.Hi.Cmp(big.NewInt(254)) > 0 {
						bad = sprintf("terminating lacing value %s ranges over %s: it must stay below 255, the value that marks a continued segment", exprStr(v), iv)
					}
				} else {
					bad = "lacing value " + exprStr(v) + " is neither a constant nor a guarded conversion"
				}
			default:
				bad = "the segment table is modified by " + exprStr(call)
			}
		}
	}
	if appends == 0 && bad == "" {
		bad = "no append to the segment table found"
	}
	r.Cells += appends
	r.Check(bad == "", "C33.R3", key, pos, sprintf("%d guarded single-element appends, lacing values <= 255", appends), bad)
}

// c33LoopGuard: node n is inside a for loop whose condition is len(tbl) < K (K <= maxSeg) and every path from the loop
// condition's true edge to n performs no append to tbl (so at n the table still has fewer than K elements).
func c33LoopGuard(g *core.Graph, n int, tbl *types.Var, maxSeg int64) bool {
	info := g.Info
	for _, f := range g.DominatingFacts(n) {
		for _, a := range core.Atoms(info, f) {
			lc, ok := ast.Unparen(a.X).(*ast.CallExpr)
			if !ok || len(lc.Args) != 1 || core.VarOf(info, lc.Args[0]) != tbl || a.K == nil || a.Op != token.LSS {
				continue
			}
			if k, _ := constant.Int64Val(a.K); k > maxSeg {
				continue
			}
			clean := true
			for x := range g.Between(f.Edge, n) {
				if as, ok := g.Nodes[x].Ast.(*ast.AssignStmt); ok {
					for _, lh := range as.Lhs {
						if core.VarOf(info, lh) == tbl {
							clean = false
						}
					}
				}
			}
			if clean {
				return true
			}
		}
	}
	return false
}

// ---------- R4 ----------

func c33Flags(c *Ctx, l *core.Layout) {
	r := c.R
	fn := c.mustFunc("C33.R4", c33W, "packetPageHeaderType")
	bos := c.mustConst("C33.R4", c33W, "pageHeaderTypeBeginningOfStream")
	eos := c.mustConst("C33.R4", c33W, "pageHeaderTypeEndOfStream")
	cont := c.mustConst("C33.R4", c33W, "pageHeaderTypeContinuationOfPacket")
	if fn == nil || bos == nil || eos == nil || cont == nil {
		return
	}
	bv, _ := constant.Int64Val(bos.Val())
	evv, _ := constant.Int64Val(eos.Val())
	cv, _ := constant.Int64Val(cont.Val())
	r.Check(bv == 2 && evv == 4 && cv == 1, "C33.R4", "flag-constants", c.P.Pos(bos.Pos()), "continuation=1, BOS=2, EOS=4", sprintf("header type flags are continuation=%d BOS=%d EOS=%d; RFC 3533 has 1/2/4", cv, bv, evv))
	pos := c.P.Pos(fn.Decl.Pos())
	bad, undec := "", ""
	for ht := int64(0); ht < 256 && undec == ""; ht++ {
		for _, first := range []bool{true, false} {
			for _, complete := range []bool{true, false} {
				ev := &core.Evaluator{P: c.P, Fuel: 200}
				out := ev.Call(fn, core.EVal{}, []core.EVal{core.EInt(ht, types.Typ[types.Uint8]), core.EBool(first), core.EBool(complete)})
				r.Cells++
				got, ok := int64(-1), false
				if out.Kind == "return" && len(out.Results) == 1 {
					got, ok = out.Results[0].Int64()
				}
				if !ok {
					undec = sprintf("type=%d first=%v complete=%v: %s %s", ht, first, complete, out.Kind, out.Why)
					break
				}
				var want int64
				switch {
				case first && complete:
					want = ht
				case first:
					want = ht &^ evv
				case complete:
					want = cv | ht&evv
				default:
					want = cv
				}
				if got != want && bad == "" {
					bad = sprintf("requested type %#x, first=%v, packet complete=%v: page type %#x, Ogg framing requires %#x", ht, first, complete, got, want)
				}
			}
		}
	}
	if undec != "" {
		r.Undecided("C33.R4", "packetPageHeaderType|table", pos, undec)
	} else {
		r.Check(bad == "", "C33.R4", "packetPageHeaderType|table", pos, "1024 cells match the Ogg framing rules", bad)
	}

	// BOS is passed exactly with the OpusHead payload
	idHdr := c.mustFunc("C33.R4", c33W, "buildIDHeader")
	if idHdr == nil {
		return
	}
	pkg := c.P.Pkg(c33W)
	info := pkg.TypesInfo
	nBOS := 0
	for _, fi := range c.P.AllFuncs() {
		if fi.Pkg != pkg || fi.Decl.Body == nil || fi == fn {
			continue
		}
		ast.Inspect(fi.Decl.Body, func(n ast.Node) bool {
			call, ok := n.(*ast.CallExpr)
			if !ok {
				return true
			}
			hasBOS, hasID := false, false
			for _, a := range call.Args {
				if id, ok := ast.Unparen(a).(*ast.Ident); ok && info.Uses[id] == types.Object(bos) {
					hasBOS = true
				}
				if ac, ok := ast.Unparen(a).(*ast.CallExpr); ok && core.IsCallTo(info, ac, idHdr.Obj) {
					hasID = true
				}
			}
			if hasBOS || hasID {
				nBOS++
				r.Check(hasBOS && hasID, "C33.R4", "bos-with-opus-head|in:"+fi.Name(), c.P.Pos(call.Pos()), "BOS passed together with the OpusHead payload", sprintf("beginning-of-stream flag and OpusHead payload do not travel together (BOS=%v, OpusHead=%v)", hasBOS, hasID))
			}
			return true
		})
		// any other use of the BOS constant
		ast.Inspect(fi.Decl.Body, func(n ast.Node) bool {
			if id, ok := n.(*ast.Ident); ok && info.Uses[id] == types.Object(bos) {
				if _, isArg := l.Parent(fi, id).(*ast.CallExpr); !isArg {
					r.Fail("C33.R4", "bos-use|in:"+fi.Name(), c.P.Pos(id.Pos()), "the beginning-of-stream flag is used outside the OpusHead page call")
				}
			}
			return true
		})
	}
	if nBOS == 0 {
		r.Fail("C33.R4", "bos-with-opus-head|none", "-", "no page is written with the beginning-of-stream flag")
	}
	c33CloseEOS(c, l)
}

// c33CloseEOS: in both Close methods every path from the entry to a return, on which the output was open,
// passes a call that marks end of stream.
func c33CloseEOS(c *Ctx, l *core.Layout) {
	r := c.R
	mark := c.mustFunc("C33.R4", c33W, "markTrackEndOfStream")
	nilEOS := c.mustFunc("C33.R4", c33W, "writeNilEndOfStreamPage")
	if mark == nil || nilEOS == nil {
		return
	}
	for _, name := range []string{"OggWriter.Close", "Writer.Close"} {
		fi := c.mustFunc("C33.R4", c33W, name)
		if fi == nil {
			continue
		}
		g := c.P.GraphOf(fi)
		eosNodes := g.FindNodes(func(n ast.Node) bool {
			return core.IsCallTo(g.Info, n, mark.Obj) || core.IsCallTo(g.Info, n, nilEOS.Obj)
		})
		key := fi.Name() + "|eos-on-every-close-path"
		pos := c.P.Pos(fi.Decl.Pos())
		if len(eosNodes) == 0 {
			r.Fail("C33.R4", key, pos, "Close never marks end of stream")
			continue
		}
		// loops over tracks: a call inside a range body is "passed" when the range statement is passed
		set := core.NodeSet(eosNodes)
		var bad []string
		for _, rn := range g.Returns() {
			// returns taken because the stream is already closed (guarded by stream == nil) are exempt
			exempt := false
			for _, a := range g.AtomsAt(rn) {
				if a.IsNil && a.Op == token.EQL {
					if f := core.FieldOf(g.Info, a.X); f != nil && f.Name() == "stream" {
						exempt = true
					}
				}
			}
			if exempt {
				continue
			}
			reach := g.ReachFromEntry(func(n int) bool { return set[n] }, nil)
			if reach[rn] {
				// reachable without passing an EOS call; tolerate paths that only skip the loop body because there are no tracks
				if c33OnlyViaEmptyLoop(g, rn, set) {
					continue
				}
				bad = append(bad, c.P.Pos(g.PosOf(rn)))
			}
		}
		r.Check(len(bad) == 0, "C33.R4", key, pos, sprintf("%d EOS call(s); every return of an open writer passes one", len(eosNodes)),
			"Close returns without marking end of stream on the path(s) ending at "+strings.Join(bad, ", ")+": the last page of the logical stream carries no EOS flag")
	}
}

// c33OnlyViaEmptyLoop reports whether every EOS-free path to rn skips an EOS call only by taking the "done" edge of a
// range loop whose body contains the EOS call (zero tracks).
func c33OnlyViaEmptyLoop(g *core.Graph, rn int, eos map[int]bool) bool {
	// forbid the done-edges of range loops that contain an EOS node in their body; if rn becomes unreachable, the only EOS-free paths were empty loops
	inBody := func(rs *ast.RangeStmt) bool {
		for n := range eos {
			a := g.Nodes[n].Ast
			if a != nil && a.Pos() >= rs.Body.Pos() && a.End() <= rs.Body.End() {
				return true
			}
		}
		return false
	}
	reach := g.ReachFromEntry(func(n int) bool { return eos[n] }, func(from, idx int, e core.Edge) bool {
		return e.Range != nil && e.Branch == 2 && inBody(e.Range)
	})
	return !reach[rn]
}
