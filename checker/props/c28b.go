package props

import (
	"go/ast"
	"go/token"
	"go/types"
	"sort"
	"strings"

	"verif/checker/core"
)

// c28R7: every sample is accounted for. WriteSample may return without handing the sample's duration (and reported
// drops) to the packetizer only because the track is not bound yet (the stored packetizer is nil): every path from the
// entry to a return passes the Packetize call or the edge that establishes exactly `packetizer == nil`. A sample skipped
// for any other reason (e.g. empty payload) would make every later timestamp fall short of initial + total duration.
//
// c28R8: the sequencer WriteSample advances for dropped packets is the one inside the packetizer. Bind stores a sequencer
// only on a path that goes on to build the packetizer from it: every path from a store of the sequencer field to a
// successful return of Bind passes a store of the packetizer field (a second Bind, which keeps the first packetizer,
// must not replace the sequencer).
func c28R78(c *Ctx, ws, bind *core.FuncInfo, fSeq, fPkt *types.Var, mPacketize *types.Func) {
	r := c.R
	// ---- R7
	{
		const rule = "C28.R7"
		g := c.P.GraphOf(ws)
		info := g.Info
		pos := c.P.Pos(ws.Decl.Pos())
		// locals sampled from the packetizer field
		pktVars := map[*types.Var]bool{}
		for _, n := range g.Nodes {
			as, ok := n.Ast.(*ast.AssignStmt)
			if !ok || len(as.Lhs) != len(as.Rhs) {
				continue
			}
			for i, rh := range as.Rhs {
				if core.FieldOf(info, rh) == fPkt {
					if v := core.VarOf(info, as.Lhs[i]); v != nil {
						pktVars[v] = true
					}
				}
			}
		}
		isPkt := func(e ast.Expr) bool { return pktVars[core.VarOf(info, e)] || core.FieldOf(info, e) == fPkt }
		nilEdge := func(e core.Edge) bool { // exactly `packetizer == nil` holds on this edge
			if e.Cond == nil || e.Tag != nil || e.Branch == 0 {
				return false
			}
			b, ok := ast.Unparen(e.Cond).(*ast.BinaryExpr)
			if !ok || (b.Op != token.EQL && b.Op != token.NEQ) || (e.Branch == 1) != (b.Op == token.EQL) {
				return false
			}
			return isPkt(b.X) && core.IsNilIdent(info, b.Y) || isPkt(b.Y) && core.IsNilIdent(info, b.X)
		}
		var pk []int
		for _, n := range g.Nodes {
			if n.Ast == nil {
				continue
			}
			core.InspectShallow(n.Ast, func(x ast.Node) bool {
				if call, ok := x.(*ast.CallExpr); ok {
					if sel, ok := ast.Unparen(call.Fun).(*ast.SelectorExpr); ok {
						if s := info.Selections[sel]; s != nil && s.Obj() == types.Object(mPacketize) {
							pk = append(pk, n.ID)
						}
					}
				}
				return true
			})
		}
		if len(pk) == 0 {
			r.Undecided(rule, "WriteSample|every-sample-reaches-Packetize", pos, "no Packetize call found in WriteSample's own body")
		} else {
			isPk := core.NodeSet(pk)
			reach := g.ReachFromEntry(func(x int) bool { return isPk[x] }, func(from, idx int, e core.Edge) bool { return nilEdge(e) })
			var bad []string
			for x := range reach {
				if _, ok := g.Nodes[x].Ast.(*ast.ReturnStmt); ok {
					bad = append(bad, c.P.Pos(g.PosOf(x)))
				}
			}
			if reach[g.Exit] && len(bad) == 0 {
				bad = append(bad, "end of function")
			}
			sort.Strings(bad)
			r.Cells++
			r.Check(len(bad) == 0, rule, "WriteSample|every-sample-reaches-Packetize", pos, "WriteSample returns before Packetize only when the stored packetizer is nil (track not bound)",
				"WriteSample can return (at "+strings.Join(bad, ", ")+") without handing the sample to Packetize although the track is bound: the sample's duration and reported drops vanish from the timeline, so every later timestamp falls short of initial + total duration")
		}
	}
	// ---- R8
	{
		const rule = "C28.R8"
		g := c.P.GraphOf(bind)
		info := g.Info
		var seqStores, pktStores []int
		for _, n := range g.Nodes {
			as, ok := n.Ast.(*ast.AssignStmt)
			if !ok {
				continue
			}
			for _, l := range as.Lhs {
				switch core.FieldOf(info, l) {
				case fSeq:
					seqStores = append(seqStores, n.ID)
				case fPkt:
					pktStores = append(pktStores, n.ID)
				}
			}
		}
		isPktStore := core.NodeSet(pktStores)
		for i, sn := range seqStores {
			reach := g.Reach([]int{sn}, func(x int) bool { return isPktStore[x] }, nil)
			var bad []string
			for x := range reach {
				if ret, ok := g.Nodes[x].Ast.(*ast.ReturnStmt); ok {
					if mf, _ := g.ReturnMayFail(ret, nil); !mf {
						bad = append(bad, c.P.Pos(ret.Pos()))
					}
				}
			}
			sort.Strings(bad)
			r.Cells++
			r.Check(len(bad) == 0, rule, sprintf("Bind|sequencer-store#%d|followed-by-packetizer-construction", i+1), c.P.Pos(g.PosOf(sn)), "the sequencer is stored only on the path that builds the packetizer from it",
				"Bind can store a new sequencer and return successfully (at "+strings.Join(bad, ", ")+") without building a packetizer from it: a later Bind replaces the sequencer WriteSample advances for dropped packets while the existing packetizer keeps numbering from the old one, so reported drops no longer skip sequence numbers")
		}
		if len(seqStores) == 0 {
			r.Undecided(rule, "Bind|sequencer-store", c.P.Pos(bind.Decl.Pos()), "Bind no longer stores the sequencer field directly")
		}
	}
}

// c28R9: "a sample reporting N previously dropped packets first skips N sequence numbers": the skip belongs to THAT sample
// only if no other sample's packets are numbered in between, i.e. the NextSequenceNumber loop, SkipSamples and Packetize of
// one WriteSample run in one critical section of the track's sample mutex.
//
// c28R10: the timeline lives in the packetizer (timestamp, sequencer): TrackLocalStaticSample.packetizer is written only
// in Bind, and only with a non-nil value; nothing resets it (an Unbind that drops it makes the next Bind start a new
// timeline while the remainder and the drift accounting go on).
func c28R910(c *Ctx, ws, bind *core.FuncInfo, fPkt *types.Var, mPacketize, mNext *types.Func) {
	r := c.R
	{
		const rule = "C28.R9"
		g := c.P.GraphOf(ws)
		info := g.Info
		pos := c.P.Pos(ws.Decl.Pos())
		var pk, nx []int
		for _, n := range g.Nodes {
			if n.Ast == nil {
				continue
			}
			core.InspectShallow(n.Ast, func(x ast.Node) bool {
				call, ok := x.(*ast.CallExpr)
				if !ok {
					return true
				}
				if sel, ok := ast.Unparen(call.Fun).(*ast.SelectorExpr); ok {
					if s := info.Selections[sel]; s != nil {
						switch s.Obj() {
						case types.Object(mPacketize):
							pk = append(pk, n.ID)
						case types.Object(mNext):
							nx = append(nx, n.ID)
						}
					}
				}
				return true
			})
		}
		if len(pk) != 1 || len(nx) == 0 {
			r.Undecided(rule, "WriteSample|skip-and-packetize-atomic", pos, sprintf("expected one Packetize call and the NextSequenceNumber skip in WriteSample's own body, found %d / %d", len(pk), len(nx)))
		} else {
			li := core.Locks(g)
			inst := ""
			for in := range li.In[pk[0]] {
				inst = in
			}
			ok, why := inst != "", "Packetize runs without a lock held"
			if inst != "" {
				for _, n := range nx {
					if o, w := c24SameRegion(g, li, n, pk[0], inst); !o {
						ok, why = false, w
					}
				}
			}
			r.Cells++
			r.Check(ok, rule, "WriteSample|skip-and-packetize-atomic", c.P.Pos(g.PosOf(nx[0])), "the sequence-number skip and Packetize share one critical section of "+inst,
				"the NextSequenceNumber skip for reported drops and the Packetize call of the same sample are not in one critical section ("+why+"): with two writers the gap lands in front of another sample's packets and the sample that reported the loss follows without a gap")
		}
	}
	{
		const rule = "C28.R10"
		n := 0
		for _, fi := range c.P.AllFuncs() {
			if fi.Decl == nil || fi.Decl.Body == nil || fi.Pkg != ws.Pkg {
				continue
			}
			info := fi.Pkg.TypesInfo
			ast.Inspect(fi.Decl.Body, func(x ast.Node) bool {
				as, ok := x.(*ast.AssignStmt)
				if !ok || len(as.Lhs) != len(as.Rhs) {
					return true
				}
				for i, l := range as.Lhs {
					if core.FieldOf(info, l) != fPkt {
						continue
					}
					n++
					inBind := fi == bind
					isNil := core.IsNilIdent(info, as.Rhs[i])
					r.Check(inBind && !isNil, rule, sprintf("%s|packetizer-write#%d", fi.Name(), n), c.P.Pos(as.Pos()), "the packetizer is installed in Bind",
						"TrackLocalStaticSample.packetizer is written outside Bind or reset to nil: the next Bind builds a new packetizer, so timestamps (and a configured sequence number) restart instead of continuing at initial + total duration")
				}
				return true
			})
		}
		if n == 0 {
			r.Undecided(rule, "packetizer-writes", "-", "no write of TrackLocalStaticSample.packetizer found")
		}
	}
}
