package props

import (
	"go/ast"
	"go/token"
	"go/types"
	"strings"

	"verif/checker/core"
)

// c09R5: before CreateOffer hands out a fresh mid (greaterMid+1) the counter has been raised
// over EVERY mid that already exists: each iteration of the loops that scan the current remote
// description's sections and the existing transceivers either accounts for the element
// (passes the `x > pc.greaterMid` comparison that guards the raise, or the `pc.greaterMid++`
// allocation) or skips it for one of the two legitimate reasons: the element has no mid, or
// its mid is not numeric (strconv.Atoi failed). Any other way around the raise lets a later
// fresh mid collide with a mid that appeared in an earlier description.
// (Added after seed C09-m1: the remote-description scan skipped non-application sections.)
func c09R5(c *Ctx, rule string) {
	r := c.R
	fi := c.mustFunc(rule, "", "PeerConnection.CreateOffer")
	fGM := c.mustField(rule, "", "PeerConnection", "greaterMid")
	if fi == nil || fGM == nil {
		return
	}
	// the scans may live in CreateOffer itself or in same-package helpers it calls (depth 2)
	graphs := []*core.Graph{c.P.GraphOf(fi)}
	{
		seen := map[*core.FuncInfo]bool{fi: true}
		frontier := []*core.FuncInfo{fi}
		for depth := 0; depth < 2; depth++ {
			var next []*core.FuncInfo
			for _, f := range frontier {
				ast.Inspect(f.Decl.Body, func(x ast.Node) bool {
					if call, ok := x.(*ast.CallExpr); ok {
						if fn := core.Callee(f.Pkg.TypesInfo, call); fn != nil {
							if d := c.P.DeclOf(fn); d != nil && d.Pkg == fi.Pkg && d.Decl.Body != nil && !seen[d] {
								seen[d] = true
								writes := false
								ast.Inspect(d.Decl.Body, func(y ast.Node) bool {
									if as, ok := y.(*ast.AssignStmt); ok {
										for _, l := range as.Lhs {
											if core.FieldOf(d.Pkg.TypesInfo, l) == fGM {
												writes = true
											}
										}
									}
									return true
								})
								if writes {
									graphs = append(graphs, c.P.GraphOf(d))
								}
								next = append(next, d)
							}
						}
					}
					return true
				})
			}
			frontier = next
		}
	}
	n := 0
	for _, g := range graphs {
		n += c09R5Graph(c, rule, g, fGM)
	}
	if n < 2 {
		r.Fail(rule, "CreateOffer|scans", c.P.Pos(fi.Decl.Pos()), sprintf("expected the scans over the current remote description's sections and over the transceivers, found %d loop(s) that raise greaterMid", n))
	}
}

func c09R5Graph(c *Ctx, rule string, g *core.Graph, fGM *types.Var) int {
	r := c.R
	info := g.Info
	mentionsGM := func(n ast.Node) bool {
		found := false
		ast.Inspect(n, func(x ast.Node) bool {
			if se, ok := x.(*ast.SelectorExpr); ok && core.FieldOf(info, se) == fGM {
				found = true
			}
			return !found
		})
		return found
	}
	errT := types.Universe.Lookup("error").Type()
	n := 0
	for _, l := range c06RangeLoops(g) {
		// loops that raise the counter
		raises := false
		for id := range l.Body {
			if as, ok := g.Nodes[id].Ast.(*ast.AssignStmt); ok {
				for _, lhs := range as.Lhs {
					if core.FieldOf(info, lhs) == fGM {
						raises = true
					}
				}
			}
		}
		if !raises {
			continue
		}
		n++
		// accounting nodes: the comparison guarding the raise, and the ++ allocation
		account := map[int]bool{}
		for id := range l.Body {
			nd := g.Nodes[id]
			if nd.Ast == nil {
				continue
			}
			if e, ok := nd.Ast.(ast.Expr); ok && len(nd.Succs) == 2 && mentionsGM(e) {
				account[id] = true
			}
			if inc, ok := nd.Ast.(*ast.IncDecStmt); ok && inc.Tok == token.INC && core.FieldOf(info, inc.X) == fGM {
				account[id] = true
			}
		}
		// legitimate skips
		skip := map[core.EdgeRef]bool{}
		for id := range l.Body {
			for i, e := range g.Nodes[id].Succs {
				for _, f := range c06EdgeFacts(e) {
					be, ok := ast.Unparen(f.Expr).(*ast.BinaryExpr)
					if !ok || (be.Op != token.EQL && be.Op != token.NEQ) {
						continue
					}
					isEq := (be.Op == token.EQL) == f.Truth
					// s == ""  (no mid)
					for _, pr := range [][2]ast.Expr{{be.X, be.Y}, {be.Y, be.X}} {
						if s, ok := c06ConstString(info, pr[1]); ok && s == "" && isEq {
							if t := info.TypeOf(pr[0]); t != nil {
								if b, ok := t.Underlying().(*types.Basic); ok && b.Info()&types.IsString != 0 {
									skip[core.EdgeRef{From: id, Idx: i}] = true
								}
							}
						}
						// err != nil (mid not numeric): err is the error result of strconv.Atoi
						if core.IsNilIdent(info, pr[1]) && !isEq {
							if v := core.VarOf(info, pr[0]); v != nil && types.Identical(v.Type(), errT) {
								okAtoi := false
								for _, d := range c06Defs(g, id, v) {
									if call, ok := ast.Unparen(d.Rhs).(*ast.CallExpr); ok && c06ExtFunc(info, call, "strconv", "Atoi") {
										okAtoi = true
									} else {
										okAtoi = false
										break
									}
								}
								if okAtoi {
									skip[core.EdgeRef{From: id, Idx: i}] = true
								}
							}
						}
					}
				}
			}
		}
		reach := g.Reach([]int{l.BodyEntry}, func(x int) bool { return account[x] || !l.Body[x] },
			func(from, idx int, e core.Edge) bool { return skip[core.EdgeRef{From: from, Idx: idx}] })
		bad := ""
		for _, b := range l.backNodes() {
			if reach[b] && !account[b] {
				bad = sprintf("an iteration can reach the next one (via %s) without comparing the element's mid with greaterMid and without one of the two legitimate skips (no mid / non-numeric mid)", c.P.Pos(g.PosOf(b)))
			}
		}
		if len(account) == 0 {
			bad = "the loop writes greaterMid but no comparison against it was found"
		}
		// the scan visits every element: the loop is left early only by a failing return
		for _, e := range l.exits() {
			if e.From == l.Head || !l.Body[e.From] {
				continue
			}
			from := g.Nodes[e.From]
			if from.Succs[e.Idx].To == g.Panic {
				continue
			}
			if ret, isRet := from.Ast.(*ast.ReturnStmt); isRet {
				if mf, _ := g.ReturnMayFail(ret, nil); mf {
					continue
				}
			}
			bad = sprintf("the scan can be left before its last element (at %s): the mids of the remaining elements never raise the counter", c.P.Pos(g.PosOf(e.From)))
		}
		key := "CreateOffer|scan:" + c06Canon(g, l.Head, l.Range.X)
		r.Check(bad == "", rule, key, c.P.Pos(l.Range.Pos()), "every element with a numeric mid raises the counter before a fresh mid is handed out", bad+": a fresh mid handed out later can equal a mid that already appeared in an earlier description")
	}
	return n
}

// c09R6: a data-section mid computed from the number of sections so far is evaluated where the
// section is appended, i.e. after every other section of the description has been appended.
// (The len-based mid is itself the recorded finding C06.R1/C09.R4; this rule keeps it from
// getting worse: seed C09-m2 hoisted the computation in front of the unmatched transceivers'
// sections, so the data section took the mid a new transceiver had just been given.)
func c09R6(c *Ctx, rule string) {
	r := c.R
	env := c06Anchors(c, rule)
	if env == nil {
		return
	}
	n := 0
	for _, fname := range []string{"PeerConnection.generateMatchedSDP", "PeerConnection.generateUnmatchedSDP"} {
		fi := c.mustFunc(rule, "", fname)
		if fi == nil {
			continue
		}
		g := c.P.GraphOf(fi)
		info := g.Info
		for _, s := range c06Sections(env, fi) {
			if !s.isData() || s.AppendTo == nil || s.Node < 0 {
				continue
			}
			id := s.Fields["id"]
			v := core.VarOf(info, id)
			if v == nil {
				continue // evaluated in place: nothing can be appended in between
			}
			for _, d := range c06Defs(g, s.Node, v) {
				// does the definition depend on len(list)?
				usesLen := false
				if d.Rhs != nil {
					ast.Inspect(d.Rhs, func(x ast.Node) bool {
						if call, ok := x.(*ast.CallExpr); ok && c06IsBuiltin(info, call, "len") && len(call.Args) == 1 && core.VarOf(info, call.Args[0]) == s.AppendTo {
							usesLen = true
						}
						return true
					})
				}
				if !usesLen {
					continue
				}
				n++
				// an append to the list between the definition and the data append
				from := g.Reach([]int{d.Node}, nil, nil)
				bad := ""
				for _, nd := range g.Nodes {
					if nd.ID == s.Node || nd.ID == d.Node || !from[nd.ID] || nd.Ast == nil {
						continue
					}
					if l, _, ok := c06TailAppend(info, nd.Ast); ok && l == s.AppendTo {
						if g.Reach([]int{nd.ID}, nil, nil)[s.Node] {
							bad = "sections are appended (at " + c.P.Pos(g.PosOf(nd.ID)) + ") between the computation of the data section's mid from len(" + s.AppendTo.Name() + ") and its own append: the data section takes a mid that one of those sections already carries"
						}
					}
				}
				r.Check(bad == "", rule, fi.Name()+"|data-mid|computed-at-append", c.P.Pos(g.PosOf(d.Node)), "len-based data mid is computed after all other sections were appended", bad)
			}
		}
	}
	if n == 0 {
		r.OK(rule, "data-mid|computed-in-place", "-", "the data section's id expression is evaluated in the append itself")
	}
}

// c09R8: "in every later offer or answer its m-section keeps the same position; new transceivers are appended after
// existing sections". generateMatchedSDP consumes the local transceiver list with findByMid / satisfyTypeAndDirection and
// appends what is LEFT, in list order, as the unmatched sections: the helpers must hand back the remaining list in its
// original order. Every return of these two helpers gives, as the remaining list, the list parameter itself or
// append(l[:i], l[i+1:]...) of it, and neither writes an element of the list (a swap-with-last removal reorders the
// remainder, so an m-section moves between successive offers).
func c09R8(c *Ctx, rule string) {
	r := c.R
	for _, name := range []string{"findByMid", "satisfyTypeAndDirection"} {
		fi := c.mustFunc(rule, "", name)
		if fi == nil {
			continue
		}
		info := fi.Pkg.TypesInfo
		sig := fi.Obj.Type().(*types.Signature)
		var list *types.Var
		for i := 0; i < sig.Params().Len(); i++ {
			if _, ok := sig.Params().At(i).Type().Underlying().(*types.Slice); ok {
				list = sig.Params().At(i)
			}
		}
		key := name + "|remaining-list-keeps-its-order"
		pos := c.P.Pos(fi.Decl.Pos())
		if list == nil || sig.Results().Len() != 2 {
			r.Undecided(rule, key, pos, "expected (element, remaining list) results and a slice parameter")
			continue
		}
		var bad []string
		ast.Inspect(fi.Decl.Body, func(x ast.Node) bool {
			switch s := x.(type) {
			case *ast.AssignStmt:
				for _, l := range s.Lhs {
					if ix, ok := ast.Unparen(l).(*ast.IndexExpr); ok && core.VarOf(info, ix.X) == list {
						bad = append(bad, "an element of the list is overwritten at "+c.P.Pos(s.Pos()))
					}
					if core.VarOf(info, l) == list {
						bad = append(bad, "the list parameter is reassigned at "+c.P.Pos(s.Pos()))
					}
				}
			case *ast.ReturnStmt:
				if len(s.Results) != 2 {
					return true
				}
				e := ast.Unparen(s.Results[1])
				if core.VarOf(info, e) == list {
					return true
				}
				ok := false
				if call, isCall := e.(*ast.CallExpr); isCall && len(call.Args) == 2 && call.Ellipsis.IsValid() {
					if id, isID := call.Fun.(*ast.Ident); isID && id.Name == "append" {
						a, aok := ast.Unparen(call.Args[0]).(*ast.SliceExpr)
						b, bok := ast.Unparen(call.Args[1]).(*ast.SliceExpr)
						if aok && bok && core.VarOf(info, a.X) == list && core.VarOf(info, b.X) == list && a.Low == nil && a.High != nil && b.High == nil && b.Low != nil {
							iv := core.VarOf(info, a.High)
							if be, isBin := ast.Unparen(b.Low).(*ast.BinaryExpr); isBin && be.Op == token.ADD && iv != nil && core.VarOf(info, be.X) == iv {
								if tv, has := info.Types[be.Y]; has && tv.Value != nil && tv.Value.ExactString() == "1" {
									ok = true
								}
							}
						}
					}
				}
				if !ok {
					bad = append(bad, "the remaining list returned at "+c.P.Pos(s.Pos())+" is `"+exprStr(e)+"`, not the list itself or append(l[:i], l[i+1:]...)")
				}
			}
			return true
		})
		r.Cells++
		r.Check(len(bad) == 0, rule, key, pos, "the remaining list is the parameter or an order-preserving removal of one element",
			strings.Join(bad, "; ")+": generateMatchedSDP appends the remaining transceivers in list order, so a reordered remainder moves an m-section to another position between successive offers")
	}
}
