package props

import (
	"go/ast"
	"go/token"
	"go/types"

	"verif/checker/core"
)

// c09R5: before CreateOffer hands out a fresh mid (greaterMid+1) the counter has been raised
// over EVERY mid that already exists: each iteration of the loops that scan the current remote
// description's sections and the existing transceivers either accounts for the element
// (passes the `x > pc.greaterMid` comparison that guards the raise, or the `pc.greaterMid++`
// allocation) or skips it for one of the two legitimate reasons: the element has no mid, or
// its mid is not numeric (strconv.Atoi failed). Any other way around the raise lets a later
// fresh mid collide with a mid that appeared in an earlier description.
// (Added after seed C09-m1: the remote-description scan skipped non-application sections.)
func c09R5(c *Ctx, rule string) {
	r := c.R
	fi := c.mustFunc(rule, "", "PeerConnection.CreateOffer")
	fGM := c.mustField(rule, "", "PeerConnection", "greaterMid")
	if fi == nil || fGM == nil {
		return
	}
	// the scans may live in CreateOffer itself or in same-package helpers it calls (depth 2)
	graphs := []*core.Graph{c.P.GraphOf(fi)}
	{
		seen := map[*core.FuncInfo]bool{fi: true}
		frontier := []*core.FuncInfo{fi}
		for depth := 0; depth < 2; depth++ {
			var next []*core.FuncInfo
			for _, f := range frontier {
				ast.Inspect(f.Decl.Body, func(x ast.Node) bool {
					if call, ok := x.(*ast.CallExpr); ok {
						if fn := core.Callee(f.Pkg.TypesInfo, call); fn != nil {
							if d := c.P.DeclOf(fn); d != nil && d.Pkg == fi.Pkg && d.Decl.Body != nil && !seen[d] {
								seen[d] = true
								writes := false
								ast.Inspect(d.Decl.Body, func(y ast.Node) bool {
									if as, ok := y.(*ast.AssignStmt); ok {
										for _, l := range as.Lhs {
											if core.FieldOf(d.Pkg.TypesInfo, l) == fGM {
												writes = true
											}
										}
									}
									return true
								})
								if writes {
									graphs = append(graphs, c.P.GraphOf(d))
								}
								next = append(next, d)
							}
						}
					}
					return true
				})
			}
			frontier = next
		}
	}
	n := 0
	for _, g := range graphs {
		n += c09R5Graph(c, rule, g, fGM)
	}
	if n < 2 {
		r.Fail(rule, "CreateOffer|scans", c.P.Pos(fi.Decl.Pos()), sprintf("expected the scans over the current remote description's sections and over the transceivers, found %d loop(s) that raise greaterMid", n))
	}
}

func c09R5Graph(c *Ctx, rule string, g *core.Graph, fGM *types.Var) int {
	r := c.R
	info := g.Info
	mentionsGM := func(n ast.Node) bool {
		found := false
		ast.Inspect(n, func(x ast.Node) bool {
			if se, ok := x.(*ast.SelectorExpr); ok && core.FieldOf(info, se) == fGM {
				found = true
			}
			return !found
		})
		return found
	}
	errT := types.Universe.Lookup("error").Type()
	n := 0
	for _, l := range c06RangeLoops(g) {
		// loops that raise the counter
		raises := false
		for id := range l.Body {
			if as, ok := g.Nodes[id].Ast.(*ast.AssignStmt); ok {
				for _, lhs := range as.Lhs {
					if core.FieldOf(info, lhs) == fGM {
						raises = true
					}
				}
			}
		}
		if !raises {
			continue
		}
		n++
		// accounting nodes: the comparison guarding the raise, and the ++ allocation
		account := map[int]bool{}
		for id := range l.Body {
			nd := g.Nodes[id]
			if nd.Ast == nil {
				continue
			}
			if e, ok := nd.Ast.(ast.Expr); ok && len(nd.Succs) == 2 && mentionsGM(e) {
				account[id] = true
			}
			if inc, ok := nd.Ast.(*ast.IncDecStmt); ok && inc.Tok == token.INC && core.FieldOf(info, inc.X) == fGM {
				account[id] = true
			}
		}
		// legitimate skips
		skip := map[core.EdgeRef]bool{}
		for id := range l.Body {
			for i, e := range g.Nodes[id].Succs {
				for _, f := range c06EdgeFacts(e) {
					be, ok := ast.Unparen(f.Expr).(*ast.BinaryExpr)
					if !ok || (be.Op != token.EQL && be.Op != token.NEQ) {
						continue
					}
					isEq := (be.Op == token.EQL) == f.Truth
					// s == ""  (no mid)
					for _, pr := range [][2]ast.Expr{{be.X, be.Y}, {be.Y, be.X}} {
						if s, ok := c06ConstString(info, pr[1]); ok && s == "" && isEq {
							if t := info.TypeOf(pr[0]); t != nil {
								if b, ok := t.Underlying().(*types.Basic); ok && b.Info()&types.IsString != 0 {
									skip[core.EdgeRef{From: id, Idx: i}] = true
								}
							}
						}
						// err != nil (mid not numeric): err is the error result of strconv.Atoi
						if core.IsNilIdent(info, pr[1]) && !isEq {
							if v := core.VarOf(info, pr[0]); v != nil && types.Identical(v.Type(), errT) {
								okAtoi := false
								for _, d := range c06Defs(g, id, v) {
									if call, ok := ast.Unparen(d.Rhs).(*ast.CallExpr); ok && c06ExtFunc(info, call, "strconv", "Atoi") {
										okAtoi = true
									} else {
										okAtoi = false
										break
									}
								}
								if okAtoi {
									skip[core.EdgeRef{From: id, Idx: i}] = true
								}
							}
						}
					}
				}
			}
		}
		reach := g.Reach([]int{l.BodyEntry}, func(x int) bool { return account[x] || !l.Body[x] },
			func(from, idx int, e core.Edge) bool { return skip[core.EdgeRef{From: from, Idx: idx}] })
		bad := ""
		for _, b := range l.backNodes() {
			if reach[b] && !account[b] {
				bad = sprintf("an iteration can reach the next one (via %s) without comparing the element's mid with greaterMid and without one of the two legitimate skips (no mid / non-numeric mid)", c.P.Pos(g.PosOf(b)))
			}
		}
		if len(account) == 0 {
			bad = "the loop writes greaterMid but no comparison against it was found"
		}
		// the scan visits every element: the loop is left early only by a failing return
		for _, e := range l.exits() {
			if e.From == l.Head || !l.Body[e.From] {
				continue
			}
			from := g.Nodes[e.From]
			if from.Succs[e.Idx].To == g.Panic {
				continue
			}
			if ret, isRet := from.Ast.(*ast.ReturnStmt); isRet {
				if mf, _ := g.ReturnMayFail(ret, nil); mf {
					continue
				}
			}
			bad = sprintf("the scan can be left before its last element (at %s): the mids of the remaining elements never raise the counter", c.P.Pos(g.PosOf(e.From)))
		}
		key := "CreateOffer|scan:" + c06Canon(g, l.Head, l.Range.X)
		r.Check(bad == "", rule, key, c.P.Pos(l.Range.Pos()), "every element with a numeric mid raises the counter before a fresh mid is handed out", bad+": a fresh mid handed out later can equal a mid that already appeared in an earlier description")
	}
	return n
}

// c09R6: a data-section mid computed from the number of sections so far is evaluated where the
// section is appended, i.e. after every other section of the description has been appended.
// (The len-based mid is itself the recorded finding C06.R1/C09.R4; this rule keeps it from
// getting worse: seed C09-m2 hoisted the computation in front of the unmatched transceivers'
// sections, so the data section took the mid a new transceiver had just been given.)
func c09R6(c *Ctx, rule string) {
	r := c.R
	env := c06Anchors(c, rule)
	if env == nil {
		return
	}
	n := 0
	for _, fname := range []string{"PeerConnection.generateMatchedSDP", "PeerConnection.generateUnmatchedSDP"} {
		fi := c.mustFunc(rule, "", fname)
		if fi == nil {
			continue
		}
		g := c.P.GraphOf(fi)
		info := g.Info
		for _, s := range c06Sections(env, fi) {
			if !s.isData() || s.AppendTo == nil || s.Node < 0 {
				continue
			}
			id := s.Fields["id"]
			v := core.VarOf(info, id)
			if v == nil {
				continue // evaluated in place: nothing can be appended in between
			}
			for _, d := range c06Defs(g, s.Node, v) {
				// does the definition depend on len(list)?
				usesLen := false
				if d.Rhs != nil {
					ast.Inspect(d.Rhs, func(x ast.Node) bool {
						if call, ok := x.(*ast.CallExpr); ok && c06IsBuiltin(info, call, "len") && len(call.Args) == 1 && core.VarOf(info, call.Args[0]) == s.AppendTo {
							usesLen = true
						}
						return true
					})
				}
				if !usesLen {
					continue
				}
				n++
				// an append to the list between the definition and the data append
				from := g.Reach([]int{d.Node}, nil, nil)
				bad := ""
				for _, nd := range g.Nodes {
					if nd.ID == s.Node || nd.ID == d.Node || !from[nd.ID] || nd.Ast == nil {
						continue
					}
					if l, _, ok := c06TailAppend(info, nd.Ast); ok && l == s.AppendTo {
						if g.Reach([]int{nd.ID}, nil, nil)[s.Node] {
							bad = "sections are appended (at " + c.P.Pos(g.PosOf(nd.ID)) + ") between the computation of the data section's mid from len(" + s.AppendTo.Name() + ") and its own append: the data section takes a mid that one of those sections already carries"
						}
					}
				}
				r.Check(bad == "", rule, fi.Name()+"|data-mid|computed-at-append", c.P.Pos(g.PosOf(d.Node)), "len-based data mid is computed after all other sections were appended", bad)
			}
		}
	}
	if n == 0 {
		r.OK(rule, "data-mid|computed-in-place", "-", "the data section's id expression is evaluated in the append itself")
	}
}
