package props

import (
	"go/ast"
	"go/token"
	"go/types"

	"verif/checker/core"
)

// c16R5: an RTX codec enters a remote-created transceiver's preference list only when the remote
// section itself offered RTX for that primary AND the media engine has an RTX codec for it: the append is
// dominated by `x != 0` for EVERY findRTXPayloadType result computed in that iteration. (Added after seed
// C16-m1: the two guards were merged into `remoteRTX == 0 && mediaEngineRTX == 0`, so an RTX learned from
// another m-section was answered in a section that never listed it.)
func c16R5(c *Ctx, rule string) {
	r := c.R
	fi := c.mustFunc(rule, "", "RTPTransceiver.setCodecPreferencesFromRemoteDescription")
	find := c.mustFunc(rule, "", "findRTXPayloadType")
	if fi == nil || find == nil {
		return
	}
	g := c.P.GraphOf(fi)
	info := g.Info
	pos := c.P.Pos(fi.Decl.Pos())
	n := 0
	for _, l := range c06RangeLoops(g) {
		// RTX results defined in this loop body
		var rtxVars []*types.Var
		for id := range l.Body {
			as, ok := g.Nodes[id].Ast.(*ast.AssignStmt)
			if !ok || len(as.Lhs) != 1 || len(as.Rhs) != 1 {
				continue
			}
			if call, ok := ast.Unparen(as.Rhs[0]).(*ast.CallExpr); ok && core.Callee(info, call) == find.Obj {
				if v := core.VarOf(info, as.Lhs[0]); v != nil {
					rtxVars = append(rtxVars, v)
				}
			}
		}
		if len(rtxVars) == 0 {
			continue
		}
		nonZero := func(v *types.Var) map[core.EdgeRef]bool {
			return c06EdgesWhere(g, func(from int, f c06Fact) bool {
				be, ok := ast.Unparen(f.Expr).(*ast.BinaryExpr)
				if !ok || (be.Op != token.EQL && be.Op != token.NEQ) {
					return false
				}
				for _, pr := range [][2]ast.Expr{{be.X, be.Y}, {be.Y, be.X}} {
					if core.VarOf(info, pr[0]) == v {
						if k, ok := c06ConstInt(info, pr[1]); ok && k == 0 {
							return (be.Op == token.NEQ) == f.Truth
						}
					}
				}
				return false
			})
		}
		for id := range l.Body {
			lst, _, ok := c06TailAppend(info, g.Nodes[id].Ast)
			if !ok || lst == nil {
				continue
			}
			n++
			bad := ""
			for _, v := range rtxVars {
				ne := nonZero(v)
				if len(ne) == 0 || !g.DominatedByEdges(id, ne) {
					bad = "the RTX codec is added without `" + v.Name() + " != 0` having been established"
				}
			}
			r.Check(bad == "", rule, "setCodecPreferencesFromRemoteDescription|rtx-append|guards", c.P.Pos(g.PosOf(id)),
				sprintf("RTX added only when all %d RTX look-ups of the iteration succeeded", len(rtxVars)),
				bad+": an RTX payload type is answered in a section whose offer did not list RTX for that primary (or with no local RTX codec)")
		}
	}
	if n == 0 {
		r.Undecided(rule, "setCodecPreferencesFromRemoteDescription|rtx-append", pos, "no append inside a loop that looks up RTX payload types found")
	}
}

// c16R6: pushCodecs reports every addCodec failure. A payload type that the remote re-uses for a different
// codec makes addCodec fail with ErrCodecAlreadyRegistered; if that error is overwritten by the next
// iteration the offer is accepted and the answer maps the payload type to another codec than the offer does.
// Path rule: from each assignment of addCodec's error, every path on which the error may be non-nil reaches a
// consumer (errors.Join / append / return of it) before the variable is assigned again or the function returns
// without it. (Added after seed C16-m2.)
func c16R6(c *Ctx, rule string) {
	r := c.R
	fi := c.mustFunc(rule, "", "MediaEngine.pushCodecs")
	add := c.mustFunc(rule, "", "MediaEngine.addCodec")
	if fi == nil || add == nil {
		return
	}
	g := c.P.GraphOf(fi)
	info := g.Info
	errT := types.Universe.Lookup("error").Type()
	n := 0
	for _, nd := range g.Nodes {
		as, ok := nd.Ast.(*ast.AssignStmt)
		if !ok || len(as.Rhs) != 1 {
			continue
		}
		call, ok := ast.Unparen(as.Rhs[0]).(*ast.CallExpr)
		if !ok || core.Callee(info, call) != add.Obj || len(as.Lhs) != 2 {
			continue
		}
		ev := core.VarOf(info, as.Lhs[1])
		n++
		key := sprintf("pushCodecs|addCodec-error#%d", n)
		p := c.P.Pos(as.Pos())
		if ev == nil || !types.Identical(ev.Type(), errT) {
			r.Fail(rule, key, p, "addCodec's error result is discarded")
			continue
		}
		mentions := func(x ast.Node) bool {
			found := false
			ast.Inspect(x, func(y ast.Node) bool {
				if id, ok := y.(*ast.Ident); ok && info.Uses[id] == types.Object(ev) {
					found = true
				}
				return !found
			})
			return found
		}
		consumes := func(id int) bool {
			a := g.Nodes[id].Ast
			switch s := a.(type) {
			case *ast.ReturnStmt:
				return mentions(s)
			case *ast.AssignStmt:
				for _, rhs := range s.Rhs {
					if cl, ok := ast.Unparen(rhs).(*ast.CallExpr); ok {
						for _, arg := range cl.Args {
							if mentions(arg) {
								return true
							}
						}
					}
				}
			case *ast.ExprStmt:
				if cl, ok := s.X.(*ast.CallExpr); ok {
					for _, arg := range cl.Args {
						if mentions(arg) {
							return true
						}
					}
				}
			}
			return false
		}
		overwrites := func(id int) bool {
			switch s := g.Nodes[id].Ast.(type) {
			case *ast.AssignStmt:
				for _, l := range s.Lhs {
					if core.VarOf(info, l) == ev {
						return true
					}
				}
			case *ast.DeclStmt, *ast.ValueSpec:
				found := false
				ast.Inspect(s, func(y ast.Node) bool {
					if id, ok := y.(*ast.Ident); ok && info.Defs[id] == types.Object(ev) {
						found = true
					}
					return !found
				})
				return found
			}
			return false
		}
		nilEdge := func(from, idx int, e core.Edge) bool { // edges on which ev is known nil: nothing to lose
			for _, f := range c06EdgeFacts(e) {
				be, ok := ast.Unparen(f.Expr).(*ast.BinaryExpr)
				if !ok || (be.Op != token.EQL && be.Op != token.NEQ) {
					continue
				}
				isE := (core.VarOf(info, be.X) == ev && core.IsNilIdent(info, be.Y)) || (core.VarOf(info, be.Y) == ev && core.IsNilIdent(info, be.X))
				if isE && ((be.Op == token.EQL) == f.Truth) {
					return true
				}
			}
			return false
		}
		var starts []int
		for _, e := range nd.Succs {
			starts = append(starts, e.To)
		}
		reach := g.Reach(starts, func(x int) bool { return consumes(x) }, nilEdge)
		bad := ""
		for id := range reach {
			if consumes(id) {
				continue
			}
			if overwrites(id) {
				bad = "the error can be overwritten at " + c.P.Pos(g.PosOf(id)) + " before it was joined or returned"
			}
			if id == g.Exit {
				bad = "the function can return without the error having been joined or returned"
			}
		}
		r.Check(bad == "", rule, key, p, "a non-nil addCodec error always reaches errors.Join / the return value", bad+": a payload-type conflict on any but the last codec of a remote section is swallowed")
	}
	if n == 0 {
		r.Undecided(rule, "pushCodecs|addCodec-calls", c.P.Pos(fi.Decl.Pos()), "no `list, err = m.addCodec(...)` assignment found")
	}
}
