package props

import (
	"go/ast"
	"go/constant"
	"go/token"
	"go/types"
	"sort"
	"strings"

	"verif/checker/core"
)

func init() {
	register(&Prop{
		ID:        "C15",
		Engine:    "e6flow+e2cfg+e1tab",
		Technique: "AST provenance closure (resolved *types.Var identity, all definitions incl. closures) for the values added to the match lists; path-sensitive constant propagation over go/cfg with the match type / list emptiness / negotiated flags injected, giving the reachable add/push/lookup sites per valuation; dominance rules for the feedback intersection and the fuzzy-search order",
		LevelText: "Structural clauses of codec negotiation, decided for every input because they speak about the code: (R1) everything that can ever be in a pushed match list derives from the remote media section's codec list (only RTCPFeedback is overwritten, by the feedback intersection), a codec is added to the exact list iff its own match type is Exact and to the partial list iff Partial; (R2) the final selection pushes the exact list when non-empty, else the partial list, else nothing, for the section's kind; (R3) the feedback intersection of the matched local codec and the remote codec is stored before every add and only appends under equality of Type and Parameter; (R4) getCodecsByKind/getCodecByPayload tabulated over (kind, negotiatedVideo, negotiatedAudio): registered lists are consulted only for a kind that is not negotiated, negotiated lists first; (R5) codecParametersFuzzySearch returns Exact only on fmtp Match of needle and haystack element, Partial only after the exact scan completed and under EqualFold mime, ClockRateEqual and ChannelsEqual, always returning the haystack element.",
		LevelNote: "Trusted: go/types, go/cfg; append/make semantics; pion/sdp parsing inside codecsFromMediaDescription. Does not decide apt rewriting correctness or fmtp semantics (C17).",
		DesignRef: "DESIGN.md §5 C15",
		Run:       runC15,
	})
}

func runC15(c *Ctx) {
	r := c.R
	r.Rule("C15.R1", "updateFromRemoteDescription: every value that can reach a list handed to pushCodecs derives from codecsFromMediaDescription(remote media) (only field RTCPFeedback is overwritten, by rtcpFeedbackIntersection); per matching pass a codec is added to the exact list iff the match type returned for that codec is Exact, to the partial list iff Partial, to none otherwise; pushCodecs/RegisterCodec write a kind's list only for that kind and only through addCodec", 34)
	r.Rule("C15.R2", "updateFromRemoteDescription: over (exact list empty?, partial list empty?) the final selection pushes exactly the exact list when it is non-empty, else exactly the partial list, else nothing; the kind passed to pushCodecs is the kind used for matching", 6)
	r.Rule("C15.R3", "every add is preceded, within its iteration, by remoteCodec.RTCPFeedback = rtcpFeedbackIntersection(localCodec.RTCPFeedback, remoteCodec.RTCPFeedback) with localCodec the match result for that remote codec; rtcpFeedbackIntersection appends an element of one operand only under equality of both Type and Parameter with an element of the other", 7)
	r.Rule("C15.R4", "getCodecsByKind and getCodecByPayload over (kind, negotiatedVideo, negotiatedAudio): a registered list is consulted only when its kind is not negotiated; negotiated lists are consulted before registered ones; the returned kind is the kind of the list that produced the codec", 21)
	r.Rule("C15.R6", "the H.264 profile comparison behind an exact match (profileLevelIDMatches), tabulated over decodability, length and byte values of both profile-level-ids, is true exactly when both decode to at least two bytes and agree on profile_idc and profile-iop (bytes 0 and 1); the level byte is ignored (RFC 6184)", 16)
	r.Rule("C15.R7", "an RTX is matched only with its primary: inside matchRemoteCodec's apt branch every return whose match type is not the constant codecMatchNone is dominated by a branch establishing aptMatch != codecMatchNone (the apt payload type was found among the codecs already matched)", 1)
	r.Rule("C15.R8", "same rule as C10.R2: filterUnattachedRTX (the filter between a transceiver's preferences and the codecs it uses/announces) removes every RTX whose primary is absent - scan from the end, element i tested against the same list, removed exactly when isRTX and not primaryExists", 10)
	r.Rule("C15.R5", "codecParametersFuzzySearch: Exact is returned only on fmtp.Parse(needle).Match(fmtp.Parse(c)) for the returned haystack element c; Partial only after the exact scan has completed, under EqualFold(mime) and ClockRateEqual and ChannelsEqual of c and needle, returning c; every other return is None", 4)
	r.NotCovered = append(r.NotCovered,
		"apt rewriting in matchRemoteCodec (which local RTX a remote RTX is matched against)",
		"fmtp semantics (C17)",
		"that every matched codec is eventually used (only 'used => offered and matched' is a clause of the property)")
	r.Trusted = append(r.Trusted, "go/types, go/cfg", "append/make/range semantics", "pion/sdp parsing behind codecsFromMediaDescription")

	u := c15Anchors(c, "C15.R1")
	if u != nil {
		c15R1(c, "C15.R1", u)
		c15R2(c, "C15.R2", u)
		c15R3(c, "C15.R3", u)
	}
	c15CodecListWrites(c, "C15.R1", true)
	c15R4(c, "C15.R4")
	c15R5(c, "C15.R5")
	c15R6(c, "C15.R6")
	c15R7(c) // c15d.go
	if filter, prim := c.mustFunc("C15.R8", "", "filterUnattachedRTX"), c.mustFunc("C15.R8", "", "primaryPayloadTypeForRTXExists"); filter != nil && prim != nil {
		c10R2Filter(c, "C15.R8", filter, prim) // c10.go
		c10R2Primary(c, "C15.R8", prim)
	}
}

// c15Upd holds the resolved anchors of updateFromRemoteDescription.
type c15Upd struct {
	fi        *core.FuncInfo
	g         *core.Graph
	pv        *core.Prov
	pos       string
	push      *core.FuncInfo
	match     *core.FuncInfo
	fromMedia *core.FuncInfo
	inter     *core.FuncInfo
	pushCalls []*ast.CallExpr
	lists     []*types.Var // variables handed to pushCodecs (arg 0)
	passes    []*c15Pass
	regions   []*core.Graph // function body + bodies of its function literals
	// the selection (the pushCodecs calls) lives in the function itself or in a same-package helper its tail was moved into
	selFi   *core.FuncInfo
	selG    *core.Graph
	selCall *ast.CallExpr             // the call of the helper (nil when the selection is in the function)
	selVar  map[*types.Var]*types.Var // parameter of the helper -> the variable passed for it
	exact   *types.Var
	partial *types.Var
	kMatch  map[string]*types.Const
}

// c15Pass is one matching loop: the definition node of the match results and the add sites of the loop.
type c15Pass struct {
	g         *core.Graph   // the body holding the pass: the function's or a closure's
	anchor    *ast.CallExpr // orders the passes: the match call, or the invocation of the closure holding it
	rs        *ast.RangeStmt
	defNode   int
	call      *ast.CallExpr // matchRemoteCodec call
	remote    *types.Var    // the range value (the remote codec)
	local     *types.Var    // result 0
	matchType *types.Var    // result 1
	adds      []c15Add
}

type c15Add struct {
	node  int
	list  *types.Var
	added ast.Expr
	pos   token.Pos
}

func c15Anchors(c *Ctx, rule string) *c15Upd {
	u := &c15Upd{kMatch: map[string]*types.Const{}}
	u.fi = c.mustFunc(rule, "", "MediaEngine.updateFromRemoteDescription")
	u.push = c.mustFunc(rule, "", "MediaEngine.pushCodecs")
	u.match = c.mustFunc(rule, "", "MediaEngine.matchRemoteCodec")
	u.fromMedia = c.mustFunc(rule, "", "codecsFromMediaDescription")
	u.inter = c.mustFunc(rule, "", "rtcpFeedbackIntersection")
	for _, n := range []string{"codecMatchNone", "codecMatchPartial", "codecMatchExact"} {
		if k := c.mustConst(rule, "", n); k != nil {
			u.kMatch[n] = k
		}
	}
	if u.fi == nil || u.push == nil || u.match == nil || u.fromMedia == nil || u.inter == nil || len(u.kMatch) != 3 {
		return nil
	}
	u.g = c.P.GraphOf(u.fi)
	u.pv = core.NewProv(c.P, u.fi)
	// helpers of the root package are followed (extracting the add closure into a function must not change the verdict); the anchors stay leaves
	u.pv.Inline = func(fn *types.Func) bool {
		return fn.Pkg() != nil && fn.Pkg().Path() == core.ModPath && fn != u.match.Obj && fn != u.fromMedia.Obj && fn != u.inter.Obj && fn != u.push.Obj
	}
	u.pos = c.P.Pos(u.fi.Decl.Pos())
	info := u.g.Info
	fn := u.fi.Name()

	// regions: the function body and the body of every function literal inside it (a matching pass may live in a closure)
	u.regions = []*core.Graph{u.g}
	ast.Inspect(u.fi.Decl.Body, func(x ast.Node) bool {
		if fl, ok := x.(*ast.FuncLit); ok {
			if lg := c.P.GraphOfLit(fl); lg != nil {
				u.regions = append(u.regions, lg)
			}
		}
		return true
	})

	// push calls and the lists they receive
	seenList := map[*types.Var]bool{}
	findPush := func(f *core.FuncInfo) []*ast.CallExpr {
		var out []*ast.CallExpr
		finfo := f.Pkg.TypesInfo
		ast.Inspect(f.Decl.Body, func(x ast.Node) bool {
			if call, ok := x.(*ast.CallExpr); ok && core.IsCallTo(finfo, call, u.push.Obj) {
				out = append(out, call)
			}
			return true
		})
		return out
	}
	u.selFi, u.selG, u.selVar = u.fi, u.g, map[*types.Var]*types.Var{}
	u.pushCalls = findPush(u.fi)
	if len(u.pushCalls) == 0 {
		// the tail may have been extracted: exactly one call of a same-package helper that pushes its own parameters
		var cands []*ast.CallExpr
		ast.Inspect(u.fi.Decl.Body, func(x ast.Node) bool {
			if call, ok := x.(*ast.CallExpr); ok {
				if h := c.P.DeclOf(core.Callee(info, call)); h != nil && h.Decl.Body != nil && h.Pkg == u.fi.Pkg && h != u.match && h != u.push && len(findPush(h)) > 0 {
					cands = append(cands, call)
				}
			}
			return true
		})
		if len(cands) == 1 {
			h := c.P.DeclOf(core.Callee(info, cands[0]))
			hsig := h.Obj.Type().(*types.Signature)
			if !hsig.Variadic() && u.g.NodeOf(cands[0]) >= 0 {
				u.selFi, u.selG, u.selCall = h, c.P.GraphOf(h), cands[0]
				for i := 0; i < hsig.Params().Len() && i < len(cands[0].Args); i++ {
					if v := core.VarOf(info, cands[0].Args[i]); v != nil {
						u.selVar[hsig.Params().At(i)] = v
					}
				}
				u.pushCalls = findPush(h)
			}
		}
	}
	sinfo := u.selFi.Pkg.TypesInfo
	for _, call := range u.pushCalls {
		lv := u.outer(core.VarOf(sinfo, call.Args[0]))
		if lv == nil || lv.IsField() || (u.selCall != nil && u.selVar[core.VarOf(sinfo, call.Args[0])] == nil) {
			c.R.Undecided(rule, fn+"|push-arg", c.P.Pos(call.Pos()), "the list handed to pushCodecs is not a local variable of updateFromRemoteDescription: "+exprStr(call.Args[0]))
			return nil
		}
		if u.selG.NodeOf(call) < 0 {
			c.R.Undecided(rule, fn+"|push-arg", c.P.Pos(call.Pos()), "pushCodecs is called inside a function literal: the selection cannot be related to the matching passes")
			return nil
		}
		if !seenList[lv] {
			seenList[lv] = true
			u.lists = append(u.lists, lv)
		}
	}
	if len(u.pushCalls) < 2 || len(u.lists) != 2 {
		c.R.Undecided(rule, fn+"|push-calls", u.pos, sprintf("expected pushCodecs to be called on two distinct local match lists, found %d call(s) on %d list(s)", len(u.pushCalls), len(u.lists)))
		return nil
	}

	// matching passes: every call of matchRemoteCodec, in the function body or in a closure of it.
	// A pass inside a closure counts once per invocation of the closure (two identical loops merged
	// into one closure called twice are still two passes).
	nSyntactic := 0
	for _, rg := range u.regions {
		for _, n := range rg.Nodes {
			if n.Ast == nil {
				continue
			}
			as, ok := n.Ast.(*ast.AssignStmt)
			if !ok || len(as.Rhs) != 1 {
				continue
			}
			call, ok := ast.Unparen(as.Rhs[0]).(*ast.CallExpr)
			if !ok || !core.IsCallTo(info, call, u.match.Obj) {
				continue
			}
			nSyntactic++
			p := &c15Pass{g: rg, defNode: n.ID, call: call, anchor: call}
			if len(as.Lhs) != 3 {
				c.R.Undecided(rule, fn+"|match-call", c.P.Pos(call.Pos()), "matchRemoteCodec results are not bound to three variables")
				return nil
			}
			p.local, p.matchType = core.VarOf(info, as.Lhs[0]), core.VarOf(info, as.Lhs[1])
			p.remote = core.VarOf(info, call.Args[0])
			// enclosing range statement whose value is the remote codec
			for _, x := range u.g.PathTo(as) {
				if rs, ok := x.(*ast.RangeStmt); ok && rs.Value != nil && core.VarOf(info, rs.Value) == p.remote {
					p.rs = rs
				}
			}
			if p.matchType == nil || p.remote == nil || p.rs == nil {
				c.R.Undecided(rule, fn+"|match-call", c.P.Pos(call.Pos()), "cannot resolve the matching pass: the first argument of matchRemoteCodec must be the value variable of the enclosing range loop and the match type must be bound to a variable")
				return nil
			}
			if _, _, _, ok := rg.RangeLoop(p.rs); !ok {
				c.R.Undecided(rule, fn+"|match-call", c.P.Pos(call.Pos()), "the loop of the matching pass and the call of matchRemoteCodec are not in the same function body")
				return nil
			}
			if rg == u.g {
				u.passes = append(u.passes, p)
				continue
			}
			// inside a closure: one pass per invocation
			lit, _ := rg.Fn.(*ast.FuncLit)
			invs := c15Invocations(u, lit)
			if len(invs) == 0 {
				c.R.Undecided(rule, fn+"|match-call", c.P.Pos(call.Pos()), "matchRemoteCodec is called inside a function literal that is neither invoked in place nor bound to a local variable called from the function body")
				return nil
			}
			for _, inv := range invs {
				q := *p
				q.anchor = inv
				u.passes = append(u.passes, &q)
			}
		}
	}
	sort.Slice(u.passes, func(i, j int) bool { return u.passes[i].anchor.Pos() < u.passes[j].anchor.Pos() })
	// a call of matchRemoteCodec not in assignment form would be missed above: count all calls
	nCalls := 0
	ast.Inspect(u.fi.Decl.Body, func(x ast.Node) bool {
		if core.IsCallTo(info, x, u.match.Obj) {
			nCalls++
		}
		return true
	})
	if len(u.passes) == 0 || nCalls != nSyntactic {
		c.R.Undecided(rule, fn+"|match-call", u.pos, sprintf("%d call(s) of matchRemoteCodec, %d in the recognised 'local, matchType, err := m.matchRemoteCodec(remoteCodec, ...)' form inside a range loop", nCalls, nSyntactic))
		return nil
	}

	// add sites: every definition of a pushed list that is not an empty initialisation
	isList := func(v *types.Var) bool { return v != nil && seenList[v] }
	for _, rg := range u.regions {
		for _, n := range rg.Nodes {
			if n.Ast == nil {
				continue
			}
			as, ok := n.Ast.(*ast.AssignStmt)
			if !ok {
				continue
			}
			for i, l := range as.Lhs {
				lv := core.VarOf(info, l)
				if !isList(lv) {
					// element / field stores into a list
					if rv := c15RootVar(info, l); isList(rv) {
						c.R.Fail(rule, fn+"|list-store", c.P.Pos(l.Pos()), "a match list handed to pushCodecs is modified in place ("+exprStr(l)+"): the pushed values are no longer only the added remote codecs")
					}
					continue
				}
				if len(as.Rhs) != len(as.Lhs) {
					c.R.Undecided(rule, fn+"|list-def", c.P.Pos(as.Pos()), "match list defined by a multi-value expression")
					continue
				}
				rhs := ast.Unparen(as.Rhs[i])
				if c15IsEmptyInit(info, rhs) {
					continue
				}
				call, ok := rhs.(*ast.CallExpr)
				if !ok || len(call.Args) != 2 || core.VarOf(info, call.Args[0]) != lv || call.Ellipsis.IsValid() {
					c.R.Undecided(rule, fn+"|list-def", c.P.Pos(as.Pos()), "unrecognised definition of a match list (expected L = add(L, codec) or an empty initialisation): "+exprStr(rhs))
					continue
				}
				add := c15Add{node: n.ID, list: lv, added: call.Args[1], pos: as.Pos()}
				// attribute to the pass(es) whose loop encloses it (every invocation of a closure pass)
				owned := false
				for _, x := range u.g.PathTo(as) {
					for _, p := range u.passes {
						if x == ast.Node(p.rs) && p.g == rg {
							p.adds = append(p.adds, add)
							owned = true
						}
					}
				}
				if !owned {
					c.R.Fail(rule, fn+"|add-outside-pass", c.P.Pos(as.Pos()), "a codec is added to a match list outside a matching loop (no match type governs it): "+exprStr(rhs))
				}
			}
		}
	}
	return u
}

// c15Invocations lists, in source order, the calls that run the function literal: the literal invoked in place,
// or the calls through the local variable it is (solely) bound to.
func c15Invocations(u *c15Upd, lit *ast.FuncLit) []*ast.CallExpr {
	return c15LitInvocations(u.g.Info, u.fi.Decl.Body, lit)
}

// c15LitInvocations: see c15Invocations; body is the enclosing function's body.
func c15LitInvocations(info *types.Info, body *ast.BlockStmt, lit *ast.FuncLit) []*ast.CallExpr {
	if lit == nil {
		return nil
	}
	var out []*ast.CallExpr
	var bound *types.Var
	ast.Inspect(body, func(x ast.Node) bool {
		switch s := x.(type) {
		case *ast.CallExpr:
			if ast.Unparen(s.Fun) == ast.Expr(lit) {
				out = append(out, s)
			}
		case *ast.AssignStmt:
			if len(s.Lhs) == len(s.Rhs) {
				for i, r := range s.Rhs {
					if ast.Unparen(r) == ast.Expr(lit) {
						bound = core.VarOf(info, s.Lhs[i])
					}
				}
			}
		case *ast.ValueSpec:
			if len(s.Names) == len(s.Values) {
				for i, r := range s.Values {
					if ast.Unparen(r) == ast.Expr(lit) {
						bound, _ = info.Defs[s.Names[i]].(*types.Var)
					}
				}
			}
		}
		return true
	})
	if bound == nil {
		return out
	}
	// the variable must have no other definition, and must only be called
	nDefs, escapes := 0, false
	ast.Inspect(body, func(x ast.Node) bool {
		switch s := x.(type) {
		case *ast.AssignStmt:
			for _, l := range s.Lhs {
				if core.VarOf(info, l) == bound {
					nDefs++
				}
			}
		case *ast.ValueSpec:
			for _, nm := range s.Names {
				if info.Defs[nm] == types.Object(bound) {
					nDefs++
				}
			}
		case *ast.CallExpr:
			if core.VarOf(info, s.Fun) == bound {
				out = append(out, s)
			}
			for _, a := range s.Args {
				if core.VarOf(info, a) == bound {
					escapes = true
				}
			}
		case *ast.GoStmt:
			if core.VarOf(info, s.Call.Fun) == bound {
				escapes = true
			}
		case *ast.DeferStmt:
			if core.VarOf(info, s.Call.Fun) == bound {
				escapes = true
			}
		}
		return true
	})
	if nDefs != 1 || escapes {
		return nil
	}
	sort.Slice(out, func(i, j int) bool { return out[i].Pos() < out[j].Pos() })
	return out
}

// outer maps a variable of the function holding the selection to the variable of updateFromRemoteDescription it stands for.
func (u *c15Upd) outer(v *types.Var) *types.Var {
	if w, ok := u.selVar[v]; ok {
		return w
	}
	return v
}

func c15RootVar(info *types.Info, e ast.Expr) *types.Var {
	for {
		e = ast.Unparen(e)
		switch x := e.(type) {
		case *ast.Ident:
			return core.VarOf(info, x)
		case *ast.SelectorExpr:
			e = x.X
		case *ast.IndexExpr:
			e = x.X
		case *ast.StarExpr:
			e = x.X
		case *ast.SliceExpr:
			e = x.X
		default:
			return nil
		}
	}
}

// c15IsEmptyInit: make(T, 0, ...), T{}, nil.
func c15IsEmptyInit(info *types.Info, e ast.Expr) bool {
	e = ast.Unparen(e)
	if core.IsNilIdent(info, e) {
		return true
	}
	if cl, ok := e.(*ast.CompositeLit); ok {
		return len(cl.Elts) == 0
	}
	if call, ok := e.(*ast.CallExpr); ok {
		if id, ok := ast.Unparen(call.Fun).(*ast.Ident); ok {
			if b, ok := info.Uses[id].(*types.Builtin); ok && b.Name() == "make" && len(call.Args) >= 2 {
				tv := info.Types[call.Args[1]]
				return tv.Value != nil && constant.Sign(tv.Value) == 0
			}
		}
	}
	return false
}

func c15PassName(i int) string { return sprintf("pass%d", i+1) }

// ---- R1: provenance of the pushed values + match-type gating of the adds

func c15R1(c *Ctx, rule string, u *c15Upd) {
	r := c.R
	info := u.g.Info
	fn := u.fi.Name()

	// (a) coarse closure: everything that can be in a pushed list
	for _, call := range u.pushCalls {
		lv := u.outer(core.VarOf(u.selFi.Pkg.TypesInfo, call.Args[0]))
		leaves := u.pv.LeavesOfVar(lv)
		bad := ""
		n := 0
		for k, lf := range leaves {
			switch {
			case lf.Kind == "call" && lf.Fn == u.fromMedia.Obj && lf.Idx == 0:
				n++
				if why := c15RemoteMediaArg(u, lf.Node.(*ast.CallExpr)); why != "" {
					bad = why
				}
			case lf.Kind == "call" && lf.Fn == u.inter.Obj:
			default:
				bad = "a value from " + k + " (" + c.P.Pos(lf.Node.Pos()) + ") can reach the list handed to pushCodecs: a negotiated codec would not be the remote's offered codec (payload type / mime / clock / channels / fmtp must be the remote's)"
			}
		}
		if n == 0 && bad == "" {
			bad = "no value from codecsFromMediaDescription reaches the pushed list"
		}
		key := fn + "|pushed-list-sources|" + c15ListRole(u, lv)
		r.Check(bad == "", rule, key, c.P.Pos(call.Pos()), "sources: "+core.LeafKeys(leaves), bad)
	}

	// (b) precise: the added expression is a remote-pure variable
	for pi, p := range u.passes {
		for _, a := range p.adds {
			key := sprintf("%s|%s|added-value|into:%s", fn, c15PassName(pi), c15ListRole(u, a.list))
			why := c15RemotePure(u, a.added, map[*types.Var]bool{}, 0)
			if why == "" && core.VarOf(info, a.added) != p.remote {
				// a copy of the remote codec is fine, but it must be the codec this pass matched
				if !c15AliasOf(u, a.added, p.remote) {
					why = "the added value " + exprStr(a.added) + " is not the codec handed to matchRemoteCodec in this pass"
				}
			}
			r.Check(why == "", rule, key, c.P.Pos(a.pos), "the added value is the loop's remote codec; only RTCPFeedback is overwritten (by rtcpFeedbackIntersection)", why)
		}
	}

	// (c) match-type gating per pass
	vals := []struct {
		name string
		v    constant.Value
	}{
		{"codecMatchNone", u.kMatch["codecMatchNone"].Val()},
		{"codecMatchPartial", u.kMatch["codecMatchPartial"].Val()},
		{"codecMatchExact", u.kMatch["codecMatchExact"].Val()},
		{"OTHER(77)", constant.MakeInt64(77)},
	}
	target := map[string]map[*types.Var]bool{} // value name -> lists receiving adds (over all passes)
	type cell struct {
		pass  int
		name  string
		lists map[*types.Var]bool
		pos   token.Pos
	}
	var cells []cell
	for pi, p := range u.passes {
		if len(p.adds) == 0 {
			r.Fail(rule, sprintf("%s|%s|adds", fn, c15PassName(pi)), c.P.Pos(p.call.Pos()), "a matching pass adds nothing to any match list")
			continue
		}
		head, _, _, ok := p.g.RangeLoop(p.rs)
		if !ok {
			r.Undecided(rule, sprintf("%s|%s|loop", fn, c15PassName(pi)), c.P.Pos(p.rs.Pos()), "range loop not found in the CFG")
			continue
		}
		for _, mv := range vals {
			mv := mv
			cf := &core.ConstFlow{G: p.g,
				Inject: func(node int, v *types.Var, rhs ast.Expr, idx int, env core.CFEnv) (constant.Value, bool) {
					if node == p.defNode && v == p.matchType {
						return mv.v, true
					}
					return nil, false
				},
				Stop: func(n int) bool { return n == head || n == p.defNode },
			}
			res := cf.Run(p.defNode, core.CFEnv{})
			r.Cells += res.States
			got := map[*types.Var]bool{}
			for _, a := range p.adds {
				if res.ReachedNode(a.node) {
					got[a.list] = true
				}
			}
			if len(res.Problems) > 0 {
				r.Undecided(rule, sprintf("%s|%s|matchType=%s", fn, c15PassName(pi), mv.name), c.P.Pos(p.call.Pos()), strings.Join(res.Problems, "; "))
				continue
			}
			cells = append(cells, cell{pi, mv.name, got, p.call.Pos()})
			if target[mv.name] == nil {
				target[mv.name] = map[*types.Var]bool{}
			}
			for l := range got {
				target[mv.name][l] = true
			}
		}
	}
	// the exact list is the one receiving Exact matches, the partial list the one receiving Partial matches
	one := func(m map[*types.Var]bool) *types.Var {
		if len(m) != 1 {
			return nil
		}
		for v := range m {
			return v
		}
		return nil
	}
	u.exact, u.partial = one(target["codecMatchExact"]), one(target["codecMatchPartial"])
	for _, cl := range cells {
		key := sprintf("%s|%s|matchType=%s|adds", fn, c15PassName(cl.pass), cl.name)
		var names []string
		for l := range cl.lists {
			names = append(names, l.Name())
		}
		sort.Strings(names)
		gotS := "{" + strings.Join(names, ",") + "}"
		bad := ""
		switch cl.name {
		case "codecMatchExact":
			if u.exact == nil || u.exact == u.partial {
				bad = "with match type Exact the codec must be added to exactly one list, distinct from the partial list; it is added to " + gotS
			} else if len(cl.lists) != 1 || !cl.lists[u.exact] {
				bad = "with match type Exact the codec is added to " + gotS + ", expected only the exact list " + u.exact.Name()
			}
		case "codecMatchPartial":
			if u.partial == nil || u.exact == u.partial {
				bad = "with match type Partial the codec must be added to exactly one list, distinct from the exact list; it is added to " + gotS
			} else if len(cl.lists) != 1 || !cl.lists[u.partial] {
				bad = "with match type Partial the codec is added to " + gotS + ", expected only the partial list " + u.partial.Name()
			}
		default:
			if len(cl.lists) != 0 {
				bad = "with match type " + cl.name + " (no match) the remote codec is still added to " + gotS + ": an unmatched codec becomes negotiated"
			}
		}
		r.Check(bad == "", rule, key, c.P.Pos(cl.pos), "adds to "+gotS, bad)
	}
	// the match must be computed for the codec that is added: checked in (b); the lists handed to the matcher are not judged
}

func c15ListRole(u *c15Upd, v *types.Var) string {
	// role by the order of first definition in the source (stable under renaming)
	a, b := u.lists[0], u.lists[1]
	if a.Pos() > b.Pos() {
		a, b = b, a
	}
	if v == a {
		return "list1"
	}
	if v == b {
		return "list2"
	}
	return "other"
}

// c15RemoteMediaArg checks that a codecsFromMediaDescription call receives the media section currently iterated from the description parameter.
func c15RemoteMediaArg(u *c15Upd, call *ast.CallExpr) string {
	if len(call.Args) != 1 {
		return "codecsFromMediaDescription called with an unexpected argument list"
	}
	lv := u.pv.Leaves(call.Args[0])
	for k, lf := range lv {
		if lf.Kind == "param" && lf.Idx == 0 {
			continue
		}
		return "the media section given to codecsFromMediaDescription derives from " + k + ", not from the remote description parameter"
	}
	if len(lv) == 0 {
		return "the media section given to codecsFromMediaDescription has no provenance"
	}
	return ""
}

// c15AliasOf: e is v or a variable all of whose whole-value definitions are aliases of v.
func c15AliasOf(u *c15Upd, e ast.Expr, v *types.Var) bool {
	x := core.VarOf(u.g.Info, e)
	if x == nil {
		return false
	}
	if x == v {
		return true
	}
	okAny := false
	for _, d := range c15WholeDefs(u, x) {
		if d == nil || !c15AliasOf(u, d, v) {
			return false
		}
		okAny = true
	}
	return okAny
}

// c15WholeDefs lists the right-hand sides of whole-variable definitions of v (field stores excluded); nil entries are zero values.
func c15WholeDefs(u *c15Upd, v *types.Var) []ast.Expr {
	var out []ast.Expr
	info := u.g.Info
	ast.Inspect(u.fi.Decl.Body, func(n ast.Node) bool {
		switch s := n.(type) {
		case *ast.AssignStmt:
			for i, l := range s.Lhs {
				if core.VarOf(info, l) == v {
					if len(s.Rhs) == len(s.Lhs) {
						out = append(out, s.Rhs[i])
					} else {
						out = append(out, s.Rhs[0])
					}
				}
			}
		case *ast.ValueSpec:
			for i, nm := range s.Names {
				if info.Defs[nm] == types.Object(v) {
					switch {
					case len(s.Values) == 0:
						out = append(out, nil)
					case len(s.Values) == len(s.Names):
						out = append(out, s.Values[i])
					default:
						out = append(out, s.Values[0])
					}
				}
			}
		}
		return true
	})
	return out
}

// c15RemotePure explains why e is not a pure remote codec ("" if it is): a variable whose whole-value
// definitions are range elements of the remote codec list (or aliases of such), and whose only field
// store is RTCPFeedback = rtcpFeedbackIntersection(...).
func c15RemotePure(u *c15Upd, e ast.Expr, seen map[*types.Var]bool, depth int) string {
	info := u.g.Info
	v := core.VarOf(info, e)
	if v == nil {
		return "the added value " + exprStr(e) + " is not a variable holding the remote codec"
	}
	if seen[v] {
		return ""
	}
	seen[v] = true
	if depth > 4 {
		return "alias chain too deep"
	}
	nDefs := 0
	why := ""
	// range definitions
	ast.Inspect(u.fi.Decl.Body, func(n ast.Node) bool {
		rs, ok := n.(*ast.RangeStmt)
		if !ok {
			return true
		}
		if rs.Key != nil && core.VarOf(info, rs.Key) == v {
			why = v.Name() + " is a range key"
		}
		if rs.Value != nil && core.VarOf(info, rs.Value) == v {
			nDefs++
			lv := u.pv.Leaves(rs.X)
			for k, lf := range lv {
				if lf.Kind == "call" && lf.Fn == u.fromMedia.Obj && lf.Idx == 0 {
					if w := c15RemoteMediaArg(u, lf.Node.(*ast.CallExpr)); w != "" {
						why = w
					}
					continue
				}
				why = v.Name() + " ranges over a list that can hold values from " + k
			}
			if len(lv) == 0 {
				why = v.Name() + " ranges over a list with no remote provenance"
			}
		}
		return true
	})
	for _, d := range c15WholeDefs(u, v) {
		nDefs++
		if d == nil {
			why = v.Name() + " can be the zero codec"
			continue
		}
		if w := c15RemotePure(u, d, seen, depth+1); w != "" {
			why = v.Name() + " is assigned " + exprStr(d) + ": " + w
		}
	}
	if nDefs == 0 {
		why = v.Name() + " has no definition inside the function (parameter or captured variable)"
	}
	// field stores
	ast.Inspect(u.fi.Decl.Body, func(n ast.Node) bool {
		switch s := n.(type) {
		case *ast.AssignStmt:
			for i, l := range s.Lhs {
				if core.VarOf(info, l) == v || c15RootVar(info, l) != v {
					continue
				}
				f := core.FieldOf(info, l)
				if f == nil || f.Name() != "RTCPFeedback" || s.Tok != token.ASSIGN || len(s.Rhs) != len(s.Lhs) {
					why = "field " + exprStr(l) + " of the remote codec is overwritten before it is added (only RTCPFeedback may be replaced, by the feedback intersection)"
					continue
				}
				call, ok := ast.Unparen(s.Rhs[i]).(*ast.CallExpr)
				if !ok || !core.IsCallTo(info, call, u.inter.Obj) {
					why = "RTCPFeedback of the remote codec is set to " + exprStr(s.Rhs[i]) + ", not to the feedback intersection"
				}
			}
		case *ast.IncDecStmt:
			if c15RootVar(info, s.X) == v {
				why = "a field of the remote codec is modified (" + exprStr(s.X) + ")"
			}
		case *ast.UnaryExpr:
			if s.Op == token.AND && c15RootVar(info, s.X) == v {
				why = "the address of the remote codec is taken (" + exprStr(s) + "): it can be modified elsewhere"
			}
		}
		return true
	})
	return why
}

// ---- R2: the final selection

func c15R2(c *Ctx, rule string, u *c15Upd) {
	r := c.R
	info := u.selG.Info
	fn := u.fi.Name()
	if u.exact == nil || u.partial == nil || u.exact == u.partial {
		r.Undecided(rule, fn+"|selection", u.pos, "the exact and the partial list could not be told apart (see R1)")
		return
	}
	// every len(list) must be compared with the constant 0 (or 1) only, so that {empty, non-empty} is exhaustive
	isLenOf := func(e ast.Expr) *types.Var {
		call, ok := ast.Unparen(e).(*ast.CallExpr)
		if !ok || len(call.Args) != 1 {
			return nil
		}
		id, ok := ast.Unparen(call.Fun).(*ast.Ident)
		if !ok {
			return nil
		}
		if b, ok := info.Uses[id].(*types.Builtin); !ok || b.Name() != "len" {
			return nil
		}
		v := u.outer(core.VarOf(info, call.Args[0]))
		if v == u.exact || v == u.partial {
			return v
		}
		return nil
	}
	okLen := map[ast.Expr]bool{}
	escape := ""
	if u.selCall != nil {
		// the lists' lengths must not be inspected in the caller at all
		oinfo := u.g.Info
		ast.Inspect(u.fi.Decl.Body, func(n ast.Node) bool {
			if call, ok := n.(*ast.CallExpr); ok && len(call.Args) == 1 {
				if id, ok := ast.Unparen(call.Fun).(*ast.Ident); ok {
					if b, ok := oinfo.Uses[id].(*types.Builtin); ok && b.Name() == "len" {
						if v := core.VarOf(oinfo, call.Args[0]); v != nil && (v == u.exact || v == u.partial) {
							escape = "len of a match list is used in updateFromRemoteDescription while the selection lives in " + u.selFi.Name() + " at " + c.P.Pos(call.Pos())
						}
					}
				}
			}
			return true
		})
	}
	ast.Inspect(u.selFi.Decl.Body, func(n ast.Node) bool {
		if be, ok := n.(*ast.BinaryExpr); ok {
			for _, pr := range [][2]ast.Expr{{be.X, be.Y}, {be.Y, be.X}} {
				if isLenOf(pr[0]) != nil {
					if tv := info.Types[pr[1]]; tv.Value != nil && tv.Value.Kind() == constant.Int {
						if v, exact := constant.Int64Val(tv.Value); exact && (v == 0 || v == 1) {
							okLen[ast.Unparen(pr[0])] = true
						}
					}
				}
			}
		}
		return true
	})
	ast.Inspect(u.selFi.Decl.Body, func(n ast.Node) bool {
		if e, ok := n.(ast.Expr); ok && isLenOf(e) != nil && !okLen[ast.Unparen(e)] {
			// make(..., 0, len(codecs)) style capacity uses of *other* lists are not len(list); this is a use of the match list length
			escape = "len of a match list is used other than in a comparison with 0/1 at " + c.P.Pos(e.Pos())
		}
		return true
	})
	if escape != "" {
		r.Undecided(rule, fn+"|selection", u.pos, escape)
		return
	}
	// start: the first node after the last matching pass completes; explore to the end of the media iteration
	last := u.passes[len(u.passes)-1]
	// start after the last pass: the exit of its loop, or (pass in a closure) the statement that invokes the closure last
	var done int
	var anchorNode ast.Node
	if u.selCall != nil {
		// the selection is the body of the helper: explored from its entry to its exits. In the caller the helper must be
		// called after the last pass (same iteration of the media loop)
		after := u.g.NodeOf(last.anchor)
		if last.g == u.g {
			_, _, after, _ = u.g.RangeLoop(last.rs)
		}
		if after < 0 || !u.g.Reach([]int{after}, nil, nil)[u.g.NodeOf(u.selCall)] {
			r.Undecided(rule, fn+"|selection", u.pos, "the helper holding the selection is not reached after the last matching pass")
			return
		}
		done, anchorNode = u.selG.Entry, nil
	} else if last.g == u.g {
		_, _, d, ok := u.g.RangeLoop(last.rs)
		if !ok {
			r.Undecided(rule, fn+"|selection", u.pos, "last matching loop not found in the CFG")
			return
		}
		done, anchorNode = d, last.rs
	} else {
		done, anchorNode = u.g.NodeOf(last.anchor), last.anchor
		if done < 0 {
			r.Undecided(rule, fn+"|selection", u.pos, "the last invocation of the matching closure is not a statement of the function body")
			return
		}
	}
	// the enclosing media loop head bounds the exploration
	mediaHead := -1
	for _, x := range c15PathOrNil(u.g, anchorNode) {
		if rs, ok := x.(*ast.RangeStmt); ok && ast.Node(rs) != anchorNode {
			if h, _, _, ok := u.g.RangeLoop(rs); ok {
				mediaHead = h
			}
		}
	}
	pushNode := map[*ast.CallExpr]int{}
	for _, pc := range u.pushCalls {
		pushNode[pc] = u.selG.NodeOf(pc)
	}
	for _, sc := range []struct{ e, p bool }{{true, true}, {true, false}, {false, true}, {false, false}} {
		sc := sc
		cf := &core.ConstFlow{G: u.selG,
			Assume: func(e ast.Expr, env core.CFEnv) (constant.Value, bool) {
				if v := isLenOf(e); v != nil {
					nonEmpty := sc.e
					if v == u.partial {
						nonEmpty = sc.p
					}
					if nonEmpty {
						return constant.MakeInt64(1), true
					}
					return constant.MakeInt64(0), true
				}
				return nil, false
			},
			Stop: func(n int) bool { return n == mediaHead },
		}
		res := cf.Run(done, core.CFEnv{})
		r.Cells += res.States
		var got []string
		gotExact, gotPartial, gotOther := false, false, false
		for pc, n := range pushNode {
			if n < 0 || !res.ReachedNode(n) {
				continue
			}
			lv := u.outer(core.VarOf(info, pc.Args[0]))
			switch lv {
			case u.exact:
				gotExact = true
			case u.partial:
				gotPartial = true
			default:
				gotOther = true
			}
			got = append(got, "pushCodecs("+lv.Name()+")")
		}
		sort.Strings(got)
		key := sprintf("%s|selection|exactNonEmpty=%v,partialNonEmpty=%v", fn, sc.e, sc.p)
		bad := ""
		switch {
		case len(res.Problems) > 0:
			r.Undecided(rule, key, u.pos, strings.Join(res.Problems, "; "))
			continue
		case gotOther:
			bad = "an unexpected list is pushed"
		case sc.e && (!gotExact || gotPartial):
			bad = "exact matches exist but the selection reaches " + strings.Join(got, ",") + " (exact matches must be preferred, and only they are pushed)"
		case !sc.e && sc.p && (!gotPartial || gotExact):
			bad = "only partial matches exist but the selection reaches [" + strings.Join(got, ",") + "], expected exactly the partial list"
		case !sc.e && !sc.p && (gotExact || gotPartial):
			bad = "no match exists but a list is still pushed: " + strings.Join(got, ",")
		}
		r.Check(bad == "", rule, key, u.pos, "reaches ["+strings.Join(got, ",")+"]", bad)
	}
	// kind argument
	for _, pc := range u.pushCalls {
		kv := u.outer(core.VarOf(info, pc.Args[1]))
		okKind := kv != nil
		for _, p := range u.passes {
			if len(p.call.Args) < 2 || core.VarOf(u.g.Info, p.call.Args[1]) != kv {
				okKind = false
			}
		}
		r.Check(okKind, rule, sprintf("%s|push-kind|%s", fn, c15ListRole(u, u.outer(core.VarOf(info, pc.Args[0])))), c.P.Pos(pc.Pos()),
			"the kind handed to pushCodecs is the kind the codecs were matched for", "the kind handed to pushCodecs ("+exprStr(pc.Args[1])+") is not the variable the codecs were matched with: codecs of one kind would be negotiated for another")
	}
}

func c15PathOrNil(g *core.Graph, n ast.Node) []ast.Node {
	if n == nil {
		return nil
	}
	return g.PathTo(n)
}
