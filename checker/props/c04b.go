package props

import (
	"go/ast"
	"go/constant"
	"go/token"
	"go/types"
	"sort"
	"strings"

	"verif/checker/core"
)

// c04R5: structural clauses of checkNegotiationNeeded (W3C webrtc §4.7.3 "check if negotiation is needed", steps 5.x).
// "After a change that requires renegotiation ... it fires once the connection is stable" needs the per-transceiver loop to
// look at EVERY transceiver: an iteration may go on to the next transceiver only after (A) the transceiver's m-section was
// looked up in the current local description and found, and (B) its direction was compared with the description (the
// branch on localDesc.Type) - except through the one reviewed skip (sender's track is nil while the direction says
// sending: replaceTrack(nil)); and the loop is left early only by `return true`.
// What it does not decide: that the comparisons themselves are the spec's (values of the SDP attributes).
func c04R5(c *Ctx) {
	r := c.R
	const rule = "C04.R5"
	fi := c.mustFunc(rule, "", "PeerConnection.checkNegotiationNeeded")
	trF := c.mustField(rule, "", "PeerConnection", "rtpTransceivers")
	curLocalF := c.mustField(rule, "", "PeerConnection", "currentLocalDescription")
	typeF := c.mustField(rule, "", "SessionDescription", "Type")
	getByMid := c.mustFunc(rule, "", "getByMid")
	if fi == nil || trF == nil || curLocalF == nil || typeF == nil || getByMid == nil {
		return
	}
	g := c.P.GraphOf(fi)
	info := g.Info
	pos := c.P.Pos(fi.Decl.Pos())
	// the local holding the current local description
	var localDesc *types.Var
	for _, n := range g.Nodes {
		if as, ok := n.Ast.(*ast.AssignStmt); ok && len(as.Lhs) == 1 && len(as.Rhs) == 1 && core.FieldOf(info, as.Rhs[0]) == curLocalF {
			if v := core.VarOf(info, as.Lhs[0]); v != nil {
				if rhs, _ := g.UniqueDef(v); rhs != nil {
					localDesc = v
				}
			}
		}
	}
	if localDesc == nil {
		r.Undecided(rule, "checkNegotiationNeeded|local-description-variable", pos, "no single-assignment local initialised from pc.currentLocalDescription")
		return
	}
	var loop *c06Loop
	for _, l := range c06RangeLoops(g) {
		if core.FieldOf(info, l.Range.X) == trF {
			if loop != nil {
				r.Undecided(rule, "checkNegotiationNeeded|transceiver-loop", pos, "more than one loop over pc.rtpTransceivers")
				return
			}
			loop = l
		}
	}
	if loop == nil || loop.ValueVar == nil {
		r.Undecided(rule, "checkNegotiationNeeded|transceiver-loop", pos, "no `for _, t := range pc.rtpTransceivers` loop")
		return
	}
	l := loop
	isTrue := func(e ast.Expr) bool {
		tv, ok := info.Types[e]
		return ok && tv.Value != nil && tv.Value.Kind() == constant.Bool && constant.BoolVal(tv.Value)
	}
	// (0) the loop is left early only by `return true`
	var bad []string
	for _, e := range l.exits() {
		from := g.Nodes[e.From]
		if from.Succs[e.Idx].To == l.Done || from.Succs[e.Idx].To == g.Panic {
			if e.From == l.Head || from.Succs[e.Idx].Range != nil {
				continue
			}
		}
		ret, isRet := from.Ast.(*ast.ReturnStmt)
		if isRet && len(ret.Results) == 1 && isTrue(ret.Results[0]) {
			continue
		}
		if e.From == l.Head {
			continue
		}
		bad = append(bad, c.P.Pos(g.PosOf(e.From)))
	}
	sort.Strings(bad)
	r.Check(len(bad) == 0, rule, "checkNegotiationNeeded|transceiver-loop|early-exit-is-return-true", c.P.Pos(l.Range.Pos()), "the loop is left before its end only by `return true`",
		"the transceiver loop can be left early other than by `return true` (at "+strings.Join(bad, ", ")+"): the remaining transceivers are never examined, so a change on one of them does not fire negotiationneeded")

	// (A) mid lookup in the local description, tested nil
	midVars := map[*types.Var]bool{}
	for n := range l.Body {
		as, ok := g.Nodes[n].Ast.(*ast.AssignStmt)
		if !ok || len(as.Lhs) != 1 || len(as.Rhs) != 1 {
			continue
		}
		call, ok := ast.Unparen(as.Rhs[0]).(*ast.CallExpr)
		if !ok || !core.IsCallTo(info, call, getByMid.Obj) || len(call.Args) != 2 || core.VarOf(info, call.Args[1]) != localDesc {
			continue
		}
		if !c04MentionsVar(info, call.Args[0], l.ValueVar) {
			continue
		}
		if v := core.VarOf(info, as.Lhs[0]); v != nil {
			midVars[v] = true
		}
	}
	nilTest := func(e ast.Expr, truth bool) bool { // edge establishes mid != nil
		b, ok := ast.Unparen(e).(*ast.BinaryExpr)
		if !ok || (b.Op != token.EQL && b.Op != token.NEQ) {
			return false
		}
		var other ast.Expr
		if midVars[core.VarOf(info, b.X)] {
			other = b.Y
		} else if midVars[core.VarOf(info, b.Y)] {
			other = b.X
		}
		return other != nil && core.IsNilIdent(info, other) && truth == (b.Op == token.NEQ)
	}
	inHeader := func(x int) bool { return !l.Body[x] }
	backs := l.backNodes()
	reachA := g.Reach([]int{l.BodyEntry}, inHeader, func(from, idx int, e core.Edge) bool {
		return e.Cond != nil && e.Tag == nil && e.Branch != 0 && nilTest(e.Cond, e.Branch == 1)
	})
	bad = nil
	for _, b := range backs {
		if reachA[b] && l.Body[b] {
			bad = append(bad, c.P.Pos(g.PosOf(b)))
		}
	}
	sort.Strings(bad)
	switch {
	case len(midVars) == 0:
		r.Undecided(rule, "checkNegotiationNeeded|transceiver-loop|step5.2-section-found", c.P.Pos(l.Range.Pos()), "no `m := getByMid(t.Mid(), localDesc)` in the loop body")
	default:
		r.Check(len(bad) == 0, rule, "checkNegotiationNeeded|transceiver-loop|step5.2-section-found", c.P.Pos(l.Range.Pos()), "the next transceiver is examined only after this one's m-section was found in the current local description",
			"an iteration goes on to the next transceiver (from "+strings.Join(bad, ", ")+") without having found this transceiver's m-section in the current local description (W3C step 5.2): a transceiver that is not yet negotiated, or is skipped for another reason, no longer makes negotiation needed")
	}

	// (B) direction compared with the description: every path to the next iteration reads localDesc.Type, except the reviewed skip
	typeNodes := map[int]bool{}
	for n := range l.Body {
		if g.Nodes[n].Ast == nil {
			continue
		}
		core.InspectShallow(g.Nodes[n].Ast, func(x ast.Node) bool {
			if sel, ok := x.(*ast.SelectorExpr); ok && core.FieldOf(info, sel) == typeF && core.VarOf(info, sel.X) == localDesc {
				typeNodes[n] = true
			}
			return true
		})
	}
	// reviewed skip: the true edge of `track == nil` where track := <sender>.Track()
	skipEdge := func(e core.Edge) bool {
		if e.Cond == nil || e.Tag != nil || e.Branch == 0 {
			return false
		}
		b, ok := ast.Unparen(e.Cond).(*ast.BinaryExpr)
		if !ok || (b.Op != token.EQL && b.Op != token.NEQ) || (e.Branch == 1) != (b.Op == token.EQL) {
			return false
		}
		var v *types.Var
		if core.IsNilIdent(info, b.Y) {
			v = core.VarOf(info, b.X)
		} else if core.IsNilIdent(info, b.X) {
			v = core.VarOf(info, b.Y)
		}
		if v == nil {
			return false
		}
		rhs, _ := g.UniqueDef(v)
		call, ok := ast.Unparen(rhs).(*ast.CallExpr)
		if !ok {
			return false
		}
		fn := core.Callee(info, call)
		return fn != nil && fn.Name() == "Track" && core.FuncName(fn) == "(*RTPSender).Track"
	}
	nSkip := 0
	reachB := g.Reach([]int{l.BodyEntry}, func(x int) bool { return !l.Body[x] || typeNodes[x] }, func(from, idx int, e core.Edge) bool {
		if skipEdge(e) {
			nSkip++
			return true
		}
		return false
	})
	bad = nil
	for _, b := range backs {
		if reachB[b] && l.Body[b] && !typeNodes[b] {
			bad = append(bad, c.P.Pos(g.PosOf(b)))
		}
	}
	sort.Strings(bad)
	if len(typeNodes) == 0 {
		r.Undecided(rule, "checkNegotiationNeeded|transceiver-loop|step5.3-direction-vs-description", c.P.Pos(l.Range.Pos()), "the loop body never reads localDesc.Type")
	} else {
		r.Check(len(bad) == 0, rule, "checkNegotiationNeeded|transceiver-loop|step5.3-direction-vs-description", c.P.Pos(l.Range.Pos()), sprintf("every way to the next transceiver passes the offer/answer direction comparison (reviewed skips crossed: %d: sender's track is nil)", nSkip),
			"an iteration goes on to the next transceiver (from "+strings.Join(bad, ", ")+") without the offer/answer direction comparison of W3C steps 5.3.2/5.3.3 and not through the reviewed replaceTrack(nil) skip: a direction change on such a transceiver (e.g. RemoveTrack making it inactive) no longer fires negotiationneeded")
	}
	// (C) step 3: no current local description => needed
	entryOK := false
	for _, n := range g.Nodes {
		for _, e := range n.Succs {
			if e.Cond == nil || e.Tag != nil || e.Branch == 0 {
				continue
			}
			b, ok := ast.Unparen(e.Cond).(*ast.BinaryExpr)
			if !ok || (b.Op != token.EQL && b.Op != token.NEQ) || (e.Branch == 1) != (b.Op == token.EQL) {
				continue
			}
			if !(core.VarOf(info, b.X) == localDesc && core.IsNilIdent(info, b.Y) || core.VarOf(info, b.Y) == localDesc && core.IsNilIdent(info, b.X)) {
				continue
			}
			// the nil edge must lead to return true only
			ok2 := true
			reach := g.Reach([]int{e.To}, nil, nil)
			for x := range reach {
				if ret, isRet := g.Nodes[x].Ast.(*ast.ReturnStmt); isRet {
					if len(ret.Results) != 1 || !isTrue(ret.Results[0]) {
						ok2 = false
					}
				}
			}
			// and dominate the loop
			if ok2 && g.Dominated(l.Head, map[int]bool{n.ID: true}) {
				entryOK = true
			}
		}
	}
	r.Check(entryOK, rule, "checkNegotiationNeeded|step3-no-local-description", pos, "without a current local description the check answers true, before the loop", "checkNegotiationNeeded no longer answers true when there is no current local description (W3C step 3): the first AddTrack/CreateDataChannel does not fire negotiationneeded")
}

func c04MentionsVar(info *types.Info, e ast.Expr, v *types.Var) bool {
	found := false
	ast.Inspect(e, func(x ast.Node) bool {
		if id, ok := x.(*ast.Ident); ok && info.Uses[id] == types.Object(v) {
			found = true
		}
		return true
	})
	return found
}
