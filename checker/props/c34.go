package props

import (
	"go/ast"
	"go/constant"
	"go/token"
	"go/types"
	"sort"
	"strings"
	"time"

	"verif/checker/core"
)

func init() {
	register(&Prop{
		ID:        "C34",
		Engine:    "e2cfg+e1eval+e5sibling",
		Technique: "path rule on both NextNAL graphs (no success return reachable from an accumulation into the NAL buffer without passing the SEI filter test); exhaustive tabulation of the filter predicate over (includeSEI, NAL type) and of parseHeader over every header byte value against the H.264/H.265 NAL header layout; alpha-normalised sibling comparison of the start-code helpers of the two readers",
		LevelText: "For both Annex-B readers: (1) every path of NextNAL from a statement that grows the unit buffer to the return of a unit passes the SEI filter test, so no unit - in particular the last one of the stream - is returned untested; (2) the filter predicate is tabulated for all (includeSEI, unit type) and separates exactly (false, SEI types); (3) parseHeader and every other NAL-type extraction are evaluated for all 256 (H.264) / 65536 (H.265) header values and compared with the standard header layout; (4) read/processByte/prefix handling of the two readers are structurally identical.",
		LevelNote: "Trusted: H.264 (F|NRI|type) and H.265 (F|type|layer|tid) header layouts as transcribed; evaluator semantics on the integer fragment. Does not decide exactness of start-code scanning over arbitrary chunk sizes, nor that the unit handed to the filter is the buffered unit (the tested value's provenance is only checked syntactically for the H.265 in-loop extraction).",
		DesignRef: "DESIGN.md §5 C34",
		Run:       runC34,
	})
}

type c34Reader struct {
	rel, typ, prefixFn string
	seiConsts          []string
	nalTypeBits        int // number of declared type values
}

var c34Readers = []c34Reader{
	{rel: "pkg/media/h264reader", typ: "H264Reader", prefixFn: "bitStreamStartsWithH264Prefix", seiConsts: []string{"NalUnitTypeSEI"}, nalTypeBits: 5},
	{rel: "pkg/media/h265reader", typ: "H265Reader", prefixFn: "bitStreamStartsWithH265Prefix", seiConsts: []string{"NalUnitTypePrefixSei", "NalUnitTypeSuffixSei"}, nalTypeBits: 6},
}

func runC34(c *Ctx) {
	r := c.R
	t0 := time.Now()
	defer func() { r.Extra["rules_wall_s"] = time.Since(t0).Seconds() }()
	r.Rule("C34.R1", "in both NextNAL functions no return of a NAL unit is reachable from a statement that accumulates into the NAL buffer (append in the loop, the prefix helper's first byte) without passing a test of the SEI filter (a branch that depends on includeSEI); the filter predicate, tabulated over (includeSEI, unit type), is true exactly for (false, SEI type) or exactly for the complement", 6)
	r.Rule("C34.R2", "h264reader and h265reader agree structurally (alpha-normalised, H264/H265 name parts removed) on read, processByte and the start-code prefix helper", 0)
	r.Rule("C34.R4", "start-code detection: processByte of each reader, tabulated over (byte, zeros seen, bytes buffered), equals the Annex-B rule: 0x00 extends the zero run; 0x01 after >= 2 zeros ends the unit, strips the 2 (3 for a longer run) zeros of the start code and reports a unit iff bytes remain; everything else is payload; both reset the run", 8)
	r.Rule("C34.R5", "the read buffer owns its bytes: every assignment to readBuffer is an append to itself, a re-slice of itself, nil or a fresh slice, never a window into the scratch buffer passed to stream.Read (so results do not depend on chunk sizes)", 4)
	r.Rule("C34.R3", "NAL header bit layout, evaluated for every header byte value: H.264 F=bit7, NRI=bits6-5, type=bits4-0; H.265 F=b0 bit7, type=b0 bits6-1, layer=(b0 bit0)<<5|b1 bits7-3, tid=b1 bits2-0; every other NAL-type extraction in the reader packages uses the type bits", 9)
	r.NotCovered = append(r.NotCovered, "exactness of start-code scanning over arbitrary read-chunk sizes (processByte's automaton is compared between the readers, not with the Annex-B grammar)", "emulation-prevention bytes / trailing zero bytes")
	r.Trusted = append(r.Trusted, "ITU-T H.264 §7.3.1 and H.265 §7.3.1.2 NAL unit header layouts as transcribed in props/c34.go", "core/eval semantics for integer and bit operations")
	l := core.NewLayout(c.P)
	for _, rd := range c34Readers {
		c34Path(c, l, rd)
		c34Header(c, l, rd)
	}
	c34Siblings(c)
	c34R4(c, "C34.R4")
	c34R5(c, "C34.R5")
}

// ---------- R1 ----------

func c34Path(c *Ctx, l *core.Layout, rd c34Reader) {
	r := c.R
	next := c.mustFunc("C34.R1", rd.rel, rd.typ+".NextNAL")
	bufF := c.mustField("C34.R1", rd.rel, rd.typ, "nalBuffer")
	incF := c.mustField("C34.R1", rd.rel, rd.typ, "includeSEI")
	if next == nil || bufF == nil || incF == nil {
		return
	}
	pkg := c.P.Pkg(rd.rel)
	info := pkg.TypesInfo
	// package functions that accumulate into the buffer / read the include flag (transitively)
	appendsBuf := func(n ast.Node) bool {
		as, ok := n.(*ast.AssignStmt)
		if !ok {
			return false
		}
		for i, lh := range as.Lhs {
			if core.FieldOf(info, lh) != bufF || len(as.Rhs) != len(as.Lhs) {
				continue
			}
			if call, ok := ast.Unparen(as.Rhs[i]).(*ast.CallExpr); ok {
				if id, ok := ast.Unparen(call.Fun).(*ast.Ident); ok {
					if b, ok := info.Uses[id].(*types.Builtin); ok && b.Name() == "append" {
						return true
					}
				}
			}
		}
		return false
	}
	readsInc := func(n ast.Node) bool {
		se, ok := n.(*ast.SelectorExpr)
		return ok && core.FieldOf(info, se) == incF
	}
	closure := func(direct func(ast.Node) bool) map[*types.Func]bool {
		set := map[*types.Func]bool{}
		var fns []*core.FuncInfo
		for _, fi := range c.P.AllFuncs() {
			if fi.Pkg == pkg && fi.Decl.Body != nil {
				fns = append(fns, fi)
			}
		}
		for changed := true; changed; {
			changed = false
			for _, fi := range fns {
				if set[fi.Obj] {
					continue
				}
				hit := false
				ast.Inspect(fi.Decl.Body, func(n ast.Node) bool {
					if n == nil || hit {
						return false
					}
					if direct(n) {
						hit = true
					}
					if call, ok := n.(*ast.CallExpr); ok {
						if fn := core.Callee(info, call); fn != nil && set[fn] {
							hit = true
						}
					}
					return !hit
				})
				if hit {
					set[fi.Obj] = true
					changed = true
				}
			}
		}
		return set
	}
	accFns := closure(appendsBuf)
	skipFns := closure(readsInc)
	delete(accFns, next.Obj)
	delete(skipFns, next.Obj)

	g := c.P.GraphOf(next)
	mentions := func(n ast.Node, direct func(ast.Node) bool, fns map[*types.Func]bool) bool {
		hit := false
		core.InspectShallow(n, func(x ast.Node) bool {
			if hit {
				return false
			}
			if direct(x) {
				hit = true
			}
			if call, ok := x.(*ast.CallExpr); ok {
				if fn := core.Callee(info, call); fn != nil && fns[fn] {
					hit = true
				}
			}
			return !hit
		})
		return hit
	}
	var accNodes, testNodes, okReturns []int
	live := g.Live()
	for _, nd := range g.Nodes {
		if nd.Ast == nil || !live[nd.ID] {
			continue
		}
		isCond := false
		for _, e := range nd.Succs {
			if e.Cond != nil && e.Branch != 0 {
				isCond = true
			}
		}
		if isCond {
			if ex, ok := nd.Ast.(ast.Expr); ok {
				dep := mentions(ex, readsInc, skipFns)
				if !dep {
					// a local that holds the filter's verdict
					core.InspectShallow(ex, func(x ast.Node) bool {
						if id, ok := x.(*ast.Ident); ok {
							if v, ok := info.Uses[id].(*types.Var); ok && !v.IsField() {
								for _, d := range l.DefExprs(next, v) {
									if mentions(d, readsInc, skipFns) {
										dep = true
									}
								}
							}
						}
						return true
					})
				}
				if dep {
					testNodes = append(testNodes, nd.ID)
				}
			}
			continue
		}
		if mentions(nd.Ast, appendsBuf, accFns) {
			accNodes = append(accNodes, nd.ID)
		}
		if ret, ok := nd.Ast.(*ast.ReturnStmt); ok && len(ret.Results) > 0 && !core.IsNilIdent(info, ret.Results[0]) {
			okReturns = append(okReturns, nd.ID)
		}
	}
	key := next.Name() + "|returned-unit-passed-SEI-filter"
	pos := c.P.Pos(next.Decl.Pos())
	if len(accNodes) == 0 || len(testNodes) == 0 || len(okReturns) == 0 {
		r.Undecided("C34.R1", key, pos, sprintf("cannot find the rule's anchors in NextNAL: %d accumulation statements, %d filter tests, %d unit returns", len(accNodes), len(testNodes), len(okReturns)))
		return
	}
	tests := core.NodeSet(testNodes)
	var bad []string
	for _, a := range accNodes {
		var starts []int
		for _, e := range g.Nodes[a].Succs {
			starts = append(starts, e.To)
		}
		reach := g.Reach(starts, func(n int) bool { return tests[n] }, nil)
		for _, rn := range okReturns {
			if reach[rn] {
				bad = append(bad, sprintf("the unit return at %s is reachable from the accumulation %s at %s without an SEI-filter test", c.P.Pos(g.PosOf(rn)), c34Describe(g, a), c.P.Pos(g.PosOf(a))))
			}
		}
	}
	r.Cells += len(accNodes) * len(okReturns)
	sort.Strings(bad)
	r.Check(len(bad) == 0, "C34.R1", key, c.P.Pos(g.PosOf(okReturns[0])),
		sprintf("%d accumulation statement(s), %d filter test(s): every unit return is behind a test", len(accNodes), len(testNodes)),
		"a NAL unit can be returned without having been tested against the SEI filter (a stream that ends in an SEI returns it although SEI inclusion is off): "+strings.Join(bad, "; "))

	// ---- filter predicate tables, one per if-statement that contains a test node
	c34Predicates(c, l, rd, next, g, testNodes)
}

func c34Describe(g *core.Graph, n int) string {
	a := g.Nodes[n].Ast
	for _, call := range core.CallsIn(a) {
		if fn := core.Callee(g.Info, call); fn != nil && fn.Pkg() != nil && strings.HasPrefix(fn.Pkg().Path(), core.ModPath) {
			return "call:" + core.FuncName(fn)
		}
	}
	return "append"
}

func c34Predicates(c *Ctx, l *core.Layout, rd c34Reader, next *core.FuncInfo, g *core.Graph, testNodes []int) {
	r := c.R
	info := g.Info
	// group test nodes by the condition they belong to: an if statement's condition or a case of a tagless switch
	ifs := map[ast.Expr]int{}
	var order []ast.Expr
	for _, tn := range testNodes {
		var n ast.Node = g.Nodes[tn].Ast
		within := func(e ast.Expr) bool {
			return e != nil && g.Nodes[tn].Ast.Pos() >= e.Pos() && g.Nodes[tn].Ast.End() <= e.End()
		}
		var cond ast.Expr
		for n != nil && cond == nil {
			switch s := n.(type) {
			case *ast.IfStmt:
				if within(s.Cond) {
					cond = s.Cond
				}
			case *ast.CaseClause:
				if sw, ok := l.Parent(next, l.Parent(next, s)).(*ast.SwitchStmt); ok && sw.Tag == nil {
					for _, e := range s.List {
						if within(e) {
							cond = e
						}
					}
				}
			}
			n = l.Parent(next, n)
		}
		if cond == nil {
			r.Undecided("C34.R1", next.Name()+"|filter-predicate|unstructured", c.P.Pos(g.PosOf(tn)), "an SEI-filter test is neither the condition of an if statement nor a case of a tagless switch; its predicate is not tabulated")
			continue
		}
		if _, seen := ifs[cond]; !seen {
			ifs[cond] = tn
			order = append(order, cond)
		}
	}
	nalT := c.P.Named(rd.rel, "NalUnitType")
	nalStruct := c.P.Named(rd.rel, "NAL")
	sei := map[int64]bool{}
	for _, name := range rd.seiConsts {
		if k := c.mustConst("C34.R1", rd.rel, name); k != nil {
			v, _ := constant.Int64Val(k.Val())
			sei[v] = true
		}
	}
	if nalT == nil || nalStruct == nil || len(sei) != len(rd.seiConsts) {
		r.Fail("C34.R1", next.Name()+"|filter-predicate|anchors", "-", "NalUnitType / NAL / SEI constants no longer resolve")
		return
	}
	for _, condExpr := range order {
		where := "after-loop"
		tn := ifs[condExpr]
		for _, e := range g.Nodes[tn].Succs {
			if g.Reach([]int{e.To}, nil, nil)[tn] {
				where = "in-loop"
			}
		}
		key := next.Name() + "|filter-predicate|" + where
		pos := c.P.Pos(condExpr.Pos())
		nTypes := int64(1) << rd.nalTypeBits
		var undecided string
		posSkip, negSkip := true, true // predicate == (¬inc ∧ sei)  /  predicate == ¬(¬inc ∧ sei)
		cells := 0
		for _, inc := range []bool{false, true} {
			for t := int64(0); t < nTypes; t++ {
				ev := &core.Evaluator{P: c.P, Fuel: 2000}
				ev.Path = func(p string) (core.EVal, bool) {
					switch {
					case strings.HasSuffix(p, ".includeSEI"):
						return core.EBool(inc), true
					case strings.HasSuffix(p, ".UnitType"), strings.HasSuffix(p, ".NalUnitType"):
						return core.EInt(t, nalT), true
					}
					return core.EVal{}, false
				}
				ev.LocalDef = func(v *types.Var) ast.Expr { return l.UniqueDef(next, v) }
				fr := ev.NewFrame(g)
				// bind the function's locals by what they stand for: the receiver, unit-type values, units
				bind := func(v *types.Var) {
					if v == nil || v.IsField() {
						return
					}
					vt := v.Type()
					if p, ok := vt.(*types.Pointer); ok {
						vt = p.Elem()
					}
					switch {
					case types.Identical(vt, nalT):
						fr.Locals[v] = core.EInt(t, nalT)
					case types.Identical(vt, nalStruct):
						fr.Locals[v] = core.EVal{K: core.ERef, Path: "unit"}
					case v == next.Obj.Type().(*types.Signature).Recv():
						fr.Locals[v] = core.EVal{K: core.ERef, Path: "recv"}
					}
				}
				bind(next.Obj.Type().(*types.Signature).Recv())
				ast.Inspect(next.Decl.Body, func(x ast.Node) bool {
					if id, ok := x.(*ast.Ident); ok {
						if v, ok := info.Defs[id].(*types.Var); ok {
							bind(v)
						}
					}
					return true
				})
				v := fr.Eval(condExpr)
				cells++
				want := !inc && sei[t]
				switch {
				case v.IsTrue():
					if !want {
						posSkip = false
					} else {
						negSkip = false
					}
				case v.IsFalse():
					if want {
						posSkip = false
					} else {
						negSkip = false
					}
				default:
					undecided = sprintf("includeSEI=%v type=%d: %s", inc, t, v)
				}
			}
		}
		r.Cells += cells
		switch {
		case undecided != "":
			r.Undecided("C34.R1", key, pos, "the filter condition could not be evaluated for "+undecided)
		default:
			r.Check(posSkip || negSkip, "C34.R1", key, pos, sprintf("%d cells: the condition separates exactly (includeSEI=false, SEI type)", cells),
				"the filter condition does not separate exactly the SEI units with inclusion off: some non-SEI unit is skipped or some SEI unit is kept when SEI inclusion is off (or SEI units are dropped although inclusion is on)")
		}
	}
	// the in-loop type extraction of a reader that computes the type inline
	c34InlineExtractions(c, l, rd, next)
}

// c34InlineExtractions: every conversion NalUnitType(E) in the package where E is byte arithmetic on one indexed byte
// must yield the type bits of that byte for all 256 values.
func c34InlineExtractions(c *Ctx, l *core.Layout, rd c34Reader, only *core.FuncInfo) {
	nalT := c.P.Named(rd.rel, "NalUnitType")
	pkg := c.P.Pkg(rd.rel)
	for _, fi := range c.P.AllFuncs() {
		if fi.Pkg != pkg || fi.Decl.Body == nil || (only != nil && fi != only) {
			continue
		}
		c34ExtractionsIn(c, l, fi, nalT, rd.nalTypeBits, "C34.R3")
	}
}

// c34ExtractionsIn checks the NAL-type extractions (conversions to nalT of arithmetic on a single indexed byte) of fi.
// bits=5: type = b & 0x1F (H.264); bits=6: type = (b >> 1) & 0x3F (H.265).
func c34ExtractionsIn(c *Ctx, l *core.Layout, fi *core.FuncInfo, nalT *types.Named, bits int, rule string) int {
	info := fi.Pkg.TypesInfo
	g := c.P.GraphOf(fi)
	n := 0
	ast.Inspect(fi.Decl.Body, func(x ast.Node) bool {
		call, ok := x.(*ast.CallExpr)
		if !ok || len(call.Args) != 1 {
			return true
		}
		tv, ok := info.Types[call.Fun]
		if !ok || !tv.IsType() || !types.Identical(tv.Type, nalT) {
			return true
		}
		if atv := info.Types[call.Args[0]]; atv.Value != nil {
			return true
		}
		// the single indexed byte the argument depends on (directly or through locals)
		var idx []*ast.IndexExpr
		seen := map[*types.Var]bool{}
		var collect func(e ast.Node)
		collect = func(e ast.Node) {
			ast.Inspect(e, func(y ast.Node) bool {
				switch z := y.(type) {
				case *ast.IndexExpr:
					if bt, ok := info.TypeOf(z).Underlying().(*types.Basic); ok && bt.Kind() == types.Uint8 {
						idx = append(idx, z)
						return false
					}
				case *ast.Ident:
					if v, ok := info.Uses[z].(*types.Var); ok && !v.IsField() && !seen[v] {
						seen[v] = true
						if d := l.UniqueDef(fi, v); d != nil {
							collect(d)
						}
					}
				}
				return true
			})
		}
		collect(call.Args[0])
		if len(idx) == 0 {
			return true // a conversion of an already extracted value (e.g. from another integer type)
		}
		n++
		key := fi.Name() + "|type-extraction|" + c34ExprShape(info, idx[0])
		pos := c.P.Pos(call.Pos())
		if len(idx) != 1 {
			c.R.Undecided(rule, key, pos, "a NAL type is computed from more than one byte")
			return true
		}
		bad := ""
		for b := 0; b < 256 && bad == ""; b++ {
			ev := &core.Evaluator{P: c.P, Fuel: 500}
			ev.Expr = func(e ast.Expr) (core.EVal, bool) {
				if e == ast.Expr(idx[0]) {
					return core.EInt(int64(b), types.Typ[types.Uint8]), true
				}
				return core.EVal{}, false
			}
			ev.LocalDef = func(v *types.Var) ast.Expr { return l.UniqueDef(fi, v) }
			fr := ev.NewFrame(g)
			v := fr.Eval(call)
			want := int64(b & 0x1F)
			if bits == 6 {
				want = int64((b >> 1) & 0x3F)
			}
			got, ok := v.Int64()
			switch {
			case !ok:
				bad = sprintf("byte 0x%02x: not evaluable (%s)", b, v)
			case got != want:
				bad = sprintf("header byte 0x%02x yields type %d, the type field holds %d", b, got, want)
			}
		}
		c.R.Cells += 256
		if strings.Contains(bad, "not evaluable") {
			c.R.Undecided(rule, key, pos, bad)
		} else {
			c.R.Check(bad == "", rule, key, pos, "256 byte values: extracts the type field", "NAL type extraction uses the wrong bits: "+bad)
		}
		return true
	})
	return n
}

// c34ExprShape renders an index expression with resolved names (field / parameter position), for keys.
func c34ExprShape(info *types.Info, ix *ast.IndexExpr) string {
	base := "?"
	switch {
	case core.FieldOf(info, ix.X) != nil:
		base = core.FieldOf(info, ix.X).Name()
	case core.VarOf(info, ix.X) != nil:
		base = "var"
	}
	i := "?"
	if tv := info.Types[ix.Index]; tv.Value != nil {
		i = tv.Value.ExactString()
	} else {
		i = "i"
	}
	return base + "[" + i + "]"
}

// ---------- R3 ----------

func c34Header(c *Ctx, l *core.Layout, rd c34Reader) {
	r := c.R
	ph := c.mustFunc("C34.R3", rd.rel, "NAL.parseHeader")
	nalT := c.P.Named(rd.rel, "NalUnitType")
	if ph == nil || nalT == nil {
		return
	}
	pos := c.P.Pos(ph.Decl.Pos())
	type field struct {
		name string
		want func(b0, b1 int64) int64
	}
	var fields []field
	two := rd.nalTypeBits == 6
	if !two {
		fields = []field{
			{"ForbiddenZeroBit", func(b0, _ int64) int64 { return b0 >> 7 }},
			{"RefIdc", func(b0, _ int64) int64 { return (b0 >> 5) & 3 }},
			{"UnitType", func(b0, _ int64) int64 { return b0 & 0x1F }},
		}
	} else {
		fields = []field{
			{"ForbiddenZeroBit", func(b0, _ int64) int64 { return b0 >> 7 }},
			{"NalUnitType", func(b0, _ int64) int64 { return (b0 >> 1) & 0x3F }},
			{"LayerID", func(b0, b1 int64) int64 { return (b0&1)<<5 | b1>>3 }},
			{"TemporalIDPlus1", func(_, b1 int64) int64 { return b1 & 7 }},
		}
	}
	for _, f := range fields {
		c.mustField("C34.R3", rd.rel, "NAL", f.name)
	}
	bad := map[string]string{}
	undec := ""
	// cells: (b0, b1) pairs; -1 stands for "unknown byte" (three-valued independence proof)
	type pair struct{ b0, b1 int64 }
	var cells []pair
	switch {
	case !two:
		for b := int64(0); b < 256; b++ {
			cells = append(cells, pair{b, 0})
		}
	case c.Thorough:
		for b0 := int64(0); b0 < 256; b0++ {
			for b1 := int64(0); b1 < 256; b1++ {
				cells = append(cells, pair{b0, b1})
			}
		}
	default:
		// quick: every value of each byte against 16 patterns of the other (each bit alone, all, none, mixed),
		// plus the independence cells below; thorough enumerates all 65536 pairs
		reps := []int64{0x00, 0xff, 0x01, 0x02, 0x04, 0x08, 0x10, 0x20, 0x40, 0x80, 0xf8, 0x07, 0xa5, 0x5a, 0x7f, 0xfe}
		for b := int64(0); b < 256; b++ {
			for _, o := range reps {
				cells = append(cells, pair{b, o}, pair{o, b})
			}
		}
	}
	if two {
		// fields of one byte must not depend on the other byte at all: evaluate with that byte unknown
		for b := int64(0); b < 256; b++ {
			cells = append(cells, pair{b, -1}, pair{-1, b})
		}
	}
	dependsOn := map[string][2]bool{"ForbiddenZeroBit": {true, false}, "NalUnitType": {true, false}, "LayerID": {true, true}, "TemporalIDPlus1": {false, true},
		"RefIdc": {true, false}, "UnitType": {true, false}}
	extra := map[string]bool{}
	for _, cell := range cells {
		if undec != "" {
			break
		}
		b0, b1 := cell.b0, cell.b1
		ev := &core.Evaluator{P: c.P, Fuel: 400}
		ev.Byte = func(base string, i int64) (uint8, bool) {
			if base != "recv.Data" {
				return 0, false
			}
			switch i {
			case 0:
				return uint8(b0), b0 >= 0
			case 1:
				if two {
					return uint8(b1), b1 >= 0
				}
			}
			return 0, false
		}
		ev.Path = func(p string) (core.EVal, bool) {
			if p == "recv.Data" {
				return core.EBytes("recv.Data", 4), true
			}
			return core.EVal{}, false
		}
		out := ev.Call(ph, core.EVal{K: core.ERef, Path: "recv"}, nil)
		r.Cells++
		if out.Kind != "return" {
			undec = sprintf("b0=%#02x b1=%#02x: %s %s", b0, b1, out.Kind, out.Why)
			break
		}
		for _, f := range fields {
			dep := dependsOn[f.name]
			if (dep[0] && b0 < 0) || (dep[1] && b1 < 0) {
				continue // this field legitimately depends on the unknown byte
			}
			v, ok := ev.Stores["recv."+f.name]
			if !ok {
				bad[f.name] = "the field is not assigned"
				continue
			}
			got := int64(-1)
			switch {
			case v.IsTrue():
				got = 1
			case v.IsFalse():
				got = 0
			default:
				if n, ok := v.Int64(); ok {
					got = n
				} else if b0 < 0 || b1 < 0 {
					if bad[f.name] == "" {
						bad[f.name] = sprintf("%s depends on a header byte it must not depend on (b0=%d b1=%d, -1 = unknown): %s", f.name, b0, b1, v)
					}
					continue
				} else {
					undec = sprintf("b0=%#02x b1=%#02x: %s = %s", b0, b1, f.name, v)
				}
			}
			if want := f.want(max(b0, 0), max(b1, 0)); got != want && bad[f.name] == "" && undec == "" {
				bad[f.name] = sprintf("header bytes %02x %02x: parsed %s=%d, the header holds %d", b0, b1, f.name, got, want)
			}
		}
		for p := range ev.Stores {
			extra[p] = true
		}
	}
	if undec != "" {
		r.Undecided("C34.R3", ph.Name()+"|"+rd.rel+"|evaluation", pos, "parseHeader could not be evaluated: "+undec)
		return
	}
	how := sprintf("%d header values", len(cells))
	if two && c.Thorough {
		how = "all 65536 header values"
	} else if !two {
		how = "all 256 header values"
	}
	for _, f := range fields {
		r.Check(bad[f.name] == "", "C34.R3", rd.typ+"|parseHeader|"+f.name, pos, "matches the header layout for "+how, bad[f.name])
	}
	// short units leave the header untouched rather than panicking
	if two {
		ev := &core.Evaluator{P: c.P, Fuel: 400}
		ev.Path = func(p string) (core.EVal, bool) {
			if p == "recv.Data" {
				return core.EBytes("recv.Data", 1), true
			}
			return core.EVal{}, false
		}
		ev.Byte = func(string, int64) (uint8, bool) { return 0x40, true }
		out := ev.Call(ph, core.EVal{K: core.ERef, Path: "recv"}, nil)
		r.Check(out.Kind == "return", "C34.R3", rd.typ+"|parseHeader|one-byte-unit", pos, "a 1-byte unit does not index past its end", "parseHeader on a 1-byte unit: "+out.Kind+" "+out.Why)
	}
}

// ---------- R2 ----------

func c34Siblings(c *Ctx) {
	r := c.R
	a, b := c34Readers[0], c34Readers[1]
	pairs := [][2]string{
		{a.typ + ".read", b.typ + ".read"},
		{a.typ + ".processByte", b.typ + ".processByte"},
		{a.typ + "." + a.prefixFn, b.typ + "." + b.prefixFn},
	}
	for _, p := range pairs {
		fa := c.mustFunc("C34.R2", a.rel, p[0])
		fb := c.mustFunc("C34.R2", b.rel, p[1])
		if fa == nil || fb == nil {
			continue
		}
		sa, sb := c34Canon(fa), c34Canon(fb)
		key := "sibling|" + strings.TrimPrefix(p[0], a.typ+".")
		r.Cells += len(sa)
		if sa == sb {
			r.OK("C34.R2", key, c.P.Pos(fa.Decl.Pos()), "structurally identical")
			continue
		}
		// first difference
		ta, tb := strings.Fields(sa), strings.Fields(sb)
		i := 0
		for i < len(ta) && i < len(tb) && ta[i] == tb[i] {
			i++
		}
		ctx := func(t []string) string { return strings.Join(t[max(0, i-6):min(len(t), i+6)], " ") }
		// Not judged: a one-sided behaviour-preserving refactor makes the two bodies differ syntactically. The framing
		// behaviour itself is judged per reader by R4 (start-code state machine table) and R5 (read buffer ownership).
		r.Info("C34.R2", key, c.P.Pos(fb.Decl.Pos()), sprintf("listed, not judged: the two readers differ syntactically in %s: h264reader `… %s …` vs h265reader `… %s …`", p[0], ctx(ta), ctx(tb)))
	}
}

// c34Canon serialises a function body structurally: node kinds and operators as they are, locals and
// parameters numbered by first occurrence, fields and package-level objects by name with the codec
// number removed, constants by value.
func c34Canon(fi *core.FuncInfo) string {
	info := fi.Pkg.TypesInfo
	var sb strings.Builder
	locals := map[types.Object]int{}
	norm := func(s string) string {
		for _, x := range []string{"H264", "H265", "h264", "h265", "264", "265"} {
			s = strings.ReplaceAll(s, x, "")
		}
		return s
	}
	var walk func(n ast.Node)
	walk = func(n ast.Node) {
		ast.Inspect(n, func(x ast.Node) bool {
			if x == nil {
				sb.WriteString(") ")
				return false
			}
			if e, ok := x.(ast.Expr); ok {
				if tv, ok := info.Types[e]; ok && tv.Value != nil {
					sb.WriteString("(const:" + tv.Value.ExactString() + " ) ")
					return false
				}
			}
			switch v := x.(type) {
			case *ast.Ident:
				obj := info.ObjectOf(v)
				switch o := obj.(type) {
				case *types.Var:
					if o.IsField() {
						sb.WriteString("(field:" + o.Name() + " ")
					} else if o.Pkg() != nil && o.Parent() == o.Pkg().Scope() {
						sb.WriteString("(pkgvar:" + norm(o.Name()) + " ")
					} else {
						k, ok := locals[o]
						if !ok {
							k = len(locals)
							locals[o] = k
						}
						sb.WriteString(sprintf("(v%d ", k))
					}
				case *types.Func:
					sb.WriteString("(func:" + norm(o.FullName()) + " ")
				case *types.TypeName:
					sb.WriteString("(type:" + norm(o.Name()) + " ")
				case *types.Builtin, *types.Nil:
					sb.WriteString("(" + v.Name + " ")
				case *types.PkgName:
					sb.WriteString("(pkg:" + o.Imported().Path() + " ")
				default:
					sb.WriteString("(id:" + norm(v.Name) + " ")
				}
				return true
			case *ast.BinaryExpr:
				sb.WriteString("(bin" + v.Op.String() + " ")
			case *ast.UnaryExpr:
				sb.WriteString("(un" + v.Op.String() + " ")
			case *ast.AssignStmt:
				sb.WriteString("(assign" + v.Tok.String() + " ")
			case *ast.IncDecStmt:
				sb.WriteString("(incdec" + v.Tok.String() + " ")
			case *ast.BranchStmt:
				sb.WriteString("(branch" + v.Tok.String() + " ")
			case *ast.BasicLit:
				sb.WriteString("(lit:" + v.Value + " ")
			case *ast.CommentGroup, *ast.Comment:
				return false
			default:
				sb.WriteString(sprintf("(%T ", x))
			}
			return true
		})
	}
	// signature shape: parameter and result types
	sig := fi.Obj.Type().(*types.Signature)
	sb.WriteString(norm(types.TypeString(sig.Params(), func(p *types.Package) string { return "" })) + "->" + norm(types.TypeString(sig.Results(), func(p *types.Package) string { return "" })) + " ")
	if r := sig.Recv(); r != nil {
		locals[r] = len(locals)
	}
	for i := 0; i < sig.Params().Len(); i++ {
		locals[sig.Params().At(i)] = len(locals)
	}
	for i := 0; i < sig.Results().Len(); i++ {
		locals[sig.Results().At(i)] = len(locals)
	}
	walk(fi.Decl.Body)
	_ = token.NoPos
	return sb.String()
}
