package props

import (
	"go/ast"
	"go/constant"
	"go/token"
	"go/types"
	"sort"
	"strings"

	"verif/checker/core"
)

// ---- R4: header-extension ids

func c10R4(c *Ctx) {
	r := c.R
	const rule = "C10.R4"
	fi := c.mustFunc(rule, "", "MediaEngine.getRTPParametersByKind")
	negF := c.mustField(rule, "", "MediaEngine", "negotiatedHeaderExtensions")
	idF := c.mustField(rule, "", "RTPHeaderExtensionParameter", "ID")
	uriF := c.mustField(rule, "", "RTPHeaderExtensionParameter", "URI")
	extURI := c.mustField(rule, "", "mediaEngineHeaderExtension", "uri")
	addT := c.mustFunc(rule, "", "addTransceiverSDP")
	if fi == nil || negF == nil || idF == nil || uriF == nil || extURI == nil || addT == nil {
		return
	}
	pos := c.P.Pos(fi.Decl.Pos())
	// the functions judged: getRTPParametersByKind and the same-package helpers it calls (a block may have been extracted)
	funcs := []*core.FuncInfo{fi}
	seenF := map[*core.FuncInfo]bool{fi: true}
	for depth, frontier := 0, []*core.FuncInfo{fi}; depth < 2 && len(frontier) > 0; depth++ {
		var next []*core.FuncInfo
		for _, f := range frontier {
			finfo := f.Pkg.TypesInfo
			ast.Inspect(f.Decl.Body, func(n ast.Node) bool {
				if call, ok := n.(*ast.CallExpr); ok {
					if callee := c.P.DeclOf(core.Callee(finfo, call)); callee != nil && callee.Decl.Body != nil && callee.Pkg == fi.Pkg && !seenF[callee] {
						seenF[callee] = true
						next = append(next, callee)
						funcs = append(funcs, callee)
					}
				}
				return true
			})
		}
		frontier = next
	}

	// stores into local maps of header extensions (function bodies and the closures inside them)
	type store struct {
		f    *core.FuncInfo
		g    *core.Graph
		node int
		as   *ast.AssignStmt
		m    *types.Var
		idx  *types.Var
	}
	var stores []store
	for _, f := range funcs {
		info := f.Pkg.TypesInfo
		regions := []*core.Graph{c.P.GraphOf(f)}
		ast.Inspect(f.Decl.Body, func(x ast.Node) bool {
			if fl, ok := x.(*ast.FuncLit); ok {
				if lg := c.P.GraphOfLit(fl); lg != nil {
					regions = append(regions, lg)
				}
			}
			return true
		})
		for _, rg := range regions {
			for _, n := range rg.Nodes {
				as, ok := n.Ast.(*ast.AssignStmt)
				if !ok {
					continue
				}
				for _, l := range as.Lhs {
					ix, ok := ast.Unparen(l).(*ast.IndexExpr)
					if !ok {
						continue
					}
					mv := core.VarOf(info, ix.X)
					if mv == nil || mv.IsField() {
						continue
					}
					mt, ok := mv.Type().Underlying().(*types.Map)
					if !ok || !types.Identical(mt.Elem(), extURI.Origin().Type()) && !c10IsExtType(mt.Elem(), extURI) {
						continue
					}
					iv := core.VarOf(info, ix.Index)
					if iv == nil {
						r.Undecided(rule, f.Name()+"|id-store", c.P.Pos(as.Pos()), "header-extension id is not a variable: "+exprStr(ix.Index))
						continue
					}
					stores = append(stores, store{f, rg, n.ID, as, mv, iv})
				}
			}
		}
	}
	nLocal := 0
	for _, st := range stores {
		info := st.f.Pkg.TypesInfo
		fg := c.P.GraphOf(st.f)
		// classify the index variable
		var loop *ast.ForStmt
		var rng *ast.RangeStmt
		for _, x := range fg.PathTo(st.as) {
			switch s := x.(type) {
			case *ast.ForStmt:
				if as, ok := s.Init.(*ast.AssignStmt); ok && len(as.Lhs) == 1 && core.VarOf(info, as.Lhs[0]) == st.idx {
					loop = s
				}
			case *ast.RangeStmt:
				if s.Key != nil && core.VarOf(info, s.Key) == st.idx {
					rng = s
				}
			}
		}
		switch {
		case rng != nil && core.FieldOf(info, rng.X) == negF:
			r.Info(rule, st.f.Name()+"|id-store|negotiated-id", c.P.Pos(st.as.Pos()), "id chosen by the remote side (key of negotiatedHeaderExtensions) is reused; its range is not decided (extmap-allow-mixed permits ids above 14)")
		case loop != nil && st.g.NodeOf(loop.Init) >= 0:
			nLocal++
			c10LocalIDLoop(c, rule, st.f, st.g, loop, st.node, st.as, st.m, st.idx, negF, nLocal)
		default:
			r.Undecided(rule, st.f.Name()+"|id-store", c.P.Pos(st.as.Pos()), "a header-extension id is stored whose origin is neither a counting loop (in the same function body) nor a negotiated id: "+exprStr(st.as.Lhs[0]))
		}
	}
	if nLocal == 0 {
		r.Fail(rule, fi.Name()+"|local-id", pos, "no local id allocation loop found: the rule lost its anchor")
	}

	// every returned header extension takes its ID from a map key and its URI from that entry
	nLit := 0
	for _, fi := range funcs {
		g := c.P.GraphOf(fi)
		info := g.Info
		fn := fi.Name()
		ast.Inspect(fi.Decl.Body, func(x ast.Node) bool {
			cl, ok := x.(*ast.CompositeLit)
			if !ok {
				return true
			}
			named, _ := info.TypeOf(cl).(*types.Named)
			if named == nil || named.Obj() != idF.Pkg().Scope().Lookup("RTPHeaderExtensionParameter") {
				return true
			}
			nLit++
			key := sprintf("%s|header-extension#%d|id-is-map-key", fn, nLit)
			var idE, uriE ast.Expr
			for i, el := range cl.Elts {
				if kv, ok := el.(*ast.KeyValueExpr); ok {
					if id, ok := kv.Key.(*ast.Ident); ok {
						switch info.Uses[id] {
						case types.Object(idF):
							idE = kv.Value
						case types.Object(uriF):
							uriE = kv.Value
						}
					}
				} else {
					st := named.Underlying().(*types.Struct)
					if i < st.NumFields() {
						switch st.Field(i) {
						case idF:
							idE = el
						case uriF:
							uriE = el
						}
					}
				}
			}
			if idE == nil || uriE == nil {
				r.Fail(rule, key, c.P.Pos(cl.Pos()), "ID or URI missing from the literal")
				return true
			}
			if core.FieldOf(info, uriE) != extURI {
				r.Fail(rule, key, c.P.Pos(cl.Pos()), "the URI is not the uri field of a header-extension entry: "+exprStr(uriE))
				return true
			}
			idV, uriRoot := core.VarOf(info, idE), c15RootVar(info, uriE)
			// directly inside a range over a map?
			if why := c10IDIsMapKey(g, info, cl, idV, uriRoot); why == "" {
				r.OK(rule, key, c.P.Pos(cl.Pos()), "ID is a map key (unique per section), URI is that entry's uri")
				return true
			} else {
				// inside a closure taking (id, entry): judged at every invocation of the closure
				var lit *ast.FuncLit
				for _, e := range g.PathTo(cl) {
					if fl, ok := e.(*ast.FuncLit); ok {
						lit = fl
					}
				}
				pi, pu := -1, -1
				if lit != nil {
					if lsig, ok := info.TypeOf(lit).(*types.Signature); ok {
						for i := 0; i < lsig.Params().Len(); i++ {
							if lsig.Params().At(i) == idV {
								pi = i
							}
							if lsig.Params().At(i) == uriRoot {
								pu = i
							}
						}
					}
				}
				invs := c15LitInvocations(info, fi.Decl.Body, lit)
				if pi < 0 || pu < 0 || len(invs) == 0 || c10ParamsReassigned(info, lit, idV, uriRoot) {
					r.Fail(rule, key, c.P.Pos(cl.Pos()), why)
					return true
				}
				for k, inv := range invs {
					ck := sprintf("%s|call#%d", key, k+1)
					if pi >= len(inv.Args) || pu >= len(inv.Args) {
						r.Undecided(rule, ck, c.P.Pos(inv.Pos()), "closure called with fewer arguments than parameters")
						continue
					}
					w := c10IDIsMapKey(g, info, inv, core.VarOf(info, inv.Args[pi]), core.VarOf(info, inv.Args[pu]))
					r.Check(w == "", rule, ck, c.P.Pos(inv.Pos()), "the closure building the header extension is called with a map key as ID and that entry as source of the URI", w)
				}
			}
			return true
		})
	}
	if nLit == 0 {
		r.Fail(rule, fi.Name()+"|header-extension", pos, "no RTPHeaderExtensionParameter is built: the rule lost its anchor")
	}

	// addTransceiverSDP: the extmap value comes from getRTPParametersByKind
	withExt := c10SDPMethod(c, "WithExtMap")
	if withExt == nil {
		r.Fail(rule, "anchor:sdp.MediaDescription.WithExtMap", "-", "method no longer resolves")
		return
	}
	// every WithExtMap call of the root package (addTransceiverSDP, or a helper the loop was moved into: parameters are
	// bound to the arguments of every call site)
	up := c10NewUpProv(c)
	n := 0
	for _, af := range c.P.AllFuncs() {
		if af.Decl.Body == nil || af.Pkg != addT.Pkg {
			continue
		}
		ainfo := af.Pkg.TypesInfo
		k := 0
		ast.Inspect(af.Decl.Body, func(x ast.Node) bool {
			call, ok := x.(*ast.CallExpr)
			if !ok || !core.IsCallTo(ainfo, call, withExt) || len(call.Args) != 1 {
				return true
			}
			n++
			k++
			bad := "the argument is not an ExtMap literal with a Value"
			if cl, ok := ast.Unparen(call.Args[0]).(*ast.CompositeLit); ok {
				for _, el := range cl.Elts {
					kv, ok := el.(*ast.KeyValueExpr)
					if !ok {
						continue
					}
					if id, ok := kv.Key.(*ast.Ident); ok && id.Name == "Value" {
						bad = ""
						lv := up.leaves(af, kv.Value, 0)
						if len(lv) == 0 {
							bad = "the extmap id is a constant"
						}
						for k, lf := range lv {
							if !(lf.Kind == "call" && lf.Fn == fi.Obj) {
								bad = "the extmap id derives from " + k
							}
						}
						if bad == "" && core.FieldOf(ainfo, kv.Value) != idF {
							bad = "the extmap id is not the ID field of a header-extension parameter: " + exprStr(kv.Value)
						}
					}
				}
			}
			r.Check(bad == "", rule, sprintf("%s|WithExtMap#%d|id-from-getRTPParametersByKind", af.Name(), k), c.P.Pos(call.Pos()), "extmap id is the ID of a parameter returned by getRTPParametersByKind", bad)
			return true
		})
	}
	if n == 0 {
		r.Fail(rule, "WithExtMap", c.P.Pos(addT.Decl.Pos()), "no extmap attribute is emitted anywhere (WithExtMap is never called): the rule lost its anchor")
	}
}

func c10IsExtType(t types.Type, uriField *types.Var) bool {
	st, ok := t.Underlying().(*types.Struct)
	if !ok {
		return false
	}
	for i := 0; i < st.NumFields(); i++ {
		if st.Field(i) == uriField {
			return true
		}
	}
	return false
}

func c10LocalIDLoop(c *Ctx, rule string, fi *core.FuncInfo, g *core.Graph, loop *ast.ForStmt, storeNode int, storeAs *ast.AssignStmt, m, idx *types.Var, negF *types.Var, ordinal int) {
	r := c.R
	info := g.Info
	fn := fi.Name()
	base := sprintf("%s|local-id#%d", fn, ordinal)
	p := c.P.Pos(loop.Pos())
	initNode := g.NodeOf(loop.Init)
	if initNode < 0 {
		r.Undecided(rule, base+"|range-1..14", p, "loop initialisation not found in the CFG")
		return
	}
	// (a) enumerate the counter: every environment reaching the store has 1 <= id <= 14
	{
		cf := &core.ConstFlow{G: g}
		res := cf.Run(initNode, core.CFEnv{})
		r.Cells += res.States
		vals := map[int64]bool{}
		bad := ""
		for _, env := range res.Reached[storeNode] {
			v, ok := env.Get(idx)
			if !ok || v.Kind() != constant.Int {
				bad = "the id is not a known constant on some path (the counter is modified in a way the enumeration cannot follow)"
				continue
			}
			iv, _ := constant.Int64Val(v)
			vals[iv] = true
			if iv < 1 || iv > 14 {
				bad = sprintf("id %d can be allocated: outside the one-byte header-extension range 1..14", iv)
			}
		}
		if len(vals) == 0 && bad == "" {
			bad = "the store is never reached"
		}
		if len(res.Problems) > 0 {
			bad = strings.Join(res.Problems, "; ")
		}
		var vs []int
		for v := range vals {
			vs = append(vs, int(v))
		}
		sort.Ints(vs)
		r.Check(bad == "", rule, base+"|range-1..14", p, sprintf("ids enumerated: %v", vs), bad)
	}
	// (b) skip ids in use: comma-ok lookups with the same id in the loop body
	type lookup struct {
		node int
		ok   *types.Var
	}
	var inSection, inNegotiated []lookup
	for _, n := range g.Nodes {
		as, isAs := n.Ast.(*ast.AssignStmt)
		if !isAs || len(as.Lhs) != 2 || len(as.Rhs) != 1 {
			continue
		}
		inLoop := false
		for _, x := range g.PathTo(as) {
			if x == ast.Node(loop) {
				inLoop = true
			}
		}
		ix, isIx := ast.Unparen(as.Rhs[0]).(*ast.IndexExpr)
		if !inLoop || !isIx || core.VarOf(info, ix.Index) != idx {
			continue
		}
		okv := core.VarOf(info, as.Lhs[1])
		if okv == nil {
			continue
		}
		switch {
		case core.VarOf(info, ix.X) == m:
			inSection = append(inSection, lookup{n.ID, okv})
		case core.FieldOf(info, ix.X) == negF:
			inNegotiated = append(inNegotiated, lookup{n.ID, okv})
		}
	}
	for _, grp := range []struct {
		name string
		ls   []lookup
		why  string
	}{
		{"section-map", inSection, "two extensions of one section would share an id"},
		{"negotiated-map", inNegotiated, "a locally allocated id would collide with an id the remote side already uses for another extension"},
	} {
		key := base + "|skips-ids-in:" + grp.name
		if len(grp.ls) == 0 {
			r.Fail(rule, key, p, "the allocation loop does not look the candidate id up in the "+grp.name+": "+grp.why)
			continue
		}
		grp := grp
		cf := &core.ConstFlow{G: g, Inject: func(node int, v *types.Var, rhs ast.Expr, i int, env core.CFEnv) (constant.Value, bool) {
			for _, l := range grp.ls {
				if node == l.node && v == l.ok {
					return constant.MakeBool(true), true
				}
			}
			return nil, false
		}}
		res := cf.Run(initNode, core.CFEnv{})
		r.Cells += res.States
		r.Check(!res.ReachedNode(storeNode), rule, key, p, "an id present in the "+grp.name+" is never allocated", "an id that is present in the "+grp.name+" can still be allocated: "+grp.why)
	}
}

// ---- R5: addCodec and the writers of the codec lists

func c10R5(c *Ctx) {
	r := c.R
	const rule = "C10.R5"
	add := c.mustFunc(rule, "", "MediaEngine.addCodec")
	ptF := c.mustField(rule, "", "RTPCodecParameters", "PayloadType")
	if add == nil || ptF == nil {
		return
	}
	g := c.P.GraphOf(add)
	info := g.Info
	fn := add.Name()
	pos := c.P.Pos(add.Decl.Pos())
	sig := add.Obj.Type().(*types.Signature)
	if sig.Params().Len() != 2 || sig.Results().Len() != 2 {
		r.Undecided(rule, fn+"|shape", pos, "unexpected signature")
		return
	}
	list, codec := sig.Params().At(0), sig.Params().At(1)
	// the payload-type equality between a list element and the new codec
	isPTEq := func(e ast.Expr) *ast.RangeStmt {
		be, ok := ast.Unparen(e).(*ast.BinaryExpr)
		if !ok || be.Op != token.EQL {
			return nil
		}
		for _, pr := range [][2]ast.Expr{{be.X, be.Y}, {be.Y, be.X}} {
			if core.FieldOf(info, pr[0]) != ptF || core.FieldOf(info, pr[1]) != ptF || c15RootVar(info, pr[1]) != codec {
				continue
			}
			ev := c15RootVar(info, pr[0])
			for _, x := range g.PathTo(be) {
				if rs, ok := x.(*ast.RangeStmt); ok && rs.Value != nil && core.VarOf(info, rs.Value) == ev && core.VarOf(info, rs.X) == list {
					return rs
				}
			}
		}
		return nil
	}
	var scan *ast.RangeStmt
	ast.Inspect(add.Decl.Body, func(n ast.Node) bool {
		if e, ok := n.(ast.Expr); ok {
			if rs := isPTEq(e); rs != nil {
				scan = rs
			}
		}
		return true
	})
	if scan == nil {
		r.Fail(rule, fn+"|payload-type-scan", pos, "no comparison of an existing element's PayloadType with the new codec's PayloadType inside a range over the list")
		return
	}
	head, body, _, _ := g.RangeLoop(scan)
	// classify the returns
	var growing, same []int
	for _, rn := range g.Returns() {
		ret := g.Nodes[rn].Ast.(*ast.ReturnStmt)
		if len(ret.Results) != 2 {
			r.Undecided(rule, fn+"|return", c.P.Pos(ret.Pos()), "return without two explicit results")
			return
		}
		e := ast.Unparen(ret.Results[0])
		switch {
		case core.VarOf(info, e) == list:
			same = append(same, rn)
		case c10IsAppendOf(info, e, list, codec):
			growing = append(growing, rn)
		default:
			r.Fail(rule, fn+"|return", c.P.Pos(ret.Pos()), "addCodec returns "+exprStr(e)+": neither the list unchanged nor append(list, codec)")
			return
		}
	}
	if len(growing) == 0 {
		r.Fail(rule, fn+"|append", pos, "addCodec never appends the codec")
		return
	}
	// with an equal payload type found, only 'unchanged' returns are reachable and the scan does not continue
	cf := &core.ConstFlow{G: g, Assume: func(e ast.Expr, env core.CFEnv) (constant.Value, bool) {
		if isPTEq(e) != nil {
			return constant.MakeBool(true), true
		}
		return nil, false
	}, Stop: func(n int) bool { return n == head }}
	res := cf.Run(body, core.CFEnv{})
	r.Cells += res.States
	bad := ""
	for _, rn := range growing {
		if res.ReachedNode(rn) {
			bad = "the codec is appended although an element with the same payload type exists"
		}
	}
	if res.ReachedNode(head) {
		bad = "after finding an element with the same payload type the scan continues and can end in the append"
	}
	nSame := 0
	for _, rn := range same {
		if res.ReachedNode(rn) {
			nSame++
		}
	}
	if bad == "" && nSame == 0 {
		bad = "no 'list unchanged' return is reached when the payload type exists"
	}
	r.Check(bad == "", rule, fn+"|refuses-duplicate-payload-type", pos, "an existing payload type leaves the list unchanged", bad)
	// the append lies behind the completed scan
	for i, rn := range growing {
		ok := g.DominatedByEdges(rn, map[core.EdgeRef]bool{{From: head, Idx: 1}: true})
		r.Check(ok, rule, sprintf("%s|append#%d|after-complete-scan", fn, i+1), c.P.Pos(g.PosOf(rn)), "dominated by the exit of the scan over the whole list", "the codec can be appended before every element of the list has been compared: a duplicate payload type can be registered")
	}
	c15CodecListWrites(c, rule, false)
}

func c10IsAppendOf(info *types.Info, e ast.Expr, list, elem *types.Var) bool {
	call, ok := ast.Unparen(e).(*ast.CallExpr)
	if !ok || len(call.Args) != 2 || call.Ellipsis.IsValid() {
		return false
	}
	id, ok := ast.Unparen(call.Fun).(*ast.Ident)
	if !ok {
		return false
	}
	b, ok := info.Uses[id].(*types.Builtin)
	return ok && b.Name() == "append" && core.VarOf(info, call.Args[0]) == list && core.VarOf(info, call.Args[1]) == elem
}

// c10IDIsMapKey: at lies in a range over a map whose key variable is idV and whose value variable is uriRoot ("" if so).
func c10IDIsMapKey(g *core.Graph, info *types.Info, at ast.Node, idV, uriRoot *types.Var) string {
	if idV == nil {
		return "the ID is not the key of a range over a map of header extensions"
	}
	why := "the ID is not the key of a range over a map of header extensions"
	for _, e := range g.PathTo(at) {
		rs, ok := e.(*ast.RangeStmt)
		if !ok || rs.Key == nil || core.VarOf(info, rs.Key) != idV {
			continue
		}
		if _, isMap := info.TypeOf(rs.X).Underlying().(*types.Map); !isMap {
			continue
		}
		why = ""
		if rs.Value == nil || uriRoot == nil || core.VarOf(info, rs.Value) != uriRoot {
			why = "the URI is not the uri of the map entry whose key is the ID"
		}
	}
	return why
}

// c10ParamsReassigned: one of the variables is assigned inside the literal.
func c10ParamsReassigned(info *types.Info, lit *ast.FuncLit, vs ...*types.Var) bool {
	found := false
	ast.Inspect(lit.Body, func(n ast.Node) bool {
		switch s := n.(type) {
		case *ast.AssignStmt:
			for _, l := range s.Lhs {
				for _, v := range vs {
					if c15RootVar(info, l) == v {
						found = true
					}
				}
			}
		case *ast.IncDecStmt:
			for _, v := range vs {
				if c15RootVar(info, s.X) == v {
					found = true
				}
			}
		}
		return true
	})
	return found
}
