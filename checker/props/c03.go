package props

import (
	"go/ast"
	"go/types"
	"sort"
	"strings"

	"verif/checker/core"
)

func init() {
	register(&Prop{
		ID:        "C03",
		Engine:    "e2cfg",
		Technique: "path rule over go/cfg: no possibly-failing return reachable from the success edge of the commit (nil-fact pruning), plus who-may-write sweep",
		LevelText: "Structural 'commit last' rule decided on every path of SetLocalDescription/SetRemoteDescription/setDescription: every error exit reachable after the signaling transition was committed is enumerated and must be in a frozen, reasoned table; new ones are violations. Covers all inputs because it speaks about paths, not runs.",
		LevelNote: "Trusts go/types + go/cfg; error-nilness facts come only from explicit nil tests/assignments; exits whose error is environmental are listed, not judged; side effects other than the five negotiation variables are not covered.",
		DesignRef: "DESIGN.md §5 C03",
		Run:       runC03,
	})
}

// c03Class classifies the post-commit error exits that exist on the pinned
// tree. "finding" entries are genuine defects (also listed in
// known_findings.jsonl, keyed by the same construct); "not-judged" entries
// are exits whose error can only come from the environment or is excluded by
// a preceding check - they are reported, not judged. Anything else is new.
var c03Class = map[string]string{
	"(*PeerConnection).SetRemoteDescription|post-commit-exit|call:(*MediaEngine).updateFromRemoteDescription": "finding",
	"(*PeerConnection).SetRemoteDescription|post-commit-exit|expr:errPeerConnRemoteDescriptionWithoutMidValue": "finding",
	"(*PeerConnection).SetRemoteDescription|post-commit-exit|call:extractICEDetails":                          "finding",
	"(*PeerConnection).SetRemoteDescription|post-commit-exit|call:extractFingerprint":                         "finding",
	"(*PeerConnection).SetRemoteDescription|post-commit-exit|call:(*RTPTransceiver).Stop":                     "not-judged: error comes from stopping sender/receiver (environment), not from the description",
	"(*PeerConnection).SetRemoteDescription|post-commit-exit|call:(*API).NewRTPReceiver":                      "not-judged: fails only for a nil DTLS transport, which NewPeerConnection always sets",
	"(*PeerConnection).SetRemoteDescription|post-commit-exit|call:(*RTPTransceiver).SetMid":                   "not-judged: guarded by Mid()==\"\" immediately before",
	"(*PeerConnection).SetRemoteDescription|post-commit-exit|call:(*ICETransport).restart":                    "not-judged: ICE agent error (environment)",
	"(*PeerConnection).SetRemoteDescription|post-commit-exit|call:(*ICETransport).setRemoteCredentials":       "not-judged: ICE agent error (environment)",
	"(*PeerConnection).SetRemoteDescription|post-commit-exit|call:(*ICETransport).AddRemoteCandidate":         "not-judged: ICE agent error (environment)",
	"(*PeerConnection).SetRemoteDescription|post-commit-exit|call:(*PeerConnection).startRTPSenders":          "not-judged: sender start error (environment / application track)",
	"(*PeerConnection).SetLocalDescription|post-commit-exit|call:(*PeerConnection).startRTPSenders":           "not-judged: sender start error (environment / application track)",
	"(*PeerConnection).SetLocalDescription|post-commit-exit|call:(*ICEGatherer).Gather":                       "not-judged: gatherer error (environment)",
}

func runC03(c *Ctx) {
	r := c.R
	r.Rule("C03.R1", "in SetLocalDescription and SetRemoteDescription no return with a possibly non-nil error is reachable from the success edge of pc.setDescription(...) unless it is a classified exit (finding / not-judged table)", 4)
	r.Rule("C03.R2", "inside setDescription: every write of the four description fields, signalingState.Set and onSignalingStateChange is reached only with the transition error known nil, and no possibly-failing return is reachable afterwards", 16)
	r.Rule("C03.R3", "who-may-write: the four description fields, signalingState.Set and onSignalingStateChange are written/called only in setDescription (and Set(Closed) in close)", 17)
	r.NotCovered = append(r.NotCovered,
		"side effects other than signaling state and the four descriptions (media engine, transceivers, ICE)",
		"exits classified not-judged: whether the environment can actually produce the error")
	r.Trusted = append(r.Trusted, "go/types, go/cfg", "nil-fact pruning recognises only explicit ==/!= nil tests and nil assignments")

	setDesc := c.mustFunc("C03.R1", "", "PeerConnection.setDescription")
	if setDesc == nil {
		return
	}

	// ---- R1
	for _, name := range []string{"PeerConnection.SetLocalDescription", "PeerConnection.SetRemoteDescription"} {
		fi := c.mustFunc("C03.R1", "", name)
		if fi == nil {
			continue
		}
		g := c.P.GraphOf(fi)
		callNodes := g.FindNodes(func(n ast.Node) bool { return core.IsCallTo(g.Info, n, setDesc.Obj) })
		if len(callNodes) != 1 {
			r.Undecided("C03.R1", fi.Name()+"|commit-call", c.P.Pos(fi.Decl.Pos()), sprintf("expected exactly one call to setDescription, found %d", len(callNodes)))
			continue
		}
		cn := callNodes[0]
		errVar := errVarAssignedBy(g, cn, setDesc.Obj)
		if errVar == nil {
			r.Undecided("C03.R1", fi.Name()+"|commit-call", c.P.Pos(g.PosOf(cn)), "cannot identify the error variable receiving setDescription's result")
			continue
		}
		// pre-commit part: every path to the call; returns before it are fine by construction.
		nf := core.RunNilFlow(g, cn, core.VarSet{errVar}, false)
		exits := postCommitExits(g, nf)
		// A post-commit call into a same-package helper that is not classified itself is expanded into the helper's own
		// failing exits (depth 3), so that moving classified post-commit calls into a helper method keeps their keys.
		for changed, depth := true, 0; changed && depth < 3; depth++ {
			changed = false
			for cause, p := range exits {
				if _, ok := c03Class[fi.Name()+"|post-commit-exit|"+cause]; ok {
					continue
				}
				leaves, ok := c03ExpandCause(c, cause)
				if !ok {
					continue
				}
				delete(exits, cause)
				for _, l := range leaves {
					if _, dup := exits[l]; !dup {
						exits[l] = p
					}
				}
				changed = true
			}
		}
		var keys []string
		for k := range exits {
			keys = append(keys, k)
		}
		sort.Strings(keys)
		r.Cells += len(nf.Reached)
		for _, cause := range keys {
			key := fi.Name() + "|post-commit-exit|" + cause
			pos := c.P.Pos(exits[cause])
			cls, ok := c03Class[key]
			switch {
			case !ok:
				r.Fail("C03.R1", key, pos, "error return reachable after setDescription succeeded (state already committed): a failing call now leaves signaling state and descriptions changed. Not in the classified table => new post-commit validation / commit moved earlier.")
			case cls == "finding":
				r.Fail("C03.R1", key, pos, "error return reachable after the signaling transition was committed; the description-derived error leaves the new state in place")
			default:
				r.Info("C03.R1", key, pos, cls)
			}
		}
		// the success edge itself must exist: at least one non-failing return reachable
		okRet := false
		for n, sets := range nf.Reached {
			if ret, isRet := g.Nodes[n].Ast.(*ast.ReturnStmt); isRet {
				for _, s := range sets {
					if mf, e := g.ReturnMayFail(ret, s); !mf {
						okRet = true
					} else if e != nil {
						// `return helper()` where the same-package helper has a nil-error exit
						if call, ok := ast.Unparen(e).(*ast.CallExpr); ok {
							if fn := core.Callee(g.Info, call); fn != nil && c03CanSucceed(c, fn) {
								okRet = true
							}
						}
					}
				}
			}
		}
		r.Check(okRet, "C03.R1", fi.Name()+"|success-return-after-commit", c.P.Pos(g.PosOf(cn)), "a nil-error return is reachable after the commit", "no nil-error return reachable after the commit")
		// the call's own failure edge returns immediately without touching state: the error edge leads to a return
		nfFail := g.Reach([]int{cn}, nil, nil)
		_ = nfFail
	}

	// ---- R2
	c03R2(c, setDesc)

	// ---- R3
	whoMayWriteNegotiationState(c, "C03.R3", setDesc)
}

// errVarAssignedBy finds the variable that receives the error result of the call to fn in node n.
func errVarAssignedBy(g *core.Graph, n int, fn *types.Func) *types.Var {
	var out *types.Var
	core.InspectShallow(g.Nodes[n].Ast, func(x ast.Node) bool {
		as, ok := x.(*ast.AssignStmt)
		if !ok {
			return true
		}
		for _, rhs := range as.Rhs {
			call, ok := ast.Unparen(rhs).(*ast.CallExpr)
			if !ok {
				continue
			}
			matches := fn == nil || core.IsCallTo(g.Info, call, fn)
			if !matches {
				continue
			}
			// error is the last LHS
			if v := core.VarOf(g.Info, as.Lhs[len(as.Lhs)-1]); v != nil && isErrorType(v.Type()) {
				out = v
			}
		}
		return true
	})
	return out
}

func isErrorType(t types.Type) bool {
	return types.Identical(t, types.Universe.Lookup("error").Type())
}

// postCommitExits lists the possibly-failing returns in the explored region, keyed by cause.
func postCommitExits(g *core.Graph, nf *core.NilFlow) map[string]tokenPos {
	out := map[string]tokenPos{}
	for n, sets := range nf.Reached {
		ret, ok := g.Nodes[n].Ast.(*ast.ReturnStmt)
		if !ok {
			continue
		}
		for _, s := range sets {
			mf, e := g.ReturnMayFail(ret, s)
			if !mf {
				continue
			}
			for _, cause := range causesOf(g, n, e) {
				if _, dup := out[cause]; !dup {
					out[cause] = ret.Pos()
				}
			}
		}
	}
	return out
}

// c03ExpandCause: for a cause "call:F" with F a function of the root package that returns an error, the causes of F's own
// possibly-failing returns.
func c03ExpandCause(c *Ctx, cause string) ([]string, bool) {
	if !strings.HasPrefix(cause, "call:") {
		return nil, false
	}
	name := strings.TrimPrefix(cause, "call:")
	var fi *core.FuncInfo
	for _, f := range c.P.AllFuncs() {
		if f.Pkg == c.P.Pkg("") && f.Decl.Body != nil && f.Name() == name {
			fi = f
		}
	}
	if fi == nil {
		return nil, false
	}
	g := c.P.GraphOf(fi)
	if g == nil || g.Sig() == nil || core.ErrResultIndex(g.Sig()) < 0 {
		return nil, false
	}
	nf := core.RunNilFlow(g, g.Entry, nil, true)
	m := postCommitExits(g, nf)
	var out []string
	for k := range m {
		out = append(out, k)
	}
	sort.Strings(out)
	return out, len(out) > 0
}

// c03CanSucceed: a same-package function with an error result that has an exit returning a nil error.
func c03CanSucceed(c *Ctx, fn *types.Func) bool {
	fi := c.P.DeclOf(fn)
	if fi == nil || fi.Decl.Body == nil {
		return false
	}
	g := c.P.GraphOf(fi)
	nf := core.RunNilFlow(g, g.Entry, nil, true)
	for n, sets := range nf.Reached {
		if ret, ok := g.Nodes[n].Ast.(*ast.ReturnStmt); ok {
			for _, s := range sets {
				if mf, _ := g.ReturnMayFail(ret, s); !mf {
					return true
				}
			}
		}
	}
	return false
}

// causesOf names where the returned error comes from: the reaching definitions of the variable, or the expression.
func causesOf(g *core.Graph, retNode int, e ast.Expr) []string {
	if e == nil {
		return []string{"naked-return"}
	}
	if v := core.VarOf(g.Info, e); v != nil && v.Pkg() != nil && v.Parent() != v.Pkg().Scope() {
		var out []string
		for d := range reachingDefs(g, retNode, v) {
			out = append(out, d)
		}
		sort.Strings(out)
		return out
	}
	return []string{describeRHS(g.Info, e)}
}

func c03R2(c *Ctx, setDesc *core.FuncInfo) {
	r := c.R
	g := c.P.GraphOf(setDesc)
	info := g.Info
	descFields := map[*types.Var]string{}
	for _, f := range []string{"pendingLocalDescription", "pendingRemoteDescription", "currentLocalDescription", "currentRemoteDescription"} {
		if v := c.mustField("C03.R2", "", "PeerConnection", f); v != nil {
			descFields[v] = f
		}
	}
	check := c.mustFunc("C03.R2", "", "checkNextSignalingState")
	if check == nil {
		return
	}

	// the immediately invoked closure holding the transition
	var lit *ast.FuncLit
	var litNode int = -1
	for _, n := range g.Nodes {
		if n.Ast == nil {
			continue
		}
		core.InspectShallow(n.Ast, func(x ast.Node) bool {
			if call, ok := x.(*ast.CallExpr); ok {
				if fl, ok := ast.Unparen(call.Fun).(*ast.FuncLit); ok {
					// does it call checkNextSignalingState?
					has := false
					ast.Inspect(fl, func(y ast.Node) bool {
						if core.IsCallTo(info, y, check.Obj) {
							has = true
						}
						return true
					})
					if has {
						lit, litNode = fl, n.ID
					}
				}
			}
			return true
		})
	}
	graphs := []*core.Graph{g}
	if lit != nil {
		graphs = append(graphs, c.P.GraphOfLit(lit))
	}

	// Region holding the transition: the closure if present, otherwise the function itself.
	tg := graphs[len(graphs)-1]
	entry := core.RunNilFlow(tg, tg.Entry, nil, true)
	r.Cells += len(entry.Reached)
	nWrites := 0
	for _, n := range tg.Nodes {
		if n.Ast == nil {
			continue
		}
		for _, lhs := range core.AssignTargets(n.Ast) {
			fv := core.FieldOf(info, lhs)
			name, isDesc := descFields[fv]
			if !isDesc {
				continue
			}
			nWrites++
			key := sprintf("setDescription|write:%s|in-arm:%s", name, armOf(tg, n.ID, check.Obj))
			pos := c.P.Pos(n.Ast.Pos())
			states := entry.Reached[n.ID]
			if len(states) == 0 {
				r.Info("C03.R2", key, pos, "unreachable write")
				continue
			}
			guarded := true
			for _, s := range states {
				if !hasNilErrFrom(tg, n.ID, s, "call:"+core.FuncName(check.Obj)) {
					guarded = false
				}
			}
			if !guarded {
				r.Fail("C03.R2", key, pos, "description field written on a path where checkNextSignalingState's error is not known to be nil (state changed although the transition may be rejected)")
				continue
			}
			// no failing return afterwards
			bad := ""
			for _, s := range states {
				nf := core.RunNilFlow(tg, n.ID, s, true)
				for cause, p := range postCommitExits(tg, nf) {
					bad = cause + " at " + c.P.Pos(p)
				}
			}
			if bad != "" {
				r.Fail("C03.R2", key, pos, "an error return is reachable after this write: "+bad)
				continue
			}
			r.OK("C03.R2", key, pos, "written only with the transition error known nil; only nil-error returns follow")
		}
	}
	_ = nWrites

	// outer part: Set / onSignalingStateChange / negotiation flag are reached only with the closure's error nil
	setFn := c.mustFunc("C03.R2", "", "SignalingState.Set")
	onChange := c.mustFunc("C03.R2", "", "PeerConnection.onSignalingStateChange")
	if setFn == nil || onChange == nil {
		return
	}
	var errVar *types.Var
	startNode := -1
	if lit != nil {
		errVar = errVarAssignedBy(g, litNode, nil)
		startNode = litNode
	}
	if lit != nil && errVar == nil {
		r.Undecided("C03.R2", "setDescription|transition-result", c.P.Pos(lit.Pos()), "cannot identify the error variable receiving the transition closure's result")
		return
	}
	outer := core.RunNilFlow(g, g.Entry, nil, true)
	for _, n := range g.Nodes {
		if n.Ast == nil {
			continue
		}
		for _, call := range core.CallsIn(n.Ast) {
			var what string
			switch {
			case core.IsCallTo(info, call, setFn.Obj):
				what = "signalingState.Set"
			case core.IsCallTo(info, call, onChange.Obj):
				what = "onSignalingStateChange"
			default:
				continue
			}
			key := "setDescription|effect:" + what
			pos := c.P.Pos(call.Pos())
			ok := len(outer.Reached[n.ID]) > 0
			for _, s := range outer.Reached[n.ID] {
				if lit != nil {
					if !s.Has(errVar) {
						ok = false
					}
				} else if !hasNilErrFrom(g, n.ID, s, "call:"+core.FuncName(check.Obj)) {
					ok = false
				}
			}
			if !ok {
				r.Fail("C03.R2", key, pos, what+" is reachable on a path where the transition error is not known to be nil (state/event emitted on a rejected call)")
				continue
			}
			bad := ""
			for _, s := range outer.Reached[n.ID] {
				nf := core.RunNilFlow(g, n.ID, s, true)
				for cause, p := range postCommitExits(g, nf) {
					bad = cause + " at " + c.P.Pos(p)
				}
			}
			if bad != "" {
				r.Fail("C03.R2", key, pos, "an error return is reachable after "+what+": "+bad)
				continue
			}
			r.OK("C03.R2", key, pos, "reached only with the transition error known nil; only nil-error returns follow")
		}
	}
	// when the closure succeeded, the outer function cannot fail
	if lit != nil {
		nf := core.RunNilFlow(g, startNode, core.VarSet{errVar}, false)
		bad := ""
		for cause, p := range postCommitExits(g, nf) {
			bad = cause + " at " + c.P.Pos(p)
		}
		r.Check(bad == "", "C03.R2", "setDescription|after-transition-success", c.P.Pos(lit.Pos()),
			"with the transition closure's error nil, setDescription has no failing return", "failing return after a successful transition: "+bad)
	}
}

// hasNilErrFrom reports whether the known-nil set contains an error variable all of whose reaching definitions at node n are `def`.
func hasNilErrFrom(g *core.Graph, n int, s core.VarSet, def string) bool {
	for _, v := range s {
		if !isErrorType(v.Type()) {
			continue
		}
		defs := reachingDefs(g, n, v)
		if len(defs) == 1 && defs[def] {
			return true
		}
	}
	return false
}

// armOf names the switch arm(s) (case expressions) enclosing node n, for stable keys.
func armOf(g *core.Graph, n int, _ *types.Func) string {
	target := g.Nodes[n].Ast
	var parts []string
	var path []ast.Node
	ast.Inspect(g.Body, func(x ast.Node) bool {
		if x == nil {
			path = path[:len(path)-1]
			return false
		}
		path = append(path, x)
		if x == target {
			for _, p := range path {
				if cc, ok := p.(*ast.CaseClause); ok {
					var es []string
					for _, e := range cc.List {
						es = append(es, exprStr(e))
					}
					if len(es) == 0 {
						es = []string{"default"}
					}
					parts = append(parts, strings.Join(es, ","))
				}
			}
		}
		return true
	})
	return strings.Join(parts, "/")
}

func whoMayWriteNegotiationState(c *Ctx, rule string, setDesc *core.FuncInfo) {
	r := c.R
	descFields := map[*types.Var]string{}
	for _, f := range []string{"pendingLocalDescription", "pendingRemoteDescription", "currentLocalDescription", "currentRemoteDescription"} {
		if v := c.P.Field("", "PeerConnection", f); v != nil {
			descFields[v] = f
		}
	}
	sigField := c.mustField(rule, "", "PeerConnection", "signalingState")
	setFn := c.P.Func("", "SignalingState.Set")
	onChange := c.P.Func("", "PeerConnection.onSignalingStateChange")
	closeFn := c.mustFunc(rule, "", "PeerConnection.close")
	closedConst := c.mustConst(rule, "", "SignalingStateClosed")
	if setFn == nil || onChange == nil || closeFn == nil || closedConst == nil || sigField == nil {
		return
	}
	for _, fi := range c.P.AllFuncs() {
		if fi.Decl.Body == nil {
			continue
		}
		info := fi.Pkg.TypesInfo
		ast.Inspect(fi.Decl.Body, func(x ast.Node) bool {
			switch s := x.(type) {
			case *ast.AssignStmt:
				for _, lhs := range s.Lhs {
					if name, ok := descFields[core.FieldOf(info, lhs)]; ok {
						key := sprintf("write:%s|in:%s", name, fi.Name())
						r.Check(fi == setDesc, rule, key, c.P.Pos(lhs.Pos()), "inside setDescription", "description field written outside setDescription: the commit is no longer confined to the guarded transition")
					}
				}
			case *ast.UnaryExpr:
				// &pc.pendingLocalDescription etc. would allow writes elsewhere
				if name, ok := descFields[core.FieldOf(info, s.X)]; ok && s.Op.String() == "&" {
					r.Fail(rule, sprintf("addr:%s|in:%s", name, fi.Name()), c.P.Pos(s.Pos()), "address of a description field taken")
				}
			case *ast.CallExpr:
				switch {
				case core.IsCallTo(info, s, setFn.Obj):
					// only judge calls on pc.signalingState
					sel, _ := ast.Unparen(s.Fun).(*ast.SelectorExpr)
					if sel == nil || core.FieldOf(info, sel.X) != sigField {
						return true
					}
					key := "call:signalingState.Set|in:" + fi.Name()
					switch {
					case fi == setDesc:
						r.OK(rule, key, c.P.Pos(s.Pos()), "inside setDescription (guard checked by R2)")
					case fi == closeFn:
						tv := info.Types[s.Args[0]]
						okc := tv.Value != nil && tv.Value.String() == closedConst.Val().String() && types.Identical(tv.Type, closedConst.Type())
						r.Check(okc, rule, key, c.P.Pos(s.Pos()), "close() sets the constant Closed", "close() sets a state other than the constant Closed")
					default:
						r.Fail(rule, key, c.P.Pos(s.Pos()), "signaling state set outside setDescription/close")
					}
				case core.IsCallTo(info, s, onChange.Obj):
					key := "call:onSignalingStateChange|in:" + fi.Name()
					r.Check(fi == setDesc, rule, key, c.P.Pos(s.Pos()), "inside setDescription (guard checked by R2)", "signaling-state-change event emitted outside setDescription's success arm")
				}
			}
			return true
		})
	}
}
