package props

import (
	"go/ast"
	"go/constant"
	"go/token"
	"go/types"
	"sort"
	"strings"

	"verif/checker/core"
)

// c06R6: typestate of freshly built transceivers. An accepted m-section carries "exactly one direction attribute" only if
// the transceiver it is rendered from HAS a direction: RTPTransceiver.Direction() of a value whose direction was never
// stored is RTPTransceiverDirection(0), which renders as a=unknown (no direction attribute at all). So every
// `&RTPTransceiver{...}` must pass `v.setDirection(d)` on every path before v is used for anything but its own setters,
// and no setDirection anywhere is given the constant zero direction.
func c06R6(c *Ctx, rule string) {
	r := c.R
	setDir := c.mustFunc(rule, "", "RTPTransceiver.setDirection")
	if setDir == nil {
		return
	}
	var trT *types.TypeName
	if recv := setDir.Obj.Type().(*types.Signature).Recv(); recv != nil {
		t := recv.Type()
		if p, ok := t.(*types.Pointer); ok {
			t = p.Elem()
		}
		if n, ok := t.(*types.Named); ok {
			trT = n.Obj()
		}
	}
	if trT == nil {
		r.Undecided(rule, "anchor:RTPTransceiver", "-", "setDirection has no named receiver type")
		return
	}
	nLit := 0
	for _, fi := range c.P.AllFuncs() {
		if fi.Decl == nil || fi.Decl.Body == nil || fi.Pkg != c.P.Pkg("") {
			continue
		}
		hasLit := false
		ast.Inspect(fi.Decl.Body, func(x ast.Node) bool {
			if cl, ok := x.(*ast.CompositeLit); ok && c06IsNamedObj(fi.Pkg.TypesInfo.TypeOf(cl), trT) {
				hasLit = true
			}
			return true
		})
		if !hasLit {
			continue
		}
		for _, g := range c06GraphsOf(c, fi) {
			info := g.Info
			for _, n := range g.Nodes {
				if n.Ast == nil {
					continue
				}
				var lit *ast.CompositeLit
				core.InspectShallow(n.Ast, func(x ast.Node) bool {
					if cl, ok := x.(*ast.CompositeLit); ok && c06IsNamedObj(info.TypeOf(cl), trT) {
						lit = cl
					}
					return true
				})
				if lit == nil {
					continue
				}
				nLit++
				key := fi.Name() + "|new-RTPTransceiver|direction-set-before-use"
				pos := c.P.Pos(lit.Pos())
				// v := &RTPTransceiver{...}
				var v *types.Var
				if as, ok := n.Ast.(*ast.AssignStmt); ok && len(as.Lhs) == 1 && len(as.Rhs) == 1 {
					if u, ok := ast.Unparen(as.Rhs[0]).(*ast.UnaryExpr); ok && u.Op == token.AND && ast.Unparen(u.X) == ast.Expr(lit) {
						v = core.VarOf(info, as.Lhs[0])
					}
				}
				if v == nil {
					r.Undecided(rule, key, pos, "the literal is not assigned to a plain variable (`v := &RTPTransceiver{...}`)")
					continue
				}
				isSet := func(id int) bool {
					ok := false
					if g.Nodes[id].Ast == nil {
						return false
					}
					core.InspectShallow(g.Nodes[id].Ast, func(x ast.Node) bool {
						if call, isCall := x.(*ast.CallExpr); isCall && core.IsCallTo(info, call, setDir.Obj) {
							if sel, isSel := ast.Unparen(call.Fun).(*ast.SelectorExpr); isSel && core.VarOf(info, sel.X) == v {
								ok = true
							}
						}
						return true
					})
					return ok
				}
				// a use of v that is not `v.set<Something>(...)` with v only as the receiver
				usesOther := func(id int) bool {
					a := g.Nodes[id].Ast
					if a == nil || id == n.ID {
						return false
					}
					recvOnly := map[*ast.Ident]bool{}
					core.InspectShallow(a, func(x ast.Node) bool {
						if call, isCall := x.(*ast.CallExpr); isCall {
							if sel, isSel := ast.Unparen(call.Fun).(*ast.SelectorExpr); isSel {
								if id, isID := ast.Unparen(sel.X).(*ast.Ident); isID && info.Uses[id] == types.Object(v) {
									if fn := core.Callee(info, call); fn != nil && strings.HasPrefix(fn.Name(), "set") {
										recvOnly[id] = true
									}
								}
							}
						}
						return true
					})
					other := false
					core.InspectShallow(a, func(x ast.Node) bool {
						if id, isID := x.(*ast.Ident); isID && info.Uses[id] == types.Object(v) && !recvOnly[id] {
							other = true
						}
						return true
					})
					return other
				}
				reassigns := func(id int) bool {
					for _, t := range core.AssignTargets(g.Nodes[id].Ast) {
						if core.VarOf(info, t) == v {
							return true
						}
					}
					return false
				}
				reach := g.Reach([]int{n.ID}, func(id int) bool { return id != n.ID && (isSet(id) || reassigns(id)) }, nil)
				var bad []string
				for id := range reach {
					if id != n.ID && !isSet(id) && !reassigns(id) && usesOther(id) {
						bad = append(bad, c.P.Pos(g.PosOf(id)))
					}
				}
				sort.Strings(bad)
				r.Cells++
				r.Check(len(bad) == 0, rule, key, pos, "every use of the new transceiver is preceded by setDirection on every path",
					"the new transceiver is used (at "+strings.Join(bad, ", ")+") on a path that never stored its direction: Direction() is then RTPTransceiverDirection(0) and the m-section rendered from it carries a=unknown instead of a direction attribute")
			}
		}
	}
	if nLit == 0 {
		r.Info(rule, "new-RTPTransceiver|none", "-", "no RTPTransceiver literal found")
	}
	// no setDirection with the constant zero direction
	for _, fi := range c.P.AllFuncs() {
		if fi.Decl == nil || fi.Decl.Body == nil || fi.Pkg != c.P.Pkg("") {
			continue
		}
		info := fi.Pkg.TypesInfo
		idx := 0
		ast.Inspect(fi.Decl.Body, func(x ast.Node) bool {
			call, ok := x.(*ast.CallExpr)
			if !ok || !core.IsCallTo(info, call, setDir.Obj) || len(call.Args) != 1 {
				return true
			}
			idx++
			if tv, ok := info.Types[call.Args[0]]; ok && tv.Value != nil && tv.Value.Kind() == constant.Int {
				k, _ := constant.Int64Val(tv.Value)
				r.Check(k != 0, rule, sprintf("%s|setDirection#%d|constant-is-a-direction", fi.Name(), idx), c.P.Pos(call.Pos()), "constant direction "+tv.Value.String()+" is one of the four",
					"setDirection is given the zero (unknown) direction: the section rendered from this transceiver has no direction attribute")
			}
			return true
		})
	}
}

func c06IsNamedObj(t types.Type, obj *types.TypeName) bool {
	if t == nil {
		return false
	}
	if p, ok := t.(*types.Pointer); ok {
		t = p.Elem()
	}
	n, ok := t.(*types.Named)
	return ok && n.Obj() == obj
}

// c06GraphsOf returns the graph of a function and of every function literal in it.
func c06GraphsOf(c *Ctx, fi *core.FuncInfo) []*core.Graph {
	out := []*core.Graph{c.P.GraphOf(fi)}
	ast.Inspect(fi.Decl.Body, func(x ast.Node) bool {
		if fl, ok := x.(*ast.FuncLit); ok {
			out = append(out, c.P.GraphOfLit(fl))
		}
		return true
	})
	return out
}
