package props

import (
	"go/token"
	"go/types"

	"golang.org/x/tools/go/ssa"

	"verif/checker/core"
)

// c32Arith adds the arithmetic-discipline clauses of the IVF writer's PTS
// computation (C32.R4). Both are necessary conditions of "the PTS written is
// the packet's time offset": they hold for every input or fail for a whole
// class of inputs (streams that cross the 2^32 RTP timestamp wrap; time bases
// whose numerator is not 1).
//
//	(a) modular difference: a subtraction between two values that both derive
//	    from 32-bit RTP timestamps must be carried out at 32 bits (and widened
//	    afterwards); widening the operands first loses the wrap-around.
//	(b) multiply before divide: no integer quotient may be an operand of a
//	    multiplication on the way to the PTS (x/den*num truncates before scaling).
func c32Arith(c *Ctx) {
	r := c.R
	r.Rule("C32.R4", "PTS arithmetic discipline in ivfwriter and ivfreader: differences of 32-bit RTP timestamps are taken modulo 2^32 (subtract at uint32, then widen); a timestamp-derived value is never scaled by a multiplication narrower than 64 bits; no integer quotient feeds a multiplication (scale before dividing)", 3)
	fTS := c.P.FieldOfExternal("github.com/pion/rtp", "Header", "Timestamp")
	fFirst := c.mustField("C32.R4", "pkg/media/ivfwriter", "IVFWriter", "firstFrameTimestamp")
	if fTS == nil {
		r.Fail("C32.R4", "anchor:rtp.Header.Timestamp", "-", "pion/rtp Header.Timestamp no longer resolves")
		return
	}
	if fFirst == nil {
		return
	}
	pkg := c.P.Pkg("pkg/media/ivfwriter")
	rpkg := c.P.Pkg("pkg/media/ivfreader")
	nSub, nMul := 0, 0
	for _, fi := range c.P.AllFuncs() {
		if (fi.Pkg != pkg && fi.Pkg != rpkg) || fi.Decl.Body == nil {
			continue
		}
		pname := "ivfwriter."
		if fi.Pkg == rpkg {
			pname = "ivfreader."
		}
		fn := c.P.SSAFunc(fi)
		if fn == nil {
			continue
		}
		var fns []*ssa.Function
		fns = append(fns, fn)
		fns = append(fns, fn.AnonFuncs...)
		for _, f := range fns {
			for _, b := range f.Blocks {
				for _, ins := range b.Instrs {
					bo, ok := ins.(*ssa.BinOp)
					if !ok {
						continue
					}
					switch bo.Op {
					case token.SUB:
						dx, dy := core.ValueDeps(bo.X), core.ValueDeps(bo.Y)
						tsX := dx.HasField(fTS) || dx.HasField(fFirst)
						tsY := dy.HasField(fTS) || dy.HasField(fFirst)
						if !tsX || !tsY {
							continue
						}
						nSub++
						r.Cells += len(dx.Values) + len(dy.Values)
						bt, _ := bo.Type().Underlying().(*types.Basic)
						ok32 := bt != nil && (bt.Kind() == types.Uint32)
						key := pname + fi.Name() + "|timestamp-difference"
						r.Check(ok32, "C32.R4", key, c.P.Pos(bo.Pos()),
							"RTP timestamp difference taken modulo 2^32",
							"two RTP-timestamp-derived values are subtracted at type "+bo.Type().String()+": the operands were widened first, so a stream crossing the 2^32 timestamp wrap gets a PTS near 2^64 instead of a small offset")
					case token.MUL:
						bt, _ := bo.Type().Underlying().(*types.Basic)
						if bt == nil || bt.Info()&types.IsInteger == 0 {
							continue
						}
						nMul++
						q := c32QuotientOperand(bo.X)
						if q == nil {
							q = c32QuotientOperand(bo.Y)
						}
						key := pname + fi.Name() + "|scale"
						narrow := false
						if bt.Kind() == types.Uint32 || bt.Kind() == types.Int32 || bt.Kind() == types.Uint16 || bt.Kind() == types.Int16 {
							dx, dy := core.ValueDeps(bo.X), core.ValueDeps(bo.Y)
							if dx.HasField(fTS) || dx.HasField(fFirst) || dy.HasField(fTS) || dy.HasField(fFirst) {
								narrow = true
							}
						}
						if narrow {
							r.Fail("C32.R4", key, c.P.Pos(bo.Pos()), "an RTP-timestamp-derived value is scaled by a multiplication at type "+bo.Type().String()+" (before widening): the product wraps once the stream is longer than 2^32/factor ticks, so later PTS values jump backwards")
						} else if q != nil {
							r.Fail("C32.R4", key, c.P.Pos(bo.Pos()), "an integer quotient is multiplied afterwards (x / d * n): the division truncates before scaling, so every PTS is wrong unless the numerator is 1")
						} else {
							r.OK("C32.R4", key, c.P.Pos(bo.Pos()), "multiplication operands are not truncated quotients")
						}
					}
				}
			}
		}
	}
	if nSub == 0 {
		r.Fail("C32.R4", "ivfwriter|timestamp-difference", "-", "no RTP timestamp difference found in ivfwriter (rule lost its anchor)")
	}
}

// c32QuotientOperand returns the integer division v is (through conversions), or nil.
func c32QuotientOperand(v ssa.Value) *ssa.BinOp {
	for {
		switch x := v.(type) {
		case *ssa.Convert:
			v = x.X
		case *ssa.ChangeType:
			v = x.X
		case *ssa.BinOp:
			if x.Op == token.QUO {
				if bt, _ := x.Type().Underlying().(*types.Basic); bt != nil && bt.Info()&types.IsInteger != 0 {
					return x
				}
			}
			return nil
		default:
			return nil
		}
	}
}
