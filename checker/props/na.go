package props

import "fmt"

func init() {
	// Properties that static analysis cannot decide here (DESIGN.md §6).
	NA["C28"] = "not applicable to static analysis: numeric property (cumulative floating-point rounding of timestamps over unbounded sample sequences, external rtp.Packetizer); no structural clause is a necessary condition of 'no drift'"
	NA["C31"] = "not applicable to static analysis: behaviour of a reordering buffer over arbitrary runtime push histories (relational invariants over buffer contents, not over code shape)"
	// Everything else starts as 'not built yet' and is removed from this list as its check is registered.
	for i := 1; i <= 40; i++ {
		id := fmt.Sprintf("C%02d", i)
		if _, ok := NA[id]; !ok {
			NA[id] = "check not built yet (planned rule in DESIGN.md §5); not claimed until it is"
		}
	}
}
