package props

import "fmt"

func init() {
	// No property is declined outright (DESIGN.md §6); C28 and C31 are claimed for their structural clauses only.
	// Safety net: an id without a registered check would be listed as not built (none today: all 40 are registered).
	for i := 1; i <= 40; i++ {
		id := fmt.Sprintf("C%02d", i)
		if _, ok := NA[id]; !ok {
			NA[id] = "check not built yet (planned rule in DESIGN.md §5); not claimed until it is"
		}
	}
}
