package props

import (
	"go/ast"
	"go/constant"
	"go/token"
	"go/types"

	"verif/checker/core"
)

// c10R6: setCodecPreferencesFromRemoteDescription builds the preference list of a
// remote-created transceiver. A local codec may be matched by at most one remote
// codec only because the matched element is removed from the working copy
// ("leftCodecs") by a descending index scan. The scan must therefore be able to
// reach every index, including 0, and the removal must drop exactly the element
// the scan stands on. (Added after seed C10-m1: `>= 0` narrowed to `> 0` lists a
// payload type several times on the m= line.)
func c10R6(c *Ctx) {
	r := c.R
	fi := c.mustFunc("C10.R6", "", "RTPTransceiver.setCodecPreferencesFromRemoteDescription")
	if fi == nil {
		return
	}
	info := fi.Pkg.TypesInfo
	n := 0
	ast.Inspect(fi.Decl.Body, func(x ast.Node) bool {
		fs, ok := x.(*ast.ForStmt)
		if !ok || fs.Init == nil || fs.Post == nil {
			return true
		}
		// init: i := len(S) - 1
		as, ok := fs.Init.(*ast.AssignStmt)
		if !ok || len(as.Lhs) != 1 || len(as.Rhs) != 1 {
			return true
		}
		iv := core.VarOf(info, as.Lhs[0])
		be, ok := ast.Unparen(as.Rhs[0]).(*ast.BinaryExpr)
		if !ok || be.Op != token.SUB || iv == nil {
			return true
		}
		one := info.Types[be.Y]
		call, ok := ast.Unparen(be.X).(*ast.CallExpr)
		if !ok || one.Value == nil || !constant.Compare(one.Value, token.EQL, constant.MakeInt64(1)) || len(call.Args) != 1 {
			return true
		}
		if id, ok := call.Fun.(*ast.Ident); !ok || id.Name != "len" {
			return true
		} else if _, isB := info.Uses[id].(*types.Builtin); !isB {
			return true
		}
		sv := core.VarOf(info, call.Args[0])
		dec, ok := fs.Post.(*ast.IncDecStmt)
		if !ok || dec.Tok != token.DEC || core.VarOf(info, dec.X) != iv || sv == nil {
			return true
		}
		n++
		key := "setCodecPreferencesFromRemoteDescription|descending-scan:" + sv.Name()
		pos := c.P.Pos(fs.Pos())
		// cond must admit index 0: i >= 0, 0 <= i, i > -1, -1 < i
		okCond := false
		if cb, ok := fs.Cond.(*ast.BinaryExpr); ok {
			val := func(e ast.Expr) (int64, bool) {
				tv := info.Types[e]
				if tv.Value == nil || tv.Value.Kind() != constant.Int {
					return 0, false
				}
				v, exact := constant.Int64Val(tv.Value)
				return v, exact
			}
			if core.VarOf(info, cb.X) == iv {
				if k, ok := val(cb.Y); ok {
					okCond = (cb.Op == token.GEQ && k == 0) || (cb.Op == token.GTR && k == -1)
				}
			} else if core.VarOf(info, cb.Y) == iv {
				if k, ok := val(cb.X); ok {
					okCond = (cb.Op == token.LEQ && k == 0) || (cb.Op == token.LSS && k == -1)
				}
			}
		}
		r.Check(okCond, "C10.R6", key+"|covers-index-0", pos, "the scan reaches every index down to 0",
			"the descending scan over "+sv.Name()+" stops before index 0 (`"+exprStr(fs.Cond)+"`): the first element is never examined/removed, so one local codec can be matched by several remote codecs and its payload type is listed more than once")
		// removals of the scanned slice inside the body drop exactly element i
		ast.Inspect(fs.Body, func(y ast.Node) bool {
			if inner, ok := y.(*ast.ForStmt); ok && inner != fs {
				return false // judged on its own
			}
			ra, ok := y.(*ast.AssignStmt)
			if !ok || len(ra.Lhs) != 1 || len(ra.Rhs) != 1 || core.VarOf(info, ra.Lhs[0]) != sv {
				return true
			}
			okRm := false
			if ap, ok := ast.Unparen(ra.Rhs[0]).(*ast.CallExpr); ok && len(ap.Args) == 2 && ap.Ellipsis.IsValid() {
				if id, ok := ap.Fun.(*ast.Ident); ok && id.Name == "append" {
					lo, ok1 := ast.Unparen(ap.Args[0]).(*ast.SliceExpr)
					hi, ok2 := ast.Unparen(ap.Args[1]).(*ast.SliceExpr)
					if ok1 && ok2 && core.VarOf(info, lo.X) == sv && core.VarOf(info, hi.X) == sv && lo.Low == nil && hi.High == nil &&
						core.VarOf(info, lo.High) == iv {
						if hb, ok := ast.Unparen(hi.Low).(*ast.BinaryExpr); ok && hb.Op == token.ADD && core.VarOf(info, hb.X) == iv {
							if tv := info.Types[hb.Y]; tv.Value != nil && constant.Compare(tv.Value, token.EQL, constant.MakeInt64(1)) {
								okRm = true
							}
						}
					}
				}
			}
			r.Check(okRm, "C10.R6", key+"|removes-element-i", c.P.Pos(ra.Pos()), "removal drops exactly the element the scan stands on",
				"the scanned slice "+sv.Name()+" is rewritten by something other than append(s[:i], s[i+1:]...): the matched element is not (only) the one removed")
			return true
		})
		return true
	})
	if n == 0 {
		r.Undecided("C10.R6", "setCodecPreferencesFromRemoteDescription|descending-scans", c.P.Pos(fi.Decl.Pos()), "no descending index scan found (the removal of matched codecs was restructured; re-model the rule)")
	}
}
